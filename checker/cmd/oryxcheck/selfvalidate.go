package main

import (
	"context"
	"encoding/json"
	"fmt"
	"io"
	"os"
	"os/exec"
	"path/filepath"
	"sort"
	"strings"
	"sync"
	"time"

	"oryxverif/checker/internal/core"
)

// selfValidate is the thorough tier's regression of the checker against the seeded defects of the
// property (DESIGN 4.4): each /verif/seeded/<Cxx-*>/patch.diff is applied to a scratch copy of the
// analysed tree (outside /repo and /verif, removed at once), the quick check is run on the copy in a
// fresh process, and the rule recorded for that defect must report. The outcome is evidence about the
// machinery (which seeded change each rule still catches); it is not a verdict about /repo, so it
// never produces a VIOLATION line: a patch that no longer applies is "skipped", a defect the rules do
// not see is "missed" and listed.
func selfValidate(prop, repo, root string, r *core.Run) {
	dirs, _ := filepath.Glob(filepath.Join(root, "seeded", prop+"-*"))
	sort.Strings(dirs)
	if len(dirs) == 0 {
		r.Extra["seeded_regression"] = "no seeded defects recorded for this property"
		return
	}
	self, err := os.Executable()
	if err != nil {
		r.Extra["seeded_regression"] = "skipped: " + err.Error()
		return
	}
	base := os.Getenv("TMPDIR")
	if base == "" {
		base = "/var/tmp"
	}
	scratch, err := os.MkdirTemp(base, "oryxseed.")
	if err != nil {
		r.Extra["seeded_regression"] = "skipped: " + err.Error()
		return
	}
	defer os.RemoveAll(scratch)
	type outcome struct {
		Name     string `json:"seeded_defect"`
		Expected string `json:"expected_rule"`
		Result   string `json:"result"`
		Reported string `json:"reported,omitempty"`
	}
	out := make([]outcome, len(dirs))
	sem := make(chan bool, 4)
	var wg sync.WaitGroup
	for i, d := range dirs {
		wg.Add(1)
		go func(i int, d string) {
			defer wg.Done()
			sem <- true
			defer func() { <-sem }()
			o := outcome{Name: filepath.Base(d)}
			defer func() { out[i] = o }()
			var meta struct {
				Expected string `json:"expected_rule"`
			}
			b, err := os.ReadFile(filepath.Join(d, "meta.json"))
			if err != nil || json.Unmarshal(b, &meta) != nil {
				o.Result = "skipped: unreadable meta.json"
				return
			}
			o.Expected = meta.Expected
			w := filepath.Join(scratch, o.Name)
			if err := copyTree(repo, w); err != nil {
				o.Result = "skipped: " + err.Error()
				return
			}
			defer os.RemoveAll(w)
			// the copy is not a work tree: git apply then patches paths relative to the current directory
			ap := exec.Command("git", "apply", filepath.Join(d, "patch.diff"))
			ap.Dir = w
			ap.Env = append(os.Environ(), "GIT_CEILING_DIRECTORIES="+scratch)
			if msg, err := ap.CombinedOutput(); err != nil {
				o.Result = "skipped: patch does not apply to the current tree (" + firstLine(string(msg)) + ")"
				return
			}
			tr := filepath.Join(scratch, "root."+o.Name)
			os.MkdirAll(tr, 0o755)
			defer os.RemoveAll(tr)
			if kb, err := os.ReadFile(filepath.Join(root, "known_findings.json")); err == nil {
				os.WriteFile(filepath.Join(tr, "known_findings.json"), kb, 0o644)
			}
			ctx, cancel := context.WithTimeout(context.Background(), 20*time.Minute)
			cmd := exec.CommandContext(ctx, self, "-property", prop, "-tier", "quick", "-repo", w, "-root", tr)
			// the child is a quick run: it must not inherit this (thorough) run's analysis budget
			cmd.Env = append(os.Environ(), "ORYX_RUN_BUDGET_S=60")
			res, _ := cmd.CombinedOutput()
			timedOut := ctx.Err() != nil
			cancel()
			var rulesHit []string
			seen := map[string]bool{}
			for _, ln := range strings.Split(string(res), "\n") {
				ln = strings.TrimSpace(ln)
				if strings.HasPrefix(ln, "rule=") {
					f := strings.Fields(ln)[0][5:]
					if !seen[f] {
						seen[f] = true
						rulesHit = append(rulesHit, f)
					}
				}
			}
			o.Reported = strings.Join(rulesHit, ",")
			switch {
			case timedOut:
				o.Result = "not finished within 20 minutes (the change makes the analysis explode; a normal run reports it as undecided)"
			case meta.Expected == "MISSED" && len(rulesHit) == 0:
				o.Result = "missed (recorded as not detectable by these rules)"
			case meta.Expected == "MISSED":
				o.Result = "now caught"
			case seen[meta.Expected]:
				o.Result = "caught"
			case len(rulesHit) > 0:
				o.Result = "caught by another rule"
			default:
				o.Result = "MISSED"
			}
		}(i, d)
	}
	wg.Wait()
	n := 0
	for _, o := range out {
		if strings.HasPrefix(o.Result, "caught") || o.Result == "now caught" {
			n++
		}
	}
	r.Extra["seeded_regression"] = out
	r.Extra["seeded_regression_summary"] = fmt.Sprintf("%d of %d seeded defects of %s reported by the quick check on a scratch copy", n, len(out), prop)
	benignRegression(prop, repo, root, self, scratch, r)
}

// benignRegression is the other direction (DESIGN 7.7): every behaviour-preserving refactoring under /verif/benign
// (whatever property it was written for) is applied to a scratch copy and this property's quick check must stay silent
// on it.  Evidence about the machinery only: an alarm here is a false alarm of the rules, listed, never a VIOLATION.
func benignRegression(prop, repo, root, self, scratch string, r *core.Run) {
	dirs, _ := filepath.Glob(filepath.Join(root, "benign", "*"))
	sort.Strings(dirs)
	if len(dirs) == 0 {
		return
	}
	type outcome struct {
		Name     string `json:"refactoring"`
		Result   string `json:"result"`
		Reported string `json:"reported,omitempty"`
	}
	out := make([]outcome, len(dirs))
	sem := make(chan bool, 8)
	var wg sync.WaitGroup
	for i, d := range dirs {
		wg.Add(1)
		go func(i int, d string) {
			defer wg.Done()
			sem <- true
			defer func() { <-sem }()
			o := outcome{Name: filepath.Base(d)}
			defer func() { out[i] = o }()
			w := filepath.Join(scratch, "bn."+o.Name)
			if err := copyTree(repo, w); err != nil {
				o.Result = "skipped: " + err.Error()
				return
			}
			defer os.RemoveAll(w)
			ap := exec.Command("git", "apply", filepath.Join(d, "patch.diff"))
			ap.Dir = w
			ap.Env = append(os.Environ(), "GIT_CEILING_DIRECTORIES="+scratch)
			if msg, err := ap.CombinedOutput(); err != nil {
				o.Result = "skipped: patch does not apply to the current tree (" + firstLine(string(msg)) + ")"
				return
			}
			tr := filepath.Join(scratch, "bnroot."+o.Name)
			os.MkdirAll(tr, 0o755)
			defer os.RemoveAll(tr)
			if kb, err := os.ReadFile(filepath.Join(root, "known_findings.json")); err == nil {
				os.WriteFile(filepath.Join(tr, "known_findings.json"), kb, 0o644)
			}
			ctx, cancel := context.WithTimeout(context.Background(), 20*time.Minute)
			cmd := exec.CommandContext(ctx, self, "-property", prop, "-tier", "quick", "-repo", w, "-root", tr)
			cmd.Env = append(os.Environ(), "ORYX_RUN_BUDGET_S=60")
			res, _ := cmd.CombinedOutput()
			timedOut := ctx.Err() != nil
			cancel()
			var rulesHit []string
			seen := map[string]bool{}
			for _, ln := range strings.Split(string(res), "\n") {
				ln = strings.TrimSpace(ln)
				if strings.HasPrefix(ln, "rule=") {
					f := strings.Fields(ln)[0][5:]
					if !seen[f] {
						seen[f] = true
						rulesHit = append(rulesHit, f)
					}
				}
			}
			o.Reported = strings.Join(rulesHit, ",")
			switch {
			case timedOut:
				o.Result = "not finished within 20 minutes"
			case len(rulesHit) > 0:
				o.Result = "FALSE ALARM"
			default:
				o.Result = "silent"
			}
		}(i, d)
	}
	wg.Wait()
	n := 0
	var alarms []outcome
	for _, o := range out {
		if o.Result == "silent" {
			n++
		} else {
			alarms = append(alarms, o)
		}
	}
	r.Extra["benign_regression_summary"] = fmt.Sprintf("%d of %d behaviour-preserving refactorings leave the quick check of %s silent", n, len(out), prop)
	if len(alarms) > 0 {
		r.Extra["benign_regression_not_silent"] = alarms
	}
}

func firstLine(s string) string {
	s = strings.TrimSpace(s)
	if i := strings.Index(s, "\n"); i >= 0 {
		s = s[:i]
	}
	if len(s) > 160 {
		s = s[:160]
	}
	return s
}

// copyTree copies the working tree (without .git) to dst.
func copyTree(src, dst string) error {
	return filepath.Walk(src, func(p string, info os.FileInfo, err error) error {
		if err != nil {
			return err
		}
		rel, _ := filepath.Rel(src, p)
		if rel == ".git" || strings.HasPrefix(rel, ".git"+string(filepath.Separator)) {
			if info.IsDir() {
				return filepath.SkipDir
			}
			return nil
		}
		t := filepath.Join(dst, rel)
		if info.IsDir() {
			return os.MkdirAll(t, 0o755)
		}
		if !info.Mode().IsRegular() {
			return nil
		}
		in, err := os.Open(p)
		if err != nil {
			return err
		}
		defer in.Close()
		out, err := os.Create(t)
		if err != nil {
			return err
		}
		defer out.Close()
		_, err = io.Copy(out, in)
		return err
	})
}
