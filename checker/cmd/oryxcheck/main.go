// Command oryxcheck decides the go-oryx-lib properties C01..C20 by static analysis of /repo's
// current working tree (see /verif/DESIGN.md).
package main

import (
	"encoding/json"
	"flag"
	"fmt"
	"go/types"
	"os"
	"path/filepath"
	"runtime/debug"
	"strconv"
	"strings"

	"oryxverif/checker/internal/abs"
	"oryxverif/checker/internal/core"
	"oryxverif/checker/internal/rules"
)

func main() {
	prop := flag.String("property", "", "property id (C01..C20)")
	tier := flag.String("tier", "quick", "quick|thorough")
	repo := flag.String("repo", "/repo", "repository root")
	root := flag.String("root", "/verif", "verification root (evidence, reports, known findings)")
	replay := flag.String("replay", "", "report file to re-derive")
	list := flag.Bool("list", false, "list implemented properties")
	absFn := flag.String("abs", "", "debug: abstractly interpret pkg:Func with symbolic arguments and print every path")
	dumpPinned := flag.Bool("dump-pinned", false, "print internal/core/pinned_data.go for the tree at -repo (the reference vocabulary of identifiers)")
	flag.Parse()
	if os.Getenv("ORYX_LOOPVARS") != "" {
		P, err := core.Load(core.Config{Dir: *repo})
		if err != nil {
			fmt.Println(err)
			os.Exit(2)
		}
		n := 0
		for fn := range P.AllFuncs {
			if !core.InModule(fn) {
				continue
			}
			n++
			for _, e := range core.LoopVarEscapes(fn) {
				fmt.Println(core.QualName(fn), e.Name, P.InstrPos(e.Store))
			}
		}
		fmt.Println("functions scanned:", n)
		return
	}
	if os.Getenv("ORYX_ALIAS") != "" {
		P, err := core.Load(core.Config{Dir: *repo})
		if err != nil {
			fmt.Println(err)
			os.Exit(2)
		}
		for fn := range P.AllFuncs {
			if !core.InModule(fn) || fn.Synthetic != "" {
				continue
			}
			for _, r := range core.Returns(fn) {
				for i, v := range r.Results {
					if types.TypeString(v.Type(), nil) != "[]byte" {
						continue
					}
					for _, o := range core.SliceOrigins(v) {
						if o.Kind != "fresh" && o.Kind != "param" {
							fmt.Println(core.QualName(fn), i, o.Kind, o.Desc, P.InstrPos(r))
						}
					}
				}
			}
		}
		return
	}
	if *dumpPinned {
		P, err := core.Load(core.Config{Dir: *repo})
		if err != nil {
			fmt.Println(err)
			os.Exit(2)
		}
		fmt.Print(core.DumpPinned(P))
		return
	}
	if *absFn != "" {
		debugAbs(*repo, *absFn)
		return
	}
	if *list {
		fmt.Println(strings.Join(rules.IDs(), " "))
		return
	}
	if t := os.Getenv("VERIF_TIER"); t != "" && !isFlagSet("tier") {
		*tier = t
	}
	var only struct{ Property, Rule, Construct string }
	if *replay != "" {
		b, err := os.ReadFile(*replay)
		if err != nil {
			fmt.Println("cannot read report:", err)
			os.Exit(2)
		}
		json.Unmarshal(b, &only)
		*prop = only.Property
	}
	pr := rules.Get(*prop)
	if pr == nil {
		fmt.Printf("unknown property %q; implemented: %s\n", *prop, strings.Join(rules.IDs(), " "))
		os.Exit(2)
	}
	abs, _ := filepath.Abs(*repo)
	os.Exit(run(pr, *tier, abs, *root, only.Rule, only.Construct))
}

func debugAbs(repo, spec string) {
	P, err := core.Load(core.Config{Dir: repo})
	if err != nil {
		fmt.Println(err)
		os.Exit(2)
	}
	i := strings.Index(spec, ":")
	fn := P.Func(spec[:i], spec[i+1:])
	if fn == nil {
		fmt.Println("no such function")
		os.Exit(2)
	}
	e := abs.NewEngine(P)
	res := e.Run(fn, func(p *abs.Path) []abs.Value { return e.AutoArgs(p, fn) })
	for k, r := range res {
		fmt.Printf("--- path %d forks=%v\n", k, r.Path.Forks)
		if r.Path.Abort != "" {
			fmt.Println("  ABORT:", r.Path.Abort)
		}
		if r.Path.Panics != "" {
			fmt.Println("  PANIC:", r.Path.Panics)
		}
		for i, v := range r.Ret {
			fmt.Printf("  ret[%d] = %s\n", i, abs.Describe(r.Path, v))
		}
		for name, o := range r.Path.Sinks {
			if strings.HasPrefix(name, "sink:") {
				fmt.Printf("  %s = %s\n", name, abs.SegsString(o.Segs))
			}
		}
		for _, b := range r.Path.Bounds {
			if !b.Proven {
				fmt.Printf("  UNPROVEN %s %s\n", b.Pos, b.What)
			}
		}
		for _, n := range r.Path.Notes {
			fmt.Println("  note:", n)
		}
	}
}

func isFlagSet(name string) bool {
	set := false
	flag.Visit(func(f *flag.Flag) {
		if f.Name == name {
			set = true
		}
	})
	return set
}

func run(pr *rules.Property, tier, repo, root, onlyRule, onlyKey string) (code int) {
	// wall-clock budget of one abstract-interpretation run (all paths of one variant); the unchanged tree needs a few
	// seconds at most per run in the quick tier and about a minute in the thorough tier
	if os.Getenv("ORYX_RUN_BUDGET_S") == "" {
		if tier == "thorough" {
			os.Setenv("ORYX_RUN_BUDGET_S", "900")
		} else {
			os.Setenv("ORYX_RUN_BUDGET_S", "90")
		}
	}
	r := core.NewRun(pr.ID, tier, root)
	if s := os.Getenv("VERIF_SEED"); s != "" {
		r.Seed, _ = strconv.ParseInt(s, 10, 64)
	}
	r.Explain = pr.Explain
	r.Assume = append([]string{
		"go/types and x/tools v0.29.0 go/ssa, callgraph/vta model the compiled program faithfully",
		"files behind !go1.5/!go1.7/!go1.8 build tags cannot be selected by any toolchain in this sandbox and are not analysed",
	}, pr.Assume...)
	defer func() {
		if e := recover(); e != nil {
			r.Unknown("LOAD", "checker-panic", "?", fmt.Sprintf("checker panic: %v\n%s", e, debug.Stack()), nil)
			code = r.Finish("other")
		}
	}()
	cfgs := []core.Config{{Dir: repo}}
	if tier == "thorough" {
		cfgs = append(cfgs, core.Config{Dir: repo, Tags: []string{"appengine"}})
	}
	for i, cfg := range cfgs {
		p, err := core.Load(cfg)
		if err != nil {
			r.Unknown("LOAD", "load|"+cfg.String(), "?", err.Error(), nil)
			continue
		}
		r.Configs = append(r.Configs, fmt.Sprintf("%s: %d packages, %d functions", cfg.String(), len(p.Pkgs), len(p.AllFuncs)))
		if len(p.RoleMoves) > 0 {
			r.Extra["roles_moved"] = p.RoleMoves
		}
		c := &rules.Ctx{P: p, R: r, Tier: tier}
		if i > 0 {
			// additional configurations: same rules, obligations keyed with the configuration
			c.R = core.NewRun(pr.ID, tier, root)
			pr.Run(c)
			for _, o := range c.R.Obs {
				o.Key = o.Key + "@" + cfg.String()
				r.Obs = append(r.Obs, o)
			}
			continue
		}
		pr.Run(c)
	}
	// identifiers of this tree that were aligned with the reference vocabulary (renames seen through)
	if ren := core.PinnedRenames(); len(ren) > 0 {
		if len(ren) > 60 {
			ren = append(ren[:60], fmt.Sprintf("... %d more", len(ren)-60))
		}
		r.Extra["identifiers_aligned"] = ren
	}
	if tier == "thorough" && onlyRule == "" && os.Getenv("ORYX_NO_SEEDED") == "" {
		selfValidate(pr.ID, repo, root, r)
	}
	if onlyRule != "" {
		for _, o := range r.Obs {
			if o.Rule == onlyRule && o.Key == onlyKey {
				b, _ := json.MarshalIndent(o, "", " ")
				fmt.Printf("replay %s %s: %s\n%s\n", o.Rule, o.Key, o.Status, b)
				if o.Status == core.Discharged {
					return 0
				}
				return 1
			}
		}
		fmt.Printf("replay: construct %s|%s no longer produces an obligation\n", onlyRule, onlyKey)
		return 0
	}
	return r.Finish("other")
}
