package core

import (
	"crypto/sha1"
	"encoding/hex"
	"encoding/json"
	"fmt"
	"os"
	"path/filepath"
	"sort"
	"strings"
	"time"
)

// Status of one obligation.
type Status int

const (
	Discharged Status = iota
	Violated
	Undecided // counts as a violation (DESIGN §4.1)
	Info      // observation, never fails
)

func (s Status) String() string {
	switch s {
	case Discharged:
		return "discharged"
	case Violated:
		return "violated"
	case Undecided:
		return "undecided"
	}
	return "info"
}

// Ob is one obligation: a rule applied to one construct of the repository.
type Ob struct {
	Rule   string                 `json:"rule"`      // "C04.order"
	Key    string                 `json:"construct"` // rule-local construct key, never a line number
	Pos    string                 `json:"pos"`
	Status Status                 `json:"-"`
	St     string                 `json:"status"`
	Msg    string                 `json:"what"`
	Facts  map[string]interface{} `json:"facts,omitempty"`
}

// Finding is one entry of /verif/known_findings.json.
type Finding struct {
	Property  string `json:"property"`
	Rule      string `json:"rule"`
	Construct string `json:"construct"`
	Status    string `json:"status"` // open | fixed
	Commit    string `json:"commit,omitempty"`
	WhatFails string `json:"what_fails"`
	Repro     string `json:"repro,omitempty"`
}

// Run collects the obligations of one property check.
type Run struct {
	Property string
	Tier     string
	Seed     int64
	Root     string // /verif
	Start    time.Time
	Obs      []Ob
	Minima   map[string]int // rule -> confirmed minimum number of instances
	Explain  string
	Assume   []string
	Configs  []string
	Extra    map[string]interface{}
	Funcs    map[string]bool // functions analysed
	Exhaust  bool
}

func NewRun(prop, tier, root string) *Run {
	return &Run{Property: prop, Tier: tier, Root: root, Start: time.Now(),
		Minima: map[string]int{}, Extra: map[string]interface{}{}, Funcs: map[string]bool{}}
}

func (r *Run) add(rule, key, pos string, st Status, msg string, facts map[string]interface{}) {
	r.Obs = append(r.Obs, Ob{Rule: rule, Key: key, Pos: pos, Status: st, St: st.String(), Msg: msg, Facts: facts})
}

// OK records a discharged obligation.
func (r *Run) OK(rule, key, pos, msg string) { r.add(rule, key, pos, Discharged, msg, nil) }

// OKf records a discharged obligation with facts.
func (r *Run) OKf(rule, key, pos, msg string, facts map[string]interface{}) {
	r.add(rule, key, pos, Discharged, msg, facts)
}

// Fail records a violated obligation.
func (r *Run) Fail(rule, key, pos, msg string, facts map[string]interface{}) {
	r.add(rule, key, pos, Violated, msg, facts)
}

// Unknown records an undecided obligation (fails, DESIGN §4.1).
func (r *Run) Unknown(rule, key, pos, msg string, facts map[string]interface{}) {
	r.add(rule, key, pos, Undecided, "undecided: "+msg, facts)
}

// Note records an observation that never fails.
func (r *Run) Note(rule, key, pos, msg string) { r.add(rule, key, pos, Info, msg, nil) }

// Check records OK or Fail depending on cond.
func (r *Run) Check(cond bool, rule, key, pos, okMsg, failMsg string, facts map[string]interface{}) bool {
	if cond {
		r.add(rule, key, pos, Discharged, okMsg, facts)
	} else {
		r.add(rule, key, pos, Violated, failMsg, facts)
	}
	return cond
}

// Require declares the confirmed minimum number of instances of a rule.
func (r *Run) Require(rule string, min int) { r.Minima[rule] = min }

// Anchor fails the run when a named symbol no longer resolves.
func (r *Run) Anchor(ok bool, rule, sym string) bool {
	if !ok {
		r.add(rule, "anchor|"+sym, "?", Undecided, "undecided: anchor "+sym+" no longer resolves in /repo", nil)
	}
	return ok
}

func loadFindings(root string) ([]Finding, error) {
	b, err := os.ReadFile(filepath.Join(root, "known_findings.json"))
	if err != nil {
		if os.IsNotExist(err) {
			return nil, nil
		}
		return nil, err
	}
	var f struct {
		Findings []Finding `json:"findings"`
	}
	if err := json.Unmarshal(b, &f); err != nil {
		return nil, err
	}
	return f.Findings, nil
}

func slug(s string) string {
	h := sha1.Sum([]byte(s))
	var b strings.Builder
	for _, c := range s {
		switch {
		case c >= 'a' && c <= 'z', c >= 'A' && c <= 'Z', c >= '0' && c <= '9', c == '.', c == '-':
			b.WriteRune(c)
		default:
			b.WriteByte('_')
		}
	}
	out := b.String()
	if len(out) > 80 {
		out = out[:80]
	}
	return out + "-" + hex.EncodeToString(h[:4])
}

// Finish applies vacuity floors and known findings, writes reports and evidence, prints the
// verdict lines and returns the process exit code.
func (r *Run) Finish(level string) int {
	// vacuity floors
	count := map[string]int{}
	for _, o := range r.Obs {
		if o.Status != Info {
			count[o.Rule]++
		}
	}
	var rules []string
	for rule := range r.Minima {
		rules = append(rules, rule)
	}
	sort.Strings(rules)
	for _, rule := range rules {
		if count[rule] < r.Minima[rule] {
			r.add(rule, "vacuity", "?", Undecided,
				fmt.Sprintf("undecided: rule matched %d instances, confirmed minimum on the pinned tree is %d", count[rule], r.Minima[rule]), nil)
			count[rule]++
		}
	}
	findings, ferr := loadFindings(r.Root)
	if ferr != nil {
		r.add("LOAD", "known_findings.json", "?", Undecided, "undecided: cannot read known_findings.json: "+ferr.Error(), nil)
	}
	open := map[string]Finding{}
	for _, f := range findings {
		if f.Property == r.Property && f.Status == "open" {
			open[f.Rule+"|"+f.Construct] = f
		}
	}
	repDir := filepath.Join(r.Root, "reports", r.Property)
	os.RemoveAll(repDir)
	var viol, known, discharged, total int
	distinct := map[string]bool{}
	var violLines, knownLines []string
	ruleCount := map[string]map[string]int{}
	for i := range r.Obs {
		o := &r.Obs[i]
		if o.Status == Info {
			continue
		}
		total++
		distinct[o.Rule+"|"+o.Key] = true
		if ruleCount[o.Rule] == nil {
			ruleCount[o.Rule] = map[string]int{}
		}
		ruleCount[o.Rule][o.Status.String()]++
		if o.Status == Discharged {
			discharged++
			continue
		}
		f, ok := open[o.Rule+"|"+o.Key]
		if !ok {
			// obligations of an additional build configuration are keyed construct@configuration
			if i := strings.LastIndex(o.Key, "@"); i > 0 {
				f, ok = open[o.Rule+"|"+o.Key[:i]]
			}
		}
		if ok {
			known++
			o.St = "known-finding"
			knownLines = append(knownLines, fmt.Sprintf("KNOWN-FINDING: property=%s %s %s %s", r.Property, o.Rule, o.Key, f.WhatFails))
			continue
		}
		viol++
		os.MkdirAll(repDir, 0o755)
		path := filepath.Join(repDir, slug(o.Rule+"-"+o.Key)+".json")
		rep := map[string]interface{}{
			"property": r.Property, "rule": o.Rule, "construct": o.Key, "pos": o.Pos,
			"status": o.Status.String(), "what": o.Msg, "facts": o.Facts, "tier": r.Tier,
			"replay": fmt.Sprintf("bin/oryxcheck -replay %s", path),
		}
		b, _ := json.MarshalIndent(rep, "", " ")
		os.WriteFile(path, b, 0o644)
		violLines = append(violLines, fmt.Sprintf("VIOLATION property=%s replay=%s", r.Property, path)+
			fmt.Sprintf("\n  rule=%s construct=%s at %s: %s", o.Rule, o.Key, o.Pos, o.Msg))
	}
	// evidence
	samples := []interface{}{}
	perRule := map[string]int{}
	for _, o := range r.Obs {
		if o.Status == Info {
			continue
		}
		if perRule[o.Rule] < 3 && len(samples) < 40 {
			perRule[o.Rule]++
			samples = append(samples, o)
		}
	}
	var notes []string
	for _, o := range r.Obs {
		if o.Status == Info {
			notes = append(notes, o.Rule+" "+o.Key+" "+o.Pos+": "+o.Msg)
		}
	}
	var funcs []string
	for f := range r.Funcs {
		funcs = append(funcs, f)
	}
	sort.Strings(funcs)
	cov := map[string]interface{}{
		"explanation":         r.Explain,
		"obligations":         total,
		"discharged":          discharged,
		"known_findings":      known,
		"evaluations":         total,
		"distinct_nontrivial": len(distinct),
		"rule": "one evaluation = one rule instance applied to one construct (function, call site, field, switch case, table row, " +
			"layout variant) of /repo's current source; distinct = distinct (rule, construct) keys that matched real code; vacuous rules count 0",
		"samples":            samples,
		"per_rule":           ruleCount,
		"rule_minima":        r.Minima,
		"functions_analysed": funcs,
		"configurations":     r.Configs,
		"observations":       notes,
		"exhaustive":         r.Exhaust,
		"checker_cmd":        fmt.Sprintf("bin/oryxcheck -property %s -tier %s", r.Property, r.Tier),
	}
	for k, v := range r.Extra {
		cov[k] = v
	}
	ev := map[string]interface{}{
		"property_id": r.Property,
		"tier":        r.Tier,
		"seed":        r.Seed,
		"level":       level,
		"coverage":    cov,
		"assumptions": r.Assume,
		"wall_s":      time.Since(r.Start).Seconds(),
		"violations":  viol,
	}
	os.MkdirAll(filepath.Join(r.Root, "evidence"), 0o755)
	b, _ := json.MarshalIndent(ev, "", " ")
	if err := os.WriteFile(filepath.Join(r.Root, "evidence", r.Property+".json"), b, 0o644); err != nil {
		fmt.Printf("VIOLATION property=%s replay=%s\n  cannot write evidence: %v\n", r.Property, "none", err)
		return 1
	}
	if os.Getenv("ORYX_VERBOSE") != "" {
		for _, o := range r.Obs {
			fmt.Printf("  [%s] %s %s @%s: %s\n", o.St, o.Rule, o.Key, o.Pos, o.Msg)
		}
	}
	sort.Strings(knownLines)
	sort.Strings(violLines)
	for _, l := range knownLines {
		fmt.Println(l)
	}
	for _, l := range violLines {
		fmt.Println(l)
	}
	fmt.Printf("%s tier=%s obligations=%d discharged=%d known=%d violations=%d rules=%d wall=%.1fs\n",
		r.Property, r.Tier, total, discharged, known, viol, len(ruleCount), time.Since(r.Start).Seconds())
	if viol > 0 {
		return 1
	}
	return 0
}
