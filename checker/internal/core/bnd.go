package core

import (
	"fmt"
	"go/token"
	"go/types"
	"strings"

	"golang.org/x/tools/go/ssa"
)

// BoundSite is one instruction that can panic with an out-of-range error.
type BoundSite struct {
	Fn   *ssa.Function
	In   ssa.Instruction
	Kind string // index, slice, make
}

// BoundSites lists the index/slice/make obligations of fn.
func BoundSites(fn *ssa.Function) []BoundSite {
	var out []BoundSite
	EachInstr(fn, func(in ssa.Instruction) {
		switch x := in.(type) {
		case *ssa.IndexAddr:
			out = append(out, BoundSite{fn, in, "index"})
		case *ssa.Index:
			if _, isMap := x.X.Type().Underlying().(*types.Map); !isMap {
				out = append(out, BoundSite{fn, in, "index"})
			}
		case *ssa.Slice:
			if x.Low != nil || x.High != nil || x.Max != nil {
				out = append(out, BoundSite{fn, in, "slice"})
			}
		case *ssa.MakeSlice:
			if _, isC := ConstInt(x.Len); !isC {
				out = append(out, BoundSite{fn, in, "make"})
			}
		}
	})
	return out
}

// lenOfValue: v is len(s) (possibly converted) of the given slice/array value.
func isLenOf(v, s ssa.Value) bool {
	v = stripAll(v)
	call, ok := v.(*ssa.Call)
	if !ok {
		return false
	}
	b, ok := call.Call.Value.(*ssa.Builtin)
	if !ok || b.Name() != "len" {
		return false
	}
	return sameSSA(call.Call.Args[0], s)
}

func stripAll(v ssa.Value) ssa.Value {
	for {
		v = StripConv(v)
		if c, ok := v.(*ssa.Convert); ok {
			v = c.X
			continue
		}
		return v
	}
}

func sameSSA(a, b ssa.Value) bool {
	a, b = stripAll(a), stripAll(b)
	if a == b {
		return true
	}
	// two loads of the same cell / field with the same access path and no store in between in the same block
	la, ok1 := a.(*ssa.UnOp)
	lb, ok2 := b.(*ssa.UnOp)
	if ok1 && ok2 && la.Op == token.MUL && lb.Op == token.MUL && Path(la.X) == Path(lb.X) && !strings.HasPrefix(Path(la.X), "%") {
		return true
	}
	// s[:] of the same value
	if x, ok := a.(*ssa.Slice); ok && x.Low == nil && x.High == nil {
		return sameSSA(x.X, b)
	}
	if x, ok := b.(*ssa.Slice); ok && x.Low == nil && x.High == nil {
		return sameSSA(a, x.X)
	}
	return false
}

// lowerBoundLen returns the largest constant k such that a dominating guard establishes
// len(s) >= k at block b, and the set of values x with a guard len(s) >= x.
func lenFacts(b *ssa.BasicBlock, s ssa.Value) (minLen int64, geq []ssa.Value) {
	minLen = 0
	for _, g := range Guards(b) {
		a, isCmp := AtomOf(g)
		if !isCmp {
			continue
		}
		l, r, op := a.LV, a.RV, a.Op
		if !isLenOf(l, s) {
			if isLenOf(r, s) {
				l, r, op = r, l, swapOp[op]
			} else {
				continue
			}
		}
		// len(s) op r
		if k, ok := ConstInt(r); ok {
			switch op {
			case ">=":
				if k > minLen {
					minLen = k
				}
			case ">":
				if k+1 > minLen {
					minLen = k + 1
				}
			case "==":
				if k > minLen {
					minLen = k
				}
			case "!=":
				if k == 0 && minLen < 1 {
					minLen = 1
				}
			}
			continue
		}
		switch op {
		case ">=", "==":
			geq = append(geq, r)
		case ">":
			geq = append(geq, r)
		}
	}
	// a slice of known provenance: make([]T, k), literal arrays
	switch x := stripAll(s).(type) {
	case *ssa.MakeSlice:
		if k, ok := ConstInt(x.Len); ok && k > minLen {
			minLen = k
		}
		if bo, ok := stripAll(x.Len).(*ssa.BinOp); ok && bo.Op == token.ADD {
			if k, ok := ConstInt(bo.X); ok && nonNegative(bo.Y) && k > minLen {
				minLen = k
			}
			if k, ok := ConstInt(bo.Y); ok && nonNegative(bo.X) && k > minLen {
				minLen = k
			}
		}
	case *ssa.Extract:
		// contract: (*websocket.Conn).read(n) returns exactly n bytes when its error is nil
		if call, ok := x.Tuple.(*ssa.Call); ok && x.Index == 0 && call.Call.StaticCallee() != nil && QualName(call.Call.StaticCallee()) == "websocket.(*Conn).read" {
			if k, ok := ConstInt(call.Call.Args[1]); ok {
				for _, g := range Guards(b) {
					a, _ := AtomOf(g)
					if ex, isEx := a.LV.(*ssa.Extract); isEx && ex.Tuple == x.Tuple && ex.Index == 1 && a.Op == "==" {
						if k > minLen {
							minLen = k
						}
					}
				}
			}
		}
	case *ssa.Slice:
		// arr[:] of a fixed-size array
		if pt, ok := x.X.Type().Underlying().(*types.Pointer); ok && x.Low == nil && x.High == nil {
			if at, ok := pt.Elem().Underlying().(*types.Array); ok && at.Len() > minLen {
				minLen = at.Len()
			}
		}
		// s[lo:] / s[:hi] with constant bounds of something with known facts
		if lo, ok := constOrNil(x.Low); ok && x.High == nil {
			m, _ := lenFacts(b, x.X)
			if m-lo > minLen {
				minLen = m - lo
			}
		}
		if hi, ok := ConstInt(x.High); ok && x.High != nil {
			lo, okLo := constOrNil(x.Low)
			if okLo && hi-lo > minLen {
				minLen = hi - lo
			}
		}
	}
	return
}

func constOrNil(v ssa.Value) (int64, bool) {
	if v == nil {
		return 0, true
	}
	return ConstInt(v)
}

// upperBoundVal returns a constant upper bound of an integer value from its type, masks and guards.
func upperBoundVal(b *ssa.BasicBlock, v ssa.Value) (int64, bool) {
	v0 := v
	v = stripAll(v)
	if k, ok := ConstInt(v); ok {
		return k, true
	}
	best := int64(-1)
	set := func(k int64) {
		if best < 0 || k < best {
			best = k
		}
	}
	if bo, ok := v.(*ssa.BinOp); ok {
		switch bo.Op {
		case token.AND:
			if k, ok := ConstInt(bo.Y); ok && k >= 0 {
				set(k)
			}
			if k, ok := ConstInt(bo.X); ok && k >= 0 {
				set(k)
			}
		case token.REM:
			if k, ok := ConstInt(bo.Y); ok && k > 0 {
				set(k - 1)
			}
		case token.SHR:
			if k, ok := ConstInt(bo.Y); ok {
				if bt, ok := bo.X.Type().Underlying().(*types.Basic); ok && bt.Info()&types.IsUnsigned != 0 {
					set((int64(1) << uint(intBits(bt)-int(k))) - 1)
				}
			}
		}
	}
	if bt, ok := v.Type().Underlying().(*types.Basic); ok && bt.Info()&types.IsUnsigned != 0 && intBits(bt) < 32 {
		set((int64(1) << uint(intBits(bt))) - 1)
	}
	for _, g := range Guards(b) {
		a, isCmp := AtomOf(g)
		if !isCmp {
			continue
		}
		if sameSSA(a.LV, v0) {
			if k, ok := ConstInt(a.RV); ok {
				switch a.Op {
				case "<":
					set(k - 1)
				case "<=", "==":
					set(k)
				}
			}
		}
	}
	return best, best >= 0
}

func nonNegative(v ssa.Value) bool { return nonNeg(v, map[ssa.Value]bool{}) }

// NonNegative reports whether v is provably >= 0 from types, construction and field invariants.
func NonNegative(v ssa.Value) bool { return nonNegative(v) }

func nonNeg(v ssa.Value, seen map[ssa.Value]bool) bool {
	v = stripAll(v)
	if seen[v] {
		return true // coinductive: a cycle through sign-preserving operations
	}
	seen[v] = true
	if k, ok := ConstInt(v); ok {
		return k >= 0
	}
	if bt, ok := v.Type().Underlying().(*types.Basic); ok && bt.Info()&types.IsUnsigned != 0 {
		return true
	}
	switch x := v.(type) {
	case *ssa.Call:
		if b, ok := x.Call.Value.(*ssa.Builtin); ok && (b.Name() == "len" || b.Name() == "cap" || b.Name() == "copy") {
			return true
		}
	case *ssa.BinOp:
		switch x.Op {
		case token.AND:
			return nonNeg(x.X, seen) || nonNeg(x.Y, seen)
		case token.ADD, token.MUL, token.SHR, token.QUO, token.REM, token.OR:
			return nonNeg(x.X, seen) && nonNeg(x.Y, seen)
		}
	case *ssa.Phi:
		// loop induction: phi(init >= 0, phi + positive const)
		ok := true
		for _, e := range x.Edges {
			if bo, isB := stripAll(e).(*ssa.BinOp); isB && bo.Op == token.ADD && stripAll(bo.X) == ssa.Value(x) {
				if k, isK := ConstInt(bo.Y); isK && k >= 0 {
					continue
				}
			}
			if e == ssa.Value(x) {
				continue
			}
			if !nonNeg(e, seen) {
				ok = false
			}
		}
		return ok
	case *ssa.Convert:
		return nonNeg(x.X, seen)
	case *ssa.UnOp:
		// load of an unexported struct field every store to which is non-negative (configuration such as tag sizes)
		if fa, ok := x.X.(*ssa.FieldAddr); ok && x.Op == token.MUL {
			return fieldNonNeg(fa, seen)
		}
	case *ssa.Field:
		return false
	}
	return false
}

// fieldInvariantFuncs is the set of functions searched for stores to a field (set by Load: all module functions).
var fieldInvariantFuncs []*ssa.Function

func fieldOf(fa *ssa.FieldAddr) *types.Var {
	pt, ok := fa.X.Type().Underlying().(*types.Pointer)
	if !ok {
		return nil
	}
	st, ok := pt.Elem().Underlying().(*types.Struct)
	if !ok {
		return nil
	}
	return st.Field(fa.Field)
}

// fieldNonNeg: the field is unexported, its address never escapes, and every store to it anywhere in the module
// stores a non-negative value (the zero value of a fresh struct is 0).
func fieldNonNeg(fa *ssa.FieldAddr, seen map[ssa.Value]bool) bool {
	f := fieldOf(fa)
	if f == nil || f.Exported() || len(fieldInvariantFuncs) == 0 {
		return false
	}
	for _, fn := range fieldInvariantFuncs {
		if fn.Pkg == nil || fn.Pkg.Pkg != f.Pkg() {
			continue
		}
		ok := true
		EachInstr(fn, func(in ssa.Instruction) {
			a, isFA := in.(*ssa.FieldAddr)
			if !isFA || fieldOf(a) != f {
				return
			}
			for _, r := range *a.Referrers() {
				switch u := r.(type) {
				case *ssa.Store:
					if u.Addr != ssa.Value(a) || !nonNeg(u.Val, seen) {
						ok = false
					}
				case *ssa.UnOp:
					if u.Op != token.MUL {
						ok = false
					}
				case *ssa.DebugRef:
				default:
					ok = false
				}
			}
		})
		if !ok {
			return false
		}
	}
	return true
}

// ProveBound tries to discharge one bounds obligation from dominating guards, type ranges,
// masks and loop guards. It returns the reason, or "" when unproven.
func ProveBound(site BoundSite) string {
	b := site.In.Block()
	switch x := site.In.(type) {
	case *ssa.IndexAddr:
		return proveIndex(b, x.X, x.Index)
	case *ssa.Index:
		return proveIndex(b, x.X, x.Index)
	case *ssa.MakeSlice:
		if nonNegative(x.Len) {
			return "length is non-negative by construction"
		}
		if k, ok := lowerBoundGuard(b, x.Len); ok && k >= 0 {
			return fmt.Sprintf("guarded: length >= %d", k)
		}
		return ""
	case *ssa.Slice:
		return proveSlice(b, x)
	}
	return ""
}

func lowerBoundGuard(b *ssa.BasicBlock, v ssa.Value) (int64, bool) {
	best, found := int64(0), false
	for _, g := range Guards(b) {
		a, isCmp := AtomOf(g)
		if !isCmp || !sameSSA(a.LV, v) {
			continue
		}
		if k, ok := ConstInt(a.RV); ok {
			switch a.Op {
			case ">=", "==":
				if !found || k > best {
					best, found = k, true
				}
			case ">":
				if !found || k+1 > best {
					best, found = k+1, true
				}
			}
		}
	}
	return best, found
}

// lenMinus: v is len(s) - sub.
func lenMinus(v, s ssa.Value) (ssa.Value, bool) {
	bo, ok := stripAll(v).(*ssa.BinOp)
	if !ok || bo.Op != token.SUB || !isLenOf(bo.X, s) {
		return nil, false
	}
	return bo.Y, true
}

func containerLen(v ssa.Value) (int64, bool) {
	t := v.Type().Underlying()
	if p, ok := t.(*types.Pointer); ok {
		t = p.Elem().Underlying()
	}
	if a, ok := t.(*types.Array); ok {
		return a.Len(), true
	}
	return 0, false
}

func proveIndex(b *ssa.BasicBlock, s, idx ssa.Value) string {
	// fixed-size array
	if n, ok := containerLen(s); ok {
		if ub, okU := upperBoundVal(b, idx); okU && ub < n && nonNegative(idx) {
			return fmt.Sprintf("index <= %d < array length %d", ub, n)
		}
		return ""
	}
	minLen, geq := lenFacts(b, s)
	if ub, ok := upperBoundVal(b, idx); ok && nonNegative(idx) && ub < minLen {
		return fmt.Sprintf("index <= %d < guarded length >= %d", ub, minLen)
	}
	// s[len(s)-k] with a guarded len(s) >= k >= 1
	if sub, ok := lenMinus(idx, s); ok {
		if k, isK := ConstInt(sub); isK && k >= 1 && minLen >= k {
			return fmt.Sprintf("index len-%d with guarded length >= %d", k, minLen)
		}
	}
	// range-style loop: i < len(s) guard on the same values
	for _, g := range Guards(b) {
		a, isCmp := AtomOf(g)
		if !isCmp {
			continue
		}
		if sameSSA(a.LV, idx) && isLenOf(a.RV, s) && a.Op == "<" && nonNegative(idx) {
			return "loop guard index < len"
		}
		if isLenOf(a.LV, s) && sameSSA(a.RV, idx) && a.Op == ">" && nonNegative(idx) {
			return "loop guard len > index"
		}
	}
	// transitive: idx < V (guard) and len(s) >= V (guard or construction)
	for _, g := range Guards(b) {
		a, isCmp := AtomOf(g)
		if !isCmp || !nonNegative(idx) {
			continue
		}
		var bound ssa.Value
		if sameSSA(a.LV, idx) && a.Op == "<" {
			bound = a.RV
		} else if sameSSA(a.RV, idx) && a.Op == ">" {
			bound = a.LV
		}
		if bound == nil {
			continue
		}
		for _, v := range geq {
			if sameSSA(v, bound) {
				return "index < bound <= guarded length"
			}
		}
		if ms, ok := stripAll(s).(*ssa.MakeSlice); ok && sameSSA(ms.Len, bound) {
			return "index < length the slice was made with"
		}
	}
	// the index loop of a `range` statement: idx is phi(-1.., +1) compared with len taken once
	if rangeIndex(idx, s) {
		return "range loop index"
	}
	return ""
}

// rangeIndex recognises the SSA shape of `for i := range s`: i = phi(-1, i+1); i+1 < len(s).
func rangeIndex(idx, s ssa.Value) bool {
	bo, ok := stripAll(idx).(*ssa.BinOp)
	if !ok || bo.Op != token.ADD {
		return false
	}
	phi, ok := bo.X.(*ssa.Phi)
	if !ok {
		return false
	}
	if k, ok := ConstInt(bo.Y); !ok || k != 1 {
		return false
	}
	for _, r := range *bo.Referrers() {
		if cmp, ok := r.(*ssa.BinOp); ok && cmp.Op == token.LSS && cmp.X == ssa.Value(bo) && isLenOf(cmp.Y, s) {
			_ = phi
			return true
		}
	}
	return false
}

func proveSlice(b *ssa.BasicBlock, x *ssa.Slice) string {
	n, isArr := containerLen(x.X)
	minLen, geq := lenFacts(b, x.X)
	if isArr {
		minLen = n
	}
	ge := func(v ssa.Value) bool { // len(s) >= v ?
		if v == nil {
			return true
		}
		if sub, ok := lenMinus(v, x.X); ok && nonNegative(sub) {
			return true // len(s) - c <= len(s) for c >= 0
		}
		if k, ok := upperBoundVal(b, v); ok && k <= minLen {
			return true
		}
		for _, g := range geq {
			if sameSSA(g, v) {
				return true
			}
		}
		if isLenOf(v, x.X) {
			return true
		}
		return false
	}
	nn := func(v ssa.Value) bool {
		if nonNegative(v) {
			return true
		}
		if sub, ok := lenMinus(v, x.X); ok { // len(s) - c >= 0 when c <= len(s) is guarded
			if k, isK := ConstInt(sub); isK && k <= minLen {
				return true
			}
			for _, g := range geq {
				if sameSSA(g, sub) {
					return true
				}
			}
		}
		k, ok := lowerBoundGuard(b, v)
		return ok && k >= 0
	}
	lowOK := x.Low == nil || (nn(x.Low) && ge(x.Low))
	highOK := x.High == nil || (nn(x.High) && ge(x.High))
	// low <= high
	orderOK := true
	if x.Low != nil && x.High != nil {
		orderOK = false
		lo, okL := upperBoundVal(b, x.Low)
		if hk, okH := ConstInt(x.High); okH && okL && lo <= hk {
			orderOK = true
		}
		for _, g := range Guards(b) {
			a, isCmp := AtomOf(g)
			if isCmp && sameSSA(a.LV, x.Low) && sameSSA(a.RV, x.High) && (a.Op == "<=" || a.Op == "<") {
				orderOK = true
			}
			if isCmp && sameSSA(a.LV, x.High) && sameSSA(a.RV, x.Low) && (a.Op == ">=" || a.Op == ">") {
				orderOK = true
			}
		}
	}
	// slicing up to capacity of a fresh make / append result is not modelled: only len-based proofs
	if lowOK && highOK && orderOK {
		return fmt.Sprintf("slice bounds within guarded length >= %d", minLen)
	}
	return ""
}
