package core

import (
	"fmt"
	"go/token"
	"go/types"
	"strings"

	"golang.org/x/tools/go/ssa"
)

// BoundSite is one instruction that can panic with an out-of-range error.
type BoundSite struct {
	Fn   *ssa.Function
	In   ssa.Instruction
	Kind string // index, slice, make
}

// BoundSites lists the index/slice/make obligations of fn.
func BoundSites(fn *ssa.Function) []BoundSite {
	var out []BoundSite
	EachInstr(fn, func(in ssa.Instruction) {
		switch x := in.(type) {
		case *ssa.IndexAddr:
			out = append(out, BoundSite{fn, in, "index"})
		case *ssa.Index:
			if _, isMap := x.X.Type().Underlying().(*types.Map); !isMap {
				out = append(out, BoundSite{fn, in, "index"})
			}
		case *ssa.Slice:
			if x.Low != nil || x.High != nil || x.Max != nil {
				out = append(out, BoundSite{fn, in, "slice"})
			}
		case *ssa.MakeSlice:
			_, lenC := ConstInt(x.Len)
			_, capC := ConstInt(x.Cap)
			if !lenC || !capC {
				out = append(out, BoundSite{fn, in, "make"})
			}
		case *ssa.BinOp:
			// integer division by a non-constant: panics when the divisor is zero
			if x.Op == token.QUO || x.Op == token.REM {
				if bt, ok := x.Type().Underlying().(*types.Basic); ok && bt.Info()&types.IsInteger != 0 {
					if _, isC := ConstInt(x.Y); !isC {
						out = append(out, BoundSite{fn, in, "div"})
					}
				}
			}
		}
	})
	return out
}

// lenOfValue: v is len(s) (possibly converted) of the given slice/array value.
func isLenOf(v, s ssa.Value) bool {
	v = stripAll(v)
	call, ok := v.(*ssa.Call)
	if !ok {
		return false
	}
	b, ok := call.Call.Value.(*ssa.Builtin)
	if !ok || b.Name() != "len" {
		return false
	}
	return sameSSA(call.Call.Args[0], s)
}

func stripAll(v ssa.Value) ssa.Value {
	for {
		v = StripConv(v)
		if c, ok := v.(*ssa.Convert); ok {
			v = c.X
			continue
		}
		return v
	}
}

func sameSSA(a, b ssa.Value) bool {
	a, b = stripAll(a), stripAll(b)
	if a == b {
		return true
	}
	// two loads of the same cell / field with the same access path and no store in between in the same block
	la, ok1 := a.(*ssa.UnOp)
	lb, ok2 := b.(*ssa.UnOp)
	if ok1 && ok2 && la.Op == token.MUL && lb.Op == token.MUL && Path(la.X) == Path(lb.X) && !strings.HasPrefix(Path(la.X), "%") {
		return true
	}
	// s[:] of the same value
	if x, ok := a.(*ssa.Slice); ok && x.Low == nil && x.High == nil {
		return sameSSA(x.X, b)
	}
	if x, ok := b.(*ssa.Slice); ok && x.Low == nil && x.High == nil {
		return sameSSA(a, x.X)
	}
	return false
}

// inCallerFacts stops the caller-side inference from recursing into the callers' callers.
var inCallerFacts bool

// callerLenFacts: for a slice parameter of a function that only the module can call (unexported, or a closure), the
// minimum length every call site establishes for the argument, and the int parameters q of the same function for which
// every call site establishes len(arg) >= arg_q.
func callerLenFacts(par *ssa.Parameter) (minLen int64, geq []ssa.Value) {
	fn := par.Parent()
	if fn == nil || CallersOf == nil {
		return 0, nil
	}
	if o := fn.Object(); o != nil && o.Exported() {
		return 0, nil
	}
	if fn.Parent() == nil && fn.Object() == nil {
		return 0, nil
	}
	idx := -1
	for i, p := range fn.Params {
		if p == par {
			idx = i
		}
	}
	sites := CallersOf(fn)
	if idx < 0 || len(sites) == 0 {
		return 0, nil
	}
	inCallerFacts = true
	defer func() { inCallerFacts = false }()
	first := true
	okParam := map[int]bool{}
	for i, q := range fn.Params {
		if i != idx && isIntType(q.Type()) {
			okParam[i] = true
		}
	}
	for _, site := range sites {
		args := site.Common().Args
		if site.Common().IsInvoke() || len(args) != len(fn.Params) {
			return 0, nil
		}
		blk := site.Block()
		m, g := lenFacts(blk, args[idx])
		if first || m < minLen {
			minLen = m
		}
		first = false
		for i := range okParam {
			if !okParam[i] {
				continue
			}
			holds := false
			if k, isK := ConstInt(args[i]); isK && k <= m {
				holds = true
			}
			for _, v := range g {
				if sameSSA(v, args[i]) {
					holds = true
				}
			}
			if !holds {
				okParam[i] = false
			}
		}
	}
	for i, q := range fn.Params {
		if okParam[i] {
			geq = append(geq, q)
		}
	}
	return minLen, geq
}

// lowerBoundLen returns the largest constant k such that a dominating guard establishes
// len(s) >= k at block b, and the set of values x with a guard len(s) >= x.
func lenFacts(b *ssa.BasicBlock, s ssa.Value) (minLen int64, geq []ssa.Value) {
	minLen = 0
	for _, g := range Guards(b) {
		a, isCmp := AtomOf(g)
		if !isCmp {
			continue
		}
		l, r, op := a.LV, a.RV, a.Op
		if !isLenOf(l, s) {
			if isLenOf(r, s) {
				l, r, op = r, l, swapOp[op]
			} else {
				continue
			}
		}
		// len(s) op r
		if k, ok := ConstInt(r); ok {
			switch op {
			case ">=":
				if k > minLen {
					minLen = k
				}
			case ">":
				if k+1 > minLen {
					minLen = k + 1
				}
			case "==":
				if k > minLen {
					minLen = k
				}
			case "!=":
				if k == 0 && minLen < 1 {
					minLen = 1
				}
			}
			continue
		}
		switch op {
		case ">=", "==":
			geq = append(geq, r)
			// len(s) == c*v or >= c*v with c >= 1 and v >= 0 implies len(s) >= v
			if bo, ok := stripAll(r).(*ssa.BinOp); ok && bo.Op == token.MUL {
				if k, isK := ConstInt(bo.X); isK && k >= 1 && nonNegative(bo.Y) {
					geq = append(geq, bo.Y)
				}
				if k, isK := ConstInt(bo.Y); isK && k >= 1 && nonNegative(bo.X) {
					geq = append(geq, bo.X)
				}
			}
		case ">":
			geq = append(geq, r)
		}
	}
	// a slice parameter of an unexported function: what every call site in the module establishes for its argument
	// (the guard stayed in the caller when the access was extracted into a helper)
	if par, ok := stripAll(s).(*ssa.Parameter); ok && !inCallerFacts {
		if m, g := callerLenFacts(par); m > minLen || len(g) > 0 {
			if m > minLen {
				minLen = m
			}
			geq = append(geq, g...)
		}
	}
	// a slice of known provenance: make([]T, k), literal arrays
	switch x := stripAll(s).(type) {
	case *ssa.MakeSlice:
		if k, ok := ConstInt(x.Len); ok && k > minLen {
			minLen = k
		}
		geq = append(geq, x.Len) // len(make([]T, n)) == n
		if bo, ok := stripAll(x.Len).(*ssa.BinOp); ok && bo.Op == token.ADD {
			if k, ok := ConstInt(bo.X); ok && nonNegative(bo.Y) && k > minLen {
				minLen = k
			}
			if k, ok := ConstInt(bo.Y); ok && nonNegative(bo.X) && k > minLen {
				minLen = k
			}
		}
	case *ssa.Call:
		// append(x, y...) has at least len(x)+len(y) elements
		if bi, ok := x.Call.Value.(*ssa.Builtin); ok && bi.Name() == "append" && len(x.Call.Args) == 2 {
			m0, _ := lenFacts(b, x.Call.Args[0])
			m1, _ := lenFacts(b, x.Call.Args[1])
			if m0+m1 > minLen {
				minLen = m0 + m1
			}
		}
	case *ssa.Extract:
		// contract: (*websocket.Conn).read(n) returns exactly n bytes when its error is nil
		if call, ok := x.Tuple.(*ssa.Call); ok && x.Index == 0 && call.Call.StaticCallee() != nil && QualName(call.Call.StaticCallee()) == "websocket.(*Conn).read" {
			if k, ok := ConstInt(call.Call.Args[1]); ok {
				for _, g := range Guards(b) {
					a, _ := AtomOf(g)
					if ex, isEx := a.LV.(*ssa.Extract); isEx && ex.Tuple == x.Tuple && ex.Index == 1 && a.Op == "==" {
						if k > minLen {
							minLen = k
						}
					}
				}
			}
		}
	case *ssa.Slice:
		// arr[:] of a fixed-size array
		if pt, ok := x.X.Type().Underlying().(*types.Pointer); ok && x.Low == nil && x.High == nil {
			if at, ok := pt.Elem().Underlying().(*types.Array); ok && at.Len() > minLen {
				minLen = at.Len()
			}
		}
		// s[lo:] / s[:hi] with constant bounds of something with known facts
		if lo, ok := constOrNil(x.Low); ok && x.High == nil {
			m, _ := lenFacts(b, x.X)
			if m-lo > minLen {
				minLen = m - lo
			}
		}
		if hi, ok := ConstInt(x.High); ok && x.High != nil {
			lo, okLo := constOrNil(x.Low)
			if okLo && hi-lo > minLen {
				minLen = hi - lo
			}
		}
	}
	return
}

func constOrNil(v ssa.Value) (int64, bool) {
	if v == nil {
		return 0, true
	}
	return ConstInt(v)
}

// upperBoundVal returns a constant upper bound of an integer value from its type, masks and guards.
func upperBoundVal(b *ssa.BasicBlock, v ssa.Value) (int64, bool) {
	v0 := v
	v = stripAll(v)
	if k, ok := ConstInt(v); ok {
		return k, true
	}
	best := int64(-1)
	set := func(k int64) {
		if best < 0 || k < best {
			best = k
		}
	}
	if bo, ok := v.(*ssa.BinOp); ok {
		switch bo.Op {
		case token.AND:
			if k, ok := ConstInt(bo.Y); ok && k >= 0 {
				set(k)
			}
			if k, ok := ConstInt(bo.X); ok && k >= 0 {
				set(k)
			}
		case token.REM:
			if k, ok := ConstInt(bo.Y); ok && k > 0 {
				set(k - 1)
			}
		case token.SHR:
			if k, ok := ConstInt(bo.Y); ok {
				if bt, ok := bo.X.Type().Underlying().(*types.Basic); ok && bt.Info()&types.IsUnsigned != 0 {
					set((int64(1) << uint(intBits(bt)-int(k))) - 1)
				}
			}
		}
	}
	if bt, ok := v.Type().Underlying().(*types.Basic); ok && bt.Info()&types.IsUnsigned != 0 && intBits(bt) < 32 {
		set((int64(1) << uint(intBits(bt))) - 1)
	}
	for _, g := range Guards(b) {
		a, isCmp := AtomOf(g)
		if !isCmp {
			continue
		}
		if sameSSA(a.LV, v0) {
			if k, ok := ConstInt(a.RV); ok {
				switch a.Op {
				case "<":
					set(k - 1)
				case "<=", "==":
					set(k)
				}
			}
			// i < len(c) for a collection of exactly known length
			if a.Op == "<" {
				if call, ok := stripAll(a.RV).(*ssa.Call); ok {
					if bi, ok := call.Call.Value.(*ssa.Builtin); ok && bi.Name() == "len" {
						if n, ok := exactLen(call.Call.Args[0]); ok && n >= 1 {
							set(n - 1)
						}
					}
				}
			}
		}
	}
	// the index of `for i := range c` over a collection of exactly known length
	if c := rangeCollection(v); c != nil {
		if n, ok := exactLen(c); ok && n >= 1 {
			set(n - 1)
		}
	}
	return best, best >= 0
}

func nonNegative(v ssa.Value) bool { return nonNeg(v, map[ssa.Value]bool{}) }

// NonNegative reports whether v is provably >= 0 from types, construction and field invariants.
func NonNegative(v ssa.Value) bool { return nonNegative(v) }

func nonNeg(v ssa.Value, seen map[ssa.Value]bool) bool {
	if rangeCollection(stripAll(v)) != nil {
		return true // the index of a range loop: phi(-1, i)+1 tested against len(collection)
	}
	v = StripConv(v) // widening conversions keep the value
	if seen[v] {
		return true // coinductive: a cycle through sign-preserving operations
	}
	seen[v] = true
	if k, ok := ConstInt(v); ok {
		return k >= 0
	}
	if bt, ok := v.Type().Underlying().(*types.Basic); ok && bt.Info()&types.IsUnsigned != 0 {
		return true
	}
	switch x := v.(type) {
	case *ssa.Call:
		if b, ok := x.Call.Value.(*ssa.Builtin); ok && (b.Name() == "len" || b.Name() == "cap" || b.Name() == "copy") {
			return true
		}
		// a call all of whose possible module callees return non-negative values on every path
		if CalleesOfSite != nil && x.Type() != nil {
			if bt, ok := x.Type().Underlying().(*types.Basic); ok && bt.Info()&types.IsInteger != 0 {
				cs := CalleesOfSite(x)
				okAll := len(cs) > 0
				for _, f := range cs {
					if !InModule(f) || f.Blocks == nil {
						okAll = false
						break
					}
					for _, r := range Returns(f) {
						if len(r.Results) != 1 || !nonNeg(r.Results[0], seen) {
							okAll = false
						}
					}
				}
				if okAll {
					return true
				}
			}
		}
	case *ssa.BinOp:
		switch x.Op {
		case token.AND:
			return nonNeg(x.X, seen) || nonNeg(x.Y, seen)
		case token.ADD, token.MUL, token.SHR, token.QUO, token.REM, token.OR:
			return nonNeg(x.X, seen) && nonNeg(x.Y, seen)
		}
	case *ssa.Phi:
		// loop induction: phi(init >= 0, phi + positive const)
		ok := true
		for _, e := range x.Edges {
			if bo, isB := stripAll(e).(*ssa.BinOp); isB && bo.Op == token.ADD && stripAll(bo.X) == ssa.Value(x) {
				if k, isK := ConstInt(bo.Y); isK && k >= 0 {
					continue
				}
			}
			if e == ssa.Value(x) {
				continue
			}
			if !nonNeg(e, seen) {
				ok = false
			}
		}
		return ok
	case *ssa.Convert:
		// a non-widening conversion: to unsigned is caught above; unsigned -> signed of the same or a smaller size keeps
		// the value only when it fits, i.e. when a bound below the sign bit is known
		fb, ok1 := x.X.Type().Underlying().(*types.Basic)
		tb, ok2 := x.Type().Underlying().(*types.Basic)
		if ok1 && ok2 && fb.Info()&types.IsInteger != 0 && tb.Info()&types.IsInteger != 0 {
			if ub, ok := upperBoundVal(x.Block(), x.X); ok && nonNeg(x.X, seen) && intBits(tb) <= 64 && (intBits(tb) == 64 || ub < int64(1)<<uint(intBits(tb)-1)) {
				return true
			}
		}
		return false
	case *ssa.Field:
		return structFieldNonNeg(x.X.Type(), x.Field, seen)
	case *ssa.Parameter:
		return paramNonNeg(x, seen)
	case *ssa.UnOp:
		// load of an unexported struct field every store to which is non-negative (configuration such as tag sizes)
		if fa, ok := x.X.(*ssa.FieldAddr); ok && x.Op == token.MUL {
			return fieldNonNeg(fa, seen)
		}
	}
	return false
}

// CalleesOfSite is installed by Load: the possible callees (VTA) of a call site.
var CalleesOfSite func(site ssa.CallInstruction) []*ssa.Function

// CallersOf is installed by Load: the call sites (VTA) of a module function.
var CallersOf func(fn *ssa.Function) []ssa.CallInstruction

// paramNonNeg: an integer parameter of a module function is non-negative when every call site in the module passes a
// non-negative value (the analysed entry points are the module's own callers).
func paramNonNeg(p *ssa.Parameter, seen map[ssa.Value]bool) bool {
	fn := p.Parent()
	if fn == nil || CallersOf == nil {
		return false
	}
	idx := -1
	for i, q := range fn.Params {
		if q == p {
			idx = i
		}
	}
	sites := CallersOf(fn)
	if idx < 0 || len(sites) == 0 {
		return false
	}
	for _, site := range sites {
		c := site.Common()
		args := c.Args
		if c.IsInvoke() {
			// receiver is not in Args for invoke calls; parameter 0 of the method is the receiver
			if idx == 0 {
				return false
			}
			if idx-1 >= len(args) {
				return false
			}
			if !nonNeg(args[idx-1], seen) {
				return false
			}
			continue
		}
		if idx >= len(args) || !nonNeg(args[idx], seen) {
			return false
		}
	}
	return true
}

// fieldInvariantFuncs is the set of functions searched for stores to a field (set by Load: all module functions).
var fieldInvariantFuncs []*ssa.Function

func fieldOf(fa *ssa.FieldAddr) *types.Var {
	pt, ok := fa.X.Type().Underlying().(*types.Pointer)
	if !ok {
		return nil
	}
	st, ok := pt.Elem().Underlying().(*types.Struct)
	if !ok {
		return nil
	}
	return st.Field(fa.Field)
}

// fieldNonNeg: the field is unexported, its address never escapes, and every store to it anywhere in the module
// stores a non-negative value (the zero value of a fresh struct is 0).
func structFieldNonNeg(t types.Type, idx int, seen map[ssa.Value]bool) bool {
	st, ok := t.Underlying().(*types.Struct)
	if !ok || idx >= st.NumFields() {
		return false
	}
	return fieldVarNonNeg(st.Field(idx), seen)
}

func fieldNonNeg(fa *ssa.FieldAddr, seen map[ssa.Value]bool) bool {
	return fieldVarNonNeg(fieldOf(fa), seen)
}

func fieldVarNonNeg(f *types.Var, seen map[ssa.Value]bool) bool {
	if f == nil || f.Exported() || len(fieldInvariantFuncs) == 0 {
		return false
	}
	for _, fn := range fieldInvariantFuncs {
		if fn.Pkg == nil || fn.Pkg.Pkg != f.Pkg() {
			continue
		}
		ok := true
		EachInstr(fn, func(in ssa.Instruction) {
			a, isFA := in.(*ssa.FieldAddr)
			if !isFA || fieldOf(a) != f {
				return
			}
			for _, r := range *a.Referrers() {
				switch u := r.(type) {
				case *ssa.Store:
					if u.Addr != ssa.Value(a) || !nonNeg(u.Val, seen) {
						ok = false
					}
				case *ssa.UnOp:
					if u.Op != token.MUL {
						ok = false
					}
				case *ssa.DebugRef:
				default:
					ok = false
				}
			}
		})
		if !ok {
			return false
		}
	}
	return true
}

// ProveBound tries to discharge one bounds obligation from dominating guards, type ranges,
// masks and loop guards. It returns the reason, or "" when unproven.
func ProveBound(site BoundSite) string {
	b := site.In.Block()
	switch x := site.In.(type) {
	case *ssa.IndexAddr:
		return proveIndex(b, x.X, x.Index)
	case *ssa.Index:
		return proveIndex(b, x.X, x.Index)
	case *ssa.MakeSlice:
		// both sizes: not negative, and not an unbounded value taken from the input (a huge size panics in makeslice or
		// exhausts memory): bounded by a constant, a narrow integer type, or the length of data already in memory
		why := ""
		for _, sz := range []ssa.Value{x.Len, x.Cap} {
			if _, isC := ConstInt(sz); isC {
				continue
			}
			lo := ""
			switch {
			case nonNegative(sz):
				lo = "non-negative by construction"
			default:
				if k, ok := lowerBoundGuard(b, sz); ok && k >= 0 {
					lo = fmt.Sprintf("guarded >= %d", k)
				} else if k, ok := lowerBoundExpr(b, sz, 0); ok && k >= 0 {
					lo = fmt.Sprintf(">= %d by arithmetic on guarded lengths", k)
				}
			}
			if lo == "" {
				return ""
			}
			hi := boundedAbove(b, sz, map[ssa.Value]bool{}, 0)
			if hi == "" {
				return ""
			}
			why = "size " + lo + ", " + hi
		}
		return why
	case *ssa.Slice:
		return proveSlice(b, x)
	case *ssa.BinOp:
		if x.Op == token.QUO || x.Op == token.REM {
			return provePositive(b, x.Y)
		}
	}
	return ""
}

// MaxAlloc is the largest constant size accepted for an allocation whose size derives from the input.
const MaxAlloc = int64(1) << 32

// boundedAbove: v cannot be an arbitrarily large value chosen by the input: it is at most a constant <= 2^32, fits a
// narrow integer type, or is at most (a small multiple of) the length of data already held in memory.
func boundedAbove(b *ssa.BasicBlock, v ssa.Value, seen map[ssa.Value]bool, d int) string {
	if d > 10 {
		return ""
	}
	v = StripConv(v)
	if seen[v] {
		return "cyclic" // coinductive: a cycle through bounded operations
	}
	seen[v] = true
	if k, ok := ConstInt(v); ok {
		if k <= MaxAlloc {
			return "constant"
		}
		return ""
	}
	if bt, ok := v.Type().Underlying().(*types.Basic); ok && bt.Info()&types.IsInteger != 0 && intBits(bt) <= 32 {
		return "fits " + bt.Name()
	}
	if ub, ok := upperBoundVal(b, v); ok && ub <= MaxAlloc {
		return fmt.Sprintf("at most %d", ub)
	}
	// a dominating guard v <= w / v < w with w bounded
	for _, g := range Guards(b) {
		a, isCmp := AtomOf(g)
		if !isCmp {
			continue
		}
		if sameSSA(a.LV, v) && (a.Op == "<" || a.Op == "<=") && a.RV != nil {
			if w := boundedAbove(b, a.RV, seen, d+1); w != "" {
				return "guarded by a bounded value (" + w + ")"
			}
		}
		if sameSSA(a.RV, v) && (a.Op == ">" || a.Op == ">=") && a.LV != nil {
			if w := boundedAbove(b, a.LV, seen, d+1); w != "" {
				return "guarded by a bounded value (" + w + ")"
			}
		}
	}
	all := func(vs ...ssa.Value) string {
		w := ""
		for _, x := range vs {
			if w = boundedAbove(b, x, seen, d+1); w == "" {
				return ""
			}
		}
		return w
	}
	switch x := v.(type) {
	case *ssa.Call:
		if bi, ok := x.Call.Value.(*ssa.Builtin); ok && (bi.Name() == "len" || bi.Name() == "cap" || bi.Name() == "copy") {
			return "length of data in memory"
		}
		if x.Call.IsInvoke() {
			switch x.Call.Method.Name() {
			case "BlockSize", "Size", "NonceSize", "Overhead", "Len":
				return "size reported by a standard-library object"
			}
		}
		if CalleesOfSite != nil {
			cs := CalleesOfSite(x)
			okAll := len(cs) > 0
			for _, f := range cs {
				if !InModule(f) || f.Blocks == nil {
					okAll = false
					break
				}
				for _, r := range Returns(f) {
					if len(r.Results) < 1 || boundedAbove(r.Block(), r.Results[0], seen, d+1) == "" {
						okAll = false
					}
				}
			}
			if okAll {
				return "every callee returns a bounded value"
			}
		}
	case *ssa.BinOp:
		switch x.Op {
		case token.ADD:
			return all(x.X, x.Y)
		case token.SUB, token.QUO, token.REM, token.SHR:
			return all(x.X)
		case token.MUL:
			if k, ok := ConstInt(x.Y); ok && k <= 1<<16 {
				return all(x.X)
			}
			if k, ok := ConstInt(x.X); ok && k <= 1<<16 {
				return all(x.Y)
			}
		case token.AND:
			if w := boundedAbove(b, x.X, seen, d+1); w != "" {
				return w
			}
			return boundedAbove(b, x.Y, seen, d+1)
		}
	case *ssa.Phi:
		return all(x.Edges...)
	case *ssa.Convert:
		return all(x.X)
	case *ssa.UnOp:
		if fa, ok := x.X.(*ssa.FieldAddr); ok && x.Op == token.MUL {
			if fieldVarAll(fieldOf(fa), func(val ssa.Value, at *ssa.BasicBlock) bool { return boundedAbove(at, val, seen, d+1) != "" }) {
				return "every store to the field is bounded"
			}
		}
	case *ssa.Field:
		if st, ok := x.X.Type().Underlying().(*types.Struct); ok && x.Field < st.NumFields() {
			if fieldVarAll(st.Field(x.Field), func(val ssa.Value, at *ssa.BasicBlock) bool { return boundedAbove(at, val, seen, d+1) != "" }) {
				return "every store to the field is bounded"
			}
		}
	case *ssa.Parameter:
		if CallersOf != nil && x.Parent() != nil {
			sites := CallersOf(x.Parent())
			idx := -1
			for i, q := range x.Parent().Params {
				if q == x {
					idx = i
				}
			}
			okAll := len(sites) > 0 && idx >= 0
			for _, site := range sites {
				c := site.Common()
				args := c.Args
				j := idx
				if c.IsInvoke() {
					j = idx - 1
				}
				if j < 0 || j >= len(args) || boundedAbove(site.Block(), args[j], seen, d+1) == "" {
					okAll = false
				}
			}
			if okAll {
				return "every caller in the module passes a bounded value"
			}
		}
	}
	return ""
}

// fieldVarAll: the field is unexported, its address never escapes, and pred holds for every value stored to it
// anywhere in the module.
func fieldVarAll(f *types.Var, pred func(val ssa.Value, at *ssa.BasicBlock) bool) bool {
	if f == nil || f.Exported() || len(fieldInvariantFuncs) == 0 {
		return false
	}
	for _, fn := range fieldInvariantFuncs {
		if fn.Pkg == nil || fn.Pkg.Pkg != f.Pkg() {
			continue
		}
		ok := true
		EachInstr(fn, func(in ssa.Instruction) {
			a, isFA := in.(*ssa.FieldAddr)
			if !isFA || fieldOf(a) != f {
				return
			}
			for _, r := range *a.Referrers() {
				switch u := r.(type) {
				case *ssa.Store:
					if u.Addr != ssa.Value(a) || !pred(u.Val, u.Block()) {
						ok = false
					}
				case *ssa.UnOp:
					if u.Op != token.MUL {
						ok = false
					}
				case *ssa.DebugRef:
				default:
					ok = false
				}
			}
		})
		if !ok {
			return false
		}
	}
	return true
}

// lowerBoundExpr: a constant lower bound of an integer expression over guarded lengths: len(s), x+c, x-c, x*c, x/c.
func lowerBoundExpr(b *ssa.BasicBlock, v ssa.Value, d int) (int64, bool) {
	if d > 8 {
		return 0, false
	}
	v = StripConv(v)
	if k, ok := ConstInt(v); ok {
		return k, true
	}
	best, found := int64(0), false
	set := func(k int64) {
		if !found || k > best {
			best, found = k, true
		}
	}
	if k, ok := lowerBoundGuard(b, v); ok {
		set(k)
	}
	if nonNegative(v) {
		set(0)
	}
	switch x := v.(type) {
	case *ssa.Call:
		if bi, ok := x.Call.Value.(*ssa.Builtin); ok && bi.Name() == "len" {
			m, _ := lenFacts(b, x.Call.Args[0])
			set(m)
		}
	case *ssa.BinOp:
		lx, okx := lowerBoundExpr(b, x.X, d+1)
		ky, isK := ConstInt(x.Y)
		switch x.Op {
		case token.ADD:
			if ly, oky := lowerBoundExpr(b, x.Y, d+1); okx && oky {
				set(lx + ly)
			}
		case token.SUB:
			if okx && isK {
				set(lx - ky)
			}
		case token.MUL:
			if okx && isK && ky >= 0 && lx >= 0 {
				set(lx * ky)
			}
		case token.QUO:
			if okx && isK && ky > 0 && lx >= 0 {
				set(lx / ky)
			}
		}
	}
	return best, found
}

// provePositive: the divisor of an integer division is never zero.
func provePositive(b *ssa.BasicBlock, v ssa.Value) string {
	if k, ok := lowerBoundExpr(b, v, 0); ok && k >= 1 {
		return fmt.Sprintf("divisor >= %d", k)
	}
	for _, g := range Guards(b) {
		a, isCmp := AtomOf(g)
		if isCmp && sameSSA(a.LV, v) {
			if k, ok := ConstInt(a.RV); ok && ((a.Op == "!=" && k == 0) || (a.Op == ">" && k >= 0)) {
				return "divisor tested against zero"
			}
		}
	}
	switch x := StripConv(v).(type) {
	case *ssa.Call:
		// crypto/cipher.Block.BlockSize, hash.Hash.Size/BlockSize, cipher.AEAD.NonceSize: positive by their documentation
		if x.Call.IsInvoke() {
			switch x.Call.Method.Name() {
			case "BlockSize", "Size":
				if pk := x.Call.Method.Pkg(); pk != nil && (pk.Path() == "crypto/cipher" || pk.Path() == "hash") {
					return "block/digest size of a standard-library cipher or hash (positive)"
				}
			}
		}
	case *ssa.Parameter:
		if CallersOf != nil {
			sites := CallersOf(x.Parent())
			idx := -1
			for i, q := range x.Parent().Params {
				if q == x {
					idx = i
				}
			}
			ok := len(sites) > 0 && idx >= 0
			for _, site := range sites {
				c := site.Common()
				if c.IsInvoke() || idx >= len(c.Args) || provePositive(site.Block(), c.Args[idx]) == "" {
					ok = false
				}
			}
			if ok {
				return "every caller in the module passes a positive value"
			}
		}
	}
	return ""
}

func lowerBoundGuard(b *ssa.BasicBlock, v ssa.Value) (int64, bool) {
	best, found := int64(0), false
	for _, g := range Guards(b) {
		a, isCmp := AtomOf(g)
		if !isCmp || !sameSSA(a.LV, v) {
			continue
		}
		if k, ok := ConstInt(a.RV); ok {
			switch a.Op {
			case ">=", "==":
				if !found || k > best {
					best, found = k, true
				}
			case ">":
				if !found || k+1 > best {
					best, found = k+1, true
				}
			}
		}
	}
	if !found && !inCallerFacts {
		if k, ok := callerFieldLowerBound(v); ok {
			return k, true
		}
	}
	return best, found
}

// callerFieldLowerBound: v is the first read of a field of a pointer parameter (the receiver) in a function only the
// module calls, and every call site is guarded by a lower bound on that very field of its argument (the test stayed in
// the caller when the code was extracted): returns the smallest of those bounds.
func callerFieldLowerBound(v ssa.Value) (int64, bool) {
	ld, ok := stripAll(v).(*ssa.UnOp)
	if !ok || ld.Op != token.MUL || CallersOf == nil {
		return 0, false
	}
	fa, ok := ld.X.(*ssa.FieldAddr)
	if !ok {
		return 0, false
	}
	par, ok := fa.X.(*ssa.Parameter)
	if !ok {
		return 0, false
	}
	fn := par.Parent()
	if o := fn.Object(); o == nil || o.Exported() {
		return 0, false
	}
	// no store to the field in fn before the read
	field := fieldName(fa.X.Type(), fa.Field)
	clean := true
	mayRunBefore := func(in ssa.Instruction) bool {
		if in.Block() == ld.Block() {
			return InstrIndex(in) < InstrIndex(ld)
		}
		return ReachableBlocks(in.Block(), nil)[ld.Block()]
	}
	EachInstr(fn, func(in ssa.Instruction) {
		if st, ok := in.(*ssa.Store); ok {
			if fa2, ok := st.Addr.(*ssa.FieldAddr); ok && fa2.Field == fa.Field && fa2.X == fa.X && mayRunBefore(st) {
				clean = false
			}
		}
		// calls before the read could store to it as well
		if call, ok := in.(*ssa.Call); ok && mayRunBefore(call) {
			if _, isBuiltin := call.Call.Value.(*ssa.Builtin); !isBuiltin {
				clean = false
			}
		}
	})
	if !clean {
		return 0, false
	}
	idx := -1
	for i, p := range fn.Params {
		if p == par {
			idx = i
		}
	}
	sites := CallersOf(fn)
	if idx < 0 || len(sites) == 0 {
		return 0, false
	}
	inCallerFacts = true
	defer func() { inCallerFacts = false }()
	best, first := int64(0), true
	for _, site := range sites {
		args := site.Common().Args
		if site.Common().IsInvoke() || len(args) != len(fn.Params) {
			return 0, false
		}
		want := Path(args[idx]) + "." + field
		k, found := int64(0), false
		for _, a := range GuardAtoms(site.Block()) {
			if a.L != want {
				continue
			}
			c, isK := ConstInt(a.RV)
			if !isK {
				continue
			}
			switch a.Op {
			case ">=", "==":
				if !found || c > k {
					k, found = c, true
				}
			case ">":
				if !found || c+1 > k {
					k, found = c+1, true
				}
			}
		}
		if !found {
			return 0, false
		}
		// the guard's load must still be current at the call: no store to the field between guard and call is not
		// tracked here; the guard atoms are on loads that dominate the call (same limitation as every path-string guard)
		if first || k < best {
			best, first = k, false
		}
	}
	return best, !first
}

// lenMinus: v is len(s) - sub.
func lenMinus(v, s ssa.Value) (ssa.Value, bool) {
	bo, ok := stripAll(v).(*ssa.BinOp)
	if !ok || bo.Op != token.SUB || !isLenOf(bo.X, s) {
		return nil, false
	}
	return bo.Y, true
}

func containerLen(v ssa.Value) (int64, bool) {
	t := v.Type().Underlying()
	if p, ok := t.(*types.Pointer); ok {
		t = p.Elem().Underlying()
	}
	if a, ok := t.(*types.Array); ok {
		return a.Len(), true
	}
	return 0, false
}

func proveIndex(b *ssa.BasicBlock, s, idx ssa.Value) string {
	// fixed-size array
	if n, ok := containerLen(s); ok {
		if ub, okU := upperBoundVal(b, idx); okU && ub < n && nonNegative(idx) {
			return fmt.Sprintf("index <= %d < array length %d", ub, n)
		}
		return ""
	}
	minLen, geq := lenFacts(b, s)
	if ub, ok := upperBoundVal(b, idx); ok && nonNegative(idx) && ub < minLen {
		return fmt.Sprintf("index <= %d < guarded length >= %d", ub, minLen)
	}
	// s[len(s)-k] with a guarded len(s) >= k >= 1
	if sub, ok := lenMinus(idx, s); ok {
		if k, isK := ConstInt(sub); isK && k >= 1 && minLen >= k {
			return fmt.Sprintf("index len-%d with guarded length >= %d", k, minLen)
		}
	}
	// range-style loop: i < len(s) guard on the same values
	for _, g := range Guards(b) {
		a, isCmp := AtomOf(g)
		if !isCmp {
			continue
		}
		if sameSSA(a.LV, idx) && isLenOf(a.RV, s) && a.Op == "<" && nonNegative(idx) {
			return "loop guard index < len"
		}
		if isLenOf(a.LV, s) && sameSSA(a.RV, idx) && a.Op == ">" && nonNegative(idx) {
			return "loop guard len > index"
		}
	}
	// transitive: idx < V (guard) and len(s) >= V (guard or construction)
	for _, g := range Guards(b) {
		a, isCmp := AtomOf(g)
		if !isCmp || !nonNegative(idx) {
			continue
		}
		var bound ssa.Value
		if sameSSA(a.LV, idx) && a.Op == "<" {
			bound = a.RV
		} else if sameSSA(a.RV, idx) && a.Op == ">" {
			bound = a.LV
		}
		if bound == nil {
			continue
		}
		for _, v := range geq {
			if sameSSA(v, bound) {
				return "index < bound <= guarded length"
			}
		}
		if ms, ok := stripAll(s).(*ssa.MakeSlice); ok && sameSSA(ms.Len, bound) {
			return "index < length the slice was made with"
		}
	}
	// the index loop of a `range` statement: idx is phi(-1.., +1) compared with len taken once
	if rangeIndex(idx, s) {
		return "range loop index"
	}
	// a % n into a slice of n elements, a >= 0, n >= 1
	if bo, ok := stripAll(idx).(*ssa.BinOp); ok && bo.Op == token.REM {
		lo, okLo := lowerBoundExpr(b, bo.X, 0)
		if okLo && lo >= 0 && provePositive(b, bo.Y) != "" {
			if ms, ok := stripAll(s).(*ssa.MakeSlice); ok && sameSSA(ms.Len, bo.Y) {
				return "index a%n into a slice made with n elements (a >= 0, n >= 1)"
			}
			if isLenOf(bo.Y, s) {
				return "index a%len(s) (a >= 0, len(s) >= 1)"
			}
		}
	}
	// X.f[i] where i ranges over Y and every store to X.f in this function is make([]T, len(Y)) or an append to itself
	if why := rangeOverMadeField(b, idx, s); why != "" {
		return why
	}
	return ""
}

// rangeCollection: idx is the index of a `for i := range Y` loop; returns Y.
func rangeCollection(idx ssa.Value) ssa.Value {
	bo, ok := stripAll(idx).(*ssa.BinOp)
	if !ok || bo.Op != token.ADD {
		return nil
	}
	if _, ok := bo.X.(*ssa.Phi); !ok {
		return nil
	}
	if k, ok := ConstInt(bo.Y); !ok || k != 1 {
		return nil
	}
	if !countsUpFromMinusOne(bo) {
		return nil
	}
	for _, r := range *bo.Referrers() {
		if cmp, ok := r.(*ssa.BinOp); ok && cmp.Op == token.LSS && cmp.X == ssa.Value(bo) {
			if call, ok := stripAll(cmp.Y).(*ssa.Call); ok {
				if bi, ok := call.Call.Value.(*ssa.Builtin); ok && bi.Name() == "len" {
					return call.Call.Args[0]
				}
			}
		}
	}
	return nil
}

func rangeOverMadeField(at *ssa.BasicBlock, idx, s ssa.Value) string {
	y := rangeCollection(idx)
	if y == nil {
		return ""
	}
	ld, ok := stripAll(s).(*ssa.UnOp)
	if !ok || ld.Op != token.MUL {
		return ""
	}
	fa, ok := ld.X.(*ssa.FieldAddr)
	if !ok {
		return ""
	}
	path := Path(fa)
	if strings.HasPrefix(path, "%") {
		return ""
	}
	fn := ld.Parent()
	made := false
	okAll := true
	EachInstr(fn, func(in ssa.Instruction) {
		st, ok := in.(*ssa.Store)
		if !ok {
			return
		}
		a, isFA := st.Addr.(*ssa.FieldAddr)
		if !isFA || Path(a) != path {
			return
		}
		if st.Block() != at && !ReachableBlocks(st.Block(), nil)[at] {
			return // a store on a branch that never reaches the indexed use
		}
		switch v := stripAll(st.Val).(type) {
		case *ssa.MakeSlice:
			if isLenOf(v.Len, y) {
				made = true
				return
			}
		case *ssa.Call:
			if bi, ok := v.Call.Value.(*ssa.Builtin); ok && bi.Name() == "append" {
				if l0, ok := stripAll(v.Call.Args[0]).(*ssa.UnOp); ok && l0.Op == token.MUL && Path(l0.X) == path {
					return // grows only
				}
			}
		}
		okAll = false
	})
	// the struct literal form: the field is initialised inside a composite literal of a fresh allocation
	if made && okAll {
		return "the field was made with len(Y) elements (and only appended to), the index ranges over Y"
	}
	return ""
}

// rangeIndex recognises the SSA shape of `for i := range s`: i = phi(-1, i+1); i+1 < len(s).
func rangeIndex(idx, s ssa.Value) bool {
	bo, ok := stripAll(idx).(*ssa.BinOp)
	if !ok || bo.Op != token.ADD {
		return false
	}
	phi, ok := bo.X.(*ssa.Phi)
	if !ok {
		return false
	}
	if k, ok := ConstInt(bo.Y); !ok || k != 1 {
		return false
	}
	_ = phi
	if !countsUpFromMinusOne(bo) {
		return false
	}
	for _, r := range *bo.Referrers() {
		if cmp, ok := r.(*ssa.BinOp); ok && cmp.Op == token.LSS && cmp.X == ssa.Value(bo) && isLenOf(cmp.Y, s) {
			return true
		}
	}
	return false
}

// countsUpFromMinusOne: bo = phi + 1 where phi starts at a constant >= -1 and is otherwise bo itself (the shape of the
// index of `for i := range x`): bo >= 0 on every iteration.
func countsUpFromMinusOne(bo *ssa.BinOp) bool {
	phi, ok := bo.X.(*ssa.Phi)
	if !ok {
		return false
	}
	start, self := false, false
	for _, e := range phi.Edges {
		if k, isK := ConstInt(e); isK && k >= -1 {
			start = true
		} else if e == ssa.Value(bo) {
			self = true // the loop's back edges (end of body, continue)
		} else {
			return false
		}
	}
	return start && self
}

func proveSlice(b *ssa.BasicBlock, x *ssa.Slice) string {
	n, isArr := containerLen(x.X)
	minLen, geq := lenFacts(b, x.X)
	if isArr {
		minLen = n
	}
	ge := func(v ssa.Value) bool { // len(s) >= v ?
		if v == nil {
			return true
		}
		// n = copy(dst, src) <= len(dst), len(src)
		if call, ok := stripAll(v).(*ssa.Call); ok {
			if bi, ok := call.Call.Value.(*ssa.Builtin); ok && bi.Name() == "copy" {
				if sameSSA(call.Call.Args[0], x.X) || sameSSA(call.Call.Args[1], x.X) {
					return true
				}
			}
		}
		// len(s)/c <= len(s)
		if bo, ok := stripAll(v).(*ssa.BinOp); ok && bo.Op == token.QUO && isLenOf(bo.X, x.X) {
			if k, isK := ConstInt(bo.Y); isK && k >= 1 {
				return true
			}
		}
		if sub, ok := lenMinus(v, x.X); ok && nonNegative(sub) {
			return true // len(s) - c <= len(s) for c >= 0
		}
		if k, ok := upperBoundVal(b, v); ok && k <= minLen {
			return true
		}
		for _, g := range geq {
			if sameSSA(g, v) {
				return true
			}
		}
		if isLenOf(v, x.X) {
			return true
		}
		if scaledWithin(b, v, x.X) {
			return true
		}
		return false
	}
	nn := func(v ssa.Value) bool {
		if nonNegative(v) {
			return true
		}
		if sub, ok := lenMinus(v, x.X); ok { // len(s) - c >= 0 when c <= len(s) is guarded
			if k, isK := ConstInt(sub); isK && k <= minLen {
				return true
			}
			for _, g := range geq {
				if sameSSA(g, sub) {
					return true
				}
			}
		}
		k, ok := lowerBoundGuard(b, v)
		return ok && k >= 0
	}
	// the index of a `for i := range s` loop is within [0, len(s))
	rng := func(v ssa.Value) bool { return v != nil && rangeIndex(v, x.X) }
	sc := func(v ssa.Value) bool { return v != nil && scaledWithin(b, v, x.X) } // 0 <= M*(i+c) <= len
	lowOK := x.Low == nil || rng(x.Low) || sc(x.Low) || (nn(x.Low) && ge(x.Low))
	highOK := x.High == nil || rng(x.High) || sc(x.High) || (nn(x.High) && ge(x.High))
	// low <= high
	orderOK := true
	if x.Low != nil && x.High != nil {
		orderOK = false
		lo, okL := upperBoundVal(b, x.Low)
		if hk, okH := ConstInt(x.High); okH && okL && lo <= hk {
			orderOK = true
		}
		// high = low + n with n >= 0 (end := i + len(m))
		if bo, ok := stripAll(x.High).(*ssa.BinOp); ok && bo.Op == token.ADD {
			if (sameSSA(bo.X, x.Low) && nonNegative(bo.Y)) || (sameSSA(bo.Y, x.Low) && nonNegative(bo.X)) {
				orderOK = true
				// and then low <= high <= len: the low bound needs no proof of its own beyond being >= 0
				if highOK && nn(x.Low) {
					lowOK = true
				}
			}
		}
		for _, g := range Guards(b) {
			a, isCmp := AtomOf(g)
			if isCmp && sameSSA(a.LV, x.Low) && sameSSA(a.RV, x.High) && (a.Op == "<=" || a.Op == "<") {
				orderOK = true
			}
			if isCmp && sameSSA(a.LV, x.High) && sameSSA(a.RV, x.Low) && (a.Op == ">=" || a.Op == ">") {
				orderOK = true
			}
		}
	}
	// s[:n] under a dominating guard cap(s) >= n (slicing may extend up to the capacity)
	if x.Low == nil && x.High != nil && !isArr && nn(x.High) {
		for _, g := range Guards(b) {
			a, isCmp := AtomOf(g)
			if !isCmp {
				continue
			}
			isCap := func(v ssa.Value) bool {
				call, ok := stripAll(v).(*ssa.Call)
				if !ok {
					return false
				}
				bi, ok := call.Call.Value.(*ssa.Builtin)
				return ok && bi.Name() == "cap" && sameSSA(call.Call.Args[0], x.X)
			}
			if (isCap(a.LV) && sameSSA(a.RV, x.High) && a.Op == ">=") || (isCap(a.RV) && sameSSA(a.LV, x.High) && a.Op == "<=") {
				return "slice up to a guarded capacity"
			}
		}
	}
	if lowOK && highOK && orderOK {
		return fmt.Sprintf("slice bounds within guarded length >= %d", minLen)
	}
	return ""
}

// scaledWithin proves M*(i+c) <= len(s) for a block-wise cursor: i is a counter with 0 <= i < n (loop guard, or the
// index of a range over a slice made with n elements), and len(s) >= M*(n+c') with c' >= c because s was made with
// M*(n+c') elements, or because n was computed as len(s)/M - c' (then M*(n+c') <= len(s) by the floor).
func scaledWithin(b *ssa.BasicBlock, v, s ssa.Value) bool {
	mulParts := func(v ssa.Value) (ssa.Value, int64, bool) {
		bo, ok := stripAll(v).(*ssa.BinOp)
		if !ok || bo.Op != token.MUL {
			return nil, 0, false
		}
		if k, isK := ConstInt(bo.Y); isK && k >= 1 {
			return bo.X, k, true
		}
		if k, isK := ConstInt(bo.X); isK && k >= 1 {
			return bo.Y, k, true
		}
		return nil, 0, false
	}
	plusConst := func(v ssa.Value) (ssa.Value, int64) {
		if bo, ok := stripAll(v).(*ssa.BinOp); ok && bo.Op == token.ADD {
			if k, isK := ConstInt(bo.Y); isK && k >= 0 {
				return bo.X, k
			}
			if k, isK := ConstInt(bo.X); isK && k >= 0 {
				return bo.Y, k
			}
		}
		if bo, ok := stripAll(v).(*ssa.BinOp); ok && bo.Op == token.SUB {
			if k, isK := ConstInt(bo.Y); isK && k >= 0 {
				return bo.X, -k
			}
		}
		return v, 0
	}
	a, m, ok := mulParts(v)
	if !ok {
		return false
	}
	if rangeCollection(stripAll(a)) != nil {
		// the range index itself (phi+1 in SSA): not "counter + 1"
		return scaledWithinCounter(b, a, 0, m, s, mulParts, plusConst)
	}
	i, c := plusConst(a)
	return scaledWithinCounter(b, i, c, m, s, mulParts, plusConst)
}

func scaledWithinCounter(b *ssa.BasicBlock, i ssa.Value, c, m int64, s ssa.Value,
	mulParts func(ssa.Value) (ssa.Value, int64, bool), plusConst func(ssa.Value) (ssa.Value, int64)) bool {
	if c < 0 || !(nonNegative(i) || rangeCollection(stripAll(i)) != nil) {
		return false
	}
	// the counter's bound n
	var bounds []ssa.Value
	for _, g := range Guards(b) {
		at, isCmp := AtomOf(g)
		if !isCmp {
			continue
		}
		if sameSSA(at.LV, i) && at.Op == "<" {
			bounds = append(bounds, at.RV)
		} else if sameSSA(at.RV, i) && at.Op == ">" {
			bounds = append(bounds, at.LV)
		}
	}
	if coll := rangeCollection(stripAll(i)); coll != nil {
		if mk, ok := stripAll(coll).(*ssa.MakeSlice); ok {
			bounds = append(bounds, mk.Len)
		}
	} else {
		// i itself may be the phi of a range loop whose increment is tested against len(collection)
		if phi, ok := stripAll(i).(*ssa.Phi); ok {
			for _, r := range *phi.Referrers() {
				if inc, ok := r.(*ssa.BinOp); ok && inc.Op == token.ADD {
					if coll := rangeCollection(inc); coll != nil {
						if mk, ok := stripAll(coll).(*ssa.MakeSlice); ok {
							bounds = append(bounds, mk.Len)
						}
					}
				}
			}
		}
	}
	for _, n := range bounds {
		// len(s) >= m*(n+c') ?
		if mk, ok := stripAll(s).(*ssa.MakeSlice); ok {
			if la, lm, ok := mulParts(mk.Len); ok && lm == m {
				if sameSSA(la, n) && c == 0 {
					return true
				}
				ln, lc := plusConst(la)
				if sameSSA(ln, n) && lc >= c {
					return true
				}
			}
		}
		// n = len(s)/m - c'
		nn, nc := plusConst(n)
		if q, ok := stripAll(nn).(*ssa.BinOp); ok && q.Op == token.QUO && isLenOf(q.X, s) {
			if k, isK := ConstInt(q.Y); isK && k == m && -nc >= c {
				return true
			}
		}
	}
	return false
}

// exactLen: the length of a slice built with a constant number of elements (make with a constant, arr[:k], arr[:]).
func exactLen(v ssa.Value) (int64, bool) {
	switch x := stripAll(v).(type) {
	case *ssa.MakeSlice:
		return ConstInt(x.Len)
	case *ssa.Slice:
		lo, okLo := constOrNil(x.Low)
		if !okLo {
			return 0, false
		}
		if x.High != nil {
			if hi, ok := ConstInt(x.High); ok {
				return hi - lo, true
			}
			return 0, false
		}
		if pt, ok := x.X.Type().Underlying().(*types.Pointer); ok {
			if at, ok := pt.Elem().Underlying().(*types.Array); ok {
				return at.Len() - lo, true
			}
		}
	}
	return 0, false
}
