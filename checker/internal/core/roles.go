package core

// Roles.
//
// A few rules are anchored on an anonymous function ("json.NewCommentReader$1": the scanner's split function).  Such a
// name says where the function literal is written, not what it is: moving the literal into a constructor, or adding a
// closure in front of it, renames it without changing anything.  A role names the function by what it does -- found
// from the current source on every load -- and FuncName/QualName/Program.Func use the role's pinned name for it.

import (
	"fmt"
	"sync"

	"golang.org/x/tools/go/ssa"
)

// Role gives the function found by Find the display name Name in package Pkg.
type Role struct {
	Pkg, Name string
	What      string
	Find      func(p *Program) *ssa.Function
}

var (
	roleMu    sync.Mutex
	roles     []Role
	roleNames = map[*ssa.Function]string{} // function (and closures inside it) -> display name
	roleGone  = map[*ssa.Function]bool{}   // functions whose plain name was taken over by a role
)

// RegisterRole is called from rule packages' init.
func RegisterRole(r Role) { roles = append(roles, r) }

func (p *Program) applyRoles() {
	p.roleByName = map[string]*ssa.Function{}
	for _, r := range roles {
		f := r.Find(p)
		if f == nil {
			continue
		}
		plain := p.funcPlain(r.Pkg, r.Name)
		p.roleByName[r.Pkg+"|"+r.Name] = f
		if plain == f {
			continue
		}
		roleMu.Lock()
		if plain != nil {
			roleGone[plain] = true
		}
		var name func(g *ssa.Function, n string)
		name = func(g *ssa.Function, n string) {
			roleNames[g] = n
			for i, a := range g.AnonFuncs {
				name(a, fmt.Sprintf("%s$%d", n, i+1))
			}
		}
		name(f, r.Name)
		roleMu.Unlock()
		p.RoleMoves = append(p.RoleMoves, fmt.Sprintf("%s.%s (%s) is %s in this tree", r.Pkg, r.Name, r.What, f.RelString(pkgOf(f))))
	}
}

func (p *Program) roleFunc(pkg, name string) *ssa.Function {
	if f, ok := p.roleByName[pkg+"|"+name]; ok {
		return f
	}
	// closures inside a role function: "X$1$2" where "X$1" is a role
	for k, f := range p.roleByName {
		pre := k[len(pkg)+1:]
		if len(k) > len(pkg) && k[:len(pkg)+1] == pkg+"|" && len(name) > len(pre) && name[:len(pre)+1] == pre+"$" {
			g := f
			rest := name[len(pre)+1:]
			for rest != "" {
				var idx int
				n, _ := fmt.Sscanf(rest, "%d", &idx)
				if n != 1 || idx < 1 || idx > len(g.AnonFuncs) {
					return nil
				}
				g = g.AnonFuncs[idx-1]
				d := len(fmt.Sprint(idx))
				rest = rest[d:]
				if len(rest) > 0 && rest[0] == '$' {
					rest = rest[1:]
				}
			}
			return g
		}
	}
	return nil
}

func roleName(fn *ssa.Function) (string, bool) {
	roleMu.Lock()
	defer roleMu.Unlock()
	if n, ok := roleNames[fn]; ok {
		return n, true
	}
	if roleGone[fn] {
		return fn.RelString(pkgOf(fn)) + "~", true
	}
	return "", false
}

func roleDisplaced(fn *ssa.Function) bool {
	roleMu.Lock()
	defer roleMu.Unlock()
	return roleGone[fn]
}
