package core

import (
	"golang.org/x/tools/go/ssa"
)

// sccs computes the strongly connected components of fn's CFG (Tarjan); comp[b] is the
// component index, cyclic[i] reports whether component i contains a cycle.
func sccs(fn *ssa.Function) (comp map[*ssa.BasicBlock]int, cyclic []bool, order [][]*ssa.BasicBlock) {
	comp = map[*ssa.BasicBlock]int{}
	index := map[*ssa.BasicBlock]int{}
	low := map[*ssa.BasicBlock]int{}
	on := map[*ssa.BasicBlock]bool{}
	var stack []*ssa.BasicBlock
	n := 0
	var strong func(b *ssa.BasicBlock)
	strong = func(b *ssa.BasicBlock) {
		index[b], low[b] = n, n
		n++
		stack = append(stack, b)
		on[b] = true
		for _, s := range b.Succs {
			if _, ok := index[s]; !ok {
				strong(s)
				if low[s] < low[b] {
					low[b] = low[s]
				}
			} else if on[s] && index[s] < low[b] {
				low[b] = index[s]
			}
		}
		if low[b] == index[b] {
			var c []*ssa.BasicBlock
			for {
				x := stack[len(stack)-1]
				stack = stack[:len(stack)-1]
				on[x] = false
				comp[x] = len(order)
				c = append(c, x)
				if x == b {
					break
				}
			}
			cyc := len(c) > 1
			if !cyc {
				for _, s := range c[0].Succs {
					if s == c[0] {
						cyc = true
					}
				}
			}
			cyclic = append(cyclic, cyc)
			order = append(order, c)
		}
	}
	if len(fn.Blocks) > 0 {
		strong(fn.Blocks[0])
	}
	return
}

// InLoop reports whether block b lies on a cycle of its function's CFG.
func InLoop(b *ssa.BasicBlock) bool {
	comp, cyclic, _ := sccs(b.Parent())
	i, ok := comp[b]
	return ok && cyclic[i]
}

// PathCounts returns, for every Return of fn, the minimum and maximum number of marked
// instructions executed on a path from entry to that return. ok=false when a marked
// instruction lies in a loop (then the count is unbounded).
func PathCounts(fn *ssa.Function, marked func(ssa.Instruction) bool) (min, max map[*ssa.Return]int, ok bool) {
	min, max = map[*ssa.Return]int{}, map[*ssa.Return]int{}
	comp, cyclic, order := sccs(fn)
	ok = true
	weight := make([]int, len(order))
	for b, ci := range comp {
		for _, in := range b.Instrs {
			if marked(in) {
				if cyclic[ci] {
					ok = false
				}
				weight[ci]++
			}
		}
	}
	// Tarjan emits components in reverse topological order: process from the last (entry) down.
	const inf = 1 << 30
	cmin := make([]int, len(order))
	cmax := make([]int, len(order))
	reach := make([]bool, len(order))
	for i := range cmin {
		cmin[i] = inf
		cmax[i] = -1
	}
	if len(fn.Blocks) == 0 {
		return
	}
	e := comp[fn.Blocks[0]]
	cmin[e], cmax[e], reach[e] = 0, 0, true
	for ci := len(order) - 1; ci >= 0; ci-- {
		if !reach[ci] {
			continue
		}
		outMin, outMax := cmin[ci]+weight[ci], cmax[ci]+weight[ci]
		for _, b := range order[ci] {
			// within-block precision for returns: count marked instructions of the component
			for _, s := range b.Succs {
				sj := comp[s]
				if sj == ci {
					continue
				}
				reach[sj] = true
				if outMin < cmin[sj] {
					cmin[sj] = outMin
				}
				if outMax > cmax[sj] {
					cmax[sj] = outMax
				}
			}
			if len(b.Instrs) > 0 {
				if r, isRet := b.Instrs[len(b.Instrs)-1].(*ssa.Return); isRet {
					min[r], max[r] = outMin, outMax
				}
			}
		}
	}
	return
}

// MustPassThrough reports whether every path from block `from` to a Return executes an
// instruction satisfying `through`; it returns the position of an offending return otherwise.
func MustPassThrough(from *ssa.BasicBlock, through func(ssa.Instruction) bool, onlyReturn func(*ssa.Return) bool) (bool, *ssa.Return) {
	seen := map[*ssa.BasicBlock]bool{}
	var bad *ssa.Return
	var walk func(b *ssa.BasicBlock)
	walk = func(b *ssa.BasicBlock) {
		if seen[b] || bad != nil {
			return
		}
		seen[b] = true
		for _, in := range b.Instrs {
			if through(in) {
				return
			}
			if r, ok := in.(*ssa.Return); ok {
				if onlyReturn == nil || onlyReturn(r) {
					bad = r
				}
				return
			}
		}
		for _, s := range b.Succs {
			walk(s)
		}
	}
	walk(from)
	return bad == nil, bad
}
