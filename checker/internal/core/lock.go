package core

import (
	"go/token"
	"go/types"
	"sort"
	"strings"

	"golang.org/x/tools/go/ssa"
)

// LockSet is a set of lock tokens (TypedPath of the mutex / channel used as mutex).
// A token with suffix ":r" is a read lock.
type LockSet map[string]bool

func (l LockSet) clone() LockSet {
	o := LockSet{}
	for k := range l {
		o[k] = true
	}
	return o
}

func (l LockSet) Sorted() []string {
	var out []string
	for k := range l {
		out = append(out, k)
	}
	sort.Strings(out)
	return out
}

func intersect(a, b LockSet) LockSet {
	o := LockSet{}
	for k := range a {
		if b[k] {
			o[k] = true
		}
	}
	return o
}

func equalSet(a, b LockSet) bool {
	if len(a) != len(b) {
		return false
	}
	for k := range a {
		if !b[k] {
			return false
		}
	}
	return true
}

// LockInfo is the result of the must-hold analysis of one function.
type LockInfo struct {
	Fn    *ssa.Function
	In    map[*ssa.BasicBlock]LockSet
	Entry LockSet
	// Acquired / released tokens anywhere in the function, for reports.
	Acquires []string
}

func mutexMethod(c *ssa.CallCommon) (recv ssa.Value, name string) {
	f := c.StaticCallee()
	if f == nil || f.Signature.Recv() == nil || len(c.Args) == 0 {
		return nil, ""
	}
	rt := f.Signature.Recv().Type()
	if p, ok := rt.(*types.Pointer); ok {
		rt = p.Elem()
	}
	n, ok := rt.(*types.Named)
	if !ok || n.Obj().Pkg() == nil || n.Obj().Pkg().Path() != "sync" {
		return nil, ""
	}
	if n.Obj().Name() != "Mutex" && n.Obj().Name() != "RWMutex" {
		return nil, ""
	}
	return c.Args[0], f.Name()
}

// isChanMutex: a channel of capacity 1 used as a mutex is recognised by use, not by name:
// receive acquires, send releases.
func chanToken(v ssa.Value) (string, bool) {
	if _, ok := v.Type().Underlying().(*types.Chan); !ok {
		return "", false
	}
	p := TypedPath(v)
	if strings.HasPrefix(p, "%") {
		return "", false
	}
	return p, true
}

// transfer applies one instruction to the lockset. sel maps blocks that are the "case k chosen"
// successor of a select to the token acquired there.
func lockTransfer(in ssa.Instruction, held LockSet) {
	switch x := in.(type) {
	case *ssa.Call:
		// a module function that does nothing to the lockset but acquire or release a lock reachable from one of its
		// parameters on every path (l.acquire(), c.lockWrite()): the same effect on the caller's argument
		if f := x.Call.StaticCallee(); f != nil && InModule(f) && len(f.Blocks) > 0 {
			for _, ef := range lockEffectsOf(f) {
				if ef.param >= len(x.Call.Args) {
					continue
				}
				tok := TypedPath(x.Call.Args[ef.param]) + ef.suffix
				if strings.HasPrefix(tok, "%") {
					continue
				}
				if ef.acquire {
					held[tok] = true
				} else {
					delete(held, tok)
				}
			}
		}
		if recv, name := mutexMethod(&x.Call); recv != nil {
			tok := TypedPath(recv)
			switch name {
			case "Lock":
				held[tok] = true
			case "RLock":
				held[tok+":r"] = true
			case "Unlock":
				delete(held, tok)
			case "RUnlock":
				delete(held, tok+":r")
			}
		}
	case *ssa.UnOp:
		if x.Op == token.ARROW {
			if tok, ok := chanToken(x.X); ok {
				held[tok] = true
			}
		}
	case *ssa.Send:
		if tok, ok := chanToken(x.Chan); ok {
			delete(held, tok)
		}
	}
}

// selectAcquire: if block b is entered only through `if extract(select,#0) == k` true edge and
// state k of the select is a receive on a channel token, that token is acquired at b's entry.
func selectAcquire(b *ssa.BasicBlock) (string, bool) {
	if len(b.Preds) != 1 {
		return "", false
	}
	d := b.Preds[0]
	iff, ok := d.Instrs[len(d.Instrs)-1].(*ssa.If)
	if !ok || d.Succs[0] != b {
		return "", false
	}
	bo, ok := iff.Cond.(*ssa.BinOp)
	if !ok || bo.Op != token.EQL {
		return "", false
	}
	ex, ok := bo.X.(*ssa.Extract)
	if !ok || ex.Index != 0 {
		return "", false
	}
	sel, ok := ex.Tuple.(*ssa.Select)
	if !ok {
		return "", false
	}
	k, ok := ConstInt(bo.Y)
	if !ok || int(k) >= len(sel.States) {
		return "", false
	}
	st := sel.States[k]
	if st.Dir != types.RecvOnly {
		return "", false
	}
	return chanToken(st.Chan)
}

// LockAnalysis computes the must-hold lockset at the entry of every block of fn.
func (p *Program) LockAnalysis(fn *ssa.Function, entry LockSet) *LockInfo {
	return p.lockAnalysis(fn, entry, false)
}

// MayLockAnalysis computes the may-hold lockset (held on at least one path) at the entry of every block of fn: the
// question "can this call run while the lock is held", where the must-hold analysis answers "is it always held".
func (p *Program) MayLockAnalysis(fn *ssa.Function, entry LockSet) *LockInfo {
	return p.lockAnalysis(fn, entry, true)
}

func (p *Program) lockAnalysis(fn *ssa.Function, entry LockSet, may bool) *LockInfo {
	li := &LockInfo{Fn: fn, In: map[*ssa.BasicBlock]LockSet{}, Entry: entry}
	if len(fn.Blocks) == 0 {
		return li
	}
	out := map[*ssa.BasicBlock]LockSet{}
	li.In[fn.Blocks[0]] = entry.clone()
	work := []*ssa.BasicBlock{fn.Blocks[0]}
	inWork := map[*ssa.BasicBlock]bool{fn.Blocks[0]: true}
	for len(work) > 0 {
		b := work[0]
		work = work[1:]
		inWork[b] = false
		held := li.In[b].clone()
		if tok, ok := selectAcquire(b); ok {
			held[tok] = true
		}
		for _, in := range b.Instrs {
			lockTransfer(in, held)
		}
		if o, ok := out[b]; ok && equalSet(o, held) {
			continue
		}
		out[b] = held
		for _, s := range b.Succs {
			var ns LockSet
			first := true
			for _, pr := range s.Preds {
				po, ok := out[pr]
				if !ok {
					continue // unvisited predecessor = top
				}
				if first {
					ns = po.clone()
					first = false
				} else if may {
					for k := range po {
						ns[k] = true
					}
				} else {
					ns = intersect(ns, po)
				}
			}
			if ns == nil {
				ns = LockSet{}
			}
			if old, ok := li.In[s]; !ok || !equalSet(old, ns) {
				li.In[s] = ns
				if !inWork[s] {
					work = append(work, s)
					inWork[s] = true
				}
			}
		}
	}
	return li
}

// HeldAt returns the must-hold lockset immediately before instruction in.
func (li *LockInfo) HeldAt(in ssa.Instruction) LockSet {
	b := in.Block()
	held, ok := li.In[b]
	if !ok {
		return LockSet{} // unreachable block
	}
	held = held.clone()
	if tok, ok := selectAcquire(b); ok {
		held[tok] = true
	}
	for _, x := range b.Instrs {
		if x == in {
			break
		}
		lockTransfer(x, held)
	}
	return held
}

// EntryLocks computes the lockset every caller inside the module holds when it calls fn
// (intersection over all static call sites and closure invocations); exported functions and
// functions with no module caller start empty.
func (p *Program) EntryLocks(fn *ssa.Function) LockSet {
	return p.entryLocks(fn, map[*ssa.Function]bool{})
}

func (p *Program) entryLocks(fn *ssa.Function, stack map[*ssa.Function]bool) LockSet {
	if stack[fn] {
		return LockSet{}
	}
	if fn.Object() != nil && fn.Object().Exported() && fn.Parent() == nil {
		return LockSet{}
	}
	stack[fn] = true
	defer delete(stack, fn)
	n := p.CallGraph().Nodes[fn]
	if n == nil || len(n.In) == 0 {
		return LockSet{}
	}
	var acc LockSet
	first := true
	for _, e := range n.In {
		caller := e.Caller.Func
		if !InModule(caller) || e.Site == nil {
			return LockSet{}
		}
		if _, isGo := e.Site.(*ssa.Go); isGo {
			return LockSet{}
		}
		if _, isDefer := e.Site.(*ssa.Defer); isDefer {
			// deferred: runs at exit, lockset unknown -> empty
			return LockSet{}
		}
		li := p.LockAnalysis(caller, p.entryLocks(caller, stack))
		h := li.HeldAt(e.Site)
		if first {
			acc, first = h, false
		} else {
			acc = intersect(acc, h)
		}
	}
	if acc == nil {
		acc = LockSet{}
	}
	return acc
}

// FreshBase reports whether the access path of v is rooted at an object allocated in the same
// function (constructor exemption).
func FreshBase(v ssa.Value) bool {
	r := PathRoot(v)
	switch x := r.(type) {
	case *ssa.Alloc:
		return cellSingleStore(x) == nil || !isParam(cellSingleStore(x))
	case *ssa.MakeMap, *ssa.MakeSlice, *ssa.MakeChan:
		return true
	}
	return false
}

func isParam(v ssa.Value) bool { _, ok := v.(*ssa.Parameter); return ok }

// lockEffect: calling the function acquires (or releases) the lock at <argument param><suffix>.
type lockEffect struct {
	acquire bool
	param   int
	suffix  string
}

var (
	lockEffectCache = map[*ssa.Function][]lockEffect{}
	lockEffectBusy  = map[*ssa.Function]bool{}
)

// lockEffectsOf summarises a small function as a lock wrapper: a token rooted at a parameter that is held at every
// return although it was not held at entry is acquired by the call; one that some instruction releases and that is not
// held at any return is released by it.  Anything else (conditional acquisition, locks of other objects) is no effect.
func lockEffectsOf(f *ssa.Function) []lockEffect {
	if e, ok := lockEffectCache[f]; ok {
		return e
	}
	if lockEffectBusy[f] || len(f.Blocks) > 12 {
		return nil
	}
	lockEffectBusy[f] = true
	defer delete(lockEffectBusy, f)
	var out []lockEffect
	rooted := func(v ssa.Value) (int, string, bool) {
		root, ok := pathRoot(v, 0).(*ssa.Parameter)
		if !ok {
			return 0, "", false
		}
		tn := typeBaseName(root.Type())
		tp := TypedPath(v)
		if tn == "" || !strings.HasPrefix(tp, tn) {
			return 0, "", false
		}
		for i, p := range f.Params {
			if p == root {
				return i, tp[len(tn):], true
			}
		}
		return 0, "", false
	}
	// tokens touched, by their parameter-relative form
	type key struct {
		param  int
		suffix string
	}
	touched := map[string]key{}
	released := map[string]bool{}
	EachInstr(f, func(in ssa.Instruction) {
		var v ssa.Value
		rel := false
		switch x := in.(type) {
		case *ssa.Call:
			if recv, name := mutexMethod(&x.Call); recv != nil {
				v = recv
				rel = name == "Unlock" || name == "RUnlock"
			}
		case *ssa.UnOp:
			if x.Op == token.ARROW {
				v = x.X
			}
		case *ssa.Send:
			v, rel = x.Chan, true
		}
		if v == nil {
			return
		}
		if i, suf, ok := rooted(v); ok {
			tok := TypedPath(v)
			touched[tok] = key{i, suf}
			if rel {
				released[tok] = true
			}
		}
	})
	if len(touched) > 0 {
		li := (*Program)(nil).lockAnalysis(f, LockSet{}, false)
		rets := Returns(f)
		for tok, k := range touched {
			heldAll, heldAny := len(rets) > 0, false
			for _, r := range rets {
				if li.HeldAt(r)[tok] {
					heldAny = true
				} else {
					heldAll = false
				}
			}
			switch {
			case heldAll:
				out = append(out, lockEffect{true, k.param, k.suffix})
			case released[tok] && !heldAny:
				out = append(out, lockEffect{false, k.param, k.suffix})
			}
		}
	}
	lockEffectCache[f] = out
	return out
}
