package core

// Pinned identifiers.
//
// The rules name state by access path ("v.input.opt.chunkSize", "cs.count"): the words in those paths are source
// identifiers -- unexported fields, parameters, captured variables, named locals -- and an identifier carries no
// behaviour.  So that renaming one does not change a verdict, the names the rules were written against are frozen in
// pinned_data.go (generated: oryxcheck -dump-pinned) and every identifier of the current tree is aligned with them:
//
//   - an identifier whose name is in the pinned list of its owner (struct type / function) keeps it;
//   - an identifier that is not in the list takes the pinned name that is missing from the current tree, when exactly
//     one missing pinned name and exactly one new identifier have that type (a rename);
//   - anything else keeps its current name (a genuinely new field, parameter or local).
//
// The alignment is recomputed from /repo's current source on every load; the table is only the reference vocabulary.
// A rename that the alignment cannot resolve (two fields of one type renamed at once, a renamed function or type) still
// ends as "undecided"/"anchor missing", which fails: that is a false alarm of the machinery, stated in DESIGN.md 5.3.

import (
	"fmt"
	"go/ast"
	"go/token"
	"go/types"
	"sort"
	"strings"
	"sync"

	"golang.org/x/tools/go/ssa"
)

var (
	pinMu       sync.Mutex
	pinVar      = map[*types.Var]string{}   // struct fields and parameters
	pinFreeVar  = map[*ssa.FreeVar]string{} // captured variables of closures
	pinAlloc    = map[*ssa.Alloc]string{}   // named locals that live in memory
	pinFuncDone = map[*ssa.Function]bool{}  // functions whose parameters/free vars/locals are aligned
	pinStats    = map[string]int{}          // "field-renamed", "param-renamed", ... for the evidence
	pinRenames  []string                    // human-readable list of the renames the alignment resolved
	pinDisabled bool                        // -dump-pinned: raw names
)

type namedType struct{ name, typ string }

func pinQual(p *types.Package) string {
	return strings.TrimPrefix(strings.TrimPrefix(p.Path(), ModulePath), "/")
}

// canonType renders a type without the field names of anonymous structs (those are aligned on their own).
func canonType(t types.Type) string {
	switch u := t.(type) {
	case *types.Pointer:
		return "*" + canonType(u.Elem())
	case *types.Slice:
		return "[]" + canonType(u.Elem())
	case *types.Array:
		return fmt.Sprintf("[%d]%s", u.Len(), canonType(u.Elem()))
	case *types.Map:
		return "map[" + canonType(u.Key()) + "]" + canonType(u.Elem())
	case *types.Chan:
		return "chan " + canonType(u.Elem())
	case *types.Struct:
		var parts []string
		for i := 0; i < u.NumFields(); i++ {
			parts = append(parts, canonType(u.Field(i).Type()))
		}
		return "struct{" + strings.Join(parts, ";") + "}"
	case *types.Named:
		if o := u.Obj(); o != nil && o.Pkg() != nil && strings.HasPrefix(o.Pkg().Path(), ModulePath) {
			if canonUnk[o] {
				return "?"
			}
			if n, ok := typePin[o]; ok {
				return pinQual(o.Pkg()) + "." + n
			}
		}
	case *types.Signature:
		var ps, rs []string
		for i := 0; i < u.Params().Len(); i++ {
			ps = append(ps, canonType(u.Params().At(i).Type()))
		}
		for i := 0; i < u.Results().Len(); i++ {
			rs = append(rs, canonType(u.Results().At(i).Type()))
		}
		v := ""
		if u.Variadic() {
			v = "..."
		}
		return "func(" + strings.Join(ps, ",") + v + ")(" + strings.Join(rs, ",") + ")"
	}
	return types.TypeString(t, pinQual)
}

// alignNames maps the current identifiers to the pinned vocabulary (see the package comment).
func alignNames(cur, pin []namedType) (out []string, renamed []string) {
	out = make([]string, len(cur))
	pinned := map[string]bool{}
	for _, p := range pin {
		pinned[p.name] = true
	}
	present := map[string]bool{}
	for _, c := range cur {
		present[c.name] = true
	}
	missingByType := map[string][]string{}
	for _, p := range pin {
		if !present[p.name] {
			missingByType[p.typ] = append(missingByType[p.typ], p.name)
		}
	}
	newByType := map[string]int{}
	for _, c := range cur {
		if !pinned[c.name] && c.name != "_" && c.name != "" {
			newByType[c.typ]++
		}
	}
	// k new identifiers and k missing pinned names of one shape: matched in declaration order (a group renamed together
	// keeps its order); different counts: left alone
	taken := map[string]int{}
	for i, c := range cur {
		out[i] = c.name
		if pinned[c.name] || c.name == "_" || c.name == "" {
			continue
		}
		if m := missingByType[c.typ]; len(m) > 0 && len(m) == newByType[c.typ] {
			out[i] = m[taken[c.typ]]
			taken[c.typ]++
			renamed = append(renamed, c.name+"→"+out[i])
		}
	}
	return
}

func splitPinned(entries []string) []namedType {
	var out []namedType
	for _, e := range entries {
		i := strings.IndexByte(e, ' ')
		if i < 0 {
			out = append(out, namedType{e, ""})
			continue
		}
		out = append(out, namedType{e[:i], e[i+1:]})
	}
	return out
}

// pinStructs aligns the fields of every struct type declared at package level in the module (and of the anonymous
// structs nested in them).
func pinStructs(pkgs []*types.Package) {
	pinMu.Lock()
	defer pinMu.Unlock()
	for _, pk := range pkgs {
		if !strings.HasPrefix(pk.Path(), ModulePath) {
			continue
		}
		sc := pk.Scope()
		for _, n := range sc.Names() {
			tn, ok := sc.Lookup(n).(*types.TypeName)
			if !ok || tn.IsAlias() {
				continue
			}
			if st, ok := tn.Type().Underlying().(*types.Struct); ok {
				name := tn.Name()
				if n, ok := typePin[tn]; ok {
					name = n
				}
				pinStruct(pinQual(pk)+"."+name, st, 0)
			}
		}
	}
}

func structFields(st *types.Struct) []namedType {
	var cur []namedType
	for i := 0; i < st.NumFields(); i++ {
		cur = append(cur, namedType{st.Field(i).Name(), canonType(st.Field(i).Type())})
	}
	return cur
}

func pinStruct(key string, st *types.Struct, depth int) {
	if depth > 4 {
		return
	}
	cur := structFields(st)
	names := make([]string, len(cur))
	for i := range cur {
		names[i] = cur[i].name
	}
	if pin, ok := PinnedFields[key]; ok && !pinDisabled {
		var ren []string
		names, ren = alignNames(cur, splitPinned(pin))
		for _, r := range ren {
			pinStats["field-renamed"]++
			pinRenames = append(pinRenames, "field "+key+": "+r)
		}
	}
	for i := 0; i < st.NumFields(); i++ {
		f := st.Field(i)
		if _, seen := pinVar[f]; !seen {
			pinVar[f] = names[i]
			pinStats["fields"]++
		}
		t := f.Type()
		if p, ok := t.(*types.Pointer); ok {
			t = p.Elem()
		}
		if s, ok := t.(*types.Slice); ok {
			t = s.Elem()
		}
		if inner, ok := t.(*types.Struct); ok {
			pinStruct(key+"."+names[i], inner, depth+1)
		}
	}
}

// pinFunc aligns parameters, captured variables and named locals of fn.
func pinFunc(fn *ssa.Function) {
	if fn == nil {
		return
	}
	pinMu.Lock()
	done := pinFuncDone[fn]
	pinMu.Unlock()
	if done || !InModule(fn) {
		return
	}
	key := QualName(fn) // takes pinMu itself
	pinMu.Lock()
	defer pinMu.Unlock()
	if pinFuncDone[fn] {
		return
	}
	pinFuncDone[fn] = true
	// parameters
	var cur []namedType
	for _, p := range fn.Params {
		cur = append(cur, namedType{p.Name(), canonType(p.Type())})
	}
	names := make([]string, len(cur))
	for i := range cur {
		names[i] = cur[i].name
	}
	if pin, ok := PinnedParams[key]; ok && !pinDisabled {
		var ren []string
		names, ren = alignNames(cur, splitPinned(pin))
		for _, r := range ren {
			pinStats["param-renamed"]++
			pinRenames = append(pinRenames, "param "+key+": "+r)
		}
	}
	for i, p := range fn.Params {
		if o, ok := p.Object().(*types.Var); ok && o != nil {
			pinVar[o] = names[i]
		}
	}
	// captured variables
	cur = cur[:0]
	for _, fv := range fn.FreeVars {
		cur = append(cur, namedType{fv.Name(), canonType(fv.Type())})
	}
	names = make([]string, len(cur))
	for i := range cur {
		names[i] = cur[i].name
	}
	if pin, ok := PinnedFreeVars[key]; ok && !pinDisabled {
		var ren []string
		names, ren = alignNames(cur, splitPinned(pin))
		for _, r := range ren {
			pinStats["freevar-renamed"]++
			pinRenames = append(pinRenames, "captured "+key+": "+r)
		}
	}
	for i, fv := range fn.FreeVars {
		pinFreeVar[fv] = names[i]
	}
	// named locals
	allocs := namedAllocs(fn)
	cur = cur[:0]
	for _, a := range allocs {
		cur = append(cur, namedType{a.Comment, canonType(a.Type())})
	}
	names = make([]string, len(cur))
	for i := range cur {
		names[i] = cur[i].name
	}
	if pin, ok := PinnedLocals[key]; ok && !pinDisabled {
		var ren []string
		names, ren = alignNames(cur, splitPinned(pin))
		for _, r := range ren {
			pinStats["local-renamed"]++
			pinRenames = append(pinRenames, "local "+key+": "+r)
		}
	}
	for i, a := range allocs {
		pinAlloc[a] = names[i]
	}
}

// namedAllocs lists the Allocs of fn that stand for a declared variable (Comment is the identifier), one per name:
// a name declared twice in a function is left alone.
func namedAllocs(fn *ssa.Function) []*ssa.Alloc {
	var out []*ssa.Alloc
	count := map[string]int{}
	collect := func(a *ssa.Alloc) {
		if a.Comment == "" || !isIdent(a.Comment) {
			return
		}
		switch a.Comment {
		case "complit", "new", "varargs", "slicelit", "makeslice", "mapaddr", "arrayaddr":
			return
		}
		count[a.Comment]++
		out = append(out, a)
	}
	for _, l := range fn.Locals {
		collect(l)
	}
	for _, b := range fn.Blocks {
		for _, in := range b.Instrs {
			if a, ok := in.(*ssa.Alloc); ok && a.Heap {
				collect(a)
			}
		}
	}
	var uniq []*ssa.Alloc
	for _, a := range out {
		if count[a.Comment] == 1 {
			uniq = append(uniq, a)
		}
	}
	return uniq
}

func isIdent(s string) bool {
	for i, r := range s {
		if !(r == '_' || r >= 'a' && r <= 'z' || r >= 'A' && r <= 'Z' || i > 0 && r >= '0' && r <= '9') {
			return false
		}
	}
	return s != ""
}

// FieldVarName is the pinned name of a struct field.
func FieldVarName(f *types.Var) string {
	pinMu.Lock()
	defer pinMu.Unlock()
	if n, ok := pinVar[f]; ok {
		return n
	}
	return f.Name()
}

// ParamName is the pinned name of a parameter.
func ParamName(p *ssa.Parameter) string {
	pinFunc(p.Parent())
	pinMu.Lock()
	defer pinMu.Unlock()
	if o, ok := p.Object().(*types.Var); ok && o != nil {
		if n, ok := pinVar[o]; ok {
			return n
		}
	}
	return p.Name()
}

// FreeVarName is the pinned name of a captured variable.
func FreeVarName(fv *ssa.FreeVar) string {
	pinFunc(fv.Parent())
	pinMu.Lock()
	defer pinMu.Unlock()
	if n, ok := pinFreeVar[fv]; ok {
		return n
	}
	return fv.Name()
}

// AllocName is the pinned name of a local that lives in memory ("" when the Alloc is not a declared variable).
func AllocName(a *ssa.Alloc) string {
	pinFunc(a.Parent())
	pinMu.Lock()
	defer pinMu.Unlock()
	if n, ok := pinAlloc[a]; ok {
		return n
	}
	return a.Comment
}

// PinnedRenames lists the renames the alignment resolved on the loaded tree (for the evidence).
func PinnedRenames() []string {
	pinMu.Lock()
	defer pinMu.Unlock()
	out := append([]string(nil), pinRenames...)
	sort.Strings(out)
	return out
}

// DumpPinned prints pinned_data.go for the loaded program (raw names of the current tree).
func DumpPinned(p *Program) string {
	var sb strings.Builder
	sb.WriteString("// Code generated by oryxcheck -dump-pinned; DO NOT EDIT.\n\npackage core\n\n")
	// fields
	fields := map[string][]string{}
	var walk func(key string, st *types.Struct, d int)
	walk = func(key string, st *types.Struct, d int) {
		if d > 4 {
			return
		}
		var es []string
		for i := 0; i < st.NumFields(); i++ {
			f := st.Field(i)
			es = append(es, f.Name()+" "+canonType(f.Type()))
			t := f.Type()
			if pt, ok := t.(*types.Pointer); ok {
				t = pt.Elem()
			}
			if s, ok := t.(*types.Slice); ok {
				t = s.Elem()
			}
			if inner, ok := t.(*types.Struct); ok {
				walk(key+"."+f.Name(), inner, d+1)
			}
		}
		fields[key] = es
	}
	for _, pk := range p.Pkgs {
		if !strings.HasPrefix(pk.PkgPath, ModulePath) || pk.Types == nil {
			continue
		}
		sc := pk.Types.Scope()
		for _, n := range sc.Names() {
			tn, ok := sc.Lookup(n).(*types.TypeName)
			if !ok || tn.IsAlias() {
				continue
			}
			if st, ok := tn.Type().Underlying().(*types.Struct); ok {
				walk(pinQual(pk.Types)+"."+tn.Name(), st, 0)
			}
		}
	}
	writeMap := func(name string, m map[string][]string) {
		var ks []string
		for k := range m {
			ks = append(ks, k)
		}
		sort.Strings(ks)
		fmt.Fprintf(&sb, "var %s = map[string][]string{\n", name)
		for _, k := range ks {
			if len(m[k]) == 0 {
				continue
			}
			fmt.Fprintf(&sb, "\t%q: {", k)
			for i, e := range m[k] {
				if i > 0 {
					sb.WriteString(", ")
				}
				fmt.Fprintf(&sb, "%q", e)
			}
			sb.WriteString("},\n")
		}
		sb.WriteString("}\n\n")
	}
	writeMap("PinnedFields", fields)
	params, frees, locals := map[string][]string{}, map[string][]string{}, map[string][]string{}
	for fn := range p.AllFuncs {
		if !InModule(fn) || fn.Synthetic != "" {
			continue
		}
		k := QualName(fn)
		for _, par := range fn.Params {
			params[k] = append(params[k], par.Name()+" "+canonType(par.Type()))
		}
		for _, fv := range fn.FreeVars {
			frees[k] = append(frees[k], fv.Name()+" "+canonType(fv.Type()))
		}
		for _, a := range namedAllocs(fn) {
			locals[k] = append(locals[k], a.Comment+" "+canonType(a.Type()))
		}
	}
	tps, pfns, globs := dumpPackageLevel(p)
	writeMap("PinnedTypes", tps)
	writeMap("PinnedFuncs", pfns)
	writeMap("PinnedGlobals", globs)
	writeMap("PinnedParams", params)
	writeMap("PinnedFreeVars", frees)
	writeMap("PinnedLocals", locals)
	decls := map[string][]string{}
	for fn := range p.AllFuncs {
		if !InModule(fn) || fn.Synthetic != "" {
			continue
		}
		for _, nt := range declPairs(p.declVars(fn)) {
			decls[QualName(fn)] = append(decls[QualName(fn)], nt.name+" "+nt.typ)
		}
	}
	writeMap("PinnedDecls", decls)
	return sb.String()
}

// ---------------------------------------------------------------------------------------------------------------------
// Package-level identifiers: named types, functions, methods and variables.
//
// The same alignment, one level up.  A package-level name of the current tree that is not in the pinned vocabulary of
// its package takes the pinned name that is missing, when exactly one missing name and exactly one new name have that
// shape: the underlying type (field names ignored) and the number of methods for a type, the receiver and signature for
// a function or method, the type for a variable.  Adding a helper adds a new name but no missing one, so nothing moves;
// a rename that the alignment cannot resolve keeps its current name and ends as "anchor missing" (undecided).

var (
	typePin  = map[*types.TypeName]string{} // renamed types -> pinned name
	funcPin  = map[*types.Func]string{}     // renamed functions/methods -> pinned bare name
	globPin  = map[*types.Var]string{}      // renamed package-level variables -> pinned name
	canonUnk = map[*types.TypeName]bool{}   // during type alignment: types rendered as "?"
	funcShow = map[*types.Func]string{}     // functions that took over a pinned method's role (or the reverse): display name
)

// TypeNameOf is the pinned name of a named type.
func TypeNameOf(tn *types.TypeName) string {
	if tn == nil {
		return ""
	}
	pinMu.Lock()
	defer pinMu.Unlock()
	if n, ok := typePin[tn]; ok {
		return n
	}
	return tn.Name()
}

// NamedName is the pinned name of a named type.
func NamedName(n *types.Named) string { return TypeNameOf(n.Obj()) }

// GlobalName is the pinned name of a package-level variable.
func GlobalName(g *ssa.Global) string {
	if v, ok := g.Object().(*types.Var); ok && v != nil {
		pinMu.Lock()
		defer pinMu.Unlock()
		if n, ok := globPin[v]; ok {
			return n
		}
	}
	return g.Name()
}

func funcPinned(f *types.Func) (string, bool) {
	pinMu.Lock()
	defer pinMu.Unlock()
	n, ok := funcPin[f]
	return n, ok
}

func typePinned(tn *types.TypeName) (string, bool) {
	pinMu.Lock()
	defer pinMu.Unlock()
	n, ok := typePin[tn]
	return n, ok
}

// FnName is the pinned bare name of a function ("WriteMessage", "NewCommentReader$1").
func FnName(fn *ssa.Function) string {
	if fn == nil {
		return ""
	}
	if n, ok := roleName(fn); ok {
		return n
	}
	if par := fn.Parent(); par != nil {
		for i, a := range par.AnonFuncs {
			if a == fn {
				return fmt.Sprintf("%s$%d", FnName(par), i+1)
			}
		}
		return fn.Name()
	}
	if o, ok := fn.Object().(*types.Func); ok && o != nil && fn.Synthetic == "" {
		pinMu.Lock()
		show, hasShow := funcShow[o]
		pinMu.Unlock()
		if hasShow {
			return show[strings.LastIndex(show, ".")+1:]
		}
		if n, ok := funcPinned(o); ok {
			return n
		}
	}
	return fn.Name()
}

// pinnedRelName rebuilds the package-relative display name of fn when it, its receiver type or its parent was renamed;
// ok=false means nothing was renamed and ssa's own rendering is right.
func pinnedRelName(fn *ssa.Function) (string, bool) {
	if par := fn.Parent(); par != nil {
		pn, ok := pinnedRelName(par)
		if !ok {
			if rn, isRole := roleName(par); isRole {
				pn, ok = rn, true
			}
		}
		if !ok {
			return "", false
		}
		for i, a := range par.AnonFuncs {
			if a == fn {
				return fmt.Sprintf("%s$%d", pn, i+1), true
			}
		}
		return "", false
	}
	o, isF := fn.Object().(*types.Func)
	if !isF || o == nil || fn.Synthetic != "" {
		return "", false
	}
	pinMu.Lock()
	show, hasShow := funcShow[o]
	pinMu.Unlock()
	if hasShow {
		return show, true
	}
	name, renamed := funcPinned(o)
	if !renamed {
		name = o.Name()
	}
	sig, _ := o.Type().(*types.Signature)
	if sig == nil || sig.Recv() == nil {
		return name, renamed
	}
	rt := sig.Recv().Type()
	ptr := ""
	if p, ok := rt.(*types.Pointer); ok {
		rt, ptr = p.Elem(), "*"
	}
	n, ok := rt.(*types.Named)
	if !ok {
		return "", false
	}
	tname, trenamed := typePinned(n.Obj())
	if !trenamed {
		tname = n.Obj().Name()
	}
	if !renamed && !trenamed {
		return "", false
	}
	return "(" + ptr + tname + ")." + name, true
}

func methodDisplay(f *types.Func) (prefix string) {
	sig, _ := f.Type().(*types.Signature)
	if sig == nil || sig.Recv() == nil {
		return ""
	}
	rt := sig.Recv().Type()
	ptr := ""
	if p, ok := rt.(*types.Pointer); ok {
		rt, ptr = p.Elem(), "*"
	}
	if n, ok := rt.(*types.Named); ok {
		tn := n.Obj().Name()
		if pn, ok := typePin[n.Obj()]; ok {
			tn = pn
		}
		return "(" + ptr + tn + ")."
	}
	return "(?)."
}

func sigCanon(f *types.Func) string {
	sig, _ := f.Type().(*types.Signature)
	if sig == nil {
		return ""
	}
	return canonType(types.NewSignatureType(nil, nil, nil, sig.Params(), sig.Results(), sig.Variadic()))
}

func typeShape(tn *types.TypeName) string {
	n, _ := tn.Type().(*types.Named)
	nm := 0
	if n != nil {
		nm = n.NumMethods()
	}
	return fmt.Sprintf("%s#%d", canonType(tn.Type().Underlying()), nm)
}

// pkgLevel enumerates the package-level declarations of one package in a stable order.
func pkgLevel(pk *types.Package) (tns []*types.TypeName, fns []*types.Func, vars []*types.Var) {
	sc := pk.Scope()
	for _, n := range sc.Names() {
		switch o := sc.Lookup(n).(type) {
		case *types.TypeName:
			if !o.IsAlias() {
				tns = append(tns, o)
			}
		case *types.Func:
			fns = append(fns, o)
		case *types.Var:
			vars = append(vars, o)
		}
	}
	for _, tn := range tns {
		if n, ok := tn.Type().(*types.Named); ok {
			for i := 0; i < n.NumMethods(); i++ {
				fns = append(fns, n.Method(i))
			}
		}
	}
	// declaration order (a group renamed together keeps it)
	sort.SliceStable(tns, func(i, j int) bool { return posLess(tns[i].Pos(), tns[j].Pos()) })
	sort.SliceStable(fns, func(i, j int) bool { return posLess(fns[i].Pos(), fns[j].Pos()) })
	sort.SliceStable(vars, func(i, j int) bool { return posLess(vars[i].Pos(), vars[j].Pos()) })
	return
}

// pinFset is the file set of the loaded program: positions of different files compare by file name (the raw token.Pos
// order of two files depends on which one the loader parsed first).
var pinFset *token.FileSet

func posLess(a, b token.Pos) bool {
	if pinFset == nil {
		return a < b
	}
	pa, pb := pinFset.Position(a), pinFset.Position(b)
	if pa.Filename != pb.Filename {
		return pa.Filename < pb.Filename
	}
	return pa.Offset < pb.Offset
}

// pinPackages aligns types, then functions/methods, then variables of every module package.
func (p *Program) pinPackages(pkgs []*types.Package) {
	p.typeUnpin = map[string]*types.TypeName{}
	p.funcUnpin = map[string]*types.Func{}
	p.globUnpin = map[string]*types.Var{}
	if pinDisabled {
		return
	}
	pinMu.Lock()
	defer pinMu.Unlock()
	// types of all packages first: signatures mention types of other packages
	for _, pk := range pkgs {
		if !strings.HasPrefix(pk.Path(), ModulePath) {
			continue
		}
		short := pinQual(pk)
		pin := splitPinned(PinnedTypes[short])
		if len(pin) == 0 {
			continue
		}
		tns, _, _ := pkgLevel(pk)
		pinned := map[string]bool{}
		for _, e := range pin {
			pinned[e.name] = true
		}
		present := map[string]bool{}
		var fresh []*types.TypeName
		for _, tn := range tns {
			present[tn.Name()] = true
			if !pinned[tn.Name()] {
				fresh = append(fresh, tn)
			}
		}
		var missing []namedType
		for _, e := range pin {
			if !present[e.name] {
				missing = append(missing, e)
			}
		}
		if len(fresh) == 0 || len(missing) == 0 {
			continue
		}
		for _, tn := range fresh {
			canonUnk[tn] = true
		}
		blank := func(s string) string {
			for _, m := range missing {
				s = replaceWord(s, short+"."+m.name, "?")
			}
			return s
		}
		// k new types and k missing pinned names of one shape: matched in declaration order
		missByShape := map[string][]string{}
		for _, m := range missing {
			missByShape[blank(m.typ)] = append(missByShape[blank(m.typ)], m.name)
		}
		freshByShape := map[string][]*types.TypeName{}
		for _, tn := range fresh {
			sh := typeShape(tn)
			freshByShape[sh] = append(freshByShape[sh], tn)
		}
		for sh, ts := range freshByShape {
			ms := missByShape[sh]
			if len(ms) != len(ts) {
				continue
			}
			for i, tn := range ts {
				typePin[tn] = ms[i]
				p.typeUnpin[short+"."+ms[i]] = tn
				pinStats["type-renamed"]++
				pinRenames = append(pinRenames, "type "+short+": "+tn.Name()+"→"+ms[i])
			}
		}
		for _, tn := range fresh {
			delete(canonUnk, tn)
		}
	}
	for _, pk := range pkgs {
		if !strings.HasPrefix(pk.Path(), ModulePath) {
			continue
		}
		short := pinQual(pk)
		_, fns, vars := pkgLevel(pk)
		// functions and methods
		if pin := splitPinned(PinnedFuncs[short]); len(pin) > 0 {
			var cur []namedType
			for _, f := range fns {
				pre := methodDisplay(f)
				cur = append(cur, namedType{pre + f.Name(), pre + sigCanon(f)})
			}
			names, ren := alignNames(cur, pin)
			for i, f := range fns {
				if names[i] != cur[i].name {
					bare := names[i][strings.LastIndex(names[i], ".")+1:]
					funcPin[f] = bare
					pinStats["func-renamed"]++
				}
				if _, renamedT := typePin[recvTypeName(f)]; renamedT || names[i] != cur[i].name {
					p.funcUnpin[short+"."+names[i]] = f
				}
			}
			for _, r := range ren {
				pinRenames = append(pinRenames, "func "+short+": "+r)
			}
			// a method turned into a plain function of the same name taking the receiver as its first parameter (or
			// the reverse): same role, the pinned spelling is kept for it
			curSet := map[string]bool{}
			for i := range fns {
				curSet[names[i]] = true
			}
			pinnedNames := map[string]bool{}
			for _, pe := range pin {
				pinnedNames[pe.name] = true
			}
			for _, pe := range pin {
				if curSet[pe.name] {
					continue
				}
				bare := pe.name[strings.LastIndex(pe.name, ".")+1:]
				pre := pe.name[:len(pe.name)-len(bare)] // "(*T)." or ""
				for i, f := range fns {
					if f.Name() != bare || names[i] == pe.name {
						continue
					}
					sig, _ := f.Type().(*types.Signature)
					if sig == nil {
						continue
					}
					match := false
					if pre != "" && sig.Recv() != nil {
						// same method, receiver kind changed (value <-> pointer)
						cp := methodDisplay(f)
						toggled := strings.Replace(cp, "(*", "(", 1)
						if !strings.HasPrefix(cp, "(*") {
							toggled = "(*" + cp[1:]
						}
						match = toggled == pre
					} else if pre != "" && sig.Recv() == nil && sig.Params().Len() >= 1 {
						// pinned method, now a function: first parameter is the old receiver
						rt := "(" + strings.TrimPrefix(canonType(sig.Params().At(0).Type()), short+".") + ")."
						rt = strings.Replace(rt, "(*"+short+".", "(*", 1)
						match = rt == pre
					} else if pre == "" && sig.Recv() != nil {
						match = true // pinned function, now a method of some type of the package
					}
					if match {
						funcShow[f] = pe.name
						p.funcUnpin[short+"."+pe.name] = f
						pinStats["func-reshaped"]++
						pinRenames = append(pinRenames, "func "+short+": "+names[i]+" stands for "+pe.name)
					}
				}
				if _, done := p.funcUnpin[short+"."+pe.name]; done || pre == "" {
					continue
				}
				// a method that did not use its receiver, now a plain function under a new name: the one new plain
				// function with exactly the method's signature (receiver dropped)
				wantSig := strings.TrimPrefix(pe.typ, pre)
				var cand *types.Func
				nCand := 0
				for i, f := range fns {
					if pinnedNames[names[i]] {
						continue
					}
					sig, _ := f.Type().(*types.Signature)
					if sig == nil || sig.Recv() != nil {
						continue
					}
					if sigCanon(f) == wantSig {
						cand = f
						nCand++
					}
				}
				if nCand == 1 {
					funcShow[cand] = pe.name
					p.funcUnpin[short+"."+pe.name] = cand
					pinStats["func-reshaped"]++
					pinRenames = append(pinRenames, "func "+short+": "+cand.Name()+" stands for "+pe.name)
				}
			}
		}
		// variables
		if pin := splitPinned(PinnedGlobals[short]); len(pin) > 0 {
			var cur []namedType
			for _, v := range vars {
				cur = append(cur, namedType{v.Name(), canonType(v.Type())})
			}
			names, ren := alignNames(cur, pin)
			for i, v := range vars {
				if names[i] != v.Name() {
					globPin[v] = names[i]
					p.globUnpin[short+"."+names[i]] = v
					pinStats["var-renamed"]++
				}
			}
			for _, r := range ren {
				pinRenames = append(pinRenames, "var "+short+": "+r)
			}
		}
	}
}

func recvTypeName(f *types.Func) *types.TypeName {
	sig, _ := f.Type().(*types.Signature)
	if sig == nil || sig.Recv() == nil {
		return nil
	}
	rt := sig.Recv().Type()
	if p, ok := rt.(*types.Pointer); ok {
		rt = p.Elem()
	}
	if n, ok := rt.(*types.Named); ok {
		return n.Obj()
	}
	return nil
}

// replaceWord replaces whole-word occurrences of old (a qualified identifier) in s.
func replaceWord(s, old, new string) string {
	var sb strings.Builder
	for {
		i := strings.Index(s, old)
		if i < 0 {
			sb.WriteString(s)
			return sb.String()
		}
		end := i + len(old)
		isWord := func(b byte) bool {
			return b == '_' || b >= 'a' && b <= 'z' || b >= 'A' && b <= 'Z' || b >= '0' && b <= '9'
		}
		if (i > 0 && (isWord(s[i-1]) || s[i-1] == '/')) || (end < len(s) && isWord(s[end])) {
			sb.WriteString(s[:end])
			s = s[end:]
			continue
		}
		sb.WriteString(s[:i])
		sb.WriteString(new)
		s = s[end:]
	}
}

// dumpPackageLevel renders PinnedTypes / PinnedFuncs / PinnedGlobals.
func dumpPackageLevel(p *Program) (tps, fns, globs map[string][]string) {
	tps, fns, globs = map[string][]string{}, map[string][]string{}, map[string][]string{}
	for _, pk := range p.Pkgs {
		if !strings.HasPrefix(pk.PkgPath, ModulePath) || pk.Types == nil {
			continue
		}
		short := pinQual(pk.Types)
		tns, fs, vars := pkgLevel(pk.Types)
		for _, tn := range tns {
			tps[short] = append(tps[short], tn.Name()+" "+typeShape(tn))
		}
		for _, f := range fs {
			pre := methodDisplay(f)
			fns[short] = append(fns[short], pre+f.Name()+" "+pre+sigCanon(f))
		}
		for _, v := range vars {
			globs[short] = append(globs[short], v.Name()+" "+canonType(v.Type()))
		}
	}
	return
}

// ParamIndex is the position (receiver included, as in ssa.Function.Params and CallCommon.Args of a static call) of the
// parameter with the given pinned name; -1 if there is none.  Rules use it instead of a fixed position so that a
// reordered parameter list does not change what they look at.
func ParamIndex(fn *ssa.Function, name string) int {
	for i, p := range fn.Params {
		if ParamName(p) == name {
			return i
		}
	}
	return -1
}

// ---------------------------------------------------------------------------------------------------------------------
// Variables declared in a function body (registers as well as cells), for rules that read the syntax tree: the same
// alignment over the distinct (name, type) pairs the body declares, in source order.

// declVars lists the variables fn's body declares (nested function literals excluded), in source order.
func (p *Program) declVars(fn *ssa.Function) []*types.Var {
	body, info := p.Body(fn)
	if body == nil || info == nil {
		return nil
	}
	var out []*types.Var
	ast.Inspect(body, func(n ast.Node) bool {
		switch x := n.(type) {
		case *ast.FuncLit:
			return false
		case *ast.Ident:
			if v, ok := info.Defs[x].(*types.Var); ok && v != nil && !v.IsField() {
				out = append(out, v)
			}
		}
		return true
	})
	sort.SliceStable(out, func(i, j int) bool { return out[i].Pos() < out[j].Pos() })
	return out
}

func declPairs(vs []*types.Var) []namedType {
	var out []namedType
	seen := map[namedType]bool{}
	for _, v := range vs {
		nt := namedType{v.Name(), canonType(v.Type())}
		if !seen[nt] {
			seen[nt] = true
			out = append(out, nt)
		}
	}
	return out
}

// LocalVarName is the pinned name of a variable declared in fn's body (its current name when nothing moved).
func (p *Program) LocalVarName(fn *ssa.Function, v *types.Var) string {
	if fn == nil || v == nil {
		return ""
	}
	declMu.Lock()
	m, ok := declNames[fn]
	declMu.Unlock()
	if !ok {
		m = map[*types.Var]string{}
		vs := p.declVars(fn)
		cur := declPairs(vs)
		names := make([]string, len(cur))
		for i := range cur {
			names[i] = cur[i].name
		}
		key := QualName(fn)
		if pin, has := PinnedDecls[key]; has && !pinDisabled {
			var ren []string
			names, ren = alignNames(cur, splitPinned(pin))
			pinMu.Lock()
			for _, r := range ren {
				pinStats["decl-renamed"]++
				pinRenames = append(pinRenames, "declared "+key+": "+r)
			}
			pinMu.Unlock()
		}
		byPair := map[namedType]string{}
		for i, c := range cur {
			byPair[c] = names[i]
		}
		for _, x := range vs {
			m[x] = byPair[namedType{x.Name(), canonType(x.Type())}]
		}
		declMu.Lock()
		declNames[fn] = m
		declMu.Unlock()
	}
	if n, ok := m[v]; ok && n != "" {
		return n
	}
	return v.Name()
}

var (
	declMu    sync.Mutex
	declNames = map[*ssa.Function]map[*types.Var]string{}
)
