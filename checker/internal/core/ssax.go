package core

import (
	"fmt"
	"go/constant"
	"go/token"
	"go/types"
	"sort"
	"strings"

	"golang.org/x/tools/go/callgraph"
	"golang.org/x/tools/go/ssa"
)

// ---------------------------------------------------------------------------------------------
// Access paths

// cellSingleStore returns the only value stored into the local cell a (an Alloc holding a
// spilled parameter / captured variable) when the cell is stored exactly once in its function
// and never through a closure's free variable; nil otherwise.
func cellSingleStore(a *ssa.Alloc) ssa.Value {
	var val ssa.Value
	n := 0
	for _, r := range *a.Referrers() {
		switch r := r.(type) {
		case *ssa.Store:
			if r.Addr == a {
				n++
				val = r.Val
			}
		case *ssa.MakeClosure:
			// stores through the corresponding free variable?
			fn := r.Fn.(*ssa.Function)
			for i, b := range r.Bindings {
				if b == a && freeVarStored(fn, fn.FreeVars[i]) {
					return nil
				}
			}
		}
	}
	if n == 1 {
		return val
	}
	return nil
}

func freeVarStored(fn *ssa.Function, fv *ssa.FreeVar) bool {
	for _, r := range *fv.Referrers() {
		switch r := r.(type) {
		case *ssa.Store:
			if r.Addr == fv {
				return true
			}
		case *ssa.MakeClosure:
			inner := r.Fn.(*ssa.Function)
			for i, b := range r.Bindings {
				if b == fv && freeVarStored(inner, inner.FreeVars[i]) {
					return true
				}
			}
		}
	}
	return false
}

// FreeVarBinding resolves a closure's free variable to the value bound in the parent function.
func FreeVarBinding(fv *ssa.FreeVar) ssa.Value {
	fn := fv.Parent()
	par := fn.Parent()
	if par == nil {
		return nil
	}
	idx := -1
	for i, f := range fn.FreeVars {
		if f == fv {
			idx = i
		}
	}
	if idx < 0 {
		return nil
	}
	for _, b := range par.Blocks {
		for _, in := range b.Instrs {
			if mc, ok := in.(*ssa.MakeClosure); ok && mc.Fn == fn {
				return mc.Bindings[idx]
			}
		}
	}
	return nil
}

// StripConv removes value-preserving wrappers (ChangeType, widening Convert, MakeInterface, ChangeInterface).
func StripConv(v ssa.Value) ssa.Value {
	for {
		switch x := v.(type) {
		case *ssa.ChangeType:
			v = x.X
		case *ssa.ChangeInterface:
			v = x.X
		case *ssa.MakeInterface:
			v = x.X
		case *ssa.Convert:
			if widening(x.X.Type(), x.Type()) {
				v = x.X
			} else {
				return v
			}
		default:
			return v
		}
	}
}

func widening(from, to types.Type) bool {
	fb, ok1 := from.Underlying().(*types.Basic)
	tb, ok2 := to.Underlying().(*types.Basic)
	if !ok1 || !ok2 || fb.Info()&types.IsInteger == 0 || tb.Info()&types.IsInteger == 0 {
		return false
	}
	fs, ts := intBits(fb), intBits(tb)
	fu := fb.Info()&types.IsUnsigned != 0
	tu := tb.Info()&types.IsUnsigned != 0
	switch {
	case fu == tu:
		return ts >= fs
	case fu && !tu:
		return ts > fs
	}
	return false
}

func intBits(b *types.Basic) int {
	switch b.Kind() {
	case types.Int8, types.Uint8:
		return 8
	case types.Int16, types.Uint16:
		return 16
	case types.Int32, types.Uint32:
		return 32
	}
	return 64
}

// Path renders the access path of a value or address: "v.input.opt.chunkSize", "c.writeErr",
// "len(p)", "pkg.Global", or "%name" for anything that is not an access path.
// A load of an address has the path of the address.
func Path(v ssa.Value) string { return pathDepth(v, 0) }

func pathDepth(v ssa.Value, d int) string {
	if d > 24 || v == nil {
		return "%?"
	}
	switch x := v.(type) {
	case *ssa.Parameter:
		return x.Name()
	case *ssa.FreeVar:
		if b := FreeVarBinding(x); b != nil {
			return pathDepth(b, d+1)
		}
		return x.Name()
	case *ssa.Global:
		if x.Pkg != nil {
			return x.Pkg.Pkg.Name() + "." + x.Name()
		}
		return x.Name()
	case *ssa.Alloc:
		if s := cellSingleStore(x); s != nil {
			if _, ok := s.(*ssa.Parameter); ok {
				return pathDepth(s, d+1)
			}
		}
		if x.Comment != "" {
			return x.Comment
		}
		return "%" + x.Name()
	case *ssa.FieldAddr:
		return pathDepth(x.X, d+1) + "." + fieldName(x.X.Type(), x.Field)
	case *ssa.Field:
		return pathDepth(x.X, d+1) + "." + fieldName(x.X.Type(), x.Field)
	case *ssa.IndexAddr:
		return pathDepth(x.X, d+1) + "[" + idxString(x.Index) + "]"
	case *ssa.Index:
		return pathDepth(x.X, d+1) + "[" + idxString(x.Index) + "]"
	case *ssa.Lookup:
		return pathDepth(x.X, d+1) + "[" + idxString(x.Index) + "]"
	case *ssa.UnOp:
		if x.Op == token.MUL {
			return pathDepth(x.X, d+1)
		}
	case *ssa.ChangeType:
		return pathDepth(x.X, d+1)
	case *ssa.ChangeInterface:
		return pathDepth(x.X, d+1)
	case *ssa.MakeInterface:
		return pathDepth(x.X, d+1)
	case *ssa.Convert:
		if widening(x.X.Type(), x.Type()) {
			return pathDepth(x.X, d+1)
		}
	case *ssa.Slice:
		if x.Low == nil && x.High == nil {
			return pathDepth(x.X, d+1)
		}
	case *ssa.Const:
		if x.Value == nil {
			return "nil"
		}
		return x.Value.ExactString()
	case *ssa.Call:
		if b, ok := x.Call.Value.(*ssa.Builtin); ok && (b.Name() == "len" || b.Name() == "cap") {
			return b.Name() + "(" + pathDepth(x.Call.Args[0], d+1) + ")"
		}
		if cal := x.Call.StaticCallee(); cal != nil {
			var args []string
			for _, a := range x.Call.Args {
				args = append(args, pathDepth(a, d+1))
			}
			return QualName(cal) + "(" + strings.Join(args, ",") + ")"
		}
		if x.Call.IsInvoke() {
			return pathDepth(x.Call.Value, d+1) + "." + x.Call.Method.Name() + "()"
		}
	case *ssa.Extract:
		return pathDepth(x.Tuple, d+1) + "#" + fmt.Sprint(x.Index)
	}
	return "%" + v.Name()
}

func idxString(v ssa.Value) string {
	if c, ok := v.(*ssa.Const); ok && c.Value != nil {
		return c.Value.ExactString()
	}
	return "*"
}

func fieldName(t types.Type, i int) string {
	if p, ok := t.Underlying().(*types.Pointer); ok {
		t = p.Elem()
	}
	if s, ok := t.Underlying().(*types.Struct); ok && i < s.NumFields() {
		return s.Field(i).Name()
	}
	return fmt.Sprintf("f%d", i)
}

// FieldVar returns the *types.Var of the field an address/field instruction selects.
func FieldVar(v ssa.Value) *types.Var {
	var t types.Type
	var i int
	switch x := v.(type) {
	case *ssa.FieldAddr:
		t, i = x.X.Type(), x.Field
	case *ssa.Field:
		t, i = x.X.Type(), x.Field
	default:
		return nil
	}
	if p, ok := t.Underlying().(*types.Pointer); ok {
		t = p.Elem()
	}
	if s, ok := t.Underlying().(*types.Struct); ok && i < s.NumFields() {
		return s.Field(i)
	}
	return nil
}

// TypedPath is Path with the root replaced by the root's named type: "Protocol.input.opt.chunkSize".
// It makes access paths comparable across functions whose receivers have different names.
func TypedPath(v ssa.Value) string {
	p := Path(v)
	root := pathRoot(v, 0)
	if root == nil {
		return p
	}
	name := ""
	switch r := root.(type) {
	case *ssa.Parameter:
		name = r.Name()
	case *ssa.FreeVar:
		name = r.Name()
	default:
		return p
	}
	tn := typeBaseName(root.Type())
	if tn == "" || !strings.HasPrefix(p, name) {
		return p
	}
	return tn + p[len(name):]
}

func typeBaseName(t types.Type) string {
	for {
		switch x := t.(type) {
		case *types.Pointer:
			t = x.Elem()
			continue
		case *types.Named:
			return x.Obj().Name()
		}
		return ""
	}
}

func pathRoot(v ssa.Value, d int) ssa.Value {
	if d > 24 || v == nil {
		return nil
	}
	switch x := v.(type) {
	case *ssa.Parameter:
		return x
	case *ssa.FreeVar:
		if b := FreeVarBinding(x); b != nil {
			return pathRoot(b, d+1)
		}
		return x
	case *ssa.Alloc:
		if s := cellSingleStore(x); s != nil {
			if _, ok := s.(*ssa.Parameter); ok {
				return s
			}
		}
		return x
	case *ssa.FieldAddr:
		return pathRoot(x.X, d+1)
	case *ssa.Field:
		return pathRoot(x.X, d+1)
	case *ssa.IndexAddr:
		return pathRoot(x.X, d+1)
	case *ssa.Index:
		return pathRoot(x.X, d+1)
	case *ssa.Lookup:
		return pathRoot(x.X, d+1)
	case *ssa.UnOp:
		if x.Op == token.MUL {
			return pathRoot(x.X, d+1)
		}
	case *ssa.ChangeType:
		return pathRoot(x.X, d+1)
	case *ssa.MakeInterface:
		return pathRoot(x.X, d+1)
	case *ssa.Slice:
		return pathRoot(x.X, d+1)
	}
	return v
}

// PathRoot exposes pathRoot.
func PathRoot(v ssa.Value) ssa.Value { return pathRoot(v, 0) }

// ---------------------------------------------------------------------------------------------
// Constants

// ConstInt returns the integer value of v when it is an integer constant.
func ConstInt(v ssa.Value) (int64, bool) {
	v = StripConv(v)
	c, ok := v.(*ssa.Const)
	if !ok || c.Value == nil {
		// narrowing convert of a constant
		if cv, ok2 := v.(*ssa.Convert); ok2 {
			return ConstInt(cv.X)
		}
		return 0, false
	}
	if c.Value.Kind() != constant.Int {
		return 0, false
	}
	if i, ok := constant.Int64Val(c.Value); ok {
		return i, true
	}
	if u, ok := constant.Uint64Val(c.Value); ok {
		return int64(u), true
	}
	return 0, false
}

// ConstString returns the string value of v when it is a string constant.
func ConstString(v ssa.Value) (string, bool) {
	v = StripConv(v)
	c, ok := v.(*ssa.Const)
	if !ok || c.Value == nil || c.Value.Kind() != constant.String {
		return "", false
	}
	return constant.StringVal(c.Value), true
}

// IsNilConst reports whether v is the nil constant.
func IsNilConst(v ssa.Value) bool {
	c, ok := v.(*ssa.Const)
	return ok && c.Value == nil
}

// ---------------------------------------------------------------------------------------------
// Guards (DOM)

// Guard is a branch condition known to hold (Pol=true) or not hold at a program point.
type Guard struct {
	Cond ssa.Value
	Pol  bool
	If   *ssa.If
}

// Guards returns the branch facts that dominate block b (the construction used by x/tools' nilness).
func Guards(b *ssa.BasicBlock) []Guard {
	var out []Guard
	for n := b; n != nil; n = n.Idom() {
		d := n.Idom()
		if d == nil {
			break
		}
		if len(d.Instrs) == 0 {
			continue
		}
		iff, ok := d.Instrs[len(d.Instrs)-1].(*ssa.If)
		if !ok {
			continue
		}
		if len(n.Preds) != 1 {
			continue
		}
		if d.Succs[0] == n && d.Succs[1] != n {
			out = append(out, Guard{iff.Cond, true, iff})
		} else if d.Succs[1] == n && d.Succs[0] != n {
			out = append(out, Guard{iff.Cond, false, iff})
		}
	}
	return out
}

// Atom is a canonical comparison "L op R" over access paths and constants.
type Atom struct {
	L, Op, R string
	LV, RV   ssa.Value
}

func (a Atom) String() string { return a.L + " " + a.Op + " " + a.R }

var negOp = map[string]string{"==": "!=", "!=": "==", "<": ">=", ">=": "<", ">": "<=", "<=": ">"}
var swapOp = map[string]string{"==": "==", "!=": "!=", "<": ">", ">": "<", "<=": ">=", ">=": "<="}

// AtomOf canonicalises a guard into an atom; ok=false when the condition is not a comparison
// (then L is the path of the boolean and Op is "is"/"not").
func AtomOf(g Guard) (Atom, bool) {
	cond, pol := g.Cond, g.Pol
	for {
		if u, ok := cond.(*ssa.UnOp); ok && u.Op == token.NOT {
			cond, pol = u.X, !pol
			continue
		}
		break
	}
	if b, ok := cond.(*ssa.BinOp); ok {
		op := b.Op.String()
		if _, isCmp := negOp[op]; isCmp {
			if !pol {
				op = negOp[op]
			}
			a := Atom{L: Path(b.X), Op: op, R: Path(b.Y), LV: b.X, RV: b.Y}
			// constant on the right
			if _, lc := StripConv(b.X).(*ssa.Const); lc {
				if _, rc := StripConv(b.Y).(*ssa.Const); !rc {
					a = Atom{L: a.R, Op: swapOp[op], R: a.L, LV: b.Y, RV: b.X}
				}
			}
			return a, true
		}
	}
	op := "is"
	if !pol {
		op = "not"
	}
	return Atom{L: Path(cond), Op: op, R: "true", LV: cond}, false
}

// GuardAtoms returns the canonical atoms dominating block b.
func GuardAtoms(b *ssa.BasicBlock) []Atom {
	var out []Atom
	for _, g := range Guards(b) {
		a, _ := AtomOf(g)
		out = append(out, a)
	}
	return out
}

// EdgeAtoms returns the atoms known on the edge from b to its idx-th successor: those dominating b plus the one the
// branch at the end of b contributes for that successor.
func EdgeAtoms(b *ssa.BasicBlock, idx int) []Atom {
	out := GuardAtoms(b)
	if len(b.Instrs) == 0 {
		return out
	}
	if iff, ok := b.Instrs[len(b.Instrs)-1].(*ssa.If); ok && len(b.Succs) == 2 && b.Succs[0] != b.Succs[1] {
		a, _ := AtomOf(Guard{iff.Cond, idx == 0, iff})
		out = append(out, a)
	}
	return out
}

// HasAtom reports whether block b is dominated by an atom with the given rendering.
func HasAtom(b *ssa.BasicBlock, want string) bool {
	for _, a := range GuardAtoms(b) {
		if a.String() == want {
			return true
		}
	}
	return false
}

// ---------------------------------------------------------------------------------------------
// Calls

// CalleeName renders the callee of a call instruction: "io.ReadFull", "(*bufio.Writer).Flush",
// "invoke net.Conn.Write", "builtin len", "dynamic".
func CalleeName(c *ssa.CallCommon) string {
	if c.IsInvoke() {
		return "invoke " + types.TypeString(c.Value.Type(), shortQual) + "." + c.Method.Name()
	}
	switch v := c.Value.(type) {
	case *ssa.Builtin:
		return "builtin " + v.Name()
	case *ssa.Function:
		return FullName(v)
	case *ssa.MakeClosure:
		return FullName(v.Fn.(*ssa.Function))
	}
	return "dynamic"
}

func shortQual(p *types.Package) string { return p.Name() }

// FullName is "io.ReadFull", "(*bufio.Writer).Flush", "rtmp.(*Protocol).WriteMessage".
func FullName(fn *ssa.Function) string {
	if InModule(fn) {
		return QualName(fn)
	}
	if fn.Signature.Recv() != nil {
		return "(" + types.TypeString(fn.Signature.Recv().Type(), shortQual) + ")." + fn.Name()
	}
	if fn.Pkg != nil {
		return fn.Pkg.Pkg.Name() + "." + fn.Name()
	}
	if o := fn.Object(); o != nil && o.Pkg() != nil {
		return o.Pkg().Name() + "." + fn.Name()
	}
	return fn.Name()
}

// CallOf returns the CallCommon of an instruction (Call, Defer, Go) or nil.
func CallOf(in ssa.Instruction) *ssa.CallCommon {
	switch c := in.(type) {
	case *ssa.Call:
		return &c.Call
	case *ssa.Defer:
		return &c.Call
	case *ssa.Go:
		return &c.Call
	}
	return nil
}

// Callees resolves the possible module/stdlib callees of a call site using static resolution
// first and the VTA graph for dynamic calls.
func (p *Program) Callees(site ssa.CallInstruction) []*ssa.Function {
	c := site.Common()
	if f := c.StaticCallee(); f != nil {
		return []*ssa.Function{f}
	}
	if _, ok := c.Value.(*ssa.Builtin); ok {
		return nil
	}
	n := p.CallGraph().Nodes[site.Parent()]
	if n == nil {
		return nil
	}
	var out []*ssa.Function
	seen := map[*ssa.Function]bool{}
	for _, e := range n.Out {
		if e.Site == site && !seen[e.Callee.Func] {
			seen[e.Callee.Func] = true
			out = append(out, e.Callee.Func)
		}
	}
	sort.Slice(out, func(i, j int) bool { return FullName(out[i]) < FullName(out[j]) })
	return out
}

// Reachable returns the module functions reachable from the roots over the VTA graph
// (including the roots, closures created inside reachable functions, and deferred calls).
func (p *Program) Reachable(roots ...*ssa.Function) map[*ssa.Function]bool {
	g := p.CallGraph()
	seen := map[*ssa.Function]bool{}
	var walk func(fn *ssa.Function)
	walk = func(fn *ssa.Function) {
		if fn == nil || seen[fn] || !InModule(fn) {
			return
		}
		seen[fn] = true
		if n := g.Nodes[fn]; n != nil {
			for _, e := range n.Out {
				walk(e.Callee.Func)
			}
		}
		for _, b := range fn.Blocks {
			for _, in := range b.Instrs {
				if mc, ok := in.(*ssa.MakeClosure); ok {
					walk(mc.Fn.(*ssa.Function))
				}
			}
		}
	}
	for _, r := range roots {
		walk(r)
	}
	return seen
}

// CallPath returns one call chain (function names) from root to target, for reports.
func (p *Program) CallPath(root, target *ssa.Function) []string {
	g := p.CallGraph()
	prev := map[*ssa.Function]*ssa.Function{root: nil}
	queue := []*ssa.Function{root}
	for len(queue) > 0 {
		fn := queue[0]
		queue = queue[1:]
		if fn == target {
			var out []string
			for f := fn; f != nil; f = prev[f] {
				out = append([]string{QualName(f)}, out...)
			}
			return out
		}
		var next []*ssa.Function
		if n := g.Nodes[fn]; n != nil {
			for _, e := range n.Out {
				next = append(next, e.Callee.Func)
			}
		}
		for _, b := range fn.Blocks {
			for _, in := range b.Instrs {
				if mc, ok := in.(*ssa.MakeClosure); ok {
					next = append(next, mc.Fn.(*ssa.Function))
				}
			}
		}
		for _, c := range next {
			if c == nil || !InModule(c) {
				continue
			}
			if _, ok := prev[c]; !ok {
				prev[c] = fn
				queue = append(queue, c)
			}
		}
	}
	return nil
}

var _ = callgraph.CalleesOf

// ---------------------------------------------------------------------------------------------
// CFG helpers

// InstrIndex returns the index of in within its block.
func InstrIndex(in ssa.Instruction) int {
	for i, x := range in.Block().Instrs {
		if x == in {
			return i
		}
	}
	return -1
}

// Precedes reports whether instruction a executes before b on every path that reaches b
// (a's block strictly dominates b's, or same block and earlier).
func Precedes(a, b ssa.Instruction) bool {
	if a.Block() == b.Block() {
		return InstrIndex(a) < InstrIndex(b)
	}
	return a.Block().Dominates(b.Block())
}

// ReachableBlocks returns the blocks reachable from start without entering any block in avoid.
func ReachableBlocks(start *ssa.BasicBlock, avoid map[*ssa.BasicBlock]bool) map[*ssa.BasicBlock]bool {
	seen := map[*ssa.BasicBlock]bool{}
	var walk func(b *ssa.BasicBlock)
	walk = func(b *ssa.BasicBlock) {
		if seen[b] || avoid[b] {
			return
		}
		seen[b] = true
		for _, s := range b.Succs {
			walk(s)
		}
	}
	walk(start)
	return seen
}

// Returns lists the Return instructions of fn.
func Returns(fn *ssa.Function) []*ssa.Return {
	var out []*ssa.Return
	for _, b := range fn.Blocks {
		if len(b.Instrs) == 0 {
			continue
		}
		if r, ok := b.Instrs[len(b.Instrs)-1].(*ssa.Return); ok {
			out = append(out, r)
		}
	}
	return out
}

// ErrResultIndex returns the index of the last result if it is of type error, else -1.
func ErrResultIndex(fn *ssa.Function) int {
	res := fn.Signature.Results()
	if res.Len() == 0 {
		return -1
	}
	if IsErrorType(res.At(res.Len() - 1).Type()) {
		return res.Len() - 1
	}
	return -1
}

// IsErrorType reports whether t is the predeclared error interface.
func IsErrorType(t types.Type) bool {
	return types.Identical(t, types.Universe.Lookup("error").Type())
}

// ReturnOperand resolves the i-th operand of a return, looking through the defer spill
// (*t1 = v; rundefers; t = *t1; return t) used by functions with named results and defers.
func ReturnOperand(r *ssa.Return, i int) ssa.Value {
	v := r.Results[i]
	if u, ok := v.(*ssa.UnOp); ok && u.Op == token.MUL {
		if a, ok := u.X.(*ssa.Alloc); ok {
			// last store into a in the same block before the load, if any
			var last ssa.Value
			for _, in := range r.Block().Instrs {
				if in == ssa.Instruction(u) {
					break
				}
				if s, ok := in.(*ssa.Store); ok && s.Addr == a {
					last = s.Val
				}
			}
			if last != nil {
				return last
			}
		}
	}
	return v
}

// EachInstr calls f for every instruction of fn.
func EachInstr(fn *ssa.Function, f func(ssa.Instruction)) {
	for _, b := range fn.Blocks {
		for _, in := range b.Instrs {
			f(in)
		}
	}
}

// EachCall calls f for every call-like instruction (Call, Defer, Go) of fn.
func EachCall(fn *ssa.Function, f func(site ssa.CallInstruction, name string)) {
	EachInstr(fn, func(in ssa.Instruction) {
		if ci, ok := in.(ssa.CallInstruction); ok {
			f(ci, CalleeName(ci.Common()))
		}
	})
}

// WithClosures returns fn followed by all closures nested in it (transitively).
func WithClosures(fn *ssa.Function) []*ssa.Function {
	out := []*ssa.Function{fn}
	for _, a := range fn.AnonFuncs {
		out = append(out, WithClosures(a)...)
	}
	return out
}
