package core

import (
	"fmt"
	"go/constant"
	"go/token"
	"go/types"
	"sort"
	"strings"

	"golang.org/x/tools/go/callgraph"
	"golang.org/x/tools/go/ssa"
)

// ---------------------------------------------------------------------------------------------
// Access paths

// cellSingleStore returns the only value stored into the local cell a (an Alloc holding a
// spilled parameter / captured variable) when the cell is stored exactly once in its function
// and never through a closure's free variable; nil otherwise.
func cellSingleStore(a *ssa.Alloc) ssa.Value {
	var val ssa.Value
	n := 0
	for _, r := range *a.Referrers() {
		switch r := r.(type) {
		case *ssa.Store:
			if r.Addr == a {
				n++
				val = r.Val
			}
		case *ssa.MakeClosure:
			// stores through the corresponding free variable?
			fn := r.Fn.(*ssa.Function)
			for i, b := range r.Bindings {
				if b == a && freeVarStored(fn, fn.FreeVars[i]) {
					return nil
				}
			}
		}
	}
	if n == 1 {
		return val
	}
	return nil
}

func freeVarStored(fn *ssa.Function, fv *ssa.FreeVar) bool {
	for _, r := range *fv.Referrers() {
		switch r := r.(type) {
		case *ssa.Store:
			if r.Addr == fv {
				return true
			}
		case *ssa.MakeClosure:
			inner := r.Fn.(*ssa.Function)
			for i, b := range r.Bindings {
				if b == fv && freeVarStored(inner, inner.FreeVars[i]) {
					return true
				}
			}
		}
	}
	return false
}

// FreeVarBinding resolves a closure's free variable to the value bound in the parent function.
func FreeVarBinding(fv *ssa.FreeVar) ssa.Value {
	fn := fv.Parent()
	par := fn.Parent()
	if par == nil {
		return nil
	}
	idx := -1
	for i, f := range fn.FreeVars {
		if f == fv {
			idx = i
		}
	}
	if idx < 0 {
		return nil
	}
	for _, b := range par.Blocks {
		for _, in := range b.Instrs {
			if mc, ok := in.(*ssa.MakeClosure); ok && mc.Fn == fn {
				return mc.Bindings[idx]
			}
		}
	}
	return nil
}

// StripConv removes value-preserving wrappers (ChangeType, widening Convert, MakeInterface, ChangeInterface).
func StripConv(v ssa.Value) ssa.Value {
	for {
		switch x := v.(type) {
		case *ssa.ChangeType:
			v = x.X
		case *ssa.ChangeInterface:
			v = x.X
		case *ssa.MakeInterface:
			v = x.X
		case *ssa.Convert:
			if widening(x.X.Type(), x.Type()) {
				v = x.X
			} else {
				return v
			}
		default:
			return v
		}
	}
}

func widening(from, to types.Type) bool {
	fb, ok1 := from.Underlying().(*types.Basic)
	tb, ok2 := to.Underlying().(*types.Basic)
	if !ok1 || !ok2 || fb.Info()&types.IsInteger == 0 || tb.Info()&types.IsInteger == 0 {
		return false
	}
	fs, ts := intBits(fb), intBits(tb)
	fu := fb.Info()&types.IsUnsigned != 0
	tu := tb.Info()&types.IsUnsigned != 0
	switch {
	case fu == tu:
		return ts >= fs
	case fu && !tu:
		return ts > fs
	}
	return false
}

func intBits(b *types.Basic) int {
	switch b.Kind() {
	case types.Int8, types.Uint8:
		return 8
	case types.Int16, types.Uint16:
		return 16
	case types.Int32, types.Uint32:
		return 32
	}
	return 64
}

// Path renders the access path of a value or address: "v.input.opt.chunkSize", "c.writeErr",
// "len(p)", "pkg.Global", or "%name" for anything that is not an access path.
// A load of an address has the path of the address.
func Path(v ssa.Value) string { return pathDepth(v, 0) }

// pather renders access paths; Bind replaces parameters of a callee by the arguments of one call (so that a value inside
// a helper is named in the caller's vocabulary), AllConv also looks through narrowing integer conversions.
type pather struct {
	Bind    map[*ssa.Parameter]ssa.Value
	AllConv bool
}

var plainPather = &pather{}

// PathBound is Path with the parameters in bind replaced by their arguments; allConv strips every integer conversion.
func PathBound(v ssa.Value, bind map[*ssa.Parameter]ssa.Value, allConv bool) string {
	return (&pather{bind, allConv}).path(v, 0)
}

func pathDepth(v ssa.Value, d int) string { return plainPather.path(v, d) }

func (pt *pather) path(v ssa.Value, d int) string {
	if d > 24 || v == nil {
		return "%?"
	}
	switch x := v.(type) {
	case *ssa.Parameter:
		if a, ok := pt.Bind[x]; ok {
			return (&pather{nil, pt.AllConv}).path(a, d+1)
		}
		return ParamName(x)
	case *ssa.FreeVar:
		if b := FreeVarBinding(x); b != nil {
			return pt.path(b, d+1)
		}
		return FreeVarName(x)
	case *ssa.Global:
		if x.Pkg != nil {
			return x.Pkg.Pkg.Name() + "." + GlobalName(x)
		}
		return GlobalName(x)
	case *ssa.Alloc:
		if s := cellSingleStore(x); s != nil {
			if _, ok := s.(*ssa.Parameter); ok {
				return pt.path(s, d+1)
			}
		}
		if x.Comment != "" {
			return AllocName(x)
		}
		return "%" + x.Name()
	case *ssa.FieldAddr:
		return pt.path(x.X, d+1) + "." + fieldName(x.X.Type(), x.Field)
	case *ssa.Field:
		return pt.path(x.X, d+1) + "." + fieldName(x.X.Type(), x.Field)
	case *ssa.IndexAddr:
		return pt.path(x.X, d+1) + "[" + idxString(x.Index) + "]"
	case *ssa.Index:
		return pt.path(x.X, d+1) + "[" + idxString(x.Index) + "]"
	case *ssa.Lookup:
		return pt.path(x.X, d+1) + "[" + idxString(x.Index) + "]"
	case *ssa.UnOp:
		if x.Op == token.MUL {
			return pt.path(x.X, d+1)
		}
	case *ssa.ChangeType:
		return pt.path(x.X, d+1)
	case *ssa.ChangeInterface:
		return pt.path(x.X, d+1)
	case *ssa.MakeInterface:
		return pt.path(x.X, d+1)
	case *ssa.Convert:
		if widening(x.X.Type(), x.Type()) || (pt.AllConv && isIntType(x.X.Type()) && isIntType(x.Type())) {
			return pt.path(x.X, d+1)
		}
	case *ssa.Slice:
		if x.Low == nil && x.High == nil {
			return pt.path(x.X, d+1)
		}
	case *ssa.Const:
		if x.Value == nil {
			return "nil"
		}
		return x.Value.ExactString()
	case *ssa.Call:
		if b, ok := x.Call.Value.(*ssa.Builtin); ok && (b.Name() == "len" || b.Name() == "cap") {
			return b.Name() + "(" + pt.path(x.Call.Args[0], d+1) + ")"
		}
		if cal := x.Call.StaticCallee(); cal != nil {
			var args []string
			for _, a := range x.Call.Args {
				args = append(args, pt.path(a, d+1))
			}
			return QualName(cal) + "(" + strings.Join(args, ",") + ")"
		}
		if x.Call.IsInvoke() {
			return pt.path(x.Call.Value, d+1) + "." + x.Call.Method.Name() + "()"
		}
	case *ssa.Extract:
		return pt.path(x.Tuple, d+1) + "#" + fmt.Sprint(x.Index)
	}
	return "%" + v.Name()
}

func idxString(v ssa.Value) string {
	if c, ok := v.(*ssa.Const); ok && c.Value != nil {
		return c.Value.ExactString()
	}
	return "*"
}

func fieldName(t types.Type, i int) string {
	if p, ok := t.Underlying().(*types.Pointer); ok {
		t = p.Elem()
	}
	if s, ok := t.Underlying().(*types.Struct); ok && i < s.NumFields() {
		return FieldVarName(s.Field(i))
	}
	return fmt.Sprintf("f%d", i)
}

// FieldVar returns the *types.Var of the field an address/field instruction selects.
func FieldVar(v ssa.Value) *types.Var {
	var t types.Type
	var i int
	switch x := v.(type) {
	case *ssa.FieldAddr:
		t, i = x.X.Type(), x.Field
	case *ssa.Field:
		t, i = x.X.Type(), x.Field
	default:
		return nil
	}
	if p, ok := t.Underlying().(*types.Pointer); ok {
		t = p.Elem()
	}
	if s, ok := t.Underlying().(*types.Struct); ok && i < s.NumFields() {
		return s.Field(i)
	}
	return nil
}

// TypedPath is Path with the root replaced by the root's named type: "Protocol.input.opt.chunkSize".
// It makes access paths comparable across functions whose receivers have different names.
func TypedPath(v ssa.Value) string {
	p := Path(v)
	root := pathRoot(v, 0)
	if root == nil {
		return p
	}
	name := ""
	switch r := root.(type) {
	case *ssa.Parameter:
		name = ParamName(r)
	case *ssa.FreeVar:
		name = FreeVarName(r)
	default:
		return p
	}
	tn := typeBaseName(root.Type())
	if tn == "" || !strings.HasPrefix(p, name) {
		return p
	}
	return tn + p[len(name):]
}

func typeBaseName(t types.Type) string {
	for {
		switch x := t.(type) {
		case *types.Pointer:
			t = x.Elem()
			continue
		case *types.Named:
			return TypeNameOf(x.Obj())
		}
		return ""
	}
}

func pathRoot(v ssa.Value, d int) ssa.Value {
	if d > 24 || v == nil {
		return nil
	}
	switch x := v.(type) {
	case *ssa.Parameter:
		return x
	case *ssa.FreeVar:
		if b := FreeVarBinding(x); b != nil {
			return pathRoot(b, d+1)
		}
		return x
	case *ssa.Alloc:
		if s := cellSingleStore(x); s != nil {
			if _, ok := s.(*ssa.Parameter); ok {
				return s
			}
		}
		return x
	case *ssa.FieldAddr:
		return pathRoot(x.X, d+1)
	case *ssa.Field:
		return pathRoot(x.X, d+1)
	case *ssa.IndexAddr:
		return pathRoot(x.X, d+1)
	case *ssa.Index:
		return pathRoot(x.X, d+1)
	case *ssa.Lookup:
		return pathRoot(x.X, d+1)
	case *ssa.UnOp:
		if x.Op == token.MUL {
			return pathRoot(x.X, d+1)
		}
	case *ssa.ChangeType:
		return pathRoot(x.X, d+1)
	case *ssa.MakeInterface:
		return pathRoot(x.X, d+1)
	case *ssa.Slice:
		return pathRoot(x.X, d+1)
	}
	return v
}

// PathRoot exposes pathRoot.
func PathRoot(v ssa.Value) ssa.Value { return pathRoot(v, 0) }

// ---------------------------------------------------------------------------------------------
// Constants

// ConstInt returns the integer value of v when it is an integer constant.
func ConstInt(v ssa.Value) (int64, bool) {
	v = StripConv(v)
	c, ok := v.(*ssa.Const)
	if !ok || c.Value == nil {
		// narrowing convert of a constant
		if cv, ok2 := v.(*ssa.Convert); ok2 {
			return ConstInt(cv.X)
		}
		return 0, false
	}
	if c.Value.Kind() != constant.Int {
		return 0, false
	}
	if i, ok := constant.Int64Val(c.Value); ok {
		return i, true
	}
	if u, ok := constant.Uint64Val(c.Value); ok {
		return int64(u), true
	}
	return 0, false
}

// ConstString returns the string value of v when it is a string constant.
func ConstString(v ssa.Value) (string, bool) {
	v = StripConv(v)
	c, ok := v.(*ssa.Const)
	if !ok || c.Value == nil || c.Value.Kind() != constant.String {
		return "", false
	}
	return constant.StringVal(c.Value), true
}

// IsNilConst reports whether v is the nil constant.
func IsNilConst(v ssa.Value) bool {
	c, ok := v.(*ssa.Const)
	return ok && c.Value == nil
}

// ---------------------------------------------------------------------------------------------
// Guards (DOM)

// Guard is a branch condition known to hold (Pol=true) or not hold at a program point.
type Guard struct {
	Cond ssa.Value
	Pol  bool
	If   *ssa.If
}

// Guards returns the branch facts that dominate block b (the construction used by x/tools' nilness).
func Guards(b *ssa.BasicBlock) []Guard {
	var out []Guard
	for n := b; n != nil; n = n.Idom() {
		d := n.Idom()
		if d == nil {
			break
		}
		if len(d.Instrs) == 0 {
			continue
		}
		iff, ok := d.Instrs[len(d.Instrs)-1].(*ssa.If)
		if !ok {
			continue
		}
		if len(n.Preds) != 1 {
			continue
		}
		if d.Succs[0] == n && d.Succs[1] != n {
			out = append(out, expandBoolGuard(Guard{iff.Cond, true, iff}, 0)...)
		} else if d.Succs[1] == n && d.Succs[0] != n {
			out = append(out, expandBoolGuard(Guard{iff.Cond, false, iff}, 0)...)
		}
	}
	return out
}

// expandBoolGuard looks through a boolean that was materialised from a short-circuit expression (`case a && b:`,
// `ok := a || b; if ok`): when every incoming edge of the phi but one carries the opposite constant, the branch implies
// that control came in by that one edge - so the facts of that edge hold as well.
func expandBoolGuard(g Guard, depth int) []Guard {
	out := []Guard{g}
	if depth > 4 {
		return out
	}
	cond, pol := g.Cond, g.Pol
	for {
		if u, ok := cond.(*ssa.UnOp); ok && u.Op == token.NOT {
			cond, pol = u.X, !pol
			continue
		}
		break
	}
	phi, ok := cond.(*ssa.Phi)
	if !ok {
		return out
	}
	live := -1
	for i, e := range phi.Edges {
		if c, isC := e.(*ssa.Const); isC && c.Value != nil && c.Value.Kind() == constant.Bool && constant.BoolVal(c.Value) != pol {
			continue
		}
		if live >= 0 {
			return out // two edges can produce this outcome
		}
		live = i
	}
	if live < 0 {
		return out
	}
	pred := phi.Block().Preds[live]
	if _, isC := phi.Edges[live].(*ssa.Const); !isC {
		out = append(out, expandBoolGuard(Guard{phi.Edges[live], pol, g.If}, depth+1)...)
	}
	out = append(out, Guards(pred)...)
	if iff, ok := pred.Instrs[len(pred.Instrs)-1].(*ssa.If); ok && len(pred.Succs) == 2 && pred.Succs[0] != pred.Succs[1] {
		if pred.Succs[0] == phi.Block() {
			out = append(out, expandBoolGuard(Guard{iff.Cond, true, iff}, depth+1)...)
		} else if pred.Succs[1] == phi.Block() {
			out = append(out, expandBoolGuard(Guard{iff.Cond, false, iff}, depth+1)...)
		}
	}
	return out
}

// Atom is a canonical comparison "L op R" over access paths and constants.
type Atom struct {
	L, Op, R string
	LV, RV   ssa.Value
}

func (a Atom) String() string { return a.L + " " + a.Op + " " + a.R }

var negOp = map[string]string{"==": "!=", "!=": "==", "<": ">=", ">=": "<", ">": "<=", "<=": ">"}
var swapOp = map[string]string{"==": "==", "!=": "!=", "<": ">", ">": "<", "<=": ">=", ">=": "<="}

// AtomOf canonicalises a guard into an atom; ok=false when the condition is not a comparison
// (then L is the path of the boolean and Op is "is"/"not").
func AtomOf(g Guard) (Atom, bool) {
	cond, pol := g.Cond, g.Pol
	for {
		if u, ok := cond.(*ssa.UnOp); ok && u.Op == token.NOT {
			cond, pol = u.X, !pol
			continue
		}
		break
	}
	if b, ok := cond.(*ssa.BinOp); ok {
		op := b.Op.String()
		if _, isCmp := negOp[op]; isCmp {
			if !pol {
				op = negOp[op]
			}
			a := Atom{L: Path(b.X), Op: op, R: Path(b.Y), LV: b.X, RV: b.Y}
			// constant on the right
			if _, lc := StripConv(b.X).(*ssa.Const); lc {
				if _, rc := StripConv(b.Y).(*ssa.Const); !rc {
					a = Atom{L: a.R, Op: swapOp[op], R: a.L, LV: b.Y, RV: b.X}
				}
			}
			return a, true
		}
	}
	op := "is"
	if !pol {
		op = "not"
	}
	return Atom{L: Path(cond), Op: op, R: "true", LV: cond}, false
}

// GuardAtoms returns the canonical atoms dominating block b.
func GuardAtoms(b *ssa.BasicBlock) []Atom {
	var out []Atom
	for _, g := range Guards(b) {
		a, _ := AtomOf(g)
		out = append(out, a)
	}
	return out
}

// EdgeAtoms returns the atoms known on the edge from b to its idx-th successor: those dominating b plus the one the
// branch at the end of b contributes for that successor.
func EdgeAtoms(b *ssa.BasicBlock, idx int) []Atom {
	out := GuardAtoms(b)
	if len(b.Instrs) == 0 {
		return out
	}
	if iff, ok := b.Instrs[len(b.Instrs)-1].(*ssa.If); ok && len(b.Succs) == 2 && b.Succs[0] != b.Succs[1] {
		for _, g := range expandBoolGuard(Guard{iff.Cond, idx == 0, iff}, 0) {
			a, _ := AtomOf(g)
			out = append(out, a)
		}
	}
	return out
}

// HasAtom reports whether block b is dominated by an atom with the given rendering.
func HasAtom(b *ssa.BasicBlock, want string) bool {
	for _, a := range GuardAtoms(b) {
		if a.String() == want {
			return true
		}
	}
	return false
}

// ---------------------------------------------------------------------------------------------
// Calls

// CalleeName renders the callee of a call instruction: "io.ReadFull", "(*bufio.Writer).Flush",
// "invoke net.Conn.Write", "builtin len", "dynamic".
func CalleeName(c *ssa.CallCommon) string {
	if c.IsInvoke() {
		return "invoke " + types.TypeString(c.Value.Type(), shortQual) + "." + c.Method.Name()
	}
	switch v := c.Value.(type) {
	case *ssa.Builtin:
		return "builtin " + v.Name()
	case *ssa.Function:
		return FullName(v)
	case *ssa.MakeClosure:
		return FullName(v.Fn.(*ssa.Function))
	}
	return "dynamic"
}

func shortQual(p *types.Package) string { return p.Name() }

// FullName is "io.ReadFull", "(*bufio.Writer).Flush", "rtmp.(*Protocol).WriteMessage".
func FullName(fn *ssa.Function) string {
	if InModule(fn) {
		return QualName(fn)
	}
	if fn.Signature.Recv() != nil {
		return "(" + types.TypeString(fn.Signature.Recv().Type(), shortQual) + ")." + fn.Name()
	}
	if fn.Pkg != nil {
		return fn.Pkg.Pkg.Name() + "." + fn.Name()
	}
	if o := fn.Object(); o != nil && o.Pkg() != nil {
		return o.Pkg().Name() + "." + fn.Name()
	}
	return fn.Name()
}

// CallOf returns the CallCommon of an instruction (Call, Defer, Go) or nil.
func CallOf(in ssa.Instruction) *ssa.CallCommon {
	switch c := in.(type) {
	case *ssa.Call:
		return &c.Call
	case *ssa.Defer:
		return &c.Call
	case *ssa.Go:
		return &c.Call
	}
	return nil
}

// Callees resolves the possible module/stdlib callees of a call site using static resolution
// first and the VTA graph for dynamic calls.
func (p *Program) Callees(site ssa.CallInstruction) []*ssa.Function {
	c := site.Common()
	if f := c.StaticCallee(); f != nil {
		return []*ssa.Function{f}
	}
	if _, ok := c.Value.(*ssa.Builtin); ok {
		return nil
	}
	n := p.CallGraph().Nodes[site.Parent()]
	if n == nil {
		return nil
	}
	var out []*ssa.Function
	seen := map[*ssa.Function]bool{}
	for _, e := range n.Out {
		if e.Site == site && !seen[e.Callee.Func] {
			seen[e.Callee.Func] = true
			out = append(out, e.Callee.Func)
		}
	}
	sort.Slice(out, func(i, j int) bool { return FullName(out[i]) < FullName(out[j]) })
	return out
}

// Reachable returns the module functions reachable from the roots over the VTA graph
// (including the roots, closures created inside reachable functions, and deferred calls).
func (p *Program) Reachable(roots ...*ssa.Function) map[*ssa.Function]bool {
	g := p.CallGraph()
	seen := map[*ssa.Function]bool{}
	var walk func(fn *ssa.Function)
	walk = func(fn *ssa.Function) {
		if fn == nil || seen[fn] || !InModule(fn) {
			return
		}
		seen[fn] = true
		if n := g.Nodes[fn]; n != nil {
			for _, e := range n.Out {
				walk(e.Callee.Func)
			}
		}
		for _, b := range fn.Blocks {
			for _, in := range b.Instrs {
				if mc, ok := in.(*ssa.MakeClosure); ok {
					walk(mc.Fn.(*ssa.Function))
				}
			}
		}
	}
	for _, r := range roots {
		walk(r)
	}
	return seen
}

// CallPath returns one call chain (function names) from root to target, for reports.
func (p *Program) CallPath(root, target *ssa.Function) []string {
	g := p.CallGraph()
	prev := map[*ssa.Function]*ssa.Function{root: nil}
	queue := []*ssa.Function{root}
	for len(queue) > 0 {
		fn := queue[0]
		queue = queue[1:]
		if fn == target {
			var out []string
			for f := fn; f != nil; f = prev[f] {
				out = append([]string{QualName(f)}, out...)
			}
			return out
		}
		var next []*ssa.Function
		if n := g.Nodes[fn]; n != nil {
			for _, e := range n.Out {
				next = append(next, e.Callee.Func)
			}
		}
		for _, b := range fn.Blocks {
			for _, in := range b.Instrs {
				if mc, ok := in.(*ssa.MakeClosure); ok {
					next = append(next, mc.Fn.(*ssa.Function))
				}
			}
		}
		for _, c := range next {
			if c == nil || !InModule(c) {
				continue
			}
			if _, ok := prev[c]; !ok {
				prev[c] = fn
				queue = append(queue, c)
			}
		}
	}
	return nil
}

var _ = callgraph.CalleesOf

// ---------------------------------------------------------------------------------------------
// CFG helpers

// InstrIndex returns the index of in within its block.
func InstrIndex(in ssa.Instruction) int {
	for i, x := range in.Block().Instrs {
		if x == in {
			return i
		}
	}
	return -1
}

// Precedes reports whether instruction a executes before b on every path that reaches b
// (a's block strictly dominates b's, or same block and earlier).
func Precedes(a, b ssa.Instruction) bool {
	if a.Block() == b.Block() {
		return InstrIndex(a) < InstrIndex(b)
	}
	return a.Block().Dominates(b.Block())
}

// ReachableBlocks returns the blocks reachable from start without entering any block in avoid.
func ReachableBlocks(start *ssa.BasicBlock, avoid map[*ssa.BasicBlock]bool) map[*ssa.BasicBlock]bool {
	seen := map[*ssa.BasicBlock]bool{}
	var walk func(b *ssa.BasicBlock)
	walk = func(b *ssa.BasicBlock) {
		if seen[b] || avoid[b] {
			return
		}
		seen[b] = true
		for _, s := range b.Succs {
			walk(s)
		}
	}
	walk(start)
	return seen
}

// Returns lists the Return instructions of fn.
func Returns(fn *ssa.Function) []*ssa.Return {
	var out []*ssa.Return
	for _, b := range fn.Blocks {
		if len(b.Instrs) == 0 {
			continue
		}
		if r, ok := b.Instrs[len(b.Instrs)-1].(*ssa.Return); ok {
			out = append(out, r)
		}
	}
	return out
}

// ErrResultIndex returns the index of the last result if it is of type error, else -1.
func ErrResultIndex(fn *ssa.Function) int {
	res := fn.Signature.Results()
	if res.Len() == 0 {
		return -1
	}
	if IsErrorType(res.At(res.Len() - 1).Type()) {
		return res.Len() - 1
	}
	return -1
}

// IsErrorType reports whether t is the predeclared error interface.
func IsErrorType(t types.Type) bool {
	return types.Identical(t, types.Universe.Lookup("error").Type())
}

// ReturnOperand resolves the i-th operand of a return, looking through the defer spill
// (*t1 = v; rundefers; t = *t1; return t) used by functions with named results and defers.
func ReturnOperand(r *ssa.Return, i int) ssa.Value {
	v := r.Results[i]
	if u, ok := v.(*ssa.UnOp); ok && u.Op == token.MUL {
		if a, ok := u.X.(*ssa.Alloc); ok {
			// last store into a in the same block before the load, if any
			var last ssa.Value
			for _, in := range r.Block().Instrs {
				if in == ssa.Instruction(u) {
					break
				}
				if s, ok := in.(*ssa.Store); ok && s.Addr == a {
					last = s.Val
				}
			}
			if last != nil {
				return last
			}
		}
	}
	return v
}

// EachInstr calls f for every instruction of fn.
func EachInstr(fn *ssa.Function, f func(ssa.Instruction)) {
	for _, b := range fn.Blocks {
		for _, in := range b.Instrs {
			f(in)
		}
	}
}

// EachCall calls f for every call-like instruction (Call, Defer, Go) of fn.
func EachCall(fn *ssa.Function, f func(site ssa.CallInstruction, name string)) {
	EachInstr(fn, func(in ssa.Instruction) {
		if ci, ok := in.(ssa.CallInstruction); ok {
			f(ci, CalleeName(ci.Common()))
		}
	})
}

// WithClosures returns fn followed by all closures nested in it (transitively).
func WithClosures(fn *ssa.Function) []*ssa.Function {
	out := []*ssa.Function{fn}
	for _, a := range fn.AnonFuncs {
		out = append(out, WithClosures(a)...)
	}
	return out
}

// GetterLoad recognises a call of a module function that does nothing but return the current value of one field
// reachable from a parameter (taking and releasing a sync mutex around the load is allowed): it returns the field
// address inside the callee, so that a caller can treat `x.get()` like the load `x.f` it was extracted from.
func GetterLoad(v ssa.Value) (addr ssa.Value, ok bool) {
	call, isCall := StripConv(v).(*ssa.Call)
	if !isCall {
		return nil, false
	}
	fn := call.Call.StaticCallee()
	if fn == nil || !InModule(fn) || len(fn.Blocks) == 0 || fn.Signature.Results().Len() != 1 {
		return nil, false
	}
	var path string
	for _, b := range fn.Blocks {
		for _, in := range b.Instrs {
			switch x := in.(type) {
			case *ssa.Defer:
				// defer mu.Unlock() is the same critical section as an explicit Unlock before the return
				cal := x.Call.StaticCallee()
				if cal == nil {
					return nil, false
				}
				switch FullName(cal) {
				case "(*sync.Mutex).Unlock", "(*sync.RWMutex).RUnlock", "(*sync.RWMutex).Unlock":
				default:
					return nil, false
				}
			case *ssa.Store:
				// the result spilled to its cell (functions with a defer keep named results in memory)
				if _, toLocal := x.Addr.(*ssa.Alloc); !toLocal {
					return nil, false
				}
			case *ssa.MapUpdate, *ssa.Send, *ssa.Go, *ssa.Panic:
				return nil, false
			case *ssa.Call:
				cal := x.Call.StaticCallee()
				if cal == nil {
					return nil, false
				}
				switch FullName(cal) {
				case "(*sync.Mutex).Lock", "(*sync.Mutex).Unlock", "(*sync.RWMutex).RLock", "(*sync.RWMutex).RUnlock",
					"(*sync.RWMutex).Lock", "(*sync.RWMutex).Unlock":
				default:
					return nil, false
				}
			case *ssa.Return:
				ld, isLoad := StripConv(ReturnOperand(x, 0)).(*ssa.UnOp)
				if !isLoad || ld.Op != token.MUL {
					return nil, false
				}
				if cell, isCell := ld.X.(*ssa.Alloc); isCell {
					// a local holding the field's value: err := c.writeErr; return err
					if sv := cellSingleStore(cell); sv != nil {
						if l2, ok := StripConv(sv).(*ssa.UnOp); ok && l2.Op == token.MUL {
							ld = l2
						}
					}
				}
				if _, isField := ld.X.(*ssa.FieldAddr); !isField {
					return nil, false
				}
				if _, isPar := pathRoot(ld.X, 0).(*ssa.Parameter); !isPar {
					return nil, false
				}
				tp := TypedPath(ld.X)
				if path != "" && tp != path {
					return nil, false
				}
				path, addr = tp, ld.X
			}
		}
	}
	return addr, addr != nil
}

// ValueLeaves enumerates the values that may flow into v, looking through phis, value-preserving conversions and calls
// of module functions (a returned parameter is replaced by the argument of that call).  Leaves are constants, loads,
// calls that are not expanded, parameters of the outermost function, ...  Used by rules that ask "which values can this
// operand take" so that moving the selection into a helper does not change the answer.
func ValueLeaves(v ssa.Value) []ssa.Value {
	var out []ssa.Value
	seen := map[ssa.Value]bool{}
	var walk func(v ssa.Value, args map[*ssa.Parameter]ssa.Value, d int)
	walk = func(v ssa.Value, args map[*ssa.Parameter]ssa.Value, d int) {
		v = StripConv(v)
		if d > 12 || v == nil {
			out = append(out, v)
			return
		}
		if seen[v] {
			return
		}
		seen[v] = true
		switch x := v.(type) {
		case *ssa.Phi:
			for _, e := range x.Edges {
				walk(e, args, d+1)
			}
			return
		case *ssa.Parameter:
			if a, ok := args[x]; ok {
				walk(a, args, d+1)
				return
			}
		case *ssa.Call:
			fn := x.Call.StaticCallee()
			if fn != nil && InModule(fn) && len(fn.Blocks) > 0 && fn.Signature.Results().Len() == 1 && !x.Call.IsInvoke() {
				inner := map[*ssa.Parameter]ssa.Value{}
				for k, a := range args {
					inner[k] = a
				}
				for i, p := range fn.Params {
					if i < len(x.Call.Args) {
						inner[p] = x.Call.Args[i]
					}
				}
				for _, r := range Returns(fn) {
					walk(r.Results[0], inner, d+1)
				}
				return
			}
		}
		out = append(out, v)
	}
	walk(v, map[*ssa.Parameter]ssa.Value{}, 0)
	return out
}

// ValueCase is one value an operand can take together with the atoms that hold when it does.
type ValueCase struct {
	Val   ssa.Value
	Atoms []Atom
}

// ValueCases splits an operand used in block use into its cases: a phi contributes one case per incoming edge (with the
// atoms of that edge), anything else is a single case under the guards of the use.
func ValueCases(v ssa.Value, use *ssa.BasicBlock) []ValueCase {
	var out []ValueCase
	var walk func(v ssa.Value, atoms []Atom, d int)
	walk = func(v ssa.Value, atoms []Atom, d int) {
		phi, ok := v.(*ssa.Phi)
		if !ok || d > 6 {
			out = append(out, ValueCase{v, atoms})
			return
		}
		for i, e := range phi.Edges {
			pred := phi.Block().Preds[i]
			idx := 0
			for k, s := range pred.Succs {
				if s == phi.Block() {
					idx = k
				}
			}
			walk(e, append(append([]Atom(nil), atoms...), RefineAtoms(pred, EdgeAtoms(pred, idx))...), d+1)
		}
	}
	walk(v, GuardAtoms(use), 0)
	return out
}

func isIntType(t types.Type) bool {
	b, ok := t.Underlying().(*types.Basic)
	return ok && b.Info()&types.IsInteger != 0
}

// RCase is one value an operand can take, named in the vocabulary of the function that uses it, with the comparison
// atoms that hold when it does.
type RCase struct {
	Val   string
	ValV  ssa.Value
	Atoms []Atom
}

// ResultCases splits an operand into its cases like ValueCases, and also looks into a call of a module helper with one
// result: each return of the helper is a case, with the helper's parameters replaced by the call's arguments.  allConv
// ignores integer conversions when naming values.
func ResultCases(v ssa.Value, use *ssa.BasicBlock, allConv bool) []RCase {
	var out []RCase
	render := func(atoms []Atom, bind map[*ssa.Parameter]ssa.Value) []Atom {
		var r []Atom
		for _, a := range atoms {
			b := a
			if a.LV != nil {
				b.L = PathBound(a.LV, bind, allConv)
			}
			if a.RV != nil {
				b.R = PathBound(a.RV, bind, allConv)
			}
			r = append(r, b)
		}
		return r
	}
	var walk func(v ssa.Value, use *ssa.BasicBlock, atoms []Atom, bind map[*ssa.Parameter]ssa.Value, d int)
	walk = func(v ssa.Value, use *ssa.BasicBlock, atoms []Atom, bind map[*ssa.Parameter]ssa.Value, d int) {
		sv := v
		for {
			sv = StripConv(sv)
			if cv, ok := sv.(*ssa.Convert); ok && allConv && isIntType(cv.X.Type()) && isIntType(cv.Type()) {
				sv = cv.X
				continue
			}
			break
		}
		if d <= 6 {
			switch x := sv.(type) {
			case *ssa.Phi:
				for i, e := range x.Edges {
					pred := x.Block().Preds[i]
					idx := 0
					for k, s := range pred.Succs {
						if s == x.Block() {
							idx = k
						}
					}
					walk(e, nil, append(append([]Atom(nil), atoms...), render(EdgeAtoms(pred, idx), bind)...), bind, d+1)
				}
				return
			case *ssa.Call:
				fn := x.Call.StaticCallee()
				if fn != nil && bind == nil && InModule(fn) && len(fn.Blocks) > 0 && fn.Signature.Results().Len() == 1 && !x.Call.IsInvoke() {
					inner := map[*ssa.Parameter]ssa.Value{}
					for i, p := range fn.Params {
						if i < len(x.Call.Args) {
							inner[p] = x.Call.Args[i]
						}
					}
					for _, r := range Returns(fn) {
						walk(r.Results[0], r.Block(), append([]Atom(nil), atoms...), inner, d+1)
					}
					return
				}
			}
		}
		if use != nil {
			atoms = append(atoms, render(GuardAtoms(use), bind)...)
		}
		out = append(out, RCase{PathBound(sv, bind, allConv), sv, atoms})
	}
	walk(v, use, nil, nil, 0)
	return out
}

// Resolver names values across small helpers: a call (or one result of a call) of a module function with a single
// return statement stands for the returned expression, and a parameter of such a helper stands for the argument it was
// called with.  Rules that ask "where does this value come from" use it so that moving an expression into a helper
// does not change the answer.  One Resolver serves one question; a helper reached with two different arguments for one
// parameter is not expanded.
type Resolver struct {
	bind    map[*ssa.Parameter]ssa.Value
	AllConv bool // also look through integer conversions
}

func NewResolver(allConv bool) *Resolver {
	return &Resolver{bind: map[*ssa.Parameter]ssa.Value{}, AllConv: allConv}
}

func (r *Resolver) expand(c *ssa.Call) *ssa.Return {
	fn := c.Call.StaticCallee()
	if fn == nil || c.Call.IsInvoke() || !InModule(fn) || len(fn.Blocks) == 0 || len(fn.Blocks) > 8 {
		return nil
	}
	rets := Returns(fn)
	if len(rets) > 1 {
		// early exits that return constants only (if ctx == nil { return 0, false }) beside one computing return:
		// the call stands for the computing one (the constant alternatives are the helper's "nothing" answers)
		var computing []*ssa.Return
		for _, rt := range rets {
			allConst := true
			for i := range rt.Results {
				if _, isC := StripConv(ReturnOperand(rt, i)).(*ssa.Const); !isC {
					allConst = false
				}
			}
			if !allConst {
				computing = append(computing, rt)
			}
		}
		rets = computing
	}
	if len(rets) != 1 {
		return nil
	}
	for i, p := range fn.Params {
		if i >= len(c.Call.Args) {
			return nil
		}
		if old, ok := r.bind[p]; ok && old != c.Call.Args[i] {
			return nil
		}
	}
	for i, p := range fn.Params {
		r.bind[p] = c.Call.Args[i]
	}
	return rets[0]
}

// V resolves v to the value it stands for.
func (r *Resolver) V(v ssa.Value) ssa.Value {
	for i := 0; i < 16 && v != nil; i++ {
		v = StripConv(v)
		switch x := v.(type) {
		case *ssa.Convert:
			if r.AllConv && isIntType(x.X.Type()) && isIntType(x.Type()) {
				v = x.X
				continue
			}
		case *ssa.Parameter:
			if a, ok := r.bind[x]; ok {
				v = a
				continue
			}
		case *ssa.Call:
			if ret := r.expand(x); ret != nil && len(ret.Results) == 1 {
				v = ReturnOperand(ret, 0)
				continue
			}
		case *ssa.Extract:
			if c, ok := x.Tuple.(*ssa.Call); ok {
				if ret := r.expand(c); ret != nil && x.Index < len(ret.Results) {
					v = ReturnOperand(ret, x.Index)
					continue
				}
			}
		}
		return v
	}
	return v
}

// RefineAtoms adds facts that hold at block b by elimination: at a merge block above b, a predecessor edge whose own
// atoms contradict what is already known at b (the same comparison with the opposite outcome on the same SSA values)
// cannot be the way control came; what all remaining edges agree on holds at b.  This recovers, for example, atEOF
// in `if x == -1 && !atEOF { return }; ...; if x == -1 { here }`.
func RefineAtoms(b *ssa.BasicBlock, atoms []Atom) []Atom {
	contradicts := func(a, k Atom) bool {
		if a.LV == nil || k.LV == nil || a.LV != k.LV {
			return false
		}
		sameR := (a.RV != nil && a.RV == k.RV) || (a.RV == nil && k.RV == nil && a.R == k.R) || a.R == k.R
		if !sameR {
			return false
		}
		return negOp[a.Op] == k.Op || (a.Op == "is" && k.Op == "not") || (a.Op == "not" && k.Op == "is")
	}
	out := append([]Atom(nil), atoms...)
	have := map[string]bool{}
	for _, a := range out {
		have[a.String()] = true
	}
	for m, depth := b, 0; m != nil && depth < 6; m, depth = m.Idom(), depth+1 {
		if len(m.Preds) < 2 {
			continue
		}
		var common map[string]Atom
		feasible := 0
		for _, p := range m.Preds {
			idx := 0
			for k, sc := range p.Succs {
				if sc == m {
					idx = k
				}
			}
			ea := EdgeAtoms(p, idx)
			bad := false
			for _, a := range ea {
				for _, k := range out {
					if contradicts(a, k) {
						bad = true
					}
				}
			}
			if bad {
				continue
			}
			feasible++
			cur := map[string]Atom{}
			for _, a := range ea {
				cur[a.String()] = a
			}
			if common == nil {
				common = cur
			} else {
				for k := range common {
					if _, ok := cur[k]; !ok {
						delete(common, k)
					}
				}
			}
		}
		if feasible == 0 || feasible == len(m.Preds) {
			continue // nothing eliminated: the dominating guards already say all there is
		}
		var ks []string
		for k := range common {
			ks = append(ks, k)
		}
		sort.Strings(ks)
		for _, k := range ks {
			if !have[k] {
				have[k] = true
				out = append(out, common[k])
			}
		}
	}
	return out
}

// LoopVarEscape is one place where the address of a variable that is re-assigned on every iteration of a loop, but
// allocated once outside it, is stored into memory inside that loop.
type LoopVarEscape struct {
	Name  string
	Alloc *ssa.Alloc
	Store ssa.Instruction
}

// LoopVarEscapes finds kept addresses of shared loop variables.  With a go directive before 1.22 go/ssa allocates the
// variables of a for/range clause once, before the loop; a cell that escapes is a heap Alloc outside the loop that the
// loop assigns on every iteration.  Keeping its address (a Store of the Alloc itself, an append or a composite
// literal holding it, a closure capturing it that is itself stored or started) inside the loop aliases all iterations.
func LoopVarEscapes(fn *ssa.Function) []LoopVarEscape {
	var out []LoopVarEscape
	if len(fn.Blocks) == 0 {
		return nil
	}
	// loops: header -> blocks
	type loop struct {
		hdr *ssa.BasicBlock
		in  map[*ssa.BasicBlock]bool
	}
	var loops []loop
	for _, h := range fn.Blocks {
		in := map[*ssa.BasicBlock]bool{}
		var work []*ssa.BasicBlock
		for _, pr := range h.Preds {
			if h.Dominates(pr) && !in[pr] {
				in[pr] = true
				work = append(work, pr)
			}
		}
		if len(work) == 0 {
			continue
		}
		in[h] = true
		for len(work) > 0 {
			b := work[len(work)-1]
			work = work[:len(work)-1]
			if b == h {
				continue
			}
			for _, pr := range b.Preds {
				if !in[pr] {
					in[pr] = true
					work = append(work, pr)
				}
			}
		}
		loops = append(loops, loop{h, in})
	}
	if len(loops) == 0 {
		return nil
	}
	for _, b := range fn.Blocks {
		for _, ins := range b.Instrs {
			a, ok := ins.(*ssa.Alloc)
			if !ok || !a.Heap || a.Comment == "" {
				continue
			}
			for _, l := range loops {
				if l.in[a.Block()] {
					continue // allocated per iteration
				}
				assigned := false
				for _, r := range *a.Referrers() {
					if st, ok := r.(*ssa.Store); ok && st.Addr == ssa.Value(a) && l.in[st.Block()] {
						assigned = true
					}
				}
				if !assigned {
					continue
				}
				for _, r := range *a.Referrers() {
					if !l.in[r.Block()] {
						continue
					}
					switch x := r.(type) {
					case *ssa.Store:
						if x.Val == ssa.Value(a) {
							out = append(out, LoopVarEscape{a.Comment, a, x})
						}
					case *ssa.MakeInterface:
						for _, rr := range *x.Referrers() {
							if st, ok := rr.(*ssa.Store); ok && st.Val == ssa.Value(x) {
								out = append(out, LoopVarEscape{a.Comment, a, st})
							}
						}
					case *ssa.MakeClosure:
						for _, rr := range *x.Referrers() {
							switch y := rr.(type) {
							case *ssa.Store:
								if y.Val == ssa.Value(x) {
									out = append(out, LoopVarEscape{a.Comment, a, y})
								}
							case *ssa.Go:
								out = append(out, LoopVarEscape{a.Comment, a, y})
							}
						}
					}
				}
			}
		}
	}
	return out
}

// ByteOrigin says where the bytes behind a []byte value may live.
type ByteOrigin struct {
	Kind string // "fresh", "param", "receiver", "global", "pool", "unknown"
	Desc string
}

// SliceOrigins traces a []byte value back to the storage it may alias: a fresh allocation, a parameter, storage kept
// in the receiver (an array or slice field, a buffer held in a field), a package-level variable, or a buffer that goes
// back to a sync.Pool.  Module helpers are entered (their parameters bound to the caller's arguments).
func SliceOrigins(v ssa.Value) []ByteOrigin {
	var out []ByteOrigin
	seen := map[ssa.Value]bool{}
	add := func(k, d string) {
		for _, o := range out {
			if o.Kind == k && o.Desc == d {
				return
			}
		}
		out = append(out, ByteOrigin{k, d})
	}
	var addr func(v ssa.Value, bind map[*ssa.Parameter]ssa.Value, d int)
	var buf func(v ssa.Value, bind map[*ssa.Parameter]ssa.Value, d int)
	var walk func(v ssa.Value, bind map[*ssa.Parameter]ssa.Value, d int)
	// storage designated by an address (of an array, a struct field)
	addr = func(v ssa.Value, bind map[*ssa.Parameter]ssa.Value, d int) {
		switch x := v.(type) {
		case *ssa.Alloc:
			add("fresh", "local "+x.Comment)
		case *ssa.Global:
			add("global", x.Name())
		case *ssa.FieldAddr, *ssa.IndexAddr:
			root := PathRoot(x)
			if par, ok := root.(*ssa.Parameter); ok {
				if b, has := bind[par]; has {
					// a field of the caller's argument
					if bp, isP := StripConv(b).(*ssa.Parameter); isP && bp.Parent() != nil && len(bp.Parent().Params) > 0 && bp.Parent().Params[0] == bp && bp.Parent().Signature.Recv() != nil {
						add("receiver", TypedPath(x))
					} else if _, isAlloc := StripConv(b).(*ssa.Alloc); isAlloc {
						add("fresh", "field of a local")
					} else {
						add("unknown", Path(x))
					}
					return
				}
				fn := par.Parent()
				if fn != nil && fn.Signature.Recv() != nil && len(fn.Params) > 0 && fn.Params[0] == par {
					add("receiver", TypedPath(x))
				} else {
					add("param", Path(x))
				}
				return
			}
			if _, ok := root.(*ssa.Global); ok {
				add("global", Path(x))
				return
			}
			if _, ok := root.(*ssa.Alloc); ok {
				add("fresh", "field of a local")
				return
			}
			add("unknown", Path(x))
		default:
			add("unknown", Path(v))
		}
	}
	// a *bytes.Buffer (or an interface holding one) whose Bytes() is handed out
	buf = func(v ssa.Value, bind map[*ssa.Parameter]ssa.Value, d int) {
		if d > 10 {
			add("unknown", "depth")
			return
		}
		switch x := v.(type) {
		case *ssa.Alloc:
			kept := ""
			var refs func(w ssa.Value, dd int)
			refs = func(w ssa.Value, dd int) {
				if dd > 3 || w.Referrers() == nil {
					return
				}
				for _, r := range *w.Referrers() {
					switch y := r.(type) {
					case *ssa.MakeInterface:
						refs(y, dd+1)
					case *ssa.ChangeInterface:
						refs(y, dd+1)
					case *ssa.Store:
						if y.Val == w {
							if _, isF := y.Addr.(*ssa.FieldAddr); isF && !FreshBase(y.Addr) {
								kept = "stored in " + TypedPath(y.Addr)
							}
						}
					case ssa.CallInstruction:
						if cal := y.Common().StaticCallee(); cal != nil && FullName(cal) == "(*sync.Pool).Put" {
							kept = "put back into a sync.Pool"
						}
					}
				}
			}
			refs(x, 0)
			if kept != "" {
				add("pool", "buffer "+kept)
			} else {
				add("fresh", "local buffer")
			}
		case *ssa.FieldAddr, *ssa.IndexAddr:
			addr(v, bind, d+1) // a buffer embedded in a struct: &v.b
		case *ssa.MakeInterface:
			buf(x.X, bind, d+1)
		case *ssa.ChangeInterface:
			buf(x.X, bind, d+1)
		case *ssa.TypeAssert:
			buf(x.X, bind, d+1)
		case *ssa.Extract:
			buf(x.Tuple, bind, d+1)
		case *ssa.Phi:
			if seen[v] {
				return
			}
			seen[v] = true
			for _, e := range x.Edges {
				buf(e, bind, d+1)
			}
		case *ssa.UnOp:
			if x.Op == token.MUL {
				addr(x.X, bind, d+1)
				return
			}
			add("unknown", Path(v))
		case *ssa.Parameter:
			if b, ok := bind[x]; ok {
				buf(b, nil, d+1)
				return
			}
			add("param", ParamName(x))
		case *ssa.Call:
			cal := x.Call.StaticCallee()
			if cal != nil && FullName(cal) == "(*sync.Pool).Get" {
				add("pool", "buffer taken from a sync.Pool")
				return
			}
			if cal != nil && (FullName(cal) == "bytes.NewBuffer" || FullName(cal) == "bytes.NewBufferString") {
				add("fresh", "bytes.NewBuffer")
				return
			}
			if cal != nil && InModule(cal) && len(cal.Blocks) > 0 {
				nb := map[*ssa.Parameter]ssa.Value{}
				for i, p := range cal.Params {
					if i < len(x.Call.Args) {
						nb[p] = x.Call.Args[i]
					}
				}
				for _, r := range Returns(cal) {
					if len(r.Results) > 0 {
						buf(r.Results[0], nb, d+1)
					}
				}
				return
			}
			add("unknown", Path(v))
		default:
			add("unknown", Path(v))
		}
	}
	walk = func(v ssa.Value, bind map[*ssa.Parameter]ssa.Value, d int) {
		if d > 10 {
			add("unknown", "depth")
			return
		}
		switch x := v.(type) {
		case *ssa.Const:
			add("fresh", "nil")
		case *ssa.MakeSlice:
			add("fresh", "make")
		case *ssa.Convert:
			if _, isStr := x.X.Type().Underlying().(*types.Basic); isStr {
				add("fresh", "converted string")
				return
			}
			walk(x.X, bind, d+1)
		case *ssa.ChangeType:
			walk(x.X, bind, d+1)
		case *ssa.Slice:
			if _, isPtr := x.X.Type().Underlying().(*types.Pointer); isPtr {
				addr(x.X, bind, d+1)
				return
			}
			walk(x.X, bind, d+1)
		case *ssa.Phi:
			if seen[v] {
				return
			}
			seen[v] = true
			for _, e := range x.Edges {
				walk(e, bind, d+1)
			}
		case *ssa.Extract:
			if call, ok := x.Tuple.(*ssa.Call); ok {
				if cal := call.Call.StaticCallee(); cal != nil && InModule(cal) && len(cal.Blocks) > 0 {
					nb := map[*ssa.Parameter]ssa.Value{}
					for i, p := range cal.Params {
						if i < len(call.Call.Args) {
							nb[p] = call.Call.Args[i]
						}
					}
					for _, r := range Returns(cal) {
						if x.Index < len(r.Results) {
							walk(r.Results[x.Index], nb, d+1)
						}
					}
					return
				}
			}
			add("unknown", Path(v))
		case *ssa.UnOp:
			if x.Op == token.MUL {
				// a slice kept in memory: a field of the receiver, a global, a local cell
				if a, ok := x.X.(*ssa.Alloc); ok {
					n := 0
					for _, r := range *a.Referrers() {
						if st, ok := r.(*ssa.Store); ok && st.Addr == ssa.Value(a) {
							n++
							walk(st.Val, bind, d+1)
						}
					}
					if n == 0 {
						add("fresh", "zero value")
					}
					return
				}
				addr(x.X, bind, d+1)
				return
			}
			add("unknown", Path(v))
		case *ssa.Parameter:
			if b, ok := bind[x]; ok {
				walk(b, nil, d+1)
				return
			}
			add("param", ParamName(x))
		case *ssa.Call:
			if b, ok := x.Call.Value.(*ssa.Builtin); ok {
				if b.Name() == "append" {
					walk(x.Call.Args[0], bind, d+1)
					return
				}
				add("unknown", b.Name())
				return
			}
			if x.Call.IsInvoke() {
				if x.Call.Method.Name() == "Bytes" {
					buf(x.Call.Value, bind, d+1)
					return
				}
				add("unknown", "invoke "+x.Call.Method.Name())
				return
			}
			cal := x.Call.StaticCallee()
			if cal == nil {
				add("unknown", "dynamic call")
				return
			}
			if FullName(cal) == "(*bytes.Buffer).Bytes" {
				buf(x.Call.Args[0], bind, d+1)
				return
			}
			if InModule(cal) && len(cal.Blocks) > 0 {
				nb := map[*ssa.Parameter]ssa.Value{}
				for i, p := range cal.Params {
					if i < len(x.Call.Args) {
						nb[p] = x.Call.Args[i]
					}
				}
				for _, r := range Returns(cal) {
					if len(r.Results) > 0 {
						walk(r.Results[0], nb, d+1)
					}
				}
				return
			}
			add("fresh", "result of "+FullName(cal))
		default:
			add("unknown", Path(v))
		}
	}
	walk(v, nil, 0)
	return out
}
