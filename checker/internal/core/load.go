// Package core holds the program loader, the obligation/report plumbing and
// the SSA helpers shared by every rule of the oryx static checker.
package core

import (
	"fmt"
	"go/token"
	"go/types"
	"os"
	"sort"
	"strings"
	"sync"

	"golang.org/x/tools/go/callgraph"
	"golang.org/x/tools/go/callgraph/cha"
	"golang.org/x/tools/go/callgraph/vta"
	"golang.org/x/tools/go/packages"
	"golang.org/x/tools/go/ssa"
	"golang.org/x/tools/go/ssa/ssautil"
)

// ModulePath is the import path prefix of the repository under analysis.
const ModulePath = "github.com/ossrs/go-oryx-lib"

// Config selects one build configuration of /repo.
type Config struct {
	Dir    string   // repository root
	Tags   []string // extra build tags
	GOARCH string   // "" = host
}

func (c Config) String() string {
	s := "linux/"
	if c.GOARCH == "" {
		s += "amd64"
	} else {
		s += c.GOARCH
	}
	if len(c.Tags) > 0 {
		s += " tags=" + strings.Join(c.Tags, ",")
	}
	return s
}

// Program is the type-checked, SSA-built repository.
type Program struct {
	Cfg      Config
	Fset     *token.FileSet
	Pkgs     []*packages.Package
	ByPath   map[string]*packages.Package
	SSA      *ssa.Program
	SSAPkgs  map[string]*ssa.Package // keyed by short path relative to the module ("rtmp", "https/jose")
	AllFuncs map[*ssa.Function]bool

	typeUnpin  map[string]*types.TypeName // "pkg.PinnedName" -> renamed type of this tree
	funcUnpin  map[string]*types.Func     // "pkg.(*T).m" (pinned spelling) -> function of this tree
	globUnpin  map[string]*types.Var
	roleByName map[string]*ssa.Function
	RoleMoves  []string // roles whose function is not where the pinned name says (evidence)

	cgOnce sync.Once
	cg     *callgraph.Graph
}

// MinPackages is the number of packages the pinned tree has; fewer means the
// loader lost part of the build and every verdict would be vacuous.
const MinPackages = 20

// Load type-checks the whole module from its current working tree and builds SSA.
func Load(cfg Config) (*Program, error) {
	env := append(os.Environ(),
		"GOFLAGS=-mod=mod", "GOPROXY=off", "GOSUMDB=off", "GOWORK=off", "GOTOOLCHAIN=local", "CGO_ENABLED=0")
	if cfg.GOARCH != "" {
		env = append(env, "GOARCH="+cfg.GOARCH)
	}
	pc := &packages.Config{
		Mode:  packages.LoadAllSyntax,
		Dir:   cfg.Dir,
		Env:   env,
		Tests: false,
	}
	if len(cfg.Tags) > 0 {
		pc.BuildFlags = []string{"-tags=" + strings.Join(cfg.Tags, ",")}
	}
	pkgs, err := packages.Load(pc, "./...")
	if err != nil {
		return nil, fmt.Errorf("packages.Load: %v", err)
	}
	var errs []string
	packages.Visit(pkgs, nil, func(p *packages.Package) {
		if !strings.HasPrefix(p.PkgPath, ModulePath) {
			return
		}
		for _, e := range p.Errors {
			errs = append(errs, e.Error())
		}
	})
	if len(errs) > 0 {
		sort.Strings(errs)
		if len(errs) > 8 {
			errs = errs[:8]
		}
		return nil, fmt.Errorf("type errors in %s: %s", cfg.Dir, strings.Join(errs, "; "))
	}
	if len(pkgs) < MinPackages {
		return nil, fmt.Errorf("loaded %d packages, expected at least %d", len(pkgs), MinPackages)
	}
	prog, spkgs := ssautil.AllPackages(pkgs, ssa.InstantiateGenerics)
	prog.Build()
	p := &Program{
		Cfg:     cfg,
		Fset:    pkgs[0].Fset,
		Pkgs:    pkgs,
		ByPath:  map[string]*packages.Package{},
		SSA:     prog,
		SSAPkgs: map[string]*ssa.Package{},
	}
	for i, pk := range pkgs {
		p.ByPath[pk.PkgPath] = pk
		if spkgs[i] != nil {
			short := strings.TrimPrefix(strings.TrimPrefix(pk.PkgPath, ModulePath), "/")
			p.SSAPkgs[short] = spkgs[i]
		}
	}
	p.AllFuncs = ssautil.AllFunctions(prog)
	p.applyRoles()
	var tps []*types.Package
	for _, pk := range pkgs {
		if pk.Types != nil {
			tps = append(tps, pk.Types)
		}
	}
	pinFset = p.Fset
	p.pinPackages(tps)
	pinStructs(tps)
	fieldInvariantFuncs = p.ModuleFuncs()
	CalleesOfSite = func(site ssa.CallInstruction) []*ssa.Function { return p.Callees(site) }
	CallersOf = func(fn *ssa.Function) []ssa.CallInstruction {
		n := p.CallGraph().Nodes[fn]
		if n == nil {
			return nil
		}
		var out []ssa.CallInstruction
		for _, e := range n.In {
			if e.Site != nil && InModule(e.Caller.Func) {
				out = append(out, e.Site)
			}
		}
		return out
	}
	return p, nil
}

// CallGraph returns the VTA call graph (seeded by CHA) of the whole program.
func (p *Program) CallGraph() *callgraph.Graph {
	p.cgOnce.Do(func() {
		p.cg = vta.CallGraph(p.AllFuncs, cha.CallGraph(p.SSA))
	})
	return p.cg
}

// InModule reports whether fn belongs to the repository (not stdlib).
func InModule(fn *ssa.Function) bool {
	if fn == nil {
		return false
	}
	if fn.Pkg != nil {
		return strings.HasPrefix(fn.Pkg.Pkg.Path(), ModulePath)
	}
	if fn.Parent() != nil {
		return InModule(fn.Parent())
	}
	if o := fn.Object(); o != nil && o.Pkg() != nil {
		return strings.HasPrefix(o.Pkg().Path(), ModulePath)
	}
	return false
}

// ShortPkg returns the module-relative package path of fn ("rtmp").
func ShortPkg(fn *ssa.Function) string {
	for fn != nil && fn.Pkg == nil && fn.Parent() != nil {
		fn = fn.Parent()
	}
	if fn == nil {
		return ""
	}
	var path string
	if fn.Pkg != nil {
		path = fn.Pkg.Pkg.Path()
	} else if o := fn.Object(); o != nil && o.Pkg() != nil {
		path = o.Pkg().Path()
	}
	return strings.TrimPrefix(strings.TrimPrefix(path, ModulePath), "/")
}

// FuncName is the package-relative display name: "(*Protocol).WriteMessage", "Discovery", "NewCommentReader$1".
func FuncName(fn *ssa.Function) string {
	if fn == nil {
		return "<nil>"
	}
	if n, ok := roleName(fn); ok {
		return n
	}
	if InModule(fn) {
		if n, ok := pinnedRelName(fn); ok {
			return n
		}
	}
	return fn.RelString(pkgOf(fn))
}

func pkgOf(fn *ssa.Function) *types.Package {
	for fn != nil && fn.Pkg == nil && fn.Parent() != nil {
		fn = fn.Parent()
	}
	if fn != nil && fn.Pkg != nil {
		return fn.Pkg.Pkg
	}
	if fn != nil && fn.Object() != nil {
		return fn.Object().Pkg()
	}
	return nil
}

// QualName is "rtmp.(*Protocol).WriteMessage".
func QualName(fn *ssa.Function) string {
	return ShortPkg(fn) + "." + FuncName(fn)
}

// Func resolves a function or method by package and display name; nil if absent.
// name forms: "Discovery", "(*Protocol).WriteMessage", "(AudioSamplingRate).ToHz", "NewCommentReader$1".
func (p *Program) Func(pkg, name string) *ssa.Function {
	if f := p.roleFunc(pkg, name); f != nil {
		return f
	}
	f := p.funcPlain(pkg, name)
	if f != nil && roleDisplaced(f) {
		return nil
	}
	return f
}

func (p *Program) funcPlain(pkg, name string) *ssa.Function {
	sp := p.SSAPkgs[pkg]
	if sp == nil {
		return nil
	}
	base, anon := name, ""
	if i := strings.Index(name, "$"); i >= 0 {
		base, anon = name[:i], name[i:]
	}
	var fn *ssa.Function
	if tf, ok := p.funcUnpin[pkg+"."+base]; ok {
		fn = p.SSA.FuncValue(tf)
	} else if strings.HasPrefix(base, "(") {
		close := strings.Index(base, ")")
		recv := base[1:close]
		meth := base[close+2:]
		ptr := strings.HasPrefix(recv, "*")
		recv = strings.TrimPrefix(recv, "*")
		tn, _ := sp.Pkg.Scope().Lookup(recv).(*types.TypeName)
		if tn == nil {
			return nil
		}
		var t types.Type = tn.Type()
		if ptr {
			t = types.NewPointer(t)
		}
		sel := p.SSA.MethodSets.MethodSet(t).Lookup(sp.Pkg, meth)
		if sel == nil {
			return nil
		}
		fn = p.SSA.MethodValue(sel)
	} else {
		fn = sp.Func(base)
	}
	if fn == nil || anon == "" {
		return fn
	}
	// anonymous functions: "$1", "$1$2"
	for _, part := range strings.Split(anon[1:], "$") {
		var idx int
		fmt.Sscanf(part, "%d", &idx)
		if idx < 1 || idx > len(fn.AnonFuncs) {
			return nil
		}
		fn = fn.AnonFuncs[idx-1]
	}
	return fn
}

// NamedType resolves a package-level named type.
func (p *Program) NamedType(pkg, name string) *types.Named {
	sp := p.SSAPkgs[pkg]
	if sp == nil {
		return nil
	}
	tn, _ := sp.Pkg.Scope().Lookup(name).(*types.TypeName)
	if r, ok := p.typeUnpin[pkg+"."+name]; ok {
		tn = r
	}
	if tn == nil {
		return nil
	}
	n, _ := tn.Type().(*types.Named)
	return n
}

// Global resolves a package-level variable.
func (p *Program) Global(pkg, name string) *ssa.Global {
	sp := p.SSAPkgs[pkg]
	if sp == nil {
		return nil
	}
	if v, ok := p.globUnpin[pkg+"."+name]; ok {
		name = v.Name()
	}
	g, _ := sp.Members[name].(*ssa.Global)
	return g
}

// ConstValue resolves a package-level constant.
func (p *Program) Const(pkg, name string) *ssa.NamedConst {
	sp := p.SSAPkgs[pkg]
	if sp == nil {
		return nil
	}
	c, _ := sp.Members[name].(*ssa.NamedConst)
	return c
}

// ModuleFuncs lists all functions (incl. anonymous and methods) of the given short package paths,
// sorted by name; with no argument, of the whole module.
func (p *Program) ModuleFuncs(pkgs ...string) []*ssa.Function {
	want := map[string]bool{}
	for _, s := range pkgs {
		want[s] = true
	}
	var out []*ssa.Function
	for fn := range p.AllFuncs {
		if !InModule(fn) || fn.Blocks == nil {
			continue
		}
		if len(want) > 0 && !want[ShortPkg(fn)] {
			continue
		}
		if fn.Synthetic != "" {
			continue
		}
		out = append(out, fn)
	}
	sort.Slice(out, func(i, j int) bool { return QualName(out[i]) < QualName(out[j]) })
	return out
}

// Pos renders a position relative to the repository root.
func (p *Program) Pos(pos token.Pos) string {
	if !pos.IsValid() {
		return "?"
	}
	ps := p.Fset.Position(pos)
	f := strings.TrimPrefix(ps.Filename, p.Cfg.Dir+"/")
	return fmt.Sprintf("%s:%d", f, ps.Line)
}

// InstrPos finds the best position for an instruction (falls back to the function).
func (p *Program) InstrPos(in ssa.Instruction) string {
	if in == nil {
		return "?"
	}
	if in.Pos().IsValid() {
		return p.Pos(in.Pos())
	}
	if v, ok := in.(ssa.Value); ok {
		for _, r := range *v.Referrers() {
			if r.Pos().IsValid() {
				return p.Pos(r.Pos())
			}
		}
	}
	// operands
	for _, op := range in.Operands(nil) {
		if *op != nil && (*op).Pos().IsValid() {
			return p.Pos((*op).Pos())
		}
	}
	if in.Parent() != nil {
		return p.Pos(in.Parent().Pos())
	}
	return "?"
}

// SizeOf is the size in bytes of a basic type on the analysed platform (64-bit).
func (p *Program) SizeOf(t types.Type) int64 {
	return types.SizesFor("gc", "amd64").Sizeof(t)
}
