package core

import (
	"go/ast"
	"go/constant"
	"go/token"
	"go/types"
	"strings"

	"golang.org/x/tools/go/packages"
	"golang.org/x/tools/go/ssa"
)

// PkgOf returns the go/packages package of a function.
func (p *Program) PkgOf(fn *ssa.Function) *packages.Package {
	tp := pkgOf(fn)
	if tp == nil {
		return nil
	}
	return p.ByPath[tp.Path()]
}

// Body returns the syntax body of fn and the type info of its package.
func (p *Program) Body(fn *ssa.Function) (*ast.BlockStmt, *types.Info) {
	pk := p.PkgOf(fn)
	if pk == nil {
		return nil, nil
	}
	switch n := fn.Syntax().(type) {
	case *ast.FuncDecl:
		return n.Body, pk.TypesInfo
	case *ast.FuncLit:
		return n.Body, pk.TypesInfo
	}
	return nil, pk.TypesInfo
}

// SwitchCase is one clause of a switch statement.
type SwitchCase struct {
	Clause  *ast.CaseClause
	Consts  []constant.Value // constant case values (expression switches)
	Types   []types.Type     // case types (type switches)
	Default bool
}

// Switch is an expression or type switch found in a function body.
type Switch struct {
	Stmt   ast.Stmt
	Tag    ast.Expr // tag expression (expression switch) or the asserted expression (type switch)
	TagStr string
	Cases  []SwitchCase
	IsType bool
}

// HasDefault reports whether the switch has a default clause and returns it.
func (s *Switch) DefaultCase() *SwitchCase {
	for i := range s.Cases {
		if s.Cases[i].Default {
			return &s.Cases[i]
		}
	}
	return nil
}

// CaseFor returns the clause listing the constant v.
func (s *Switch) CaseFor(v constant.Value) *SwitchCase {
	for i := range s.Cases {
		for _, c := range s.Cases[i].Consts {
			if constant.Compare(c, token.EQL, v) {
				return &s.Cases[i]
			}
		}
	}
	return nil
}

// CaseForType returns the clause listing type t.
func (s *Switch) CaseForType(t types.Type) *SwitchCase {
	for i := range s.Cases {
		for _, ct := range s.Cases[i].Types {
			if types.Identical(ct, t) {
				return &s.Cases[i]
			}
		}
	}
	return nil
}

// Switches lists the switch statements in the body of fn (not in nested function literals).
func (p *Program) Switches(fn *ssa.Function) []*Switch {
	body, info := p.Body(fn)
	if body == nil {
		return nil
	}
	var out []*Switch
	ast.Inspect(body, func(n ast.Node) bool {
		switch s := n.(type) {
		case *ast.FuncLit:
			return false
		case *ast.SwitchStmt:
			sw := &Switch{Stmt: s, Tag: s.Tag}
			if s.Tag != nil {
				sw.TagStr = types.ExprString(s.Tag)
			}
			for _, c := range s.Body.List {
				cc := c.(*ast.CaseClause)
				sc := SwitchCase{Clause: cc, Default: cc.List == nil}
				for _, e := range cc.List {
					if tv, ok := info.Types[e]; ok && tv.Value != nil {
						sc.Consts = append(sc.Consts, tv.Value)
					}
				}
				sw.Cases = append(sw.Cases, sc)
			}
			out = append(out, sw)
		case *ast.TypeSwitchStmt:
			sw := &Switch{Stmt: s, IsType: true}
			var x ast.Expr
			switch a := s.Assign.(type) {
			case *ast.AssignStmt:
				if ta, ok := a.Rhs[0].(*ast.TypeAssertExpr); ok {
					x = ta.X
				}
			case *ast.ExprStmt:
				if ta, ok := a.X.(*ast.TypeAssertExpr); ok {
					x = ta.X
				}
			}
			sw.Tag = x
			if x != nil {
				sw.TagStr = types.ExprString(x)
			}
			for _, c := range s.Body.List {
				cc := c.(*ast.CaseClause)
				sc := SwitchCase{Clause: cc, Default: cc.List == nil}
				for _, e := range cc.List {
					if t := info.TypeOf(e); t != nil {
						sc.Types = append(sc.Types, t)
					}
				}
				sw.Cases = append(sw.Cases, sc)
			}
			out = append(out, sw)
		}
		return true
	})
	return out
}

// SwitchOnType finds the expression switch in fn whose tag has the named type (by type name).
func (p *Program) SwitchOnType(fn *ssa.Function, typeName string) *Switch {
	_, info := p.Body(fn)
	for _, s := range p.Switches(fn) {
		if s.IsType || s.Tag == nil {
			continue
		}
		if t := info.TypeOf(s.Tag); t != nil && strings.HasSuffix(types.TypeString(t, shortQual), typeName) {
			return s
		}
	}
	return nil
}

// ClauseResultTypes returns the types of the first operand of the return statements and of the
// right-hand sides of assignments inside the clause body.
func ClauseResultTypes(info *types.Info, cc *ast.CaseClause) (returns []types.Type, assigns []types.Type) {
	for _, st := range cc.Body {
		ast.Inspect(st, func(n ast.Node) bool {
			switch x := n.(type) {
			case *ast.FuncLit:
				return false
			case *ast.ReturnStmt:
				if len(x.Results) > 0 {
					if t := info.TypeOf(x.Results[0]); t != nil {
						returns = append(returns, t)
					}
				}
			case *ast.AssignStmt:
				for _, r := range x.Rhs {
					if t := info.TypeOf(r); t != nil {
						assigns = append(assigns, t)
					}
				}
			}
			return true
		})
	}
	return
}

// ClauseCalls lists the resolved callees (types.Object) called inside the clause body.
func ClauseCalls(info *types.Info, cc *ast.CaseClause) []types.Object {
	var out []types.Object
	for _, st := range cc.Body {
		ast.Inspect(st, func(n ast.Node) bool {
			if _, ok := n.(*ast.FuncLit); ok {
				return false
			}
			if call, ok := n.(*ast.CallExpr); ok {
				var id *ast.Ident
				switch f := call.Fun.(type) {
				case *ast.Ident:
					id = f
				case *ast.SelectorExpr:
					id = f.Sel
				}
				if id != nil {
					if o := info.Uses[id]; o != nil {
						out = append(out, o)
					}
				}
			}
			return true
		})
	}
	return out
}

// ClauseReturnsNilError reports whether some return in the clause has the literal nil as its
// last operand (used for "unknown -> error" checks), and whether the clause returns at all.
func ClauseReturns(info *types.Info, cc *ast.CaseClause) (n int, nilErr int) {
	for _, st := range cc.Body {
		ast.Inspect(st, func(nd ast.Node) bool {
			if _, ok := nd.(*ast.FuncLit); ok {
				return false
			}
			if r, ok := nd.(*ast.ReturnStmt); ok {
				n++
				if len(r.Results) > 0 {
					last := r.Results[len(r.Results)-1]
					if tv, ok := info.Types[last]; ok && tv.IsNil() {
						nilErr++
					}
				}
			}
			return true
		})
	}
	return
}
