package core

import (
	"go/token"
	"go/types"
	"sort"
	"strings"

	"golang.org/x/tools/go/ssa"
)

// Effects is the transitive effect summary of a function: a set of strings of the forms
//
//	store:<TypedPath>      a Store whose address is a field access path
//	load:<TypedPath>       a load of a field access path
//	mapupdate:<TypedPath>  m[k] = v on a map reached through the path
//	mapdelete:<TypedPath>  delete(m, k)
//	maplookup:<TypedPath>  m[k]
//	call:<FullName>        a call to a function outside the module (or an unresolved invoke)
//	panic                  a reachable explicit panic
//	go                     a goroutine start
type Effects map[string]bool

type effectCache struct {
	direct map[*ssa.Function]Effects
	trans  map[*ssa.Function]Effects
}

var effCaches = map[*Program]*effectCache{}

func (p *Program) ecache() *effectCache {
	c := effCaches[p]
	if c == nil {
		c = &effectCache{direct: map[*ssa.Function]Effects{}, trans: map[*ssa.Function]Effects{}}
		effCaches[p] = c
	}
	return c
}

// InstrEffects returns the effects of a single non-call instruction.
func InstrEffects(in ssa.Instruction) []string {
	var out []string
	switch x := in.(type) {
	case *ssa.Store:
		if isFieldPath(x.Addr) {
			out = append(out, "store:"+TypedPath(x.Addr))
		}
	case *ssa.UnOp:
		if x.Op == token.MUL && isFieldPath(x.X) {
			out = append(out, "load:"+TypedPath(x.X))
		}
	case *ssa.Slice:
		// an array that is a field, sliced: the storage inside the struct is handed out (append/copy/index through the
		// slice write into the struct itself)
		if pt, ok := x.X.Type().Underlying().(*types.Pointer); ok && isFieldPath(x.X) {
			if _, isArr := pt.Elem().Underlying().(*types.Array); isArr {
				out = append(out, "slice:"+TypedPath(x.X))
			}
		}
	case *ssa.MapUpdate:
		out = append(out, "mapupdate:"+TypedPath(x.Map))
	case *ssa.Lookup:
		if _, ok := x.X.Type().Underlying().(*types.Map); ok {
			out = append(out, "maplookup:"+TypedPath(x.X))
		}
	case *ssa.Panic:
		out = append(out, "panic")
	case *ssa.Go:
		out = append(out, "go")
	}
	if c := CallOf(in); c != nil {
		if b, ok := c.Value.(*ssa.Builtin); ok && b.Name() == "delete" {
			out = append(out, "mapdelete:"+TypedPath(c.Args[0]))
		}
	}
	return out
}

func isFieldPath(v ssa.Value) bool {
	switch x := v.(type) {
	case *ssa.FieldAddr:
		return true
	case *ssa.IndexAddr:
		return isFieldPath(x.X)
	case *ssa.UnOp:
		return x.Op == token.MUL && isFieldPath(x.X)
	case *ssa.Global:
		return true
	}
	return false
}

// DirectEffects returns the effects of fn's own instructions (closures it creates included,
// since a closure's body runs on behalf of its creator in this code base) and the list of
// callees to follow.
func (p *Program) directEffects(fn *ssa.Function) (Effects, []*ssa.Function) {
	eff := Effects{}
	var next []*ssa.Function
	for _, f := range WithClosures(fn) {
		EachInstr(f, func(in ssa.Instruction) {
			for _, e := range InstrEffects(in) {
				eff[e] = true
			}
			ci, ok := in.(ssa.CallInstruction)
			if !ok {
				return
			}
			c := ci.Common()
			if _, isB := c.Value.(*ssa.Builtin); isB {
				return
			}
			cals := p.Callees(ci)
			if len(cals) == 0 {
				eff["call:"+CalleeName(c)] = true
				return
			}
			for _, cal := range cals {
				if InModule(cal) {
					next = append(next, cal)
				} else {
					eff["call:"+FullName(cal)] = true
				}
			}
			if c.IsInvoke() {
				eff["call:"+CalleeName(c)] = true
			}
		})
	}
	return eff, next
}

// Effects returns the transitive effect summary of fn over module callees.
func (p *Program) Effects(fn *ssa.Function) Effects {
	c := p.ecache()
	if e, ok := c.trans[fn]; ok {
		return e
	}
	out := Effects{}
	seen := map[*ssa.Function]bool{}
	var walk func(f *ssa.Function)
	walk = func(f *ssa.Function) {
		if f == nil || seen[f] {
			return
		}
		seen[f] = true
		d, next := p.directEffects(f)
		for e := range d {
			out[e] = true
		}
		for _, n := range next {
			walk(n)
		}
	}
	walk(fn)
	c.trans[fn] = out
	return out
}

// SiteEffects returns the effects carried by one instruction: its own, plus the transitive
// summary of every callee when it is a call.
func (p *Program) SiteEffects(in ssa.Instruction) Effects {
	out := Effects{}
	for _, e := range InstrEffects(in) {
		out[e] = true
	}
	ci, ok := in.(ssa.CallInstruction)
	if !ok {
		if mc, ok := in.(*ssa.MakeClosure); ok {
			_ = mc
		}
		return out
	}
	c := ci.Common()
	if _, isB := c.Value.(*ssa.Builtin); isB {
		return out
	}
	cals := p.Callees(ci)
	if len(cals) == 0 || c.IsInvoke() {
		out["call:"+CalleeName(c)] = true
	}
	for _, cal := range cals {
		if InModule(cal) {
			for e := range p.Effects(cal) {
				out[e] = true
			}
		} else {
			out["call:"+FullName(cal)] = true
		}
	}
	return out
}

// Has reports whether the summary contains an effect with the given prefix+suffix match:
// pattern "store:*.chunkSize" matches any store whose path ends in ".chunkSize".
func (e Effects) Has(pattern string) bool {
	return len(e.Match(pattern)) > 0
}

// Match returns the effects matching the pattern ("kind:prefix*suffix", one optional '*').
func (e Effects) Match(pattern string) []string {
	var out []string
	star := strings.Index(pattern, "*")
	for k := range e {
		if star < 0 {
			if k == pattern {
				out = append(out, k)
			}
			continue
		}
		if strings.HasPrefix(k, pattern[:star]) && strings.HasSuffix(k, pattern[star+1:]) && len(k) >= len(pattern)-1 {
			out = append(out, k)
		}
	}
	sort.Strings(out)
	return out
}

// Sorted lists the effects.
func (e Effects) Sorted() []string {
	var out []string
	for k := range e {
		out = append(out, k)
	}
	sort.Strings(out)
	return out
}

// Carriers lists the instructions of fn (not of its closures) that carry an effect matching pattern.
func (p *Program) Carriers(fn *ssa.Function, pattern string) []ssa.Instruction {
	var out []ssa.Instruction
	EachInstr(fn, func(in ssa.Instruction) {
		if _, isDefer := in.(*ssa.Defer); isDefer {
			return
		}
		if p.SiteEffects(in).Has(pattern) {
			out = append(out, in)
		}
	})
	return out
}
