package rules

import (
	"fmt"
	"go/ast"
	"go/constant"
	"go/token"
	"go/types"
	"sort"
	"strings"

	"golang.org/x/tools/go/ssa"

	"oryxverif/checker/internal/abs"
	"oryxverif/checker/internal/core"
)

func init() {
	register(&Property{
		ID: "C16",
		Explain: "Decided (the repository's own glue only; the arithmetic of crypto/* is trusted): C16.tables - sibling agreement and RFC 7518 conformance of the algorithm tables: RSA sign/verify map each alg to the same hash and scheme " +
			"(PKCS#1 v1.5 vs PSS), ECDSA sign/verify agree on hash and on ceil(curve bits/8) per component, HMAC maps HS256/384/512 to SHA-256/384/512, key wrap and unwrap handle the same algorithms with inverse primitives, ECDH-ES key sizes agree, " +
			"the six content encryptions select AES-GCM 16/24/32 and AES-CBC-HMAC 32/48/64 byte keys, and every constructor accepts exactly the algorithms its codec implements; C16.gate - a payload is returned by Verify only under a nil " +
			"verification error, by Decrypt only after a nil decryption error, CBC-HMAC decrypts only after the constant-time tag comparison succeeded, HMAC verification compares in constant time after a length check; C16.gate-flag - " +
			"'nothing decrypted' is decided by the attempts' errors, not by the plaintext being nil (an empty plaintext is a legitimate result); C16.aad - for parsed objects the authenticated bytes are the received protected header " +
			"(not a re-serialisation) and the additional data is appended iff present, and no address of a loop variable is kept beyond its iteration (per-signature 'original'); C16.parse - the buffer constructor answers nil for a nil slice only (absent and empty members stay apart); C16.tables also: the CBC-HMAC key is split MAC = initial half, ENC = final half (RFC 7518 5.2.2.1); C16.width - ECDSA r and s are left-padded to the curve's byte size. " +
			"Not decided: correctness and tamper resistance across the algorithm matrix and every single-bit flip (cryptographic/runtime). Deliberately not checked: the serialized CBC tag length (16 for all three variants; symmetric on both sides).",
		Assume: []string{"crypto/*, encoding/json, math/big behave as documented", "RFC 7518 tables as transcribed in DESIGN Appendix B"},
		Run:    runC16,
	})
}

// caseInfo describes one switch clause: its constants, the values assigned and the functions called inside.
type caseInfo struct {
	consts  []string
	assigns map[string]string
	calls   []string
	clause  *ast.CaseClause
}

func objName(o types.Object) string {
	if o == nil {
		return "?"
	}
	if o.Pkg() != nil {
		return o.Pkg().Path() + "." + o.Name()
	}
	return o.Name()
}

func exprValue(info *types.Info, e ast.Expr) string {
	if tv, ok := info.Types[e]; ok && tv.Value != nil {
		return tv.Value.ExactString()
	}
	switch x := e.(type) {
	case *ast.Ident:
		return objName(info.Uses[x])
	case *ast.SelectorExpr:
		return objName(info.Uses[x.Sel])
	case *ast.CallExpr:
		var args []string
		for _, a := range x.Args {
			args = append(args, exprValue(info, a))
		}
		return exprValue(info, x.Fun) + "(" + strings.Join(args, ",") + ")"
	}
	return types.ExprString(e)
}

// switchTable extracts the clauses of the k-th expression switch over a value of the named type in fn.
func switchTable(P *core.Program, fn *ssa.Function, typeSuffix string, k int) []caseInfo {
	_, info := P.Body(fn)
	idx := 0
	for _, s := range P.Switches(fn) {
		if s.IsType || s.Tag == nil {
			continue
		}
		t := info.TypeOf(s.Tag)
		if t == nil || !strings.HasSuffix(types.TypeString(t, nil), typeSuffix) {
			continue
		}
		if idx != k {
			idx++
			continue
		}
		var out []caseInfo
		for _, c := range s.Cases {
			ci := caseInfo{assigns: map[string]string{}, clause: c.Clause}
			for _, v := range c.Consts {
				if v.Kind() == constant.String {
					ci.consts = append(ci.consts, constant.StringVal(v))
				} else {
					ci.consts = append(ci.consts, v.ExactString())
				}
			}
			if c.Default {
				ci.consts = []string{"<default>"}
			}
			for _, st := range c.Clause.Body {
				ast.Inspect(st, func(n ast.Node) bool {
					switch x := n.(type) {
					case *ast.FuncLit:
						return false
					case *ast.AssignStmt:
						for i, l := range x.Lhs {
							if i >= len(x.Rhs) {
								continue
							}
							switch lv := l.(type) {
							case *ast.Ident:
								name := lv.Name
								if o, ok := info.ObjectOf(lv).(*types.Var); ok && o != nil && !o.IsField() && o.Parent() != o.Pkg().Scope() {
									name = P.LocalVarName(fn, o) // the pinned name of a renamed local
								}
								ci.assigns[name] = exprValue(info, x.Rhs[i])
							case *ast.SelectorExpr:
								ci.assigns[lv.Sel.Name] = exprValue(info, x.Rhs[i])
							}
						}
					case *ast.ReturnStmt:
						for i, r := range x.Results {
							ci.assigns[fmt.Sprintf("return%d", i)] = exprValue(info, r)
						}
					case *ast.CallExpr:
						ci.calls = append(ci.calls, exprValue(info, x.Fun))
					}
					return true
				})
			}
			out = append(out, ci)
		}
		return out
	}
	return nil
}

// byAlg flattens clauses into alg -> value of the given key (assign name or "call:<suffix>").
func byAlg(cs []caseInfo, pick func(ci caseInfo) string) map[string]string {
	out := map[string]string{}
	for _, ci := range cs {
		v := pick(ci)
		for _, c := range ci.consts {
			if c != "<default>" {
				out[c] = v
			}
		}
	}
	return out
}

func pickAssign(name string) func(ci caseInfo) string {
	return func(ci caseInfo) string { return ci.assigns[name] }
}

func pickCall(contains ...string) func(ci caseInfo) string {
	return func(ci caseInfo) string {
		for _, c := range ci.calls {
			for _, s := range contains {
				if strings.Contains(c, s) {
					return s
				}
			}
		}
		return ""
	}
}

func mapString(m map[string]string) string {
	var ks []string
	for k := range m {
		ks = append(ks, k)
	}
	sort.Strings(ks)
	var parts []string
	for _, k := range ks {
		parts = append(parts, k+"->"+m[k])
	}
	return strings.Join(parts, ", ")
}

func sameMap(a, b map[string]string) bool {
	if len(a) != len(b) {
		return false
	}
	for k, v := range a {
		if b[k] != v {
			return false
		}
	}
	return true
}

func keySet(m map[string]string) map[string]string {
	out := map[string]string{}
	for k := range m {
		out[k] = "x"
	}
	return out
}

func runC16(c *Ctx) {
	P, R := c.P, c.R
	const pkg = "https/jose"
	R.Require("C16.tables", 14)
	R.Require("C16.gate", 5)
	R.Require("C16.gate-flag", 1)
	R.Require("C16.aad", 4)
	R.Require("C16.width", 5)
	R.Require("C16.mac-input", 1)
	R.Require("C16.parse", 1)
	for _, f := range P.ModuleFuncs(pkg, pkg+"/cipher") {
		R.Funcs[core.QualName(f)] = true
	}
	get := func(name string) *ssa.Function {
		fn := P.Func(pkg, name)
		R.Anchor(fn != nil, "C16.tables", pkg+"."+name)
		return fn
	}
	tableCheck := func(key, pos string, got, want map[string]string, what string) {
		R.Check(sameMap(got, want), "C16.tables", key, pos, what+": "+mapString(got),
			what+" is {"+mapString(got)+"}, expected {"+mapString(want)+"}", nil)
	}
	const sha256h, sha384h, sha512h = "5", "6", "7" // crypto.SHA256/384/512

	// ---- RSA
	rs, rv := get("(rsaDecrypterSigner).signPayload"), get("(rsaEncrypterVerifier).verifyPayload")
	if rs != nil && rv != nil {
		wantHash := map[string]string{"RS256": sha256h, "PS256": sha256h, "RS384": sha384h, "PS384": sha384h, "RS512": sha512h, "PS512": sha512h}
		sh := byAlg(switchTable(P, rs, "SignatureAlgorithm", 0), pickAssign("hash"))
		vh := byAlg(switchTable(P, rv, "SignatureAlgorithm", 0), pickAssign("hash"))
		tableCheck("jose|rsa|sign-hash", P.Pos(rs.Pos()), sh, wantHash, "RSA signing hash per algorithm")
		tableCheck("jose|rsa|verify-hash", P.Pos(rv.Pos()), vh, wantHash, "RSA verification hash per algorithm")
		wantScheme := map[string]string{"RS256": "PKCS1v15", "RS384": "PKCS1v15", "RS512": "PKCS1v15", "PS256": "PSS", "PS384": "PSS", "PS512": "PSS"}
		ss := byAlg(switchTable(P, rs, "SignatureAlgorithm", 1), pickCall("PKCS1v15", "PSS"))
		vs := byAlg(switchTable(P, rv, "SignatureAlgorithm", 1), pickCall("PKCS1v15", "PSS"))
		tableCheck("jose|rsa|sign-scheme", P.Pos(rs.Pos()), ss, wantScheme, "RSA signature scheme per algorithm")
		tableCheck("jose|rsa|verify-scheme", P.Pos(rv.Pos()), vs, wantScheme, "RSA verification scheme per algorithm")
	}
	// ---- ECDSA
	es, ev := get("(ecDecrypterSigner).signPayload"), get("(ecEncrypterVerifier).verifyPayload")
	if es != nil && ev != nil {
		st := switchTable(P, es, "SignatureAlgorithm", 0)
		vt := switchTable(P, ev, "SignatureAlgorithm", 0)
		tableCheck("jose|ecdsa|sign-hash", P.Pos(es.Pos()), byAlg(st, pickAssign("hash")), map[string]string{"ES256": sha256h, "ES384": sha384h, "ES512": sha512h}, "ECDSA signing hash per algorithm")
		tableCheck("jose|ecdsa|verify-hash", P.Pos(ev.Pos()), byAlg(vt, pickAssign("hash")), map[string]string{"ES256": sha256h, "ES384": sha384h, "ES512": sha512h}, "ECDSA verification hash per algorithm")
		tableCheck("jose|ecdsa|sign-curve-bits", P.Pos(es.Pos()), byAlg(st, pickAssign("expectedBitSize")), map[string]string{"ES256": "256", "ES384": "384", "ES512": "521"}, "ECDSA curve size per algorithm")
		tableCheck("jose|ecdsa|verify-component-bytes", P.Pos(ev.Pos()), byAlg(vt, pickAssign("keySize")), map[string]string{"ES256": "32", "ES384": "48", "ES512": "66"}, "ECDSA r/s size per algorithm (ceil(bits/8))")
	}
	// ---- HMAC
	if hm := get("(symmetricMac).hmac"); hm != nil {
		tableCheck("jose|hmac|hash", P.Pos(hm.Pos()), byAlg(switchTable(P, hm, "SignatureAlgorithm", 0), pickAssign("hash")),
			map[string]string{"HS256": "crypto/sha256.New", "HS384": "crypto/sha512.New384", "HS512": "crypto/sha512.New"}, "HMAC hash per algorithm")
	}
	// ---- symmetric key wrap
	se, sd := get("(*symmetricKeyCipher).encryptKey"), get("(*symmetricKeyCipher).decryptKey")
	if se != nil && sd != nil {
		want := map[string]string{"dir": "", "A128GCMKW": "newAESGCM", "A192GCMKW": "newAESGCM", "A256GCMKW": "newAESGCM", "A128KW": "KeyWrap", "A192KW": "KeyWrap", "A256KW": "KeyWrap"}
		wantD := map[string]string{}
		for k, v := range want {
			if v == "KeyWrap" {
				v = "KeyUnwrap"
			}
			wantD[k] = v
		}
		tableCheck("jose|symmetric|wrap", P.Pos(se.Pos()), byAlg(switchTable(P, se, "KeyAlgorithm", 0), pickCall("newAESGCM", "KeyWrap")), want, "key wrapping primitive per algorithm")
		tableCheck("jose|symmetric|unwrap", P.Pos(sd.Pos()), byAlg(switchTable(P, sd, "KeyAlgorithm", 0), pickCall("newAESGCM", "KeyUnwrap")), wantD, "key unwrapping primitive per algorithm")
	}
	// ---- ECDH-ES key sizes
	ee, ed := get("(ecEncrypterVerifier).encryptKey"), get("(ecDecrypterSigner).decryptKey")
	if ee != nil && ed != nil {
		want := map[string]string{"ECDH-ES+A128KW": "16", "ECDH-ES+A192KW": "24", "ECDH-ES+A256KW": "32"}
		tableCheck("jose|ecdh|wrap-key-size", P.Pos(ee.Pos()), byAlg(switchTable(P, ee, "KeyAlgorithm", 1), pickAssign("size")), want, "ECDH-ES key-wrap key size per algorithm (sender)")
		dt := byAlg(switchTable(P, ed, "KeyAlgorithm", 0), pickAssign("keySize"))
		delete(dt, "ECDH-ES")
		tableCheck("jose|ecdh|unwrap-key-size", P.Pos(ed.Pos()), dt, want, "ECDH-ES key-wrap key size per algorithm (receiver)")
	}
	// ---- content encryption
	if gc := get("getContentCipher"); gc != nil {
		got := byAlg(switchTable(P, gc, "ContentEncryption", 0), pickAssign("return0"))
		for k, v := range got {
			got[k] = strings.TrimPrefix(v, core.ModulePath+"/https/jose.")
		}
		tableCheck("jose|content-cipher|key-sizes", P.Pos(gc.Pos()), got,
			map[string]string{"A128GCM": "newAESGCM(16)", "A192GCM": "newAESGCM(24)", "A256GCM": "newAESGCM(32)",
				"A128CBC-HS256": "newAESCBC(16)", "A192CBC-HS384": "newAESCBC(24)", "A256CBC-HS512": "newAESCBC(32)"}, "content cipher per enc value")
	}
	if cbc := get("newAESCBC"); cbc != nil {
		// keyBytes = keySize * 2
		ok := false
		core.EachInstr(cbc, func(in ssa.Instruction) {
			if st, isSt := in.(*ssa.Store); isSt && strings.HasSuffix(core.Path(st.Addr), ".keyBytes") {
				if bo, isB := st.Val.(*ssa.BinOp); isB && bo.Op == token.MUL {
					if k, isK := core.ConstInt(bo.Y); isK && k == 2 {
						ok = true
					}
				}
			}
		})
		R.Check(ok, "C16.tables", "jose|newAESCBC|double-key", P.Pos(cbc.Pos()), "AES-CBC-HMAC keys are twice the AES key size (MAC key + encryption key)", "AES-CBC-HMAC key size is not 2 x the AES key size", nil)
	}
	// ---- the two halves of a CBC-HMAC key go where RFC 7518 5.2.2.1 puts them: MAC_KEY is the initial half, ENC_KEY the
	// final half.  Seal and Open of one build agree with each other whichever half they use, so no round trip and no bit
	// flip shows an exchange - but then half of the key is not used for what it is for (a different key sharing that half
	// decrypts) and nothing interoperates.
	if nc := P.Func("https/jose/cipher", "NewCBCHMAC"); R.Anchor(nc != nil, "C16.tables", "https/jose/cipher.NewCBCHMAC") {
		var keyP *ssa.Parameter
		for _, q := range nc.Params {
			if sl, ok := q.Type().Underlying().(*types.Slice); ok && isByte(sl.Elem()) {
				keyP = q
			}
		}
		isHalf := func(v ssa.Value) bool {
			bo, ok := core.StripConv(v).(*ssa.BinOp)
			if !ok {
				return false
			}
			k, isK := core.ConstInt(bo.Y)
			call, isCall := core.StripConv(bo.X).(*ssa.Call)
			if !isK || !isCall || !((bo.Op == token.QUO && k == 2) || (bo.Op == token.SHR && k == 1)) {
				return false
			}
			b, isB := call.Call.Value.(*ssa.Builtin)
			return isB && b.Name() == "len" && call.Call.Args[0] == ssa.Value(keyP)
		}
		// which half of the key a value is: "first", "second" or ""
		half := func(v ssa.Value) string {
			sl, ok := core.StripConv(v).(*ssa.Slice)
			if !ok || sl.X != ssa.Value(keyP) || sl.Max != nil {
				return ""
			}
			switch {
			case sl.Low == nil && sl.High != nil && isHalf(sl.High):
				return "first"
			case sl.High == nil && sl.Low != nil && isHalf(sl.Low):
				return "second"
			}
			return ""
		}
		enc, mac := "", ""
		var encPos, macPos string
		core.EachInstr(nc, func(in ssa.Instruction) {
			switch x := in.(type) {
			case *ssa.Call:
				if par, ok := x.Call.Value.(*ssa.Parameter); ok && !x.Call.IsInvoke() && len(x.Call.Args) == 1 {
					if _, isSig := par.Type().Underlying().(*types.Signature); isSig {
						enc, encPos = half(x.Call.Args[0]), P.InstrPos(x)
						if enc == "" {
							enc = "neither half (" + core.Path(x.Call.Args[0]) + ")"
						}
					}
				}
			case *ssa.Store:
				if fv := core.FieldVar(x.Addr); fv != nil && core.FieldVarName(fv) == "integrityKey" {
					mac, macPos = half(x.Val), P.InstrPos(x)
					if mac == "" {
						mac = "neither half (" + core.Path(x.Val) + ")"
					}
				}
			}
		})
		if encPos == "" {
			encPos = P.Pos(nc.Pos())
		}
		R.Check(keyP != nil && enc == "second" && mac == "first", "C16.tables", "jose/cipher|NewCBCHMAC|key-halves", encPos,
			"the block cipher is keyed with the final half of the key and the HMAC with the initial half (RFC 7518 5.2.2.1)",
			fmt.Sprintf("the block cipher is keyed with the %s of the CBC-HMAC key (at %s) and the HMAC with the %s (at %s); RFC 7518 5.2.2.1 has MAC_KEY = initial half, ENC_KEY = final half: part of the key is not used for its purpose, so a different key that shares the used part decrypts the object", orNone(enc), encPos, orNone(mac), macPos), nil)
	}
	// ---- "absent" and "empty" stay apart in the serialised forms: the parsers tell a missing member from an empty one
	// by the buffer being nil, so the buffer constructor answers nil for a nil slice only (a signature over the empty
	// payload has a payload member)
	if nb := P.Func("https/jose", "newBuffer"); R.Anchor(nb != nil, "C16.parse", "https/jose.newBuffer") {
		ok, n := true, 0
		where := P.Pos(nb.Pos())
		for _, ret := range core.Returns(nb) {
			if len(ret.Results) != 1 {
				continue
			}
			for _, leaf := range core.ValueLeaves(ret.Results[0]) {
				if !core.IsNilConst(leaf) {
					continue
				}
				n++
				// the nil answer is given under "data == nil" and under nothing weaker
				good := false
				blk := ret.Block()
				if phi, isPhi := ret.Results[0].(*ssa.Phi); isPhi {
					for i, e := range phi.Edges {
						if e == leaf {
							blk = phi.Block().Preds[i]
						}
					}
				}
				for _, a := range append(core.GuardAtoms(blk), core.EdgeAtoms(blk, 0)...) {
					if _, isPar := core.StripConv(a.LV).(*ssa.Parameter); isPar && a.Op == "==" && a.R == "nil" {
						good = true
					}
				}
				if !good {
					ok, where = false, P.InstrPos(ret)
				}
			}
		}
		R.Check(ok && n > 0, "C16.parse", "jose|newBuffer|nil-for-nil-only", where,
			"the buffer constructor answers nil exactly for a nil slice",
			"the buffer constructor answers nil for more than a nil slice (an empty one): the serialisers then leave the member out and the parsers, which read a nil buffer as 'member missing', reject an object signed over the empty payload", nil)
	}
	// ---- nothing keeps the address of a loop variable beyond its iteration (this module's go directive predates
	// per-iteration loop variables, so every kept address would point at the last element): the per-signature
	// 'original' of a parsed JWS is what its protected header is authenticated from
	for _, pkg := range []string{"https/jose", "https/jose/cipher"} {
		for _, fn := range P.ModuleFuncs(pkg) {
			for i, esc := range core.LoopVarEscapes(fn) {
				R.Fail("C16.aad", fmt.Sprintf("%s|%s|loop-variable-address-kept#%d", pkg[strings.Index(pkg, "/")+1:], core.FuncName(fn), i+1), P.InstrPos(esc.Store),
					"the address of the loop variable "+esc.Name+" is stored beyond its iteration; with this module's go directive the variable is shared by all iterations, so every kept pointer ends up at the last element (for a parsed JWS: every signature is authenticated against the last signature's protected header)", nil)
			}
		}
	}
	R.OK("C16.aad", "jose|loop-variable-addresses", "https/jose", "no address of a loop variable is kept beyond its iteration in https/jose and https/jose/cipher")
	// ---- accepted sets of the constructors = what the codecs implement
	acc := func(ctor, typ string, impl map[string]string, what string) {
		fn := get(ctor)
		if fn == nil {
			return
		}
		got := keySet(byAlg(switchTable(P, fn, typ, 0), func(caseInfo) string { return "x" }))
		tableCheck("jose|"+ctor+"|accepted-set", P.Pos(fn.Pos()), got, keySet(impl), what)
	}
	if rs != nil {
		acc("newRSASigner", "SignatureAlgorithm", byAlg(switchTable(P, rs, "SignatureAlgorithm", 0), pickAssign("hash")), "algorithms accepted for RSA signing = implemented")
	}
	if es != nil {
		acc("newECDSASigner", "SignatureAlgorithm", byAlg(switchTable(P, es, "SignatureAlgorithm", 0), pickAssign("hash")), "algorithms accepted for ECDSA signing = implemented")
	}
	if hm := P.Func(pkg, "(symmetricMac).hmac"); hm != nil {
		acc("newSymmetricSigner", "SignatureAlgorithm", byAlg(switchTable(P, hm, "SignatureAlgorithm", 0), pickAssign("hash")), "algorithms accepted for HMAC = implemented")
	}
	if se != nil {
		acc("newSymmetricRecipient", "KeyAlgorithm", byAlg(switchTable(P, se, "KeyAlgorithm", 0), func(caseInfo) string { return "x" }), "symmetric key algorithms accepted = implemented")
	}
	if re := get("(rsaEncrypterVerifier).encrypt"); re != nil {
		acc("newRSARecipient", "KeyAlgorithm", byAlg(switchTable(P, re, "KeyAlgorithm", 0), func(caseInfo) string { return "x" }), "RSA key algorithms accepted = implemented")
		rd := get("(rsaDecrypterSigner).decrypt")
		if rd != nil {
			tableCheck("jose|rsa|decrypt-set", P.Pos(rd.Pos()), keySet(byAlg(switchTable(P, rd, "KeyAlgorithm", 0), func(caseInfo) string { return "x" })),
				keySet(byAlg(switchTable(P, re, "KeyAlgorithm", 0), func(caseInfo) string { return "x" })), "RSA key algorithms decrypted = encrypted")
		}
	}
	if ee != nil {
		acc("newECDHRecipient", "KeyAlgorithm", byAlg(switchTable(P, ee, "KeyAlgorithm", 0), func(caseInfo) string { return "x" }), "ECDH key algorithms accepted = implemented")
	}

	// ---- C16.gate
	guardOn := func(b *ssa.BasicBlock, pred func(a core.Atom) bool) bool {
		for _, a := range core.GuardAtoms(b) {
			if pred(a) {
				return true
			}
		}
		return false
	}
	if vf := P.Func(pkg, "(JsonWebSignature).Verify"); R.Anchor(vf != nil, "C16.gate", pkg+".(JsonWebSignature).Verify") {
		var vcall ssa.Value
		core.EachInstr(vf, func(in ssa.Instruction) {
			if call, ok := in.(*ssa.Call); ok && call.Call.IsInvoke() && call.Call.Method.Name() == "verifyPayload" {
				vcall = call
			}
		})
		ok := vcall != nil
		n := 0
		for _, r := range core.Returns(vf) {
			if isZeroConst(r.Results[0]) {
				continue
			}
			n++
			if !guardOn(r.Block(), func(a core.Atom) bool { return a.LV == vcall && a.Op == "==" && a.R == "nil" }) {
				ok = false
			}
		}
		R.Check(ok && n > 0, "C16.gate", "jose|(JsonWebSignature).Verify|payload-only-if-verified", P.Pos(vf.Pos()),
			"the payload is returned only under a nil verification error", "Verify can return the payload on a path where the signature verification did not succeed", nil)
	}
	if hv := P.Func(pkg, "(symmetricMac).verifyPayload"); R.Anchor(hv != nil, "C16.gate", pkg+".(symmetricMac).verifyPayload") {
		var cmp ssa.Value
		core.EachInstr(hv, func(in ssa.Instruction) {
			if call, ok := in.(*ssa.Call); ok && call.Call.StaticCallee() != nil && core.FullName(call.Call.StaticCallee()) == "subtle.ConstantTimeCompare" {
				cmp = call
			}
		})
		ok := cmp != nil
		n := 0
		for _, r := range core.Returns(hv) {
			if !core.IsNilConst(r.Results[0]) {
				continue
			}
			n++
			if !guardOn(r.Block(), func(a core.Atom) bool { return a.LV == cmp && a.Op == "==" && a.R == "1" }) ||
				!guardOn(r.Block(), func(a core.Atom) bool {
					return strings.HasPrefix(a.L, "len(") && strings.HasPrefix(a.R, "len(") && a.Op == "=="
				}) {
				ok = false
			}
		}
		R.Check(ok && n > 0, "C16.gate", "jose|(symmetricMac).verifyPayload|constant-time-match", P.Pos(hv.Pos()),
			"HMAC verification succeeds only after an equal-length check and a successful constant-time comparison", "HMAC verification can succeed without the constant-time comparison having matched", nil)
	}
	if op := P.Func(pkg+"/cipher", "(*cbcAEAD).Open"); R.Anchor(op != nil, "C16.gate", pkg+"/cipher.(*cbcAEAD).Open") {
		var cmp ssa.Value
		var crypt ssa.Instruction
		core.EachInstr(op, func(in ssa.Instruction) {
			call, ok := in.(*ssa.Call)
			if !ok {
				return
			}
			if call.Call.StaticCallee() != nil && core.FullName(call.Call.StaticCallee()) == "subtle.ConstantTimeCompare" {
				cmp = call
			}
			if call.Call.IsInvoke() && call.Call.Method.Name() == "CryptBlocks" {
				crypt = call
			}
		})
		ok := cmp != nil && crypt != nil && guardOn(crypt.Block(), func(a core.Atom) bool { return a.LV == cmp && a.Op == "==" && a.R == "1" })
		R.Check(ok, "C16.gate", "jose/cipher|(*cbcAEAD).Open|decrypt-after-tag-check", P.Pos(op.Pos()),
			"CBC decryption happens only after the authentication tag matched", "CBC-HMAC decrypts before (or without) a successful authentication tag comparison", nil)
		okPlain := true
		for _, r := range core.Returns(op) {
			if !isZeroConst(r.Results[0]) && !guardOn(r.Block(), func(a core.Atom) bool { return a.LV == cmp && a.Op == "==" && a.R == "1" }) {
				okPlain = false
			}
		}
		R.Check(okPlain, "C16.gate", "jose/cipher|(*cbcAEAD).Open|plaintext-after-tag-check", P.Pos(op.Pos()),
			"plaintext is returned only after the tag matched", "CBC-HMAC Open can return plaintext without a matching tag", nil)
	}
	dec := P.Func(pkg, "(JsonWebEncryption).Decrypt")
	if R.Anchor(dec != nil, "C16.gate", pkg+".(JsonWebEncryption).Decrypt") {
		var dcall ssa.Value
		// in Decrypt, or in the helper its recipient loop was extracted into
		for _, host := range joseDecryptHosts(dec) {
			core.EachInstr(host, func(in ssa.Instruction) {
				if call, ok := in.(*ssa.Call); ok && call.Call.IsInvoke() && call.Call.Method.Name() == "decrypt" {
					dcall = call
				}
			})
		}
		// the failure return: ErrCryptoFailure
		var failIf *ssa.If
		for _, r := range core.Returns(dec) {
			if core.Path(r.Results[1]) == "jose.ErrCryptoFailure" {
				for _, g := range core.Guards(r.Block()) {
					failIf = g.If
					break
				}
			}
		}
		flagOK := false
		detail := "no 'nothing decrypted' return found"
		if failIf != nil {
			a, _ := core.AtomOf(core.Guard{Cond: failIf.Cond, Pol: true, If: failIf})
			detail = "it tests " + a.String()
			// the condition must not be a nil test of a byte slice
			flagOK = true
			if bo, ok := failIf.Cond.(*ssa.BinOp); ok {
				for _, op := range []ssa.Value{bo.X, bo.Y} {
					if sl, isSl := op.Type().Underlying().(*types.Slice); isSl && !core.IsNilConst(op) {
						if b, isB := sl.Elem().Underlying().(*types.Basic); isB && b.Kind() == types.Uint8 {
							flagOK = false
						}
					}
				}
			}
		}
		R.Check(flagOK, "C16.gate-flag", "jose|(JsonWebEncryption).Decrypt|failure-decided-by-error", P.Pos(dec.Pos()),
			"'nothing could be decrypted' is decided by the attempts' outcome, not by the plaintext value",
			"Decrypt decides failure by 'plaintext == nil' ("+detail+"): a correctly encrypted empty payload decrypts to a nil slice and is reported as a cryptographic failure", nil)
		// plaintext returned only after a successful decrypt: every path to a non-error return passes a nil-error test of decrypt
		ok := dcall != nil
		if dcall != nil {
			E, _ := errValueOf(dcall.(*ssa.Call))
			tested := false
			if E != nil {
				for _, r := range *E.Referrers() {
					if bo, isB := r.(*ssa.BinOp); isB && (bo.Op == token.EQL || bo.Op == token.NEQ) {
						tested = true
					}
				}
			}
			ok = tested
		}
		R.Check(ok, "C16.gate", "jose|(JsonWebEncryption).Decrypt|decrypt-error-tested", P.Pos(dec.Pos()),
			"the content decryption error is tested", "Decrypt ignores the error of the content decryption", nil)
	}

	// ---- C16.mac-input: the CBC-HMAC tag covers AAD || IV || ciphertext || 64-bit AAD bit length (RFC 7518 5.2.2.1)
	if ct := P.Func(pkg+"/cipher", "(*cbcAEAD).computeAuthTag"); R.Anchor(ct != nil, "C16.mac-input", pkg+"/cipher.(*cbcAEAD).computeAuthTag") {
		e := abs.NewEngine(P)
		e.Contract = func(p *abs.Path, fr *abs.Frame, call *ssa.CallCommon, callee *ssa.Function, args []abs.Value) (abs.Value, bool) {
			if callee == nil && call.Method.Name() == "Write" && len(args) == 2 {
				if sl, ok := args[1].(*abs.Slice); ok {
					p.AppendSink("mac", sl)
					return &abs.Tuple{Vs: []abs.Value{abs.TopInt(64, true), &abs.NilV{}}}, true
				}
			}
			return nil, false
		}
		res := e.Run(ct, func(p *abs.Path) []abs.Value {
			for _, a := range []string{"len(aad)", "len(nonce)", "len(ciphertext)"} {
				p.DeclareAtom(a, 32, 0, 1<<32-1)
			}
			return e.AutoArgs(p, ct)
		})
		aadBits := abs.LAtom("len(aad)").Scale(8).String()
		spec := abs.Cat(abs.BlobSpec("aad", abs.LAtom("len(aad)")), abs.BlobSpec("nonce", abs.LAtom("len(nonce)")), abs.BlobSpec("ciphertext", abs.LAtom("len(ciphertext)")), abs.BE(aadBits, 8))
		var problems []string
		for _, r := range res {
			if r.Path.Abort != "" {
				problems = append(problems, "undecided: "+r.Path.Abort)
				continue
			}
			o := r.Path.Sink("mac")
			if o == nil {
				problems = append(problems, "nothing is fed to the MAC")
				continue
			}
			for _, m := range r.Path.Compare(o.Segs, spec) {
				problems = append(problems, m+pathSuffix(r))
			}
		}
		report(R, "C16.mac-input", "jose/cipher|(*cbcAEAD).computeAuthTag|aad+iv+ciphertext+al", P.Pos(ct.Pos()),
			"the authentication tag is computed over AAD || IV || ciphertext || AL", "the MAC input is not AAD || IV || ciphertext || 64-bit AAD bit length: ", dedup(problems),
			map[string]interface{}{"expected": abs.SpecString(spec)})
	}

	// ---- C16.aad
	for _, t := range []struct{ fn, what string }{{"(JsonWebSignature).computeAuthData", "signing input"}, {"(JsonWebEncryption).computeAuthData", "additional authenticated data"}} {
		fn := P.Func(pkg, t.fn)
		if !R.Anchor(fn != nil, "C16.aad", pkg+"."+t.fn) {
			continue
		}
		usesOriginal := false
		core.EachInstr(fn, func(in ssa.Instruction) {
			if call, ok := in.(*ssa.Call); ok && call.Call.StaticCallee() != nil && core.FnName(call.Call.StaticCallee()) == "base64" &&
				strings.HasSuffix(core.Path(call.Call.Args[0]), ".original.Protected") {
				if guardOn(call.Block(), func(a core.Atom) bool { return strings.HasSuffix(a.L, ".original") && a.Op == "!=" }) {
					usesOriginal = true
				}
			}
		})
		// the received header has precedence: its use must not depend on the parsed header being absent
		precedence := true
		core.EachInstr(fn, func(in ssa.Instruction) {
			call, ok := in.(*ssa.Call)
			if !ok || call.Call.StaticCallee() == nil || core.FnName(call.Call.StaticCallee()) != "base64" || !strings.HasSuffix(core.Path(call.Call.Args[0]), ".original.Protected") {
				return
			}
			if guardOn(call.Block(), func(a core.Atom) bool { return strings.HasSuffix(a.L, ".protected") }) {
				precedence = false
			}
		})
		R.Check(precedence, "C16.aad", "jose|"+t.fn+"|received-header-has-precedence", P.Pos(fn.Pos()),
			"the received protected header is used whenever it exists",
			"the received protected header bytes are only used when the parsed header is absent, i.e. the re-serialised header takes precedence: alterations of the received header that parse to the same values (e.g. member-name case) go unnoticed by verification", nil)
		R.Check(usesOriginal, "C16.aad", "jose|"+t.fn+"|received-protected-header", P.Pos(fn.Pos()),
			"for a parsed object the "+t.what+" is built from the received protected header bytes",
			"for a parsed object the "+t.what+" is not built from the received (original) protected header: a re-serialised header can differ byte-wise and verification of valid objects fails, or altered bytes go unnoticed", nil)
	}
	if fn := P.Func(pkg, "(JsonWebEncryption).computeAuthData"); fn != nil {
		ok := false
		core.EachInstr(fn, func(in ssa.Instruction) {
			if call, isCall := in.(*ssa.Call); isCall && call.Call.StaticCallee() != nil && core.FnName(call.Call.StaticCallee()) == "base64URLEncode" &&
				strings.HasSuffix(core.Path(call.Call.Args[0]), ".aad") {
				// the serialisations cannot tell an empty "aad" from an absent one (the member is omitted when empty), so the
				// guard must be on the length: an empty non-nil slice given to EncryptWithAuthData is "no additional data"
				if guardOn(call.Block(), func(a core.Atom) bool {
					return strings.HasPrefix(a.L, "len(") && strings.HasSuffix(a.L, ".aad)") && (a.Op == ">" || a.Op == "!=") && a.R == "0"
				}) {
					ok = true
				}
			}
		})
		R.Check(ok, "C16.aad", "jose|(JsonWebEncryption).computeAuthData|aad-appended-iff-present", P.Pos(fn.Pos()),
			"'.' + base64url(aad) is appended exactly when the additional data is non-empty",
			"the additional authenticated data is not appended under a 'len(aad) > 0' guard: with a nil-ness test an empty non-nil aad is authenticated as '<protected>.' when encrypting but as '<protected>' after parsing (the empty member is not serialised), so the object cannot be decrypted", nil)
	}
	checkJoseInputsNotModified(c)
	checkJoseParseKeepsProtected(c)
	checkJoseInflateWhole(c)
	checkJoseTriesEveryRecipient(c)

	// ---- C16.width: EC coordinates are serialised at the curve's full octet length (RFC 7518 6.2.1.2, RFC 7638)
	nCoord := 0
	for _, fn := range P.ModuleFuncs(pkg) {
		core.EachInstr(fn, func(in ssa.Instruction) {
			call, ok := in.(*ssa.Call)
			if !ok || call.Call.StaticCallee() == nil || len(call.Call.Args) == 0 {
				return
			}
			cn := core.FnName(call.Call.StaticCallee())
			if cn != "newBuffer" && cn != "newFixedSizeBuffer" {
				return
			}
			bc, isCall := call.Call.Args[0].(*ssa.Call)
			if !isCall || bc.Call.StaticCallee() == nil || core.FullName(bc.Call.StaticCallee()) != "(*big.Int).Bytes" {
				return
			}
			recv := bc.Call.Args[0]
			rp := core.Path(recv)
			isCoord := strings.HasSuffix(rp, ".X") || strings.HasSuffix(rp, ".Y")
			if par, isPar := recv.(*ssa.Parameter); isPar && (core.ParamName(par) == "x" || core.ParamName(par) == "y") && strings.Contains(strings.ToLower(core.FnName(fn)), "ec") {
				isCoord = true
			}
			if !isCoord {
				return
			}
			nCoord++
			R.Check(cn == "newFixedSizeBuffer", "C16.width", fmt.Sprintf("jose|%s|ec-coordinate-fixed-size#%d", core.FuncName(fn), nCoord), P.InstrPos(call),
				"the EC coordinate "+rp+" is serialised at the curve's full byte length",
				"the EC coordinate "+rp+" is serialised without left padding to the curve size: keys whose coordinate has a leading zero byte get a shorter encoding and a wrong RFC 7638 thumbprint", nil)
		})
	}
	if nCoord < 4 {
		R.Fail("C16.width", "jose|ec-coordinate-fixed-size|sites", "?", fmt.Sprintf("%d EC coordinate serialisation sites found, 4 confirmed on the pinned tree", nCoord), nil)
	}
	if es != nil {
		n := 0
		// in signPayload itself, or in a module helper it calls (the r||s encoding extracted into a function)
		scan := []*ssa.Function{es}
		core.EachInstr(es, func(in ssa.Instruction) {
			if call, ok := in.(*ssa.Call); ok {
				if f := call.Call.StaticCallee(); f != nil && core.InModule(f) && core.ShortPkg(f) == core.ShortPkg(es) && f.Parent() == nil && len(f.Blocks) > 0 {
					scan = append(scan, f)
				}
			}
		})
		for _, f := range scan {
			core.EachInstr(f, func(in ssa.Instruction) {
				if sl, ok := in.(*ssa.Slice); ok && sl.Low != nil {
					if bo, isB := sl.Low.(*ssa.BinOp); isB && bo.Op == token.SUB && strings.HasPrefix(core.Path(bo.Y), "len(") {
						n++
					}
				}
			})
		}
		R.Check(n == 2, "C16.width", "jose|(ecDecrypterSigner).signPayload|fixed-width-r-s", P.Pos(es.Pos()),
			"r and s are right-aligned into fixed-width buffers", fmt.Sprintf("ECDSA r and s are not both left-padded to the curve byte size (%d padded copies found)", n), nil)
	}
}

// checkJoseParseKeepsProtected: a parsed JWS keeps the received protected header bytes for every signature (computeAuthData
// authenticates those bytes; without them it falls back to a re-serialisation that forgives alterations).
func checkJoseParseKeepsProtected(c *Ctx) {
	P, R := c.P, c.R
	fn := P.Func("https/jose", "(*rawJsonWebSignature).sanitized")
	if !R.Anchor(fn != nil, "C16.aad", "https/jose.(*rawJsonWebSignature).sanitized") {
		return
	}
	n, bad := 0, ""
	core.EachInstr(fn, func(in ssa.Instruction) {
		st, ok := in.(*ssa.Store)
		if !ok || !strings.HasSuffix(core.Path(st.Addr), ".original") {
			return
		}
		al, isAlloc := core.StripConv(st.Val).(*ssa.Alloc)
		if !isAlloc {
			return
		}
		n++
		// either a whole-struct copy of the received signature entry, or a literal whose Protected is the received one
		okOne := false
		for _, r := range *al.Referrers() {
			switch u := r.(type) {
			case *ssa.Store:
				if u.Addr == ssa.Value(al) {
					okOne = true // *original = sig (whole received entry)
				}
			case *ssa.FieldAddr:
				if fieldNameOf(u) == "Protected" {
					for _, r2 := range *u.Referrers() {
						if s2, isS := r2.(*ssa.Store); isS && strings.HasSuffix(core.Path(s2.Val), ".Protected") {
							okOne = true
						}
					}
				}
			}
		}
		if !okOne {
			bad = P.InstrPos(st)
		}
	})
	R.Check(n >= 2 && bad == "", "C16.aad", "jose|(*rawJsonWebSignature).sanitized|keeps-received-protected-header", P.Pos(fn.Pos()),
		"every parsed signature keeps the received protected header bytes",
		"a parsed signature (stored at "+bad+") does not keep the received protected header bytes: verification then authenticates a re-serialised header, so alterations that parse to the same values (member-name case, spare base64 bits) are accepted", nil)
}

// checkJoseInflateWhole: the decompressed plaintext is the whole stream - no size-limiting wrapper that ends early
// without an error.
func checkJoseInflateWhole(c *Ctx) {
	P, R := c.P, c.R
	// by role: the function that opens the flate reader (inflate on the pinned tree)
	var fn *ssa.Function
	for _, f := range P.ModuleFuncs("https/jose") {
		core.EachInstr(f, func(in ssa.Instruction) {
			if call, ok := in.(*ssa.Call); ok && call.Call.StaticCallee() != nil && core.FullName(call.Call.StaticCallee()) == "flate.NewReader" && fn == nil {
				fn = f
			}
		})
	}
	if !R.Anchor(fn != nil, "C16.gate", "https/jose.inflate") {
		return
	}
	n, bad := 0, ""
	core.EachInstr(fn, func(in ssa.Instruction) {
		call, ok := in.(*ssa.Call)
		if !ok || call.Call.StaticCallee() == nil {
			return
		}
		switch core.FullName(call.Call.StaticCallee()) {
		case "io.Copy", "ioutil.ReadAll", "io.ReadAll":
			n++
			src := call.Call.Args[len(call.Call.Args)-1]
			if core.FullName(call.Call.StaticCallee()) == "io.Copy" {
				src = call.Call.Args[1]
			}
			src = core.StripConv(src)
			if sc, isCall := src.(*ssa.Call); !isCall || sc.Call.StaticCallee() == nil || core.FullName(sc.Call.StaticCallee()) != "flate.NewReader" {
				bad = "the source read at " + P.InstrPos(call) + " is not the flate reader itself"
			}
		}
	})
	R.Check(n >= 1 && bad == "", "C16.gate", "jose|inflate|whole-stream", P.Pos(fn.Pos()),
		"the plaintext returned is the whole decompressed stream",
		"the decompressed plaintext can be cut without an error ("+bad+"): Decrypt would return a prefix of the payload as if it were the payload", nil)
}

// checkJoseTriesEveryRecipient: the recipient loop of Decrypt is left early only after a successful content decryption
// (an unwrap that "succeeds" with a wrong key - RSA1_5 returns a random key by design - must not stop the search).
func checkJoseTriesEveryRecipient(c *Ctx) {
	P, R := c.P, c.R
	fn := P.Func("https/jose", "(JsonWebEncryption).Decrypt")
	if !R.Anchor(fn != nil, "C16.gate", "https/jose.(JsonWebEncryption).Decrypt") {
		return
	}
	var dec *ssa.Call
	for _, host := range joseDecryptHosts(fn) {
		host := host
		core.EachInstr(host, func(in ssa.Instruction) {
			if call, ok := in.(*ssa.Call); ok && call.Call.IsInvoke() && call.Call.Method.Name() == "decrypt" {
				dec = call
				fn = host // the recipient loop is where the content decryption is
			}
		})
	}
	if !R.Anchor(dec != nil, "C16.gate", "content decrypt call in the recipient loop of Decrypt") {
		return
	}
	// loop header: the innermost header dominating the call
	var hdr *ssa.BasicBlock
	for _, b := range fn.Blocks {
		isHeader := false
		for _, pr := range b.Preds {
			if b.Dominates(pr) {
				isHeader = true
			}
		}
		if isHeader && b.Dominates(dec.Block()) {
			if hdr == nil || hdr.Dominates(b) {
				hdr = b
			}
		}
	}
	if !R.Anchor(hdr != nil, "C16.gate", "recipient loop of Decrypt") {
		return
	}
	inLoop := loopBlocks(fn, hdr)
	bad := ""
	if !inLoop[dec.Block()] {
		bad = P.InstrPos(dec) + " (every path through the content decryption leaves the loop: the next recipient is never tried)"
	}
	for b := range inLoop {
		if b == hdr {
			continue // the loop's own exhaustion test
		}
		for idx, s2 := range b.Succs {
			if inLoop[s2] {
				continue
			}
			// an early exit: must be under "the content decryption returned no error"
			ok := false
			facts := core.GuardAtoms(b)
			for _, a := range facts {
				if a.Op == "==" && (a.R == "nil" || strings.HasPrefix(a.R, "nil:")) && derivesFrom(a.LV, dec) {
					ok = true
				}
			}
			if iff, isIf := b.Instrs[len(b.Instrs)-1].(*ssa.If); isIf {
				if bo, isB := iff.Cond.(*ssa.BinOp); isB && core.IsNilConst(bo.Y) && derivesFrom(bo.X, dec) {
					if (bo.Op == token.EQL && idx == 0) || (bo.Op == token.NEQ && idx == 1) {
						ok = true
					}
				}
			}
			// error returns out of the loop (a failure that ends Decrypt) are not "found"
			if isReturnBlock(s2) {
				ok = true
			}
			if !ok {
				bad = P.InstrPos(b.Instrs[len(b.Instrs)-1])
			}
		}
	}
	R.Check(bad == "", "C16.gate", "jose|(JsonWebEncryption).Decrypt|leaves-recipient-loop-only-after-content-decrypts", P.InstrPos(dec),
		"the recipient loop ends early only when the content decrypted without error",
		"the recipient loop is left at "+bad+" without the content decryption having succeeded: a recipient entry whose key unwrap 'succeeds' with a wrong key (RSA1_5 yields a random key by design) hides the later entry that belongs to the caller's key", nil)
}

func isReturnBlock(b *ssa.BasicBlock) bool {
	if len(b.Instrs) == 0 {
		return false
	}
	_, ok := b.Instrs[len(b.Instrs)-1].(*ssa.Return)
	return ok && len(b.Instrs) <= 3
}

// checkJoseInputsNotModified: the primitives that work on bytes owned by the parsed object (the wrapped key, the
// ciphertext) compute on copies. Writing through the input corrupts the parsed object, so a second Decrypt - or a
// Decrypt with the right key after one with a wrong key - fails although nothing was tampered with.
func checkJoseInputsNotModified(c *Ctx) {
	P, R := c.P, c.R
	for _, t := range []struct {
		pkg, fn string
		param   int
	}{{"https/jose/cipher", "KeyUnwrap", 1}, {"https/jose/cipher", "(*cbcAEAD).Open", 3}} {
		fn := P.Func(t.pkg, t.fn)
		if !R.Anchor(fn != nil && t.param < len(fn.Params), "C16.gate", t.pkg+"."+t.fn) {
			continue
		}
		bad := writesThrough(P, fn, fn.Params[t.param])
		R.Check(bad == "", "C16.gate", "jose|"+t.fn+"|input-not-modified", P.Pos(fn.Pos()),
			"the primitive computes on copies and leaves the bytes it was given untouched",
			"the primitive writes through its input ("+bad+"): the parsed object's own bytes are altered by the first attempt, so decrypting it again (or with the right key after a wrong one) fails", nil)
	}
}

// joseDecryptHosts: Decrypt and its direct callees in the package (the recipient loop may have been extracted).
func joseDecryptHosts(dec *ssa.Function) []*ssa.Function {
	out := []*ssa.Function{dec}
	core.EachInstr(dec, func(in ssa.Instruction) {
		if call, ok := in.(*ssa.Call); ok {
			if f := call.Call.StaticCallee(); f != nil && core.InModule(f) && core.ShortPkg(f) == core.ShortPkg(dec) && f.Parent() == nil && len(f.Blocks) > 0 {
				out = append(out, f)
			}
		}
	})
	return out
}

func orNone(s string) string {
	if s == "" {
		return "nothing found"
	}
	return s + " half"
}
