package rules

import (
	"fmt"

	"golang.org/x/tools/go/ssa"

	"oryxverif/checker/internal/abs"
)

func init() {
	register(&Property{
		ID: "C12",
		Explain: "Decided (bit-provenance abstract interpretation; element counts 0..2 and the NAL length size enumerated, every field and payload length symbolic): C12.nalu - the NAL header byte is " +
			"[0 nal_ref_idc(2) nal_unit_type(5)] both ways for all 256 header bytes, a NAL unit is header + payload; C12.record - AVCDecoderConfigurationRecord.MarshalBinary writes " +
			"[version][profile][compat][level][111111 lengthSizeMinusOne(2)][111 numSPS(5)] {BE16 length, NAL unit}* [numPPS(8)] {BE16 length, NAL unit}* with the reserved bits set, every count and length " +
			"prefix derived from what follows it; UnmarshalBinary run on that ISO layout returns the same fields and parameter sets, masks the reserved bits and stays in bounds; C12.sample - samples are " +
			"{NALUnitLength(8*(lengthSizeMinusOne+1) bits BE), NAL unit}* both ways for each of the four length sizes. The per-element loop bodies are the same SSA code for every iteration; counts above 2 follow by that uniformity. " +
			"C12.alias - no []byte result aliases storage that outlives the call (receiver fields, package variables, pooled buffers): an item handed out earlier stays what it was. " +
			"Not decided: equality of parameter-set payload bytes as data; accumulation when one record object is unmarshalled twice (outside the property).",
		Assume: []string{"layout tables transcribed from ISO/IEC 14496-15 5.2.4.1.1, 5.3.4.2 and 14496-10 7.3.1", "field domains: nal_ref_idc 2 bits, nal_unit_type 5 bits, profile/compat/level 8 bits, NAL units of 1..65535 bytes in a record"},
		Run:    runC12,
	})
}

func runC12(c *Ctx) {
	checkOwnsBytes(c, "C12.alias", "avc")
	checkFreshResult(c, "C12.record", "avc", "(*AVCSample).MarshalBinary", 0)
	checkFreshResult(c, "C12.record", "avc", "(*AVCDecoderConfigurationRecord).MarshalBinary", 0)
	checkFreshResult(c, "C12.record", "avc", "(*NALU).MarshalBinary", 0)
	R := c.R
	R.Require("C12.nalu", 4)
	R.Require("C12.record", 23)
	R.Require("C12.sample", 24)

	// ---- C12.nalu
	ln := newLayout(c, "C12.nalu")
	hdr := func(prefix string) []abs.SegSpec {
		return abs.Pack(abs.K(1, 0), abs.F(prefix+"NALRefIDC", 1, 0), abs.F(prefix+"NALUType", 4, 0))
	}
	hdom := func(prefix string, m map[string]Dom) map[string]Dom {
		if m == nil {
			m = map[string]Dom{}
		}
		m[prefix+"NALRefIDC"] = Dom{W: 2, Hi: -1}
		m[prefix+"NALUType"] = Dom{W: 5, Hi: -1}
		return m
	}
	ln.encoder("avc", "(*NALUHeader).MarshalBinary", []Variant{{Name: "any", Dom: hdom("v.", nil), Spec: hdr("v.")}}, retBytes(0, 1))
	fresh := func(l *layoutCtx) func(p *abs.Path, fn *ssa.Function, in []abs.Seg) []abs.Value {
		return func(p *abs.Path, fn *ssa.Function, in []abs.Seg) []abs.Value {
			args := l.e.AutoArgs(p, fn)
			args[0] = l.e.NewZeroPtr(p, fn.Params[0].Type())
			p.Keep["recv"] = args[0]
			args[1] = p.BytesValue("data", in)
			return args
		}
	}
	ln.decoder("avc", "(*NALUHeader).UnmarshalBinary", []Variant{{
		Name: "all 256 header bytes", Dom: hdom("h.", nil),
		Spec:   abs.Pack(abs.X(1), abs.F("h.NALRefIDC", 1, 0), abs.F("h.NALUType", 4, 0)),
		Fields: map[string]Want{"NALRefIDC": {Atom: "h.NALRefIDC", Width: 2}, "NALUType": {Atom: "h.NALUType", Width: 5}},
	}}, fresh(ln), recvOrRet, 0)
	ln.encoder("avc", "(*NALU).MarshalBinary", []Variant{{
		Name: "any", Dom: hdom("v.NALUHeader.", map[string]Dom{"len(v.Data)": {W: 16, Hi: 65534}}),
		Spec: abs.Cat(hdr("v.NALUHeader."), abs.BlobSpec("v.Data", abs.LAtom("len(v.Data)"))),
	}}, retBytes(0, 1))
	// NALU.UnmarshalBinary needs a receiver with an allocated header (NewNALU)
	naluRecv := func(l *layoutCtx) func(p *abs.Path, fn *ssa.Function, in []abs.Seg) []abs.Value {
		return func(p *abs.Path, fn *ssa.Function, in []abs.Seg) []abs.Value {
			args := l.e.AutoArgs(p, fn)
			ctor := l.c.P.Func("avc", "NewNALU")
			rs := l.e.Run(ctor, func(q *abs.Path) []abs.Value { return nil })
			_ = rs
			args[0] = l.e.CallFn(p, ctor, nil)[0]
			p.Keep["recv"] = args[0]
			args[1] = p.BytesValue("data", in)
			return args
		}
	}
	ln.decoder("avc", "(*NALU).UnmarshalBinary", []Variant{{
		Name: "any", Dom: hdom("h.", map[string]Dom{"len(d)": {W: 16, Hi: 65534}}),
		Spec: abs.Cat(abs.Pack(abs.X(1), abs.F("h.NALRefIDC", 1, 0), abs.F("h.NALUType", 4, 0)), abs.BlobSpec("d", abs.LAtom("len(d)"))),
		Fields: map[string]Want{"NALUHeader.NALRefIDC": {Atom: "h.NALRefIDC", Width: 2}, "NALUHeader.NALUType": {Atom: "h.NALUType", Width: 5},
			"Data": {Blob: "d", Len: abs.LAtom("len(d)")}},
	}}, naluRecv(ln), recvOrRet, 0)

	// ---- C12.record
	lr := newLayout(c, "C12.record")
	var recEnc, recDec []Variant
	counts := [][2]int{{31, 0}, {0, 33}} // boundary counts: the 5-bit SPS maximum and a PPS count that needs more than 5 bits
	if c.Tier == "thorough" {
		counts = append(counts, [2]int{0, 255})
	}
	for a := 0; a <= 2; a++ {
		for b := 0; b <= 2; b++ {
			counts = append(counts, [2]int{a, b})
		}
	}
	for _, cnt := range counts {
		{
			nsps, npps := cnt[0], cnt[1]
			// encoder: atoms are named after the receiver's access paths
			dom := map[string]Dom{"v.configurationVersion": {W: 8, Hi: -1}, "v.AVCProfileIndication": {W: 8, Hi: -1}, "v.profileCompatibility": {W: 8, Hi: -1},
				"v.AVCLevelIndication": {W: 8, Hi: -1}, "v.LengthSizeMinusOne": {W: 2, Hi: -1},
				"len(v.SequenceParameterSetNALUnits)": {W: 5, Hi: -1}, "len(v.PictureParameterSetNALUnits)": {W: 8, Hi: -1}}
			spec := abs.Cat(abs.Pack(abs.F("v.configurationVersion", 7, 0)), abs.Pack(abs.F("v.AVCProfileIndication", 7, 0)), abs.Pack(abs.F("v.profileCompatibility", 7, 0)),
				abs.Pack(abs.F("v.AVCLevelIndication", 7, 0)), abs.Pack(abs.K(6, 0x3f), abs.F("v.LengthSizeMinusOne", 1, 0)), abs.Pack(abs.K(3, 7), abs.K(5, uint64(nsps))))
			addSets := func(field string, n int) {
				for i := 0; i < n; i++ {
					el := fmt.Sprintf("v.%s[%d].", field, i)
					hdom(el+"NALUHeader.", dom)
					dom["len("+el+"Data)"] = Dom{W: 16, Hi: 65534}
					if n > 2 {
						dom["len("+el+"Data)"] = Dom{W: 16, Lo: 1, Hi: 65534} // boundary-count variants: non-empty payloads only (keeps the path count linear)
					}
					spec = abs.Cat(spec, abs.BE("len("+el+"Data)+1", 2), hdr(el+"NALUHeader."), abs.BlobSpec(el+"Data", abs.LAtom("len("+el+"Data)")))
				}
			}
			addSets("SequenceParameterSetNALUnits", nsps)
			spec = abs.Cat(spec, abs.Pack(abs.K(8, uint64(npps))))
			addSets("PictureParameterSetNALUnits", npps)
			recEnc = append(recEnc, Variant{Name: fmt.Sprintf("sps=%d,pps=%d", nsps, npps), Dom: dom,
				Bind: map[string]int64{"len(v.SequenceParameterSetNALUnits)": int64(nsps), "len(v.PictureParameterSetNALUnits)": int64(npps)}, Spec: spec})

			// decoder: independent field atoms, reserved bits don't-care
			ddom := map[string]Dom{"ver": {W: 8, Hi: -1}, "prof": {W: 8, Hi: -1}, "compat": {W: 8, Hi: -1}, "level": {W: 8, Hi: -1}, "lsm1": {W: 2, Hi: -1}}
			dspec := abs.Cat(abs.Pack(abs.F("ver", 7, 0)), abs.Pack(abs.F("prof", 7, 0)), abs.Pack(abs.F("compat", 7, 0)), abs.Pack(abs.F("level", 7, 0)),
				abs.Pack(abs.X(6), abs.F("lsm1", 1, 0)), abs.Pack(abs.X(3), abs.K(5, uint64(nsps))))
			fields := map[string]Want{"configurationVersion": {Atom: "ver", Width: 8}, "AVCProfileIndication": {Atom: "prof", Width: 8},
				"profileCompatibility": {Atom: "compat", Width: 8}, "AVCLevelIndication": {Atom: "level", Width: 8}, "LengthSizeMinusOne": {Atom: "lsm1", Width: 2}}
			addDec := func(field, tag string, n int) {
				for i := 0; i < n; i++ {
					el := fmt.Sprintf("%s%d.", tag, i)
					hdom(el, ddom)
					ddom[el+"len"] = Dom{W: 16, Lo: 1, Hi: 65535}
					dl := abs.LAtom(el + "len").Add(abs.LConst(-1))
					dspec = abs.Cat(dspec, abs.BE(el+"len", 2), abs.Pack(abs.X(1), abs.F(el+"NALRefIDC", 1, 0), abs.F(el+"NALUType", 4, 0)), abs.BlobSpec(el+"data", dl))
					base := fmt.Sprintf("%s[%d].", field, i)
					fields[base+"NALUHeader.NALRefIDC"] = Want{Atom: el + "NALRefIDC", Width: 2}
					fields[base+"NALUHeader.NALUType"] = Want{Atom: el + "NALUType", Width: 5}
					fields[base+"Data"] = Want{Blob: el + "data", Len: dl}
				}
			}
			addDec("SequenceParameterSetNALUnits", "sps", nsps)
			dspec = abs.Cat(dspec, abs.Pack(abs.K(8, uint64(npps))))
			addDec("PictureParameterSetNALUnits", "pps", npps)
			fields["len:SequenceParameterSetNALUnits"] = Want{Const: cst(int64(nsps))}
			fields["len:PictureParameterSetNALUnits"] = Want{Const: cst(int64(npps))}
			recDec = append(recDec, Variant{Name: fmt.Sprintf("sps=%d,pps=%d", nsps, npps), Dom: ddom, Spec: dspec, Fields: fields})
		}
	}
	// records of the High profiles carry extension fields after the PPS (ISO 14496-15 5.2.4.1.1): a reader must tolerate them
	for _, v := range recDec {
		if v.Name == "sps=1,pps=1" {
			ext := v
			ext.Name = "sps=1,pps=1,trailing-extension"
			ext.Dom = map[string]Dom{}
			for k, d := range v.Dom {
				ext.Dom[k] = d
			}
			ext.Dom["len(ext)"] = Dom{W: 16, Hi: -1}
			ext.Spec = abs.Cat(v.Spec, abs.BlobSpec("ext", abs.LAtom("len(ext)")))
			recDec = append(recDec, ext)
		}
	}
	lr.encoder("avc", "(*AVCDecoderConfigurationRecord).MarshalBinary", recEnc, retBytes(0, 1))
	lr.decoder("avc", "(*AVCDecoderConfigurationRecord).UnmarshalBinary", recDec, fresh(lr), recvOrLen, 0)

	// ---- C12.sample
	ls := newLayout(c, "C12.sample")
	var sEnc, sDec []Variant
	for lsm1 := int64(0); lsm1 < 4; lsm1++ {
		nb := int(lsm1) + 1
		for n := 0; n <= 2; n++ {
			dom := map[string]Dom{"v.lengthSizeMinusOne": {W: 2, Hi: -1}, "len(v.NALUs)": {W: 8, Hi: -1}}
			var spec []abs.SegSpec
			ddom := map[string]Dom{"v.lengthSizeMinusOne": {W: 2, Hi: -1}}
			var dspec []abs.SegSpec
			fields := map[string]Want{"len:NALUs": {Const: cst(int64(n))}}
			maxLen := int64(1)<<uint(8*nb) - 1
			if nb == 4 {
				maxLen = 1<<31 - 1
			}
			for i := 0; i < n; i++ {
				el := fmt.Sprintf("v.NALUs[%d].", i)
				hdom(el+"NALUHeader.", dom)
				dom["len("+el+"Data)"] = Dom{W: 8 * nb, Hi: maxLen - 1}
				spec = abs.Cat(spec, abs.BE("len("+el+"Data)+1", nb), hdr(el+"NALUHeader."), abs.BlobSpec(el+"Data", abs.LAtom("len("+el+"Data)")))
				d := fmt.Sprintf("nalu%d.", i)
				hdom(d, ddom)
				ddom[d+"len"] = Dom{W: 8 * nb, Lo: 1, Hi: maxLen}
				dl := abs.LAtom(d + "len").Add(abs.LConst(-1))
				dspec = abs.Cat(dspec, abs.BE(d+"len", nb), abs.Pack(abs.X(1), abs.F(d+"NALRefIDC", 1, 0), abs.F(d+"NALUType", 4, 0)), abs.BlobSpec(d+"data", dl))
				base := fmt.Sprintf("NALUs[%d].", i)
				fields[base+"NALUHeader.NALRefIDC"] = Want{Atom: d + "NALRefIDC", Width: 2}
				fields[base+"NALUHeader.NALUType"] = Want{Atom: d + "NALUType", Width: 5}
				fields[base+"Data"] = Want{Blob: d + "data", Len: dl}
			}
			name := fmt.Sprintf("lengthSize=%d,nalus=%d", nb, n)
			sEnc = append(sEnc, Variant{Name: name, Dom: dom, Bind: map[string]int64{"v.lengthSizeMinusOne": lsm1, "len(v.NALUs)": int64(n)}, Spec: spec})
			sDec = append(sDec, Variant{Name: name, Dom: ddom, Bind: map[string]int64{"v.lengthSizeMinusOne": lsm1}, Spec: dspec, Fields: fields})
		}
	}
	ls.encoder("avc", "(*AVCSample).MarshalBinary", sEnc, retBytes(0, 1))
	// the sample decoder keeps its configured length size: receiver lazily symbolic but NALUs empty
	sampleRecv := func(p *abs.Path, fn *ssa.Function, in []abs.Seg) []abs.Value {
		args := ls.e.AutoArgs(p, fn)
		ctor := ls.c.P.Func("avc", "NewAVCSample")
		args[0] = ls.e.CallFn(p, ctor, []abs.Value{p.SymInt("v.lengthSizeMinusOne", 8, false)})[0]
		p.Keep["recv"] = args[0]
		args[1] = p.BytesValue("data", in)
		return args
	}
	ls.decoder("avc", "(*AVCSample).UnmarshalBinary", sDec, sampleRecv, recvOrLen, 0)
}

// recvOrLen extends recvOrRet with "len:<path>" = length of a slice-valued field.
func recvOrLen(r abs.Result, field string) (abs.Value, bool) {
	if len(field) > 4 && field[:4] == "len:" {
		v, ok := abs.Resolve(r.Path, r.Path.Keep["recv"], field[4:])
		if !ok {
			return nil, false
		}
		l, ok := abs.LenOf(v)
		if !ok {
			return nil, false
		}
		if l.IsConst() {
			return abs.NewConst(l.C, 64, true), true
		}
		return nil, false
	}
	return recvOrRet(r, field)
}
