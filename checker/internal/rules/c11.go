package rules

import (
	"fmt"

	"golang.org/x/tools/go/ssa"

	"oryxverif/checker/internal/abs"
	"oryxverif/checker/internal/core"
)

func init() {
	register(&Property{
		ID: "C11",
		Explain: "Decided (bit-provenance abstract interpretation; object type enumerated, every other field symbolic over its accepted range, frame length symbolic over 1..8184): C11.enc - ADTSImpl.Encode writes the " +
			"56-bit ISO 13818-7 6.2 header (syncword, layer 00, protection_absent 1, profile = object type's ADTS profile, sampling index, channel configuration across bytes 2/3, 13-bit frame length = len(raw)+7 across " +
			"bytes 3..5, no raw blocks beyond the first) followed by the raw block; C11.dec - ADTSImpl.Decode, run on the ISO layout with either MPEG id, with and without the 16-bit CRC, returns exactly the raw " +
			"data block (frame length minus the 7- or 9-byte header), leaves the remainder starting at the next frame, reports profile/index/channels from their ISO bit positions and stays in bounds; " +
			"C11.asc - the 2-byte AudioSpecificConfig is 5+4+4 bits both ways and the accepted set is exactly object types {1,2,3,5,29} x index 1..12 x channels 1..7 (everything else is an error); " +
			"C11.tables - object<->profile maps and the sampling-frequency table fold to the ISO values for every defined index. " +
			"C11.alias - no []byte result aliases storage that outlives the call (receiver fields, package variables, pooled buffers): an item handed out earlier stays what it was. " +
			"Also: validating a configuration stores nothing (the accepted set computed on a fresh object is the accepted set of every later call). " +
			"Not decided: multi-frame streams of arbitrary payloads (follows by induction from 'left' being exact per frame); payload bytes as data.",
		Assume: []string{"layout tables transcribed from ISO/IEC 13818-7 6.2 and 14496-3 1.6.2.1; don't-care bits where the standard leaves the value to the writer (id, private, original/home, copyright, buffer fullness)"},
		Run:    runC11,
	})
}

func keepRecv(l *layoutCtx, argIndexForInput int, inputName string) func(p *abs.Path, fn *ssa.Function, in []abs.Seg) []abs.Value {
	return func(p *abs.Path, fn *ssa.Function, in []abs.Seg) []abs.Value {
		args := l.e.AutoArgs(p, fn)
		p.Keep["recv"] = args[0]
		if argIndexForInput >= 0 {
			args[argIndexForInput] = p.BytesValue(inputName, in)
		}
		return args
	}
}

// recvOrRet resolves "ret0".."retN" to return values and everything else as a path from the receiver.
func recvOrRet(r abs.Result, field string) (abs.Value, bool) {
	var i int
	if n, _ := fmt.Sscanf(field, "ret%d", &i); n == 1 {
		if i < len(r.Ret) {
			return r.Ret[i], true
		}
		return nil, false
	}
	return abs.Resolve(r.Path, r.Path.Keep["recv"], field)
}

func runC11(c *Ctx) {
	checkOwnsBytes(c, "C11.alias", "aac")
	checkFreshResult(c, "C11.enc", "aac", "(*ADTSImpl).Encode", 0)
	R := c.R
	R.Require("C11.enc", 5)
	R.Require("C11.dec", 6)
	R.Require("C11.asc", 11)
	R.Require("C11.tables", 20)
	profileOf := map[int64]int64{1: 0, 2: 1, 3: 2, 5: 1, 29: 1}
	objects := []int64{1, 2, 3, 5, 29}

	// ---- C11.enc
	le := newLayout(c, "C11.enc")
	var enc []Variant
	for _, o := range objects {
		enc = append(enc, Variant{
			Name: fmt.Sprintf("object=%d", o),
			Dom: map[string]Dom{"v.asc.Object": {W: 5, Hi: -1}, "v.asc.SampleRate": {W: 4, Lo: 1, Hi: 12}, "v.asc.Channels": {W: 3, Lo: 1, Hi: 7},
				"len(raw)": {W: 13, Lo: 1, Hi: 8184}},
			Bind: map[string]int64{"v.asc.Object": o},
			Spec: abs.Cat(
				abs.Pack(abs.K(12, 0xfff), abs.X(1), abs.K(2, 0), abs.K(1, 1)),
				abs.Pack(abs.K(2, uint64(profileOf[o])), abs.F("v.asc.SampleRate", 3, 0), abs.X(1), abs.F("v.asc.Channels", 2, 2)),
				abs.Pack(abs.F("v.asc.Channels", 1, 0), abs.X(4), abs.F("len(raw)+7", 12, 11)),
				abs.Pack(abs.F("len(raw)+7", 10, 3)),
				abs.Pack(abs.F("len(raw)+7", 2, 0), abs.X(5)),
				abs.Pack(abs.X(6), abs.K(2, 0)),
				abs.BlobSpec("raw", abs.LAtom("len(raw)"))),
		})
	}
	le.encoder("aac", "(*ADTSImpl).Encode", enc, retBytes(0, 1))

	// ---- C11.dec
	ld := newLayout(c, "C11.dec")
	var dec []Variant
	for _, pa := range []int64{1, 0} {
		for prof := int64(0); prof < 3; prof++ {
			h := int64(7)
			crc := []abs.SegSpec{}
			if pa == 0 {
				h = 9
				crc = abs.Pack(abs.X(16))
			}
			rawLen := abs.LAtom("flen").Add(abs.LConst(-h))
			dec = append(dec, Variant{
				Name: fmt.Sprintf("protection_absent=%d,profile=%d", pa, prof),
				Dom: map[string]Dom{"flen": {W: 13, Lo: h + 1, Hi: 8191}, "sf": {W: 4, Lo: 1, Hi: 12}, "ch": {W: 3, Lo: 1, Hi: 7},
					"len(rest)": {W: 62, Hi: -1}},
				Spec: abs.Cat(
					abs.Pack(abs.K(12, 0xfff), abs.X(1), abs.X(2), abs.K(1, uint64(pa))),
					abs.Pack(abs.K(2, uint64(prof)), abs.F("sf", 3, 0), abs.X(1), abs.F("ch", 2, 2)),
					abs.Pack(abs.F("ch", 1, 0), abs.X(4), abs.F("flen", 12, 11)),
					abs.Pack(abs.F("flen", 10, 3)),
					abs.Pack(abs.F("flen", 2, 0), abs.X(5)),
					abs.Pack(abs.X(8)),
					crc,
					abs.BlobSpec("raw", rawLen),
					abs.BlobSpec("rest", abs.LAtom("len(rest)"))),
				Fields: map[string]Want{
					"ret0": {Blob: "raw", Len: rawLen}, "ret1": {Blob: "rest", Len: abs.LAtom("len(rest)")},
					"asc.Object": {Const: cst(prof + 1)}, "asc.SampleRate": {Atom: "sf", Width: 4}, "asc.Channels": {Atom: "ch", Width: 3},
				},
			})
		}
	}
	ld.decoder("aac", "(*ADTSImpl).Decode", dec, keepRecv(ld, 1, "adts"), recvOrRet, 2)

	// ---- C11.asc
	la := newLayout(c, "C11.asc")
	var asc []Variant
	for _, o := range objects {
		asc = append(asc, Variant{
			Name:   fmt.Sprintf("object=%d", o),
			Dom:    map[string]Dom{"v.Object": {W: 5, Hi: -1}, "v.SampleRate": {W: 4, Lo: 1, Hi: 12}, "v.Channels": {W: 4, Lo: 1, Hi: 7}},
			Bind:   map[string]int64{"v.Object": o},
			Spec:   abs.Cat(abs.Pack(abs.K(5, uint64(o)), abs.F("v.SampleRate", 3, 1)), abs.Pack(abs.F("v.SampleRate", 0, 0), abs.F("v.Channels", 3, 0), abs.X(3))),
			Fields: map[string]Want{"Object": {Const: cst(o)}, "SampleRate": {Atom: "v.SampleRate", Width: 4}, "Channels": {Atom: "v.Channels", Width: 4}},
		})
	}
	la.encoder("aac", "(*AudioSpecificConfig).MarshalBinary", asc, retBytes(0, 1))
	// decode: the receiver is a fresh zero object, fields come from the wire
	freshRecv := func(p *abs.Path, fn *ssa.Function, in []abs.Seg) []abs.Value {
		args := la.e.AutoArgs(p, fn)
		args[0] = la.e.NewZeroPtr(p, fn.Params[0].Type())
		p.Keep["recv"] = args[0]
		args[1] = p.BytesValue("data", in)
		return args
	}
	var ascDec []Variant
	for _, v := range asc {
		v.Bind = nil
		v.Dom = map[string]Dom{"v.SampleRate": {W: 4, Lo: 1, Hi: 12}, "v.Channels": {W: 4, Lo: 1, Hi: 7}}
		ascDec = append(ascDec, v)
	}
	la.decoder("aac", "(*AudioSpecificConfig).UnmarshalBinary", ascDec, freshRecv, recvOrRet, 0)
	checkASCAccepted(c, la)

	// ---- C11.tables
	foldTable(c, "C11.tables", "aac", "(ObjectType).ToProfile", 8, map[int64]int64{1: 0, 2: 1, 3: 2, 5: 1, 29: 1})
	foldTable(c, "C11.tables", "aac", "(Profile).ToObjectType", 8, map[int64]int64{0: 1, 1: 2, 2: 3})
	foldTable(c, "C11.tables", "aac", "(SampleRateIndex).ToHz", 8, map[int64]int64{0: 96000, 1: 88200, 2: 64000, 3: 48000, 4: 44100, 5: 32000, 6: 24000,
		7: 22050, 8: 16000, 9: 12000, 10: 11025, 11: 8000, 12: 7350})
}

// checkASCAccepted runs UnmarshalBinary on two fully symbolic bytes and requires the accepting
// paths to be exactly object in {1,2,3,5,29}, index in [1,12], channels in [1,7].
func checkASCAccepted(c *Ctx, l *layoutCtx) {
	P, R := c.P, c.R
	fn := P.Func("aac", "(*AudioSpecificConfig).UnmarshalBinary")
	if fn == nil {
		return
	}
	// the accepted set below is computed on a fresh object; it is the accepted set of every later call as well only if
	// validating keeps no memory (a "checked once" flag would let the second, invalid configuration through)
	if vf := P.Func("aac", "(*AudioSpecificConfig).validate"); vf != nil { // (no separate validation function: nothing to remember between calls)
		stores := ""
		for f := range P.Reachable(vf) {
			if !core.InModule(f) {
				continue
			}
			core.EachInstr(f, func(in ssa.Instruction) {
				if st, ok := in.(*ssa.Store); ok {
					if _, isAlloc := core.PathRoot(st.Addr).(*ssa.Alloc); !isAlloc {
						stores = core.Path(st.Addr) + " at " + P.InstrPos(st)
					}
				}
			})
		}
		R.Check(stores == "", "C11.asc", "aac|(*AudioSpecificConfig).validate|keeps-no-state", P.Pos(vf.Pos()),
			"validating a configuration stores nothing: every call judges the values it is given",
			"validating a configuration writes "+stores+": what a later call answers depends on an earlier one (a configuration that became invalid after a successful check is still accepted)", nil)
	}
	spec := abs.Cat(abs.Pack(abs.F("obj", 4, 0), abs.F("sf", 3, 1)), abs.Pack(abs.F("sf", 0, 0), abs.F("ch", 3, 0), abs.X(3)))
	res := l.e.Run(fn, func(p *abs.Path) []abs.Value {
		p.DeclareAtom("obj", 5, 0, 31)
		p.DeclareAtom("sf", 4, 0, 15)
		p.DeclareAtom("ch", 4, 0, 15)
		args := l.e.AutoArgs(p, fn)
		args[0] = l.e.NewZeroPtr(p, fn.Params[0].Type())
		args[1] = p.BytesValue("data", p.InputFrom(spec))
		return args
	})
	accepted := map[int64]bool{}
	var problems []string
	for _, r := range res {
		if r.Path.Abort != "" {
			problems = append(problems, "undecided: "+r.Path.Abort)
			continue
		}
		if len(r.Ret) != 1 {
			continue
		}
		if _, isNil := r.Ret[0].(*abs.NilV); !isNil {
			continue
		}
		obj := r.Path.SymInt("obj", 8, false)
		oc, ok := obj.Const()
		if !ok {
			problems = append(problems, "an accepting path does not fix the object type: "+fmt.Sprint(r.Path.Forks))
			continue
		}
		accepted[oc] = true
		sf, ch := r.Path.Atoms["sf"], r.Path.Atoms["ch"]
		if sf.Lo != 1 || sf.Hi != 12 || ch.Lo != 1 || ch.Hi != 7 {
			problems = append(problems, fmt.Sprintf("object %d is accepted with sampling index in [%d,%d] and channels in [%d,%d] (expected [1,12] and [1,7])", oc, sf.Lo, sf.Hi, ch.Lo, ch.Hi))
		}
	}
	for _, o := range []int64{1, 2, 3, 5, 29} {
		if !accepted[o] {
			problems = append(problems, fmt.Sprintf("object type %d is not accepted", o))
		}
		delete(accepted, o)
	}
	for o := range accepted {
		problems = append(problems, fmt.Sprintf("object type %d is accepted although the library does not support it", o))
	}
	key := "aac|(*AudioSpecificConfig).UnmarshalBinary|accepted-set"
	if len(problems) == 0 {
		R.OKf("C11.asc", key, P.Pos(fn.Pos()), "exactly {Main,LC,SSR,HE,HEv2} x index 1..12 x channels 1..7 is accepted, every other 2-byte config is an error", map[string]interface{}{"paths": len(res)})
	} else {
		R.Fail("C11.asc", key, P.Pos(fn.Pos()), "the accepted set of AudioSpecificConfig values is wrong: "+problems[0], map[string]interface{}{"problems": dedup(problems)})
	}
}

// foldTable evaluates a one-argument integer function on constants and compares the results.
func foldTable(c *Ctx, rule, pkg, name string, width int, table map[int64]int64) {
	P, R := c.P, c.R
	fn := P.Func(pkg, name)
	if !R.Anchor(fn != nil, rule, pkg+"."+name) {
		return
	}
	R.Funcs[core.QualName(fn)] = true
	e := abs.NewEngine(P)
	for in, want := range table {
		in, want := in, want
		res := e.Run(fn, func(p *abs.Path) []abs.Value { return []abs.Value{abs.NewConst(in, width, false)} })
		key := fmt.Sprintf("%s|%s|%d", pkg, name, in)
		got := "?"
		ok := len(res) == 1 && res[0].Path.Abort == "" && res[0].Path.Panics == "" && len(res[0].Ret) == 1
		if ok {
			ok = false
			if iv, isI := res[0].Ret[0].(*abs.Int); isI {
				if cv, isC := iv.Const(); isC {
					got = fmt.Sprint(cv)
					ok = cv == want
				}
			}
			for _, b := range res[0].Path.Bounds {
				if !b.Proven {
					ok, got = false, "index out of range ("+b.What+")"
				}
			}
		} else if len(res) > 0 {
			got = res[0].Path.Abort + res[0].Path.Panics
		}
		R.Check(ok, rule, key, P.Pos(fn.Pos()), fmt.Sprintf("%s(%d) = %d", name, in, want), fmt.Sprintf("%s(%d) evaluates to %s, the standard's table says %d", name, in, got, want), nil)
	}
}
