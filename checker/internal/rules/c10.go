package rules

import (
	"fmt"
	"go/constant"

	"golang.org/x/tools/go/ssa"

	"oryxverif/checker/internal/abs"
	"oryxverif/checker/internal/core"
)

func init() {
	register(&Property{
		ID: "C10",
		Explain: "Decided (bit-provenance abstract interpretation, every field bit symbolic, the discriminators enumerated completely): C10.layout - for all 16 sound formats (AAC with its trait byte; Opus with the " +
			"four sampling-rate/audio-level flag partitions, the rate byte and the 16-bit level; the 14 others) and all 16 video codec ids (AVC/HEVC with trait and 24-bit composition time; the others) " +
			"Encode produces exactly the FLV E.4.2/E.4.3 layout (plus the repository's documented Opus extension): no field contributes bits outside its slot (field overlap), the format/codec nibble and " +
			"frame type are the frame's; Decode, run on that layout with payloads of every length >= 0, accepts it, never indexes out of range and returns every field's own bits and the payload blob; " +
			"C10.rates - ToHz over codes 0..3 and OpusToHz over 8/12/16/24/48 evaluate (constant folding) to the FLV and Opus frequencies. " +
			"C10.alias - no []byte result aliases storage that outlives the call (receiver fields, package variables, pooled buffers): an item handed out earlier stays what it was. " +
			"Not decided: payload bytes as data (an opaque blob shown to pass through untouched).",
		Assume: []string{"layout tables transcribed from FLV v10 Annex E.4.2/E.4.3 and the Opus extension documented in flv.go", "field domains: SoundRate 2 bits (8/12/16/24/48 only in the Opus rate byte), SoundSize/SoundType 1 bit, FrameType/CodecID 4 bits, composition time 24 bits unsigned"},
		Run:    runC10,
	})
}

// framePtr extracts fields of the *Frame returned by a decoder.
func frameField(typ string) func(r abs.Result, field string) (abs.Value, bool) {
	return func(r abs.Result, field string) (abs.Value, bool) {
		if len(r.Ret) == 0 {
			return nil, false
		}
		ptr, ok := r.Ret[0].(*abs.Ptr)
		if !ok {
			return nil, false
		}
		return abs.FieldByName(r.Path, ptr.Obj, field)
	}
}

func runC10(c *Ctx) {
	checkOwnsBytes(c, "C10.alias", "flv")
	checkFreshResult(c, "C10.layout", "flv", "(*audioPackager).Encode", 0)
	checkFreshResult(c, "C10.layout", "flv", "(videoPackager).Encode", 0)
	R := c.R
	R.Require("C10.layout", 60)
	R.Require("C10.rates", 9)
	l := newLayout(c, "C10.layout")
	lenRaw := abs.LAtom("len(frame.Raw)")

	// ---------------- audio
	baseDom := func() map[string]Dom {
		return map[string]Dom{
			"frame.SoundFormat": {W: 4, Hi: -1}, "frame.SoundRate": {W: 2, Hi: -1}, "frame.SoundSize": {W: 1, Hi: -1}, "frame.SoundType": {W: 1, Hi: -1},
			"frame.Trait": {W: 8, Hi: -1}, "frame.AudioLevel": {W: 16, Hi: -1},
		}
	}
	var enc, dec []Variant
	rawBlob := abs.BlobSpec("frame.Raw", lenRaw)
	for f := int64(0); f < 16; f++ {
		first := func(rate abs.Part) []abs.SegSpec {
			return abs.Pack(abs.K(4, uint64(f)), rate, abs.F("frame.SoundSize", 0, 0), abs.F("frame.SoundType", 0, 0))
		}
		common := map[string]Want{
			"SoundFormat": {Const: cst(f)}, "SoundSize": {Atom: "frame.SoundSize", Width: 1}, "SoundType": {Atom: "frame.SoundType", Width: 1},
			"Raw": {Blob: "frame.Raw", Len: lenRaw},
		}
		with := func(extra map[string]Want) map[string]Want {
			m := map[string]Want{}
			for k, v := range common {
				m[k] = v
			}
			for k, v := range extra {
				m[k] = v
			}
			return m
		}
		switch f {
		case 10: // AAC
			spec := abs.Cat(first(abs.F("frame.SoundRate", 1, 0)), abs.Pack(abs.F("frame.Trait", 7, 0)), rawBlob)
			v := Variant{Name: "format=10(AAC)", Dom: baseDom(), Bind: map[string]int64{"frame.SoundFormat": f}, Spec: spec,
				Fields: with(map[string]Want{"SoundRate": {Atom: "frame.SoundRate", Width: 2}, "Trait": {Atom: "frame.Trait", Width: 8}})}
			enc, dec = append(enc, v), append(dec, v)
		case 13: // Opus: flag partitions
			for _, sr := range []bool{false, true} {
				for _, al := range []bool{false, true} {
					d := baseDom()
					spec := abs.Cat(first(abs.K(2, 0)), abs.Pack(abs.F("frame.Trait", 7, 0)))
					fields := map[string]Want{"Trait": {Atom: "frame.Trait", Width: 8}}
					if sr {
						d["frame.SoundRate"] = Dom{W: 6, Hi: 48} // 8/12/16/24/48 kHz codes travel in their own byte
						spec = abs.Cat(spec, abs.Pack(abs.F("frame.SoundRate", 7, 0)))
						fields["SoundRate"] = Want{Atom: "frame.SoundRate", Width: 6}
					} else {
						d["frame.SoundRate"] = Dom{W: 0, Hi: 0} // not transmitted: only 0 can round-trip
						fields["SoundRate"] = Want{Const: cst(0)}
					}
					if al {
						spec = abs.Cat(spec, abs.Pack(abs.F("frame.AudioLevel", 15, 0)))
						fields["AudioLevel"] = Want{Atom: "frame.AudioLevel", Width: 16}
					} else {
						fields["AudioLevel"] = Want{Const: cst(0)}
					}
					spec = abs.Cat(spec, rawBlob)
					v := Variant{Name: fmt.Sprintf("format=13(Opus),rate-byte=%v,level=%v", sr, al), Dom: d,
						Bind: map[string]int64{"frame.SoundFormat": f}, BindBits: map[string]map[int]bool{"frame.Trait": {2: sr, 3: al}},
						Spec: spec, Fields: with(fields)}
					enc, dec = append(enc, v), append(dec, v)
				}
			}
		default:
			spec := abs.Cat(first(abs.F("frame.SoundRate", 1, 0)), rawBlob)
			v := Variant{Name: fmt.Sprintf("format=%d", f), Dom: baseDom(), Bind: map[string]int64{"frame.SoundFormat": f}, Spec: spec,
				Fields: with(map[string]Want{"SoundRate": {Atom: "frame.SoundRate", Width: 2}})}
			enc, dec = append(enc, v), append(dec, v)
		}
	}
	l.encoder("flv", "(*audioPackager).Encode", enc, retBytes(0, 1))
	tagArg := func(p *abs.Path, fn *ssa.Function, in []abs.Seg) []abs.Value {
		args := l.e.AutoArgs(p, fn)
		args[1] = p.BytesValue("tag", in)
		return args
	}
	l.decoder("flv", "(*audioPackager).Decode", dec, tagArg, frameField("AudioFrame"), 1)

	// ---------------- video
	var venc []Variant
	vdom := func() map[string]Dom {
		return map[string]Dom{"frame.CodecID": {W: 4, Hi: -1}, "frame.FrameType": {W: 4, Hi: -1}, "frame.Trait": {W: 8, Hi: -1}, "frame.CTS": {W: 24, Hi: -1}}
	}
	for cid := int64(0); cid < 16; cid++ {
		first := abs.Pack(abs.F("frame.FrameType", 3, 0), abs.K(4, uint64(cid)))
		fields := map[string]Want{"CodecID": {Const: cst(cid)}, "FrameType": {Atom: "frame.FrameType", Width: 4}, "Raw": {Blob: "frame.Raw", Len: lenRaw}}
		spec := abs.Cat(first, rawBlob)
		name := fmt.Sprintf("codec=%d", cid)
		if cid == 7 || cid == 12 {
			spec = abs.Cat(first, abs.Pack(abs.F("frame.Trait", 7, 0)), abs.Pack(abs.F("frame.CTS", 23, 0)), rawBlob)
			fields["Trait"] = Want{Atom: "frame.Trait", Width: 8}
			fields["CTS"] = Want{Atom: "frame.CTS", Width: 24}
			name += "(AVC/HEVC)"
		}
		venc = append(venc, Variant{Name: name, Dom: vdom(), Bind: map[string]int64{"frame.CodecID": cid}, Spec: spec, Fields: fields})
	}
	l.encoder("flv", "(videoPackager).Encode", venc, retBytes(0, 1))
	l.decoder("flv", "(*videoPackager).Decode", venc, tagArg, frameField("VideoFrame"), 1)

	// ---------------- C10.rates
	checkRates(c)
}

// checkRates folds ToHz / OpusToHz for every defined code.
func checkRates(c *Ctx) {
	P, R := c.P, c.R
	e := abs.NewEngine(P)
	for _, t := range []struct {
		fn    string
		codes map[int64]int64
	}{
		{"(AudioSamplingRate).ToHz", map[int64]int64{0: 5512, 1: 11025, 2: 22050, 3: 44100}},
		{"(AudioSamplingRate).OpusToHz", map[int64]int64{8: 8000, 12: 12000, 16: 16000, 24: 24000, 48: 48000}},
	} {
		fn := P.Func("flv", t.fn)
		if !R.Anchor(fn != nil, "C10.rates", "flv."+t.fn) {
			continue
		}
		R.Funcs[core.QualName(fn)] = true
		for code, hz := range t.codes {
			code, hz := code, hz
			res := e.Run(fn, func(p *abs.Path) []abs.Value { return []abs.Value{abs.NewConst(code, 8, false)} })
			key := fmt.Sprintf("flv|%s|code=%d", t.fn, code)
			ok := len(res) == 1 && res[0].Path.Abort == "" && res[0].Path.Panics == ""
			got := "?"
			if ok {
				if iv, isI := res[0].Ret[0].(*abs.Int); isI {
					if cv, isC := iv.Const(); isC {
						got = fmt.Sprint(cv)
						ok = cv == hz
					} else {
						ok = false
					}
				}
				for _, b := range res[0].Path.Bounds {
					if !b.Proven {
						ok = false
						got = "index out of range: " + b.What
					}
				}
			} else if len(res) > 0 {
				got = res[0].Path.Abort + res[0].Path.Panics
			}
			R.Check(ok, "C10.rates", key, P.Pos(fn.Pos()),
				fmt.Sprintf("rate code %d converts to %d Hz", code, hz),
				fmt.Sprintf("rate code %d converts to %s instead of %d Hz", code, got, hz), nil)
		}
	}
	_ = constant.MakeInt64
}
