package rules

import (
	"fmt"
	"go/token"
	"go/types"
	"sort"
	"strings"

	"golang.org/x/tools/go/ssa"

	"oryxverif/checker/internal/abs"
	"oryxverif/checker/internal/core"
)

// Dom is the domain of one input atom in a layout variant.
type Dom struct {
	W      int   // significant bits
	Lo, Hi int64 // interval, Hi < 0 = 2^W-1
}

// Variant is one discriminator binding of a wire-format oracle.
type Variant struct {
	Name     string
	Dom      map[string]Dom          // atom domains (the values the property quantifies over)
	Bind     map[string]int64        // atoms bound to constants (discriminators); width from Dom or 8
	BindBits map[string]map[int]bool // single bits bound (flag partitions)
	Not      []string                // predicate keys assumed false ("v.EventType == 26")
	Nil      []string                // lazily symbolic pointers/interfaces that are nil in this variant
	Assume   []*abs.Lin              // extra constraints, each >= 0
	Spec     []abs.SegSpec           // the layout
	// decoder direction: expected results
	Fields map[string]Want // result name -> expected field
	// additional set-up on the path (streams, receiver state)
	Prep func(p *abs.Path)
}

// Want is the expected content of one decoded field.
type Want struct {
	Atom  string
	Width int
	Const *int64 // expected constant instead of a field
	Blob  string // expected blob (slice results)
	Len   *abs.Lin
}

func (v *Variant) apply(p *abs.Path) {
	var names []string
	for a := range v.Dom {
		names = append(names, a)
	}
	sort.Strings(names)
	for _, a := range names {
		d := v.Dom[a]
		hi := d.Hi
		if hi < 0 {
			if d.W >= 62 {
				hi = -1
			} else {
				hi = (int64(1) << uint(d.W)) - 1
			}
		}
		p.DeclareAtom(a, d.W, d.Lo, hi)
	}
	for a, c := range v.Bind {
		w := 8
		if d, ok := v.Dom[a]; ok {
			w = d.W
		}
		p.BindAtom(a, c, w)
	}
	for a, m := range v.BindBits {
		for i, b := range m {
			p.BindBit(a, i, b)
		}
	}
	for _, k := range v.Not {
		p.Assumed[k] = false
	}
	for _, n := range v.Nil {
		p.NilNames[n] = true
	}
	for _, l := range v.Assume {
		p.AssumeLin(l)
	}
	if v.Prep != nil {
		v.Prep(p)
	}
}

// pathProblems reports interpretation failures of a path as a string ("" = fine).
func pathProblems(r abs.Result) string {
	if r.Path.Abort != "" {
		return "not interpretable: " + r.Path.Abort
	}
	return ""
}

// unprovenBounds lists the bounds obligations a path could not prove.
func unprovenBounds(r abs.Result) []string {
	var out []string
	for _, b := range r.Path.Bounds {
		if !b.Proven {
			out = append(out, b.Pos+" "+b.What)
		}
	}
	return out
}

type layoutCtx struct {
	c    *Ctx
	e    *abs.Engine
	rule string
}

func newLayout(c *Ctx, rule string) *layoutCtx {
	return &layoutCtx{c: c, e: abs.NewEngine(c.P), rule: rule}
}

// encoder checks that fn, under every variant, produces exactly the variant's layout on every path.
// out selects the produced bytes from a path result.
func (l *layoutCtx) encoder(pkg, name string, variants []Variant, out func(r abs.Result) ([]abs.Seg, string)) {
	P, R := l.c.P, l.c.R
	fn := P.Func(pkg, name)
	if !R.Anchor(fn != nil, l.rule, pkg+"."+name) {
		return
	}
	R.Funcs[core.QualName(fn)] = true
	for _, v := range variants {
		v := v
		key := pkg + "|" + name + "|encode|" + v.Name
		res := l.e.Run(fn, func(p *abs.Path) []abs.Value {
			v.apply(p)
			return l.e.AutoArgs(p, fn)
		})
		var problems []string
		compared := 0
		for _, r := range res {
			if pr := pathProblems(r); pr != "" {
				problems = append(problems, "undecided: "+pr)
				continue
			}
			if r.Path.Panics != "" {
				problems = append(problems, "panics: "+r.Path.Panics+" on path "+strings.Join(r.Path.Forks, ","))
				continue
			}
			segs, why := out(r)
			if why == "skip" {
				continue
			}
			compared++
			if why != "" {
				problems = append(problems, why+" on path "+strings.Join(r.Path.Forks, ","))
				continue
			}
			for _, m := range r.Path.Compare(segs, v.Spec) {
				problems = append(problems, m+pathSuffix(r))
			}
		}
		if compared == 0 && len(problems) == 0 {
			problems = append(problems, "no path of this in-domain variant produces output: a value the specification allows is refused or never written")
		}
		facts := map[string]interface{}{"paths": len(res), "compared_paths": compared, "expected": abs.SpecString(v.Spec)}
		if len(problems) == 0 {
			R.OKf(l.rule, key, P.Pos(fn.Pos()), fmt.Sprintf("bytes produced on all %d path(s) equal the specification layout", len(res)), facts)
		} else {
			st := dedup(problems)
			facts["mismatches"] = st
			if allUndecided(st) {
				R.Unknown(l.rule, key, P.Pos(fn.Pos()), st[0], facts)
			} else {
				R.Fail(l.rule, key, P.Pos(fn.Pos()), "the bytes produced differ from the specification layout: "+st[0], facts)
			}
		}
	}
}

func pathSuffix(r abs.Result) string {
	if len(r.Path.Forks) == 0 {
		return ""
	}
	return " [path " + strings.Join(r.Path.Forks, ",") + "]"
}

func allUndecided(s []string) bool {
	for _, x := range s {
		if !strings.HasPrefix(x, "undecided:") {
			return false
		}
	}
	return true
}

func dedup(s []string) []string {
	seen := map[string]bool{}
	var out []string
	for _, x := range s {
		if !seen[x] {
			seen[x] = true
			out = append(out, x)
		}
	}
	if len(out) > 12 {
		out = out[:12]
	}
	return out
}

// retBytes selects return value i as the produced bytes and requires a nil error at index ei.
func retBytes(i, ei int) func(r abs.Result) ([]abs.Seg, string) {
	return func(r abs.Result) ([]abs.Seg, string) {
		if ei >= 0 && ei < len(r.Ret) {
			if _, isNil := r.Ret[ei].(*abs.NilV); !isNil {
				return nil, "the encoder returns " + abs.Describe(r.Path, r.Ret[ei]) + " for an in-domain value"
			}
		}
		if i >= len(r.Ret) {
			return nil, "no result"
		}
		sl, ok := r.Ret[i].(*abs.Slice)
		if !ok {
			if _, isNil := r.Ret[i].(*abs.NilV); isNil {
				return nil, ""
			}
			return nil, "result is " + abs.Describe(r.Path, r.Ret[i])
		}
		segs, ok := r.Path.SegsOf(sl)
		if !ok {
			return nil, "undecided: result window not aligned"
		}
		return segs, ""
	}
}

// sinkBytes selects the bytes written to the writer with the given access path.
func sinkBytes(name string, ei int) func(r abs.Result) ([]abs.Seg, string) {
	return func(r abs.Result) ([]abs.Seg, string) {
		if ei >= 0 && ei < len(r.Ret) {
			if _, isNil := r.Ret[ei].(*abs.NilV); !isNil {
				return nil, "the writer returns " + abs.Describe(r.Path, r.Ret[ei])
			}
		}
		o := r.Path.Sink(name)
		if o == nil {
			return nil, "nothing written to " + name
		}
		return o.Segs, ""
	}
}

// decoder runs fn on an input built from each variant's layout and checks the decoded fields.
// args builds the call arguments given the input bytes; get extracts the named results.
func (l *layoutCtx) decoder(pkg, name string, variants []Variant,
	args func(p *abs.Path, fn *ssa.Function, in []abs.Seg) []abs.Value,
	get func(r abs.Result, field string) (abs.Value, bool), ei int) {
	P, R := l.c.P, l.c.R
	fn := P.Func(pkg, name)
	if !R.Anchor(fn != nil, l.rule, pkg+"."+name) {
		return
	}
	R.Funcs[core.QualName(fn)] = true
	for _, v := range variants {
		v := v
		key := pkg + "|" + name + "|decode|" + v.Name
		res := l.e.Run(fn, func(p *abs.Path) []abs.Value {
			v.apply(p)
			return args(p, fn, p.InputFrom(v.Spec))
		})
		var problems []string
		for _, r := range res {
			if pr := pathProblems(r); pr != "" {
				problems = append(problems, "undecided: "+pr)
				continue
			}
			if r.Path.Panics != "" {
				problems = append(problems, "panics on a conformant input: "+r.Path.Panics+pathSuffix(r))
				continue
			}
			// results handed back in a struct (basicHeader{format, cid}) count as the results they group, in order
			ei := ei
			if flat, grouped := flattenResults(r.Path, fn, r.Ret); grouped {
				r.Ret = flat
				if n := fn.Signature.Results().Len(); n > 0 && core.IsErrorType(fn.Signature.Results().At(n-1).Type()) {
					ei = len(flat) - 1
				}
			}
			if ei >= 0 && ei < len(r.Ret) {
				if _, isNil := r.Ret[ei].(*abs.NilV); !isNil {
					problems = append(problems, "a conformant input is rejected: "+abs.Describe(r.Path, r.Ret[ei])+pathSuffix(r))
					continue
				}
			}
			for _, b := range unprovenBounds(r) {
				problems = append(problems, "bounds not proven on a conformant input: "+b+pathSuffix(r))
			}
			var names []string
			for f := range v.Fields {
				names = append(names, f)
			}
			sort.Strings(names)
			for _, f := range names {
				w := v.Fields[f]
				got, ok := get(r, f)
				if !ok {
					problems = append(problems, "result "+f+" not found")
					continue
				}
				if m := wantMatches(r.Path, got, w); m != "" {
					problems = append(problems, "decoded "+f+": "+m+pathSuffix(r))
				}
			}
			// a decoder that reads from a stream leaves it exactly behind the item: the next item starts there
			for k, o := range r.Path.Sinks {
				if !strings.HasPrefix(k, "stream:") || o == nil || o.Pos == nil {
					continue
				}
				total := abs.LConst(0)
				for _, sg := range o.Segs {
					if sg.Byte != nil {
						total = total.Add(abs.LConst(1))
					} else {
						total = total.Add(sg.Len)
					}
				}
				// (Segs holds what is left of the stream, Pos what was taken)
				if !r.Path.ProveEq(total) {
					problems = append(problems, fmt.Sprintf("the decoder consumed %s bytes of the stream and left %s bytes of the item unread: the next item would be read from the wrong offset%s", o.Pos, total, pathSuffix(r)))
				}
			}
		}
		facts := map[string]interface{}{"paths": len(res), "input": abs.SpecString(v.Spec)}
		if len(problems) == 0 {
			R.OKf(l.rule, key, P.Pos(fn.Pos()), fmt.Sprintf("every field decoded from the specification layout is the field's own bits (%d path(s))", len(res)), facts)
		} else {
			st := dedup(problems)
			facts["mismatches"] = st
			if allUndecided(st) {
				R.Unknown(l.rule, key, P.Pos(fn.Pos()), st[0], facts)
			} else {
				R.Fail(l.rule, key, P.Pos(fn.Pos()), "decoding the specification layout does not yield the fields: "+st[0], facts)
			}
		}
	}
}

func wantMatches(p *abs.Path, got abs.Value, w Want) string {
	switch {
	case w.Const != nil:
		iv, ok := got.(*abs.Int)
		if ok {
			if c, isC := iv.Const(); isC && c == *w.Const {
				return ""
			}
		}
		if b, ok := got.(*abs.Bool); ok && b.Known {
			if (b.Val && *w.Const == 1) || (!b.Val && *w.Const == 0) {
				return ""
			}
		}
		return fmt.Sprintf("got %s, expected constant %d", abs.Describe(p, got), *w.Const)
	case w.Blob != "":
		sl, ok := got.(*abs.Slice)
		if !ok {
			if _, isNil := got.(*abs.NilV); isNil && w.Len != nil && w.Len.IsConst() && w.Len.C == 0 {
				return ""
			}
			return "got " + abs.Describe(p, got) + ", expected blob " + w.Blob
		}
		segs, ok := p.SegsOf(sl)
		if !ok {
			return "window not aligned with the layout: " + abs.Describe(p, got)
		}
		if m := p.Compare(segs, abs.BlobSpec(w.Blob, w.Len)); len(m) > 0 {
			return m[0]
		}
		return ""
	}
	return p.ExpectField(got, w.Atom, w.Width)
}

func cst(v int64) *int64 { return &v }

// writesThrough reports where fn writes into storage reachable from its parameter (a slice): a store into an element, a
// copy into it, an append that may reuse its spare capacity and is then written, or an in-place cipher call. Pieces of
// the input kept in a slice of slices are followed. "" = the function only reads its input.
func writesThrough(P *core.Program, fn *ssa.Function, in ssa.Value) string {
	derived := map[ssa.Value]bool{in: true}
	tainted := map[ssa.Value]bool{}
	for changed := true; changed; {
		changed = false
		core.EachInstr(fn, func(x ssa.Instruction) {
			switch v := x.(type) {
			case *ssa.Slice:
				if derived[v.X] && !derived[v] {
					derived[v], changed = true, true
				}
			case *ssa.Call:
				// append(in, ...) may return the input's own backing array
				if b, ok := v.Call.Value.(*ssa.Builtin); ok && b.Name() == "append" && derived[v.Call.Args[0]] && !derived[v] {
					derived[v], changed = true, true
				}
			case *ssa.Store:
				if ia, ok := v.Addr.(*ssa.IndexAddr); ok && derived[v.Val] && !tainted[ia.X] {
					tainted[ia.X], changed = true, true
				}
			case *ssa.UnOp:
				if ia, ok := v.X.(*ssa.IndexAddr); ok && v.Op == token.MUL && tainted[ia.X] && !derived[v] {
					derived[v], changed = true, true
				}
			case *ssa.Phi:
				for _, e := range v.Edges {
					if derived[e] && !derived[v] {
						derived[v], changed = true, true
					}
				}
			}
		})
	}
	bad := ""
	core.EachInstr(fn, func(x ssa.Instruction) {
		switch v := x.(type) {
		case *ssa.Call:
			if b, ok := v.Call.Value.(*ssa.Builtin); ok && b.Name() == "copy" && derived[v.Call.Args[0]] {
				bad = "copy into the input at " + P.InstrPos(v)
			}
			if v.Call.IsInvoke() && (v.Call.Method.Name() == "Decrypt" || v.Call.Method.Name() == "CryptBlocks" || v.Call.Method.Name() == "Encrypt") && len(v.Call.Args) > 0 && derived[v.Call.Args[0]] {
				bad = "in-place cipher operation on the input at " + P.InstrPos(v)
			}
		case *ssa.Store:
			if ia, ok := v.Addr.(*ssa.IndexAddr); ok && derived[ia.X] {
				bad = "store into the input at " + P.InstrPos(v)
			}
		}
	})
	return bad
}

// ownedStorage: the byte slice v is (a view of) storage that outlives the call because it hangs off a pointer receiver
// or a global - a buffer kept in the object - rather than memory allocated by this call. Returns a description or "".
func ownedStorage(v ssa.Value, d int) string {
	if d > 10 {
		return ""
	}
	switch x := core.StripConv(v).(type) {
	case *ssa.Slice:
		return ownedStorage(x.X, d+1)
	case *ssa.Phi:
		for _, e := range x.Edges {
			if w := ownedStorage(e, d+1); w != "" {
				return w
			}
		}
	case *ssa.UnOp:
		if fa, ok := x.X.(*ssa.FieldAddr); ok && x.Op == token.MUL {
			return "the field " + core.Path(fa)
		}
		if g, ok := x.X.(*ssa.Global); ok {
			return "the global " + g.Name()
		}
	case *ssa.Call:
		if b, ok := x.Call.Value.(*ssa.Builtin); ok && b.Name() == "append" {
			return ownedStorage(x.Call.Args[0], d+1)
		}
		if f := x.Call.StaticCallee(); f != nil {
			switch core.FullName(f) {
			case "(*bytes.Buffer).Bytes":
				// the buffer object: a local allocation is fresh, one loaded from a field is kept
				switch b := core.StripConv(x.Call.Args[0]).(type) {
				case *ssa.UnOp:
					if fa, ok := b.X.(*ssa.FieldAddr); ok {
						return "the buffer kept in " + core.Path(fa)
					}
				case *ssa.FieldAddr:
					return "the buffer kept in " + core.Path(b)
				}
			}
		}
	}
	return ""
}

// checkFreshResult: the bytes an encoder returns are allocated by that call; handing out a view of a buffer kept in the
// object lets the next call overwrite what the previous caller still holds.
func checkFreshResult(c *Ctx, rule, pkg, name string, resultIdx int) {
	P, R := c.P, c.R
	fn := P.Func(pkg, name)
	if !R.Anchor(fn != nil, rule, pkg+"."+name) {
		return
	}
	bad := ""
	for _, r := range core.Returns(fn) {
		if resultIdx < len(r.Results) {
			if w := ownedStorage(core.ReturnOperand(r, resultIdx), 0); w != "" {
				bad = w + " (return at " + P.InstrPos(r) + ")"
			}
		}
	}
	R.Check(bad == "", rule, pkg+"|"+name+"|result-is-freshly-allocated", P.Pos(fn.Pos()),
		"the bytes returned are allocated by the call itself",
		"the bytes returned are a view of "+bad+": the next call overwrites the body the previous caller still holds, so bodies encoded in a batch decode to the last frame", nil)
}

// flattenResults expands struct-valued results of a module type into their fields.
func flattenResults(p *abs.Path, fn *ssa.Function, rets []abs.Value) ([]abs.Value, bool) {
	var out []abs.Value
	grouped := false
	res := fn.Signature.Results()
	for i, v := range rets {
		if i < res.Len() {
			if st, ok := res.At(i).Type().Underlying().(*types.Struct); ok {
				if nt, isNamed := res.At(i).Type().(*types.Named); isNamed && nt.Obj().Pkg() != nil && strings.HasPrefix(nt.Obj().Pkg().Path(), core.ModulePath) {
					if ag, isAgg := v.(*abs.Agg); isAgg {
						for k := 0; k < st.NumFields(); k++ {
							fv, _ := abs.FieldByName(p, ag.Obj, core.FieldVarName(st.Field(k)))
							out = append(out, fv)
						}
						grouped = true
						continue
					}
				}
			}
		}
		out = append(out, v)
	}
	return out, grouped
}
