package rules

import (
	"golang.org/x/tools/go/ssa"
	"strings"

	"oryxverif/checker/internal/core"
)

// funcValueTarget resolves an operand of function type to the function it denotes: a closure, a named function, or the
// closure/function returned by a module constructor called in place.
func funcValueTarget(v ssa.Value, depth int) *ssa.Function {
	v = core.StripConv(v)
	switch x := v.(type) {
	case *ssa.MakeClosure:
		return x.Fn.(*ssa.Function)
	case *ssa.Function:
		return x
	case *ssa.Call:
		f := x.Call.StaticCallee()
		if f == nil || depth > 2 || !core.InModule(f) || len(f.Blocks) == 0 || f.Signature.Results().Len() != 1 {
			return nil
		}
		var found *ssa.Function
		for _, r := range core.Returns(f) {
			t := funcValueTarget(r.Results[0], depth+1)
			if t == nil || (found != nil && found != t) {
				return nil
			}
			found = t
		}
		return found
	}
	return nil
}

func init() {
	// json.NewCommentReader$1: the split function of the JSON+ reader's scanner
	core.RegisterRole(core.Role{Pkg: "json", Name: "NewCommentReader$1", What: "the function handed to (*bufio.Scanner).Split in package json",
		Find: func(p *core.Program) *ssa.Function {
			var out *ssa.Function
			for _, fn := range p.ModuleFuncs("json") {
				core.EachInstr(fn, func(in ssa.Instruction) {
					call, ok := in.(*ssa.Call)
					if !ok || call.Call.StaticCallee() == nil || core.FullName(call.Call.StaticCallee()) != "(*bufio.Scanner).Split" || len(call.Call.Args) < 2 {
						return
					}
					if t := funcValueTarget(call.Call.Args[1], 0); t != nil && out == nil {
						out = t
					}
				})
			}
			return out
		}})
}

// wsPayloadReader: the function of package websocket that reads frame payload from the connection's buffered reader
// ((*messageReader).Read on the pinned tree; a helper of it when the per-frame read was extracted).
func wsPayloadReader(P *core.Program) *ssa.Function {
	var out *ssa.Function
	for _, fn := range P.ModuleFuncs("websocket") {
		core.EachInstr(fn, func(in ssa.Instruction) {
			call, ok := in.(*ssa.Call)
			if !ok || call.Call.StaticCallee() == nil || core.FullName(call.Call.StaticCallee()) != "(*bufio.Reader).Read" || len(call.Call.Args) < 2 {
				return
			}
			if p := core.TypedPath(call.Call.Args[0]); (p == "Conn.br" || strings.HasSuffix(p, ".br")) && out == nil {
				out = fn
			}
		})
	}
	return out
}
