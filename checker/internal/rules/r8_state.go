package rules

import (
	"go/token"
	"strings"

	"golang.org/x/tools/go/ssa"

	"oryxverif/checker/internal/core"
)

// checkRegisteredWriter (C13.seq, round 8): the writer that NextWriter hands to the caller is the writer it registered
// in c.writer.  prepWrite closes c.writer when the application starts the next message without closing the previous
// one; if only an inner layer (the frame writer) is registered, that implicit close never flushes the outer layer (the
// deflate writer) and the peer receives a truncated compressed message.  Forward must-dataflow over NextWriter: the
// state is the set of SSA values known to equal the field; a store replaces it, a load joins it, a phi joins it when
// every incoming edge carries a member of its predecessor's state.
func checkRegisteredWriter(c *Ctx) {
	P, R := c.P, c.R
	fn := P.Func("websocket", "(*Conn).NextWriter")
	if !R.Anchor(fn != nil && len(fn.Blocks) > 0, "C13.seq", "websocket.(*Conn).NextWriter") {
		return
	}
	isField := func(a ssa.Value) bool {
		fa, ok := a.(*ssa.FieldAddr)
		if !ok || len(fn.Params) == 0 {
			return false
		}
		return core.StripConv(fa.X) == ssa.Value(fn.Params[0]) && strings.HasSuffix(core.Path(fa), ".writer")
	}
	type set map[ssa.Value]bool
	out := map[*ssa.BasicBlock]set{}
	transfer := func(b *ssa.BasicBlock, in set, atReturn func(*ssa.Return, set)) set {
		s := set{}
		for k := range in {
			s[k] = true
		}
		for _, ins := range b.Instrs {
			switch x := ins.(type) {
			case *ssa.Store:
				if isField(x.Addr) {
					s = set{core.StripConv(x.Val): true}
				}
			case *ssa.UnOp:
				if x.Op == token.MUL && isField(x.X) {
					s[x] = true
				}
			case *ssa.Call:
				// a module callee given the connection may re-register (prepWrite clears the field): forget
				if cal := x.Call.StaticCallee(); cal != nil && core.InModule(cal) {
					for _, a := range x.Call.Args {
						if core.StripConv(a) == ssa.Value(fn.Params[0]) {
							s = set{}
						}
					}
				}
			case *ssa.Return:
				if atReturn != nil {
					atReturn(x, s)
				}
			}
		}
		return s
	}
	inOf := func(b *ssa.BasicBlock) set {
		if len(b.Preds) == 0 {
			return set{}
		}
		var s set
		for _, p := range b.Preds {
			po, ok := out[p]
			if !ok {
				continue // not yet computed: optimistic
			}
			if s == nil {
				s = set{}
				for k := range po {
					s[k] = true
				}
				continue
			}
			for k := range s {
				if !po[k] {
					delete(s, k)
				}
			}
		}
		if s == nil {
			s = set{}
		}
		for _, ins := range b.Instrs {
			phi, ok := ins.(*ssa.Phi)
			if !ok {
				break
			}
			all := true
			for i, e := range phi.Edges {
				po, ok := out[b.Preds[i]]
				if ok && !po[core.StripConv(e)] {
					all = false
				}
			}
			if all {
				s[phi] = true
			}
		}
		return s
	}
	for iter := 0; iter < 2*len(fn.Blocks)+4; iter++ {
		changed := false
		for _, b := range fn.Blocks {
			n := transfer(b, inOf(b), nil)
			o, ok := out[b]
			if !ok || len(o) != len(n) {
				changed = true
			} else {
				for k := range n {
					if !o[k] {
						changed = true
					}
				}
			}
			out[b] = n
		}
		if !changed {
			break
		}
	}
	n := 0
	for _, b := range fn.Blocks {
		transfer(b, inOf(b), func(ret *ssa.Return, s set) {
			if len(ret.Results) != 2 {
				return
			}
			if k, ok := ret.Results[1].(*ssa.Const); !ok || !k.IsNil() {
				return // a failing return hands out no writer
			}
			n++
			v := core.StripConv(ret.Results[0])
			R.Check(s[v], "C13.seq", "websocket|(*Conn).NextWriter|returns-the-registered-writer", P.InstrPos(ret),
				"the writer handed to the caller is the value registered in c.writer: the implicit close of an abandoned message closes the whole writer stack",
				"the writer handed to the caller ("+describeValue(ret.Results[0])+") is not the value registered in c.writer at that point: when the next message starts while this one is still open, prepWrite closes only the registered layer and an outer layer (deflate) is never flushed", nil)
		})
	}
	if n == 0 {
		R.Fail("C13.seq", "websocket|(*Conn).NextWriter|returns-the-registered-writer", P.Pos(fn.Pos()), "NextWriter has no successful return handing out a writer", nil)
	}
}

// checkHandlersKeepNoState (C19.envelope, round 8): the handler closures of package http compute each response from
// the request and the constructor's arguments and remember nothing: no anonymous function of the package (at any
// nesting depth) stores through a captured variable or into a package variable.  A handler that builds its body once
// (sync.Once, a cached []byte) answers the second request with the first request's envelope.
func checkHandlersKeepNoState(c *Ctx) {
	P, R := c.P, c.R
	n := 0
	for _, f := range P.ModuleFuncs("http") {
		if f.Parent() == nil || len(f.Blocks) == 0 {
			continue
		}
		n++
		stores := ""
		core.EachInstr(f, func(in ssa.Instruction) {
			st, ok := in.(*ssa.Store)
			if !ok {
				return
			}
			if fv, ok := st.Addr.(*ssa.FreeVar); ok {
				stores = "captured " + fv.Name() + " at " + P.InstrPos(st)
				return
			}
			switch r := core.PathRoot(st.Addr).(type) {
			case *ssa.FreeVar:
				stores = "captured " + r.Name() + " at " + P.InstrPos(st)
			case *ssa.Alloc: // a captured variable resolved to its cell in the enclosing function
				if r.Parent() != f {
					stores = "captured " + r.Comment + " at " + P.InstrPos(st)
				}
			case *ssa.Global:
				stores = "package variable " + core.GlobalName(r) + " at " + P.InstrPos(st)
			}
		})
		top := f
		for top.Parent() != nil {
			top = top.Parent()
		}
		R.Check(stores == "", "C19.envelope", "http|"+core.FuncName(f)+"|closure-keeps-no-state", P.Pos(f.Pos()),
			"the closure stores nothing that outlives the request",
			"a closure under "+top.Name()+" stores into "+stores+": a later response depends on an earlier request (a body or header computed once is replayed)", nil)
	}
	if n == 0 {
		R.Fail("C19.envelope", "http|closures|closure-keeps-no-state", "http", "package http has no handler closure to examine", nil)
	}
}
