package rules

import (
	"fmt"
	"go/token"
	"go/types"
	"strings"

	"golang.org/x/tools/go/ssa"

	"oryxverif/checker/internal/abs"
	"oryxverif/checker/internal/core"
)

func init() {
	register(&Property{
		ID: "C13",
		Explain: "Decided (bit-provenance abstract interpretation of the two frame writers with symbolic payload lengths, plus guard/ordering rules): C13.hdr - for both roles, all three length forms (<=125, 126..65535 with BE16, >=65536 with BE64), " +
			"final and non-final, compressed and not, data and control opcodes, messageWriter.flushFrame and Conn.WriteControl hand the transport exactly [FIN RSV1 0 0 opcode][MASK len7][extended length][masking key iff client][payload], " +
			"the payload being the buffered bytes (masked iff client) followed by the extra slice, with the length fields equal to the number of payload bytes that follow; C13.ctl - control frames longer than 125 bytes or not final are " +
			"refused before any transport write; C13.mask - mask bit, key and masking are selected by the same role test (shown by C13.hdr holding for both roles), and every frame written is masked from position 0 of its own key; C13.seq - after a non-final frame the writer continues with opcode 0, " +
			"an empty buffer and RSV1 cleared, and Close flushes a final frame; on the receiving side every accepted frame assigns the reader's 'compressed' flag; C13.hs - the accept key is base64(SHA-1(key + RFC 6455 GUID)), the server refuses non-GET/non-upgrade/wrong-version/empty-key requests and the client " +
			"verifies status 101, Upgrade, Connection and the accept key, and Dial clears the handshake deadline in both directions before it returns a connection. " +
			"Not decided: payload integrity for all sizes x partitions x APIs x compression levels (buffer arithmetic of ncopy/Write/truncWriter and the deflate stream are runtime behaviour); the bytes the unsafe word-wise masking produces are trusted as upstream code (its key-position accounting is decided: C13.unmask - every byte-wise XOR loop of maskBytes carries the key position and hands it on, word-wise loops step by a multiple of 4, every return hands back the carried position).",
		Assume: []string{"maskBytes masks exactly the slice it is given (upstream gorilla code, pointer arithmetic outside Go's bounds checking)", "net.Conn.Write writes the whole buffer or fails", "layout transcribed from RFC 6455 5.2 and RFC 7692 6"},
		Run:    runC13,
	})
}

// wsContract stubs what the websocket writers reach outside the codec: masking, the transport, time.
func wsContract(P *core.Program) func(p *abs.Path, fr *abs.Frame, call *ssa.CallCommon, callee *ssa.Function, args []abs.Value) (abs.Value, bool) {
	return func(p *abs.Path, fr *abs.Frame, call *ssa.CallCommon, callee *ssa.Function, args []abs.Value) (abs.Value, bool) {
		if callee != nil {
			switch core.QualName(callee) {
			case "websocket.maskBytes":
				if sl, ok := args[2].(*abs.Slice); ok {
					p.OpaqueWindow(sl, "masked")
				}
				return abs.TopInt(64, true), true
			case "websocket.(*Conn).writeFatal":
				if len(args) > 1 {
					return args[1], true
				}
			case "websocket.hideTempErr":
				return args[0], true
			}
			return nil, false
		}
		// invoke on a value of unknown dynamic type: the transport
		name := abs.NameOf(args[0])
		switch call.Method.Name() {
		case "Write":
			if strings.HasSuffix(name, ".conn") {
				if sl, ok := args[1].(*abs.Slice); ok {
					if !p.AppendSink(name, sl) {
						return nil, false
					}
					return &abs.Tuple{Vs: []abs.Value{abs.TopInt(64, true), &abs.NilV{}}}, true
				}
				if _, isNil := args[1].(*abs.NilV); isNil {
					return &abs.Tuple{Vs: []abs.Value{abs.NewConst(0, 64, true), &abs.NilV{}}}, true
				}
			}
		case "SetWriteDeadline", "SetReadDeadline", "Close":
			return &abs.NilV{}, true
		}
		return nil, false
	}
}

func runC13(c *Ctx) {
	P, R := c.P, c.R
	R.Require("C13.hdr", 40)
	R.Require("C13.ctl", 4)
	R.Require("C13.seq", 4)
	R.Require("C13.hs", 7)
	R.Require("C13.readfrom", 1)
	checkRegisteredWriter(c)
	l := newLayout(c, "C13.hdr")
	l.e.Contract = wsContract(P)
	l.e.MaxDepth = 6

	// ------------------------------------------------------------------ flushFrame
	const conn = "w.c.conn"
	L := abs.LAtom("w.pos").Add(abs.LAtom("len(extra)")).Add(abs.LConst(-14)) // payload length
	Lname := L.String()
	bufLen := abs.LAtom("w.pos").Add(abs.LConst(-14))
	type form struct {
		name   string
		lo, hi int64
		len7   abs.Part
		ext    []abs.SegSpec
	}
	forms := []form{
		{"len<=125", 0, 125, abs.F(Lname, 6, 0), nil},
		{"len=126..65535", 126, 65535, abs.K(7, 126), abs.BE(Lname, 2)},
		{"len>=65536", 65536, 1 << 40, abs.K(7, 127), abs.BE(Lname, 8)},
	}
	clientForms := []form{
		{"len<=125", 0, 125, abs.F(bufLen.String(), 6, 0), nil},
		{"len=126..65535", 126, 65535, abs.K(7, 126), abs.BE(bufLen.String(), 2)},
		{"len>=65536", 65536, 1 << 40, abs.K(7, 127), abs.BE(bufLen.String(), 8)},
	}
	var ff []Variant
	for _, server := range []int64{1, 0} {
		for fi, f := range forms {
			if server == 0 {
				f = clientForms[fi] // the client path never carries an extra slice: the length is the buffered bytes
			}
			for _, final := range []int64{1, 0} {
				for _, compress := range []int64{0, 1} {
					for _, op := range []int64{0, 1, 2} {
						if compress == 1 && op == 0 {
							continue // RSV1 only on the first frame: the writer clears compress after the first flush (C13.seq)
						}
						dom := map[string]Dom{"w.frameType": {W: 4, Hi: -1}, "w.pos": {W: 40, Lo: 14, Hi: 1 << 40}, "len(extra)": {W: 40, Hi: 1 << 40},
							"w.c.isServer": {W: 1, Hi: -1}, "final": {W: 1, Hi: -1}, "w.compress": {W: 1, Hi: -1}, "w.c.isWriting": {W: 1, Hi: -1},
							"len(w.c.writeBuf)": {W: 41, Lo: 14, Hi: 1 << 41}}
						v := Variant{
							Name:   fmt.Sprintf("%s,%s,final=%d,compress=%d,opcode=%d", map[int64]string{1: "server", 0: "client"}[server], f.name, final, compress, op),
							Dom:    dom,
							Bind:   map[string]int64{"w.frameType": op, "w.c.isServer": server, "final": final, "w.compress": compress, "w.c.isWriting": 0},
							Assume: []*abs.Lin{L.Add(abs.LConst(-f.lo)), abs.LConst(f.hi).Sub(L), abs.LAtom("len(w.c.writeBuf)").Sub(abs.LAtom("w.pos"))},
						}
						v.Nil = []string{"w.c.writeErr"} // no latched write error
						b0 := abs.Pack(abs.K(1, uint64(final)), abs.K(1, uint64(compress)), abs.K(2, 0), abs.K(4, uint64(op)))
						if server == 1 {
							v.Spec = abs.Cat(b0, abs.Pack(abs.K(1, 0), f.len7), f.ext, abs.BlobSpec("w.c.writeBuf*", bufLen), abs.BlobSpec("extra", abs.LAtom("len(extra)")))
						} else {
							v.Nil = append(v.Nil, "extra") // the client path never carries an extra slice
							v.Dom["len(extra)"] = Dom{W: 0, Hi: 0}
							v.Spec = abs.Cat(b0, abs.Pack(abs.K(1, 1), f.len7), f.ext, abs.Pack(abs.X(32)), abs.BlobSpec("masked", bufLen))
						}
						ff = append(ff, v)
					}
				}
			}
		}
	}
	if c.Tier != "thorough" {
		// quick tier: one opcode for the non-final/compressed combinations (the opcode nibble is independent of the other header bits)
		var keep []Variant
		for _, v := range ff {
			if strings.Contains(v.Name, "opcode=1") || (strings.Contains(v.Name, "final=1,compress=0")) {
				keep = append(keep, v)
			}
		}
		ff = keep
	}
	l.encoder("websocket", "(*messageWriter).flushFrame", ff, sinkBytes(conn, 0))

	// control frames through flushFrame: accepted only if final and <= 125
	lc := newLayout(c, "C13.ctl")
	lc.e.Contract = wsContract(P)
	var ctl []Variant
	for _, op := range []int64{8, 9, 10} {
		dom := map[string]Dom{"w.frameType": {W: 4, Hi: -1}, "w.pos": {W: 40, Lo: 14, Hi: 1 << 40}, "len(extra)": {W: 40, Hi: 1 << 40},
			"w.c.isServer": {W: 1, Hi: -1}, "final": {W: 1, Hi: -1}, "w.compress": {W: 1, Hi: -1}, "w.c.isWriting": {W: 1, Hi: -1}, "len(w.c.writeBuf)": {W: 41, Lo: 14, Hi: 1 << 41}}
		ctl = append(ctl, Variant{Name: fmt.Sprintf("opcode=%d,final,len<=125", op), Dom: dom,
			Bind:   map[string]int64{"w.frameType": op, "w.c.isServer": 1, "final": 1, "w.compress": 0, "w.c.isWriting": 0},
			Assume: []*abs.Lin{abs.LConst(125).Sub(L), abs.LAtom("len(w.c.writeBuf)").Sub(abs.LAtom("w.pos"))}, Nil: []string{"w.c.writeErr"},
			Spec: abs.Cat(abs.Pack(abs.K(4, 8), abs.K(4, uint64(op))), abs.Pack(abs.K(1, 0), abs.F(Lname, 6, 0)), abs.BlobSpec("w.c.writeBuf*", bufLen), abs.BlobSpec("extra", abs.LAtom("len(extra)")))})
	}
	lc.encoder("websocket", "(*messageWriter).flushFrame", ctl, sinkBytes(conn, 0))
	refuse := func(name string, bind map[string]int64, assume []*abs.Lin) {
		fn := P.Func("websocket", "(*messageWriter).flushFrame")
		dom := map[string]Dom{"w.frameType": {W: 4, Hi: -1}, "w.pos": {W: 40, Lo: 14, Hi: 1 << 40}, "len(extra)": {W: 40, Hi: 1 << 40},
			"w.c.isServer": {W: 1, Hi: -1}, "final": {W: 1, Hi: -1}, "w.compress": {W: 1, Hi: -1}, "w.c.isWriting": {W: 1, Hi: -1}, "len(w.c.writeBuf)": {W: 41, Lo: 14, Hi: 1 << 41}}
		v := Variant{Dom: dom, Bind: bind, Assume: assume}
		res := lc.e.Run(fn, func(p *abs.Path) []abs.Value { v.apply(p); return lc.e.AutoArgs(p, fn) })
		var problems []string
		for _, r := range res {
			if r.Path.Abort != "" {
				problems = append(problems, "undecided: "+r.Path.Abort)
				continue
			}
			if o := r.Path.Sink(conn); o != nil && len(o.Segs) > 0 {
				problems = append(problems, "an invalid control frame reaches the transport: "+abs.SegsString(o.Segs))
			}
			if len(r.Ret) == 1 {
				if _, isNil := r.Ret[0].(*abs.NilV); isNil {
					problems = append(problems, "an invalid control frame is accepted without an error")
				}
			}
		}
		report(R, "C13.ctl", "websocket|(*messageWriter).flushFrame|refuse|"+name, P.Pos(fn.Pos()), "refused before any transport write", "", dedup(problems), nil)
	}
	for _, op := range []int64{8, 9, 10} {
		refuse(fmt.Sprintf("opcode=%d,not-final", op), map[string]int64{"w.frameType": op, "w.c.isServer": 1, "final": 0, "w.compress": 0, "w.c.isWriting": 0},
			[]*abs.Lin{abs.LAtom("len(w.c.writeBuf)").Sub(abs.LAtom("w.pos"))})
		refuse(fmt.Sprintf("opcode=%d,len>125", op), map[string]int64{"w.frameType": op, "w.c.isServer": 1, "final": 1, "w.compress": 0, "w.c.isWriting": 0},
			[]*abs.Lin{L.Add(abs.LConst(-126)), abs.LAtom("len(w.c.writeBuf)").Sub(abs.LAtom("w.pos"))})
	}

	// ------------------------------------------------------------------ WriteControl
	l.encoder("websocket", "(*Conn).WriteControl", wsWriteControlVariants(false), wsWriteControlOut)
	// oversize / non-control types are refused before any write
	if fn := P.Func("websocket", "(*Conn).WriteControl"); fn != nil {
		for _, cs := range []struct {
			name   string
			dom    map[string]Dom
			bind   map[string]int64
			assume []*abs.Lin
		}{
			{"len>125", map[string]Dom{"messageType": {W: 4, Hi: -1}, "len(data)": {W: 31, Lo: 126, Hi: -1}}, map[string]int64{"messageType": 9}, nil},
			{"data-opcode", map[string]Dom{"messageType": {W: 4, Hi: -1}, "len(data)": {W: 7, Hi: 125}}, map[string]int64{"messageType": 1}, nil},
		} {
			v := Variant{Dom: cs.dom, Bind: cs.bind}
			res := l.e.Run(fn, func(p *abs.Path) []abs.Value { v.apply(p); return l.e.AutoArgs(p, fn) })
			var problems []string
			for _, r := range res {
				if r.Path.Abort != "" {
					problems = append(problems, "undecided: "+r.Path.Abort)
				}
				if o := r.Path.Sink("c.conn"); o != nil && len(o.Segs) > 0 {
					problems = append(problems, "an invalid control frame reaches the transport")
				}
			}
			report(R, "C13.ctl", "websocket|(*Conn).WriteControl|refuse|"+cs.name, P.Pos(fn.Pos()), "refused before any transport write", "", dedup(problems), nil)
		}
	}

	checkWSSeq(c)
	checkWSHandshake(c)
	checkWSReadFrom(c)
	checkWSUnmask(c)
}

// checkWSReadFrom: io.Reader may return n > 0 together with an error (io.EOF); the bytes read must be
// accounted before the error is looked at.
func checkWSReadFrom(c *Ctx) {
	P, R := c.P, c.R
	fn := P.Func("websocket", "(*messageWriter).ReadFrom")
	if !R.Anchor(fn != nil, "C13.readfrom", "websocket.(*messageWriter).ReadFrom") {
		return
	}
	n := 0
	core.EachInstr(fn, func(in ssa.Instruction) {
		call, ok := in.(*ssa.Call)
		if !ok || !call.Call.IsInvoke() || call.Call.Method.Name() != "Read" {
			return
		}
		var cnt, errv ssa.Value
		for _, r := range *call.Referrers() {
			if ex, isEx := r.(*ssa.Extract); isEx {
				if ex.Index == 0 {
					cnt = ex
				} else {
					errv = ex
				}
			}
		}
		if cnt == nil {
			R.Fail("C13.readfrom", "websocket|(*messageWriter).ReadFrom|count-used", P.InstrPos(call), "the byte count returned by Read is ignored", nil)
			return
		}
		// the store into w.pos that adds cnt
		found := false
		for _, r := range *cnt.Referrers() {
			bo, isB := r.(*ssa.BinOp)
			if !isB {
				continue
			}
			for _, r2 := range *bo.Referrers() {
				st, isSt := r2.(*ssa.Store)
				if !isSt || !strings.HasSuffix(core.Path(st.Addr), ".pos") {
					continue
				}
				found = true
				n++
				dependsOnErr := false
				for _, a := range core.GuardAtoms(st.Block()) {
					if errv != nil && (a.LV == errv || a.RV == errv) {
						dependsOnErr = true
					}
				}
				R.Check(!dependsOnErr, "C13.readfrom", fmt.Sprintf("websocket|(*messageWriter).ReadFrom|bytes-counted-before-error#%d", n), P.InstrPos(st),
					"bytes returned by Read are added to the frame before the error is examined",
					"the bytes returned by Read are only counted when the error is nil: a reader that returns its last chunk together with io.EOF loses that chunk (truncated message)", nil)
			}
		}
		if !found {
			R.Fail("C13.readfrom", "websocket|(*messageWriter).ReadFrom|count-used", P.InstrPos(call), "the byte count returned by Read does not advance the buffer position", nil)
		}
	})
	if n == 0 {
		R.Unknown("C13.readfrom", "websocket|(*messageWriter).ReadFrom|bytes-counted-before-error", P.Pos(fn.Pos()), "no Read call found in ReadFrom", nil)
	}
}

// checkWSSeq: C13.seq.
// wsWriteControlVariants: both roles x the three control opcodes with a symbolic payload length 0..125, plus the
// boundary variants with exactly 125 bytes (the largest control payload RFC 6455 allows must be written, not refused).
func wsWriteControlVariants(maxOnly bool) []Variant {
	var wc []Variant
	for _, server := range []int64{1, 0} {
		for _, op := range []int64{8, 9, 10} {
			for _, max := range []bool{false, true} {
				if maxOnly && !max {
					continue
				}
				dom := map[string]Dom{"messageType": {W: 4, Hi: -1}, "len(data)": {W: 7, Hi: 125}, "c.isServer": {W: 1, Hi: -1}}
				v := Variant{Name: fmt.Sprintf("%s,opcode=%d", map[int64]string{1: "server", 0: "client"}[server], op), Dom: dom,
					Bind: map[string]int64{"messageType": op, "c.isServer": server}, Nil: []string{"c.writeErr"}}
				if max {
					v.Name += ",len=125(max)"
					v.Bind["len(data)"] = 125
				}
				b0 := abs.Pack(abs.K(4, 8), abs.K(4, uint64(op)))
				if server == 1 {
					v.Spec = abs.Cat(b0, abs.Pack(abs.K(1, 0), abs.F("len(data)", 6, 0)), abs.BlobSpec("data", abs.LAtom("len(data)")))
				} else {
					v.Spec = abs.Cat(b0, abs.Pack(abs.K(1, 1), abs.F("len(data)", 6, 0)), abs.Pack(abs.X(32)), abs.BlobSpec("masked", abs.LAtom("len(data)")))
				}
				wc = append(wc, v)
			}
		}
	}
	return wc
}

func wsWriteControlOut(r abs.Result) ([]abs.Seg, string) {
	// only the paths that reach the transport are compared (timeouts and a latched write error return before it)
	o := r.Path.Sink("c.conn")
	if o == nil {
		if len(r.Ret) == 1 {
			if _, isNil := r.Ret[0].(*abs.NilV); isNil {
				return nil, "WriteControl reports success without writing the frame"
			}
		}
		return nil, "skip"
	}
	return o.Segs, ""
}

// checkWSUnmask (receiving side of "messages arrive intact"): the masking key of RFC 6455 5.3 applies from byte 0 of
// every frame. So the running key position is reset exactly where a frame's key is installed, the payload reader
// unmasks exactly the bytes it read with the running position and keeps the position the masking routine returns,
// and control payloads are unmasked from position 0.
func checkWSUnmask(c *Ctx) { checkWSUnmaskRule(c, "C13.unmask", true) }

// checkWSUnmaskRule: the same obligations under another rule id (C14: "pings are answered with pongs carrying the same
// payload" and the close payload checks depend on control payloads being unmasked from position 0).
func checkWSUnmaskRule(c *Ctx, rule string, writers bool) {
	P, R := c.P, c.R
	R.Require(rule, 3)
	adv := P.Func("websocket", "(*Conn).advanceFrame")
	rd := wsPayloadReader(P) // (*messageReader).Read, or the helper the per-frame read was extracted into
	mb := P.Func("websocket", "maskBytes")
	if !R.Anchor(adv != nil && rd != nil && mb != nil, rule, "websocket.advanceFrame/messageReader.Read/maskBytes") {
		return
	}
	// (1) key installed <=> position reset, in the same frame-header region
	var keyCopy, posReset ssa.Instruction
	core.EachInstr(adv, func(in ssa.Instruction) {
		switch x := in.(type) {
		case *ssa.Call:
			if b, ok := x.Call.Value.(*ssa.Builtin); ok && b.Name() == "copy" && strings.HasSuffix(core.Path(x.Call.Args[0]), "readMaskKey") {
				keyCopy = in
			}
		case *ssa.Store:
			if strings.HasSuffix(core.Path(x.Addr), "readMaskPos") {
				if k, ok := core.ConstInt(x.Val); ok && k == 0 {
					posReset = in
				}
			}
		}
	})
	ok1 := keyCopy != nil && posReset != nil && (core.Precedes(posReset, keyCopy) || core.Precedes(keyCopy, posReset))
	if ok1 {
		// nothing delivers payload between the two: same guard set (the mask bit) - the later one is dominated by the
		// earlier one's block and both are dominated by the same conditions
		a, b := core.GuardAtoms(posReset.Block()), core.GuardAtoms(keyCopy.Block())
		has := func(as []core.Atom, want core.Atom) bool {
			for _, x := range as {
				if x.String() == want.String() {
					return true
				}
			}
			return false
		}
		first := a
		if core.Precedes(keyCopy, posReset) {
			first = b
		}
		other := b
		if core.Precedes(keyCopy, posReset) {
			other = a
		}
		for _, x := range first {
			if !has(other, x) {
				ok1 = false
			}
		}
	}
	R.Check(ok1, rule, "websocket|advanceFrame|key-position-reset-with-every-frame-key", P.Pos(adv.Pos()),
		"the running mask position is reset to 0 where each frame's masking key is installed",
		"the running mask position is not reset together with the installation of a frame's masking key: the key of a continuation frame is applied from a rotated position and every payload byte after the first frame whose length is not a multiple of 4 is corrupted", nil)
	// (2) payload reader
	ok2, ok3 := false, false
	core.EachInstr(rd, func(in ssa.Instruction) {
		call, ok := in.(*ssa.Call)
		if !ok || call.Call.StaticCallee() != mb {
			return
		}
		key, pos, buf := call.Call.Args[0], call.Call.Args[1], call.Call.Args[2]
		if !strings.HasSuffix(core.Path(key), "readMaskKey") || !strings.HasSuffix(core.Path(pos), "readMaskPos") {
			return
		}
		// the result goes back to the position
		for _, r := range *call.Referrers() {
			if st, isSt := r.(*ssa.Store); isSt && st.Val == ssa.Value(call) && strings.HasSuffix(core.Path(st.Addr), "readMaskPos") {
				ok2 = true
			}
		}
		// the buffer is b[:n] with n the count just read
		if sl, isSl := buf.(*ssa.Slice); isSl && sl.Low == nil && sl.High != nil {
			if ex, isEx := sl.High.(*ssa.Extract); isEx && ex.Index == 0 {
				ok3 = true
			}
		}
		// only the server unmasks
		srv := false
		for _, a := range core.GuardAtoms(call.Block()) {
			if strings.HasSuffix(a.L, "isServer") {
				srv = true
			}
		}
		ok3 = ok3 && srv
	})
	R.Check(ok2 && ok3, rule, "websocket|(*messageReader).Read|unmasks-what-it-read", P.Pos(rd.Pos()),
		"the payload reader unmasks exactly the n bytes it read, from the running position, keeps the position returned, and only in the server role",
		"the payload reader does not unmask exactly the bytes it read with the running key position (position not carried over, wrong window, or not tied to the server role)", nil)
	// (3) control payloads from position 0 in the server role
	ok4 := false
	core.EachInstr(adv, func(in ssa.Instruction) {
		call, ok := in.(*ssa.Call)
		if !ok || call.Call.StaticCallee() != mb {
			return
		}
		if k, isK := core.ConstInt(call.Call.Args[1]); isK && k == 0 && strings.HasSuffix(core.Path(call.Call.Args[0]), "readMaskKey") {
			for _, a := range core.GuardAtoms(call.Block()) {
				if strings.HasSuffix(a.L, "isServer") {
					ok4 = true
				}
			}
		}
	})
	R.Check(ok4, rule, "websocket|advanceFrame|control-payload-unmasked-from-0", P.Pos(adv.Pos()),
		"control frame payloads are unmasked with the frame's key from position 0 in the server role",
		"control frame payloads are not unmasked with the frame's key from position 0", nil)
	if !writers {
		return
	}
	// (4) the masking routine accounts for every byte it masks in the position it returns
	checkMaskAdvance(c, mb)
	// (5) sending side: every frame carries a fresh key and is masked from key position 0 (RFC 6455 5.3: octet i of the
	// frame's payload is XORed with octet i mod 4 of that frame's key) - a position carried from one frame of a message
	// to the next rotates the key for a receiver that, rightly, restarts at 0
	R.Require("C13.mask", 2)
	for _, fn := range P.ModuleFuncs("websocket") {
		if fn == adv || fn == rd {
			continue
		}
		nw := 0
		core.EachInstr(fn, func(in ssa.Instruction) {
			call, ok := in.(*ssa.Call)
			if !ok || call.Call.StaticCallee() != mb || len(call.Call.Args) != 3 {
				return
			}
			if strings.HasSuffix(core.Path(call.Call.Args[0]), "readMaskKey") {
				return // a receiving-side helper: covered by (1)-(3)
			}
			nw++
			k, isK := core.ConstInt(call.Call.Args[1])
			R.Check(isK && k == 0, "C13.mask", fmt.Sprintf("websocket|%s|frame-masked-from-key-position-0#%d", core.FuncName(fn), nw), P.InstrPos(call),
				"the frame's payload is masked from position 0 of the frame's own key",
				"a frame written by "+core.FuncName(fn)+" is masked starting at key position "+core.Path(call.Call.Args[1])+" instead of 0: every frame has its own key applied from its first payload byte, so the peer (which restarts at 0) unmasks the frame with a rotated key whenever the position is not a multiple of 4", nil)
		})
	}
}

// checkWSFrameFlags (receiving side): what the reader remembers about "the last frame read" is assigned for every
// frame, not only when it is set - whether the frame is compressed (RSV1) is a per-message fact on the wire, so a flag
// that is only ever raised makes every message after the first compressed one go through the inflater.
func checkWSFrameFlags(c *Ctx) {
	P, R := c.P, c.R
	adv := P.Func("websocket", "(*Conn).advanceFrame")
	conn := P.NamedType("websocket", "Conn")
	if !R.Anchor(adv != nil && conn != nil, "C13.seq", "websocket.(*Conn).advanceFrame") {
		return
	}
	fv := structField(conn, "readDecompress")
	if !R.Anchor(fv != nil, "C13.seq", "websocket.Conn.readDecompress") {
		return
	}
	isStore := func(in ssa.Instruction) bool {
		st, ok := in.(*ssa.Store)
		return ok && core.FieldVar(st.Addr) == fv
	}
	// must-pass dataflow (the function has too many paths to enumerate): OUT[b] = IN[b] or b stores; IN = and over preds
	out := map[*ssa.BasicBlock]bool{}
	for _, b := range adv.Blocks {
		out[b] = true
	}
	for changed := true; changed; {
		changed = false
		for _, b := range adv.Blocks {
			in := len(b.Preds) > 0
			for _, pr := range b.Preds {
				if !out[pr] {
					in = false
				}
			}
			o := in
			for _, x := range b.Instrs {
				if isStore(x) {
					o = true
				}
			}
			if o != out[b] {
				out[b], changed = o, true
			}
		}
	}
	ok, n := true, 0
	where := P.Pos(adv.Pos())
	for _, ret := range core.Returns(adv) {
		if len(ret.Results) < 2 {
			continue
		}
		success := false
		for _, leaf := range core.ValueLeaves(ret.Results[1]) {
			if core.IsNilConst(leaf) {
				success = true
			}
		}
		if !success {
			continue // a failed read: nothing is delivered
		}
		n++
		if !out[ret.Block()] {
			ok, where = false, P.InstrPos(ret)
		}
	}
	R.Check(ok && n > 0, "C13.seq", "websocket|advanceFrame|compressed-flag-assigned-for-every-frame", where,
		"every frame that is accepted assigns the 'compressed' flag of the reader (set or cleared)",
		"a frame can be accepted without the reader's 'compressed' flag being assigned: the flag keeps the value of an earlier frame, and a message sent uncompressed after a compressed one is run through the inflater (corrupt input) - or the reverse", nil)
}

func checkWSSeq(c *Ctx) {
	P, R := c.P, c.R
	checkWSFrameFlags(c)
	ffn := P.Func("websocket", "(*messageWriter).flushFrame")
	if !R.Anchor(ffn != nil, "C13.seq", "websocket.(*messageWriter).flushFrame") {
		return
	}
	mw := P.NamedType("websocket", "messageWriter")
	// stores on the success path of a non-final flush
	type st struct {
		field string
		val   string
	}
	var stores []st
	var compressClear *ssa.Store
	core.EachInstr(ffn, func(in ssa.Instruction) {
		s, ok := in.(*ssa.Store)
		if !ok {
			return
		}
		fv := core.FieldVar(s.Addr)
		if fv == nil {
			return
		}
		val := core.Path(s.Val)
		stores = append(stores, st{core.FieldVarName(fv), val})
		if fv == structField(mw, "compress") {
			compressClear = s
		}
	})
	has := func(f, v string) bool {
		for _, s := range stores {
			if s.field == f && s.val == v {
				return true
			}
		}
		return false
	}
	R.Check(has("frameType", "0"), "C13.seq", "websocket|(*messageWriter).flushFrame|continuation-opcode", P.Pos(ffn.Pos()),
		"after a non-final frame the next frame is a continuation (opcode 0)", "after a non-final frame the opcode is not reset to continuation: every fragment would start a new message", nil)
	R.Check(has("pos", "14"), "C13.seq", "websocket|(*messageWriter).flushFrame|buffer-reset", P.Pos(ffn.Pos()),
		"after a frame the buffer position returns to the end of the header area", "after a non-final frame the buffer position is not reset to the header size: the next frame would resend old payload", nil)
	okClear := compressClear != nil && core.Path(compressClear.Val) == "false"
	if okClear {
		// cleared unconditionally before the transport write
		okClear = len(core.Guards(compressClear.Block())) <= 1
	}
	R.Check(okClear, "C13.seq", "websocket|(*messageWriter).flushFrame|rsv1-first-frame-only", P.Pos(ffn.Pos()),
		"RSV1 is cleared after the first frame of a message", "the compress flag is not cleared after the first frame: RSV1 would be set on continuation frames (RFC 7692 6.1 violation)", nil)
	// the stores that prepare the next frame are only executed when the frame was not final
	okNF := false
	core.EachInstr(ffn, func(in ssa.Instruction) {
		s, ok := in.(*ssa.Store)
		if !ok || core.FieldVar(s.Addr) != structField(mw, "frameType") {
			return
		}
		for _, a := range core.GuardAtoms(s.Block()) {
			if a.L == "final" && a.Op == "not" {
				okNF = true
			}
		}
	})
	R.Check(okNF, "C13.seq", "websocket|(*messageWriter).flushFrame|continue-only-if-not-final", P.Pos(ffn.Pos()),
		"the writer continues with a continuation frame only after a non-final frame", "the continuation set-up is not tied to the frame being non-final", nil)
	if cl := P.Func("websocket", "(*messageWriter).Close"); R.Anchor(cl != nil, "C13.seq", "websocket.(*messageWriter).Close") {
		ok := false
		core.EachInstr(cl, func(in ssa.Instruction) {
			if call, isCall := in.(*ssa.Call); isCall && call.Call.StaticCallee() == ffn && len(call.Call.Args) == 3 {
				if fi := core.ParamIndex(ffn, "final"); fi >= 0 && core.Path(call.Call.Args[fi]) == "true" {
					ok = true
				}
			}
		})
		R.Check(ok, "C13.seq", "websocket|(*messageWriter).Close|final-frame", P.Pos(cl.Pos()),
			"closing the message writer flushes a final frame", "Close does not flush a final (FIN=1) frame: the peer never sees the end of the message", nil)
	}
}

// checkWSHandshake: C13.hs.
func checkWSHandshake(c *Ctx) {
	P, R := c.P, c.R
	// GUID by value
	if g := P.Global("websocket", "keyGUID"); R.Anchor(g != nil, "C13.hs", "websocket.keyGUID") {
		val := ""
		init := P.SSAPkgs["websocket"].Func("init")
		core.EachInstr(init, func(in ssa.Instruction) {
			if st, ok := in.(*ssa.Store); ok && st.Addr == ssa.Value(g) {
				v := st.Val
				if cv, isConv := v.(*ssa.Convert); isConv {
					v = cv.X
				}
				if s, isS := core.ConstString(v); isS {
					val = s
				}
			}
		})
		R.Check(val == "258EAFA5-E914-47DA-95CA-C5AB0DC85B11", "C13.hs", "websocket|keyGUID", "websocket/util.go",
			"the accept-key GUID is RFC 6455's", fmt.Sprintf("the accept-key GUID is %q, RFC 6455 says 258EAFA5-E914-47DA-95CA-C5AB0DC85B11", val), nil)
	}
	if fn := P.Func("websocket", "computeAcceptKey"); R.Anchor(fn != nil, "C13.hs", "websocket.computeAcceptKey") {
		var seq []string
		for _, b := range fn.DomPreorder() {
			for _, in := range b.Instrs {
				if call, ok := in.(*ssa.Call); ok {
					seq = append(seq, core.CalleeName(&call.Call))
				}
			}
		}
		s := strings.Join(seq, " ")
		// sha1.New, Write(key), Write(GUID), Sum, base64 EncodeToString, in that order
		iNew, iSum, iB64 := strings.Index(s, "sha1.New"), strings.Index(s, "Sum"), strings.Index(s, "EncodeToString")
		okOrder := iNew >= 0 && iSum > iNew && iB64 > iSum
		// key written before the GUID
		first, second := "", ""
		core.EachInstr(fn, func(in ssa.Instruction) {
			call, ok := in.(*ssa.Call)
			if !ok || !call.Call.IsInvoke() || call.Call.Method.Name() != "Write" {
				return
			}
			arg := call.Call.Args[0]
			if cv, isConv := arg.(*ssa.Convert); isConv {
				arg = cv.X
			}
			p := core.Path(arg)
			if first == "" {
				first = p
			} else if second == "" {
				second = p
			}
		})
		// the one-shot form: sha1.Sum(material) with material = key followed by the GUID (appends or a string concatenation)
		if !(okOrder && first != "") {
			core.EachInstr(fn, func(in ssa.Instruction) {
				call, ok := in.(*ssa.Call)
				if !ok || call.Call.StaticCallee() == nil || core.FullName(call.Call.StaticCallee()) != "sha1.Sum" || len(call.Call.Args) != 1 {
					return
				}
				var items []string
				var walk func(v ssa.Value, d int)
				walk = func(v ssa.Value, d int) {
					v = core.StripConv(v)
					if d > 8 {
						return
					}
					switch x := v.(type) {
					case *ssa.Convert:
						walk(x.X, d+1)
					case *ssa.BinOp:
						if x.Op == token.ADD {
							walk(x.X, d+1)
							walk(x.Y, d+1)
						}
					case *ssa.Call:
						if b, isB := x.Call.Value.(*ssa.Builtin); isB && b.Name() == "append" && len(x.Call.Args) == 2 {
							walk(x.Call.Args[0], d+1)
							walk(x.Call.Args[1], d+1)
						}
					case *ssa.MakeSlice, *ssa.Slice:
						if sl, isSl := x.(*ssa.Slice); isSl {
							if _, fromMake := sl.X.(*ssa.Alloc); !fromMake {
								items = append(items, core.Path(x))
							}
						}
					default:
						items = append(items, core.Path(v))
					}
				}
				walk(call.Call.Args[0], 0)
				if len(items) == 2 {
					first, second = items[0], items[1]
				}
				// the digest, and only it, is base64-encoded afterwards
				iSum2, iB642 := strings.Index(s, "sha1.Sum"), strings.Index(s, "EncodeToString")
				okOrder = iSum2 >= 0 && iB642 > iSum2
			})
		}
		R.Check(okOrder && strings.Contains(first, "challengeKey") && strings.Contains(second, "keyGUID"), "C13.hs", "websocket|computeAcceptKey|sha1(key+GUID)", P.Pos(fn.Pos()),
			"accept key = base64(SHA-1(challenge key followed by the GUID))", "the accept key is not base64(SHA-1(key + GUID)) (calls: "+s+"; hashed "+first+" then "+second+")", nil)
	}
	// server refusals and client verification: each named header test ends in an error return
	guardsEndInError := func(pkgFn, rule string, needles []string) {
		fn := P.Func("websocket", pkgFn)
		if !R.Anchor(fn != nil, "C13.hs", "websocket."+pkgFn) {
			return
		}
		text := ""
		for _, f := range core.WithClosures(fn) {
			core.EachInstr(f, func(in ssa.Instruction) {
				if iff, ok := in.(*ssa.If); ok {
					a, _ := core.AtomOf(core.Guard{Cond: iff.Cond, Pol: true, If: iff})
					text += a.String() + "\n"
				}
				if call, ok := in.(*ssa.Call); ok {
					for _, arg := range call.Call.Args {
						if s, isS := core.ConstString(arg); isS {
							text += "const:" + s + "\n"
						}
					}
				}
			})
		}
		for _, n := range needles {
			R.Check(strings.Contains(strings.ToLower(text), strings.ToLower(n)), "C13.hs", "websocket|"+pkgFn+"|checks|"+n, P.Pos(fn.Pos()),
				"the handshake tests "+n, "the handshake no longer tests "+n+" ("+rule+")", nil)
		}
	}
	// the 101 response is read through the connection's own buffered reader, so frames that arrive in the same
	// segment as the response stay available to the Conn
	if dial := P.Func("websocket", "(*Dialer).Dial"); dial != nil {
		checkDialDeadlines(c, dial)
		n := 0
		var mk ssa.Instruction
		core.EachInstr(dial, func(in ssa.Instruction) {
			if call, ok := in.(*ssa.Call); ok && call.Call.StaticCallee() != nil && core.FnName(call.Call.StaticCallee()) == "newConn" {
				mk = in
			}
		})
		core.EachInstr(dial, func(in ssa.Instruction) {
			call, ok := in.(*ssa.Call)
			if !ok || call.Call.StaticCallee() == nil || core.FullName(call.Call.StaticCallee()) != "http.ReadResponse" {
				return
			}
			if mk == nil || !core.Precedes(mk, call) {
				return // before the Conn exists (proxy CONNECT): nothing of the WebSocket session can be buffered yet
			}
			n++
			p := core.Path(call.Call.Args[0])
			R.Check(strings.HasSuffix(p, ".br"), "C13.hs", fmt.Sprintf("websocket|(*Dialer).Dial|response-read-through-conn-reader#%d", n), P.InstrPos(call),
				"the handshake response is read through the connection's buffered reader",
				"the handshake response is read through "+p+" instead of the connection's own buffered reader: frames the server sends right after the 101 response are buffered in a reader that is thrown away and never reach the application", nil)
		})
		// the read may sit in a helper called after the Conn exists: the reader it uses must be one the caller hands in,
		// and that one the connection's own
		core.EachInstr(dial, func(in ssa.Instruction) {
			call, ok := in.(*ssa.Call)
			if !ok || mk == nil || !core.Precedes(mk, call) {
				return
			}
			h := call.Call.StaticCallee()
			if h == nil || !core.InModule(h) || len(h.Blocks) == 0 {
				return
			}
			core.EachInstr(h, func(x ssa.Instruction) {
				rc, ok := x.(*ssa.Call)
				if !ok || rc.Call.StaticCallee() == nil || core.FullName(rc.Call.StaticCallee()) != "http.ReadResponse" {
					return
				}
				n++
				good, what := false, "a reader created inside "+core.FuncName(h)
				if par, isPar := core.StripConv(rc.Call.Args[0]).(*ssa.Parameter); isPar {
					for i, q := range h.Params {
						if q == par && i < len(call.Call.Args) {
							what = core.Path(call.Call.Args[i])
							good = strings.HasSuffix(what, ".br")
						}
					}
				}
				R.Check(good, "C13.hs", fmt.Sprintf("websocket|(*Dialer).Dial|response-read-through-conn-reader#%d", n), P.InstrPos(call),
					"the handshake response is read through the connection's buffered reader",
					"the handshake response is read through "+what+" instead of the connection's own buffered reader: frames the server sends right after the 101 response are buffered in a reader that is thrown away and never reach the application", nil)
			})
		})
		if n == 0 {
			R.Unknown("C13.hs", "websocket|(*Dialer).Dial|response-read-through-conn-reader", P.Pos(dial.Pos()), "Dial does not call http.ReadResponse", nil)
		}
	}
	guardsEndInError("(*Upgrader).Upgrade", "server side of RFC 6455 4.2.1", []string{"GET", "const:Connection", "const:upgrade", "const:websocket", "const:Sec-Websocket-Version", "const:13", "const:Sec-Websocket-Key"})
	guardsEndInError("(*Dialer).Dial", "client side of RFC 6455 4.1", []string{"101", "const:Upgrade", "const:Connection", "const:Sec-Websocket-Accept"})
	_ = types.Typ
}

// checkDialDeadlines: the deadline Dial arms on the transport for the handshake does not outlive it.  A may-analysis
// per direction (read, write): SetDeadline/SetReadDeadline/SetWriteDeadline with a non-zero time arms, with the zero
// time clears; no successful return is reached with a direction still possibly armed - a read deadline left behind
// fails every read of the established connection once the handshake timeout has passed.
func checkDialDeadlines(c *Ctx, dial *ssa.Function) {
	P, R := c.P, c.R
	isZeroTime := func(v ssa.Value) bool {
		if k, isK := v.(*ssa.Const); isK && k.Value == nil {
			return true // the zero value of a struct type
		}
		ld, ok := v.(*ssa.UnOp)
		if !ok || ld.Op != token.MUL {
			return false
		}
		a, ok := ld.X.(*ssa.Alloc)
		if !ok {
			return false
		}
		for _, r := range *a.Referrers() {
			if _, isSt := r.(*ssa.Store); isSt {
				return false
			}
		}
		return true
	}
	// effect of an instruction on (read, write): 0 none, 1 arm, 2 clear
	effect := func(in ssa.Instruction) (rd, wr int) {
		call, ok := in.(*ssa.Call)
		if !ok || !call.Call.IsInvoke() || len(call.Call.Args) != 1 || types.TypeString(call.Call.Args[0].Type(), nil) != "time.Time" {
			return
		}
		e := 1
		if isZeroTime(call.Call.Args[0]) {
			e = 2
		}
		switch call.Call.Method.Name() {
		case "SetDeadline":
			return e, e
		case "SetReadDeadline":
			return e, 0
		case "SetWriteDeadline":
			return 0, e
		}
		return
	}
	type st struct{ rd, wr bool }
	out := map[*ssa.BasicBlock]st{}
	arms := 0
	for changed := true; changed; {
		changed = false
		for _, b := range dial.Blocks {
			var in st
			for _, pr := range b.Preds {
				in.rd = in.rd || out[pr].rd
				in.wr = in.wr || out[pr].wr
			}
			for _, x := range b.Instrs {
				r, w := effect(x)
				if r == 1 {
					in.rd = true
				} else if r == 2 {
					in.rd = false
				}
				if w == 1 {
					in.wr = true
				} else if w == 2 {
					in.wr = false
				}
			}
			if in != out[b] {
				out[b], changed = in, true
			}
		}
	}
	core.EachInstr(dial, func(in ssa.Instruction) {
		if r, w := effect(in); r == 1 || w == 1 {
			arms++
		}
	})
	bad := ""
	nSuccess := 0
	where := P.Pos(dial.Pos())
	for _, ret := range core.Returns(dial) {
		n := len(ret.Results)
		if n == 0 {
			continue
		}
		success := false
		for _, leaf := range core.ValueLeaves(core.ReturnOperand(ret, n-1)) {
			if core.IsNilConst(leaf) {
				success = true
			}
		}
		if !success {
			continue
		}
		nSuccess++
		if s := out[ret.Block()]; s.rd || s.wr {
			which := "read"
			if s.wr && s.rd {
				which = "read and write"
			} else if s.wr {
				which = "write"
			}
			bad, where = which, P.InstrPos(ret)
		}
	}
	R.Check(bad == "" && arms > 0 && nSuccess > 0, "C13.hs", "websocket|(*Dialer).Dial|handshake-deadline-cleared", where,
		fmt.Sprintf("the deadline armed for the handshake (%d arming call(s)) is cleared in both directions before Dial returns a connection", arms),
		"Dial can return an established connection with the handshake's "+bad+" deadline still armed on the transport: once the handshake timeout has passed, every read of the connection fails with an i/o timeout although the peer sends messages", nil)
}
