package rules

import (
	"fmt"
	"go/constant"
	"go/token"
	"go/types"
	"sort"
	"strings"

	"golang.org/x/tools/go/ssa"

	"oryxverif/checker/internal/core"
)

func init() {
	register(&Property{
		ID: "C04",
		Explain: "Decided (structural, schedule-independent): C04.lock - every load/lookup/update/delete/range of rtmp.Protocol.input.transactions " +
			"happens while Protocol.input.ltransactions is in the must-hold lockset (forward dataflow over the SSA CFG, defer-unlock and caller locksets included); " +
			"C04.order - in WritePacket every instruction that can hand bytes to the transport (bufio Flush / io.Copy into the bufio.Writer) is dominated by the " +
			"instruction that registers the request in the transaction table; C04.txn - lookup and delete of a response's transaction are one critical section, " +
			"delete on every path from a hit, a miss returns a non-nil error; C04.own - the access paths of the connection object touched from the reader entry " +
			"points and from the writer entry points intersect only in lock-guarded or never-reassigned locations, and input/output settings are distinct allocations. " +
			"Also: the pending-request table is assigned in the constructor only (never replaced as a whole), its key is the transaction id itself, and the transaction lock is released on every path of the function that took it. " +
			"Not decided: 'none lost, none matched twice' over all request sequences and schedules (no schedule enumeration, no race detector in this family).",
		Assume: []string{"sync.Mutex provides mutual exclusion and happens-before", "bufio.Writer hands bytes to the transport only from Flush/Write/ReadFrom (io.Copy)"},
		Run:    runC04,
	})
}

// guardedAccesses enumerates, in the given functions, every instruction that touches the value
// stored in struct field fv (load of the field and all uses of the loaded value that read or
// write through it).
type access struct {
	fn   *ssa.Function
	in   ssa.Instruction
	kind string
	addr ssa.Value
}

func fieldAccesses(fns []*ssa.Function, fv *types.Var) []access {
	var out []access
	for _, fn := range fns {
		core.EachInstr(fn, func(in ssa.Instruction) {
			fa, ok := in.(*ssa.FieldAddr)
			if !ok || core.FieldVar(fa) != fv {
				return
			}
			for _, r := range *fa.Referrers() {
				switch x := r.(type) {
				case *ssa.Store:
					if x.Addr == fa {
						out = append(out, access{fn, x, "store", fa})
					}
				case *ssa.UnOp:
					if x.Op != token.MUL {
						continue
					}
					out = append(out, access{fn, x, "load", fa})
					if !isRefType(x.Type()) {
						continue // a copied value (error, int, ...) is not shared state
					}
					for _, u := range *x.Referrers() {
						switch y := u.(type) {
						case *ssa.MapUpdate:
							out = append(out, access{fn, y, "mapupdate", fa})
						case *ssa.Lookup:
							out = append(out, access{fn, y, "maplookup", fa})
						case *ssa.Range:
							out = append(out, access{fn, y, "range", fa})
						case *ssa.Call:
							if b, ok := y.Call.Value.(*ssa.Builtin); ok {
								out = append(out, access{fn, y, b.Name(), fa})
							} else {
								out = append(out, access{fn, y, "escape:" + core.CalleeName(&y.Call), fa})
							}
						case *ssa.Store:
							if y.Val == ssa.Value(x) {
								out = append(out, access{fn, y, "escape:store", fa})
							}
						}
					}
				default:
					_ = x
				}
			}
		})
	}
	return out
}

func isRefType(t types.Type) bool {
	switch t.Underlying().(type) {
	case *types.Map, *types.Slice, *types.Pointer, *types.Chan:
		return true
	}
	return false
}

// structField resolves a (possibly nested, anonymous-struct) field: ("Protocol", "input", "transactions").
func structField(n *types.Named, names ...string) *types.Var {
	if n == nil {
		return nil
	}
	var t types.Type = n
	var fv *types.Var
	for _, name := range names {
		if p, ok := t.Underlying().(*types.Pointer); ok {
			t = p.Elem()
		}
		st, ok := t.Underlying().(*types.Struct)
		if !ok {
			return nil
		}
		fv = nil
		for i := 0; i < st.NumFields(); i++ {
			if core.FieldVarName(st.Field(i)) == name {
				fv = st.Field(i)
			}
		}
		if fv == nil {
			return nil
		}
		t = fv.Type()
	}
	return fv
}

func ordKey(counts map[string]int, base string) string {
	counts[base]++
	return fmt.Sprintf("%s#%d", base, counts[base])
}

// checkGuarded applies the LOCK obligation form to every access of field fv.
func checkGuarded(c *Ctx, rule string, fns []*ssa.Function, fv *types.Var, token string, what string) int {
	n := 0
	counts := map[string]int{}
	infos := map[*ssa.Function]*core.LockInfo{}
	for _, a := range fieldAccesses(fns, fv) {
		if core.FreshBase(a.addr) {
			continue // constructor: object not yet shared
		}
		n++
		li := infos[a.fn]
		if li == nil {
			li = c.P.LockAnalysis(a.fn, c.P.EntryLocks(a.fn))
			infos[a.fn] = li
		}
		key := ordKey(counts, core.ShortPkg(a.fn)+"|"+core.FuncName(a.fn)+"|"+a.kind)
		held := li.HeldAt(a.in)
		facts := map[string]interface{}{"held": held.Sorted(), "required": token, "location": what}
		if strings.HasPrefix(a.kind, "escape:") {
			c.R.Fail(rule, key, c.P.InstrPos(a.in), "guarded value "+what+" escapes ("+a.kind+"), lock discipline cannot be decided locally", facts)
			continue
		}
		ok := held[token]
		if !ok && a.kind == "load" || !ok && a.kind == "maplookup" || !ok && a.kind == "len" {
			ok = held[token+":r"] // a read lock suffices for reads
		}
		c.R.Check(ok, rule, key, c.P.InstrPos(a.in),
			a.kind+" of "+what+" under "+token,
			a.kind+" of "+what+" without holding "+token, facts)
	}
	return n
}

func runC04(c *Ctx) {
	P, R := c.P, c.R
	R.Require("C04.lock", 4)
	R.Require("C04.order", 1)
	R.Require("C04.txn", 4)
	R.Require("C04.own", 3)

	proto := P.NamedType("rtmp", "Protocol")
	if !R.Anchor(proto != nil, "C04.lock", "rtmp.Protocol") {
		return
	}
	trans := structField(proto, "input", "transactions")
	mu := structField(proto, "input", "ltransactions")
	if !R.Anchor(trans != nil && mu != nil, "C04.lock", "rtmp.Protocol.input.{transactions,ltransactions}") {
		return
	}
	fns := P.ModuleFuncs("rtmp")
	for _, f := range fns {
		R.Funcs[core.QualName(f)] = true
	}
	const tok = "Protocol.input.ltransactions"
	checkGuarded(c, "C04.lock", fns, trans, tok, "Protocol.input.transactions")

	checkRegistrationOrder(c, "C04.order")

	// ---- C04.txn (shared with C03.txn)
	checkTxn(c, "C04.txn")

	// ---- C04.own
	checkOwn(c)

	// ---- the table is only ever inserted into and deleted from, one key at a time, after construction: replacing the
	// whole map (a rollback that "clears the pending requests", a reset on error) forgets requests that are in flight
	{
		bad := ""
		for _, fn := range fns {
			if fn.Parent() != nil {
				continue
			}
			for _, g := range core.WithClosures(fn) {
				if core.FuncName(g) == "NewProtocol" {
					continue
				}
				core.EachInstr(g, func(in ssa.Instruction) {
					if st, ok := in.(*ssa.Store); ok && core.FieldVar(st.Addr) == trans {
						bad = core.FuncName(g) + " at " + P.InstrPos(st)
					}
				})
			}
		}
		R.Check(bad == "", "C04.txn", "rtmp|transactions|never-replaced-after-construction", P.Pos(proto.Obj().Pos()),
			"the pending-request table is assigned in the constructor only; afterwards entries are added and removed one by one",
			"the pending-request table is replaced as a whole in "+bad+": every request still waiting for its response is forgotten, and its response is then answered with 'no matched request'", nil)
	}
	// ---- the key is the transaction id itself (the same obligation as C03.txn: a truncated key lets two pending
	// requests collide)
	for _, fn := range fns {
		if fn.Parent() != nil {
			continue
		}
		isReg := false
		core.EachInstr(fn, func(in ssa.Instruction) {
			if mu, ok := in.(*ssa.MapUpdate); ok && strings.HasSuffix(core.TypedPath(mu.Map), "input.transactions") {
				isReg = true
			}
		})
		if isReg {
			checkTxnKey(c, "C04.txn", fn)
			break
		}
	}
	// ---- the transaction lock is released on every path of the function that took it (a forgotten unlock on the
	// 'no matched request' exit blocks the reader's next lookup and the writer's next request for good)
	{
		var all []*ssa.Function
		for _, fn := range fns {
			if fn.Parent() == nil {
				all = append(all, core.WithClosures(fn)...)
			}
		}
		checkLockReleasedRule(c, "C04.lock", "the reader's next response lookup and the writer's next request block for good", all)
	}
}

func describeInstr(in ssa.Instruction) string {
	if ci, ok := in.(ssa.CallInstruction); ok {
		return "call " + core.CalleeName(ci.Common())
	}
	return in.String()
}

// instrReach returns the set of instructions reachable from (after) start, not continuing past
// instructions for which stop returns true (those are included in the result).
func instrReach(start ssa.Instruction, stop func(ssa.Instruction) bool) map[ssa.Instruction]bool {
	seen := map[ssa.Instruction]bool{}
	visitedBlock := map[*ssa.BasicBlock]bool{}
	var walkBlock func(b *ssa.BasicBlock, from int)
	walkBlock = func(b *ssa.BasicBlock, from int) {
		for i := from; i < len(b.Instrs); i++ {
			in := b.Instrs[i]
			seen[in] = true
			if stop != nil && stop(in) {
				return
			}
		}
		for _, s := range b.Succs {
			if !visitedBlock[s] {
				visitedBlock[s] = true
				walkBlock(s, 0)
			}
		}
	}
	walkBlock(start.Block(), core.InstrIndex(start)+1)
	return seen
}

func isRelease(in ssa.Instruction, tok string) bool {
	held := core.LockSet{tok: true}
	applyLock(in, held)
	return !held[tok]
}

func applyLock(in ssa.Instruction, held core.LockSet) {
	switch x := in.(type) {
	case *ssa.Call:
		if f := x.Call.StaticCallee(); f != nil && f.Name() == "Unlock" && len(x.Call.Args) > 0 {
			if core.TypedPath(x.Call.Args[0]) != "" {
				delete(held, core.TypedPath(x.Call.Args[0]))
			}
		}
	case *ssa.Send:
		delete(held, core.TypedPath(x.Chan))
	}
}

// checkTxn: the response branch looks a transaction up and deletes it in one critical section.
func checkTxn(c *Ctx, rule string) {
	P, R := c.P, c.R
	proto := P.NamedType("rtmp", "Protocol")
	trans := structField(proto, "input", "transactions")
	if trans == nil {
		return
	}
	const tok = "Protocol.input.ltransactions"
	fns := P.ModuleFuncs("rtmp")
	acc := fieldAccesses(fns, trans)
	byFn := map[*ssa.Function][]access{}
	for _, a := range acc {
		byFn[a.fn] = append(byFn[a.fn], a)
	}
	nLookups := 0
	var fnl []*ssa.Function
	for fn := range byFn {
		fnl = append(fnl, fn)
	}
	sort.Slice(fnl, func(i, j int) bool { return core.QualName(fnl[i]) < core.QualName(fnl[j]) })
	for _, fn := range fnl {
		var lookups, deletes []access
		for _, a := range byFn[fn] {
			switch a.kind {
			case "maplookup":
				lookups = append(lookups, a)
			case "delete":
				deletes = append(deletes, a)
			}
		}
		for i, l := range lookups {
			nLookups++
			base := fmt.Sprintf("rtmp|%s|lookup#%d", core.FuncName(fn), i+1)
			lk := l.in.(*ssa.Lookup)
			// (a) a delete in the same function, reachable from the lookup with no release in between
			if len(deletes) == 0 {
				R.Fail(rule, base+"|delete-same-section", P.InstrPos(l.in),
					"a matched transaction is never deleted in the function that looks it up (a response could be matched twice)", nil)
				continue
			}
			okSection := false
			var dIn ssa.Instruction
			for _, d := range deletes {
				reach := instrReach(l.in, func(in ssa.Instruction) bool { return isRelease(in, tok) })
				if reach[d.in] {
					okSection = true
					dIn = d.in
				}
			}
			R.Check(okSection, rule, base+"|delete-same-section", P.InstrPos(l.in),
				"lookup and delete of the transaction are in one critical section",
				"the lock is released between the lookup and the delete of the transaction (two readers could match the same request)", nil)
			if dIn == nil {
				continue
			}
			// (b)+(c) need the hit/miss branch
			var okVal ssa.Value
			if lk.CommaOk {
				for _, r := range *lk.Referrers() {
					if ex, ok := r.(*ssa.Extract); ok && ex.Index == 1 {
						okVal = ex
					}
				}
			}
			var iff *ssa.If
			hitIdx := 0
			if okVal != nil {
				// the flag itself, or its copy in a named result that lives in memory (functions with a defer)
				flags := []ssa.Value{okVal}
				for _, r := range *okVal.Referrers() {
					if st, ok := r.(*ssa.Store); ok && st.Val == okVal {
						if cell, isAlloc := st.Addr.(*ssa.Alloc); isAlloc {
							for _, r2 := range *cell.Referrers() {
								if ld, ok := r2.(*ssa.UnOp); ok && ld.Op == token.MUL && ld.X == ssa.Value(cell) && core.Precedes(st, ld) {
									flags = append(flags, ld)
								}
							}
						}
					}
				}
				for _, fl := range flags {
					for _, r := range *fl.Referrers() {
						if i2, ok := r.(*ssa.If); ok && iff == nil {
							iff = i2
						}
						if u, ok := r.(*ssa.UnOp); ok && u.Op == token.NOT {
							for _, r2 := range *u.Referrers() {
								if i2, ok := r2.(*ssa.If); ok && iff == nil {
									iff, hitIdx = i2, 1
								}
							}
						}
					}
				}
			}
			if iff == nil {
				R.Unknown(rule, base+"|hit-branch", P.InstrPos(l.in), "cannot find the branch on the lookup's ok result", nil)
				continue
			}
			hit := iff.Block().Succs[hitIdx]
			miss := iff.Block().Succs[1-hitIdx]
			// (b) every path from the hit edge to a return passes the delete
			bad := ""
			seenB := map[*ssa.BasicBlock]bool{}
			var walk func(b *ssa.BasicBlock)
			walk = func(b *ssa.BasicBlock) {
				if seenB[b] {
					return
				}
				seenB[b] = true
				for _, in := range b.Instrs {
					if in == dIn {
						return
					}
					for _, d := range deletes {
						if in == d.in {
							return
						}
					}
					if r, ok := in.(*ssa.Return); ok {
						bad = P.InstrPos(r)
						return
					}
				}
				for _, s := range b.Succs {
					walk(s)
				}
			}
			walk(hit)
			R.Check(bad == "", rule, base+"|delete-on-hit", P.InstrPos(dIn),
				"every path from a matched lookup to the exit deletes the transaction",
				"a path from a matched lookup reaches a return without deleting the transaction (return at "+bad+"): the same request can be matched twice", nil)
			// (c) the miss edge returns a non-nil error
			ei := core.ErrResultIndex(fn)
			missOK := ei >= 0
			nret := 0
			if ei >= 0 {
				for _, r := range core.Returns(fn) {
					if miss.Dominates(r.Block()) {
						nret++
						v := core.ReturnOperand(r, ei)
						if core.IsNilConst(v) || !definitelyNonNilError(v) {
							missOK = false
						}
					}
				}
			}
			if ei < 0 {
				// the lookup sits in a helper that answers (value, ok): the miss returns ok == false, and every caller
				// turns a false ok into a freshly constructed error
				bi := -1
				for i := 0; i < fn.Signature.Results().Len(); i++ {
					if b, isB := fn.Signature.Results().At(i).Type().Underlying().(*types.Basic); isB && b.Kind() == types.Bool {
						bi = i
					}
				}
				missFalse := bi >= 0
				if bi >= 0 {
					for _, r := range core.Returns(fn) {
						if miss.Dominates(r.Block()) {
							nret++
							c, isC := core.ReturnOperand(r, bi).(*ssa.Const)
							if !isC || c.Value == nil || c.Value.String() != "false" {
								missFalse = false
							}
						}
					}
				}
				callersOK, nCallers := true, 0
				if missFalse && core.CallersOf != nil {
					for _, site := range core.CallersOf(fn) {
						call, isCall := site.(*ssa.Call)
						if !isCall {
							callersOK = false
							continue
						}
						nCallers++
						host := call.Parent()
						hei := core.ErrResultIndex(host)
						okHere := false
						for _, ref := range *call.Referrers() {
							ex, isEx := ref.(*ssa.Extract)
							if !isEx || ex.Index != bi {
								continue
							}
							for _, r := range core.Returns(host) {
								if hei < 0 {
									continue
								}
								falseSide := false
								for _, a := range core.GuardAtoms(r.Block()) {
									if a.LV == ssa.Value(ex) && a.Op == "not" {
										falseSide = true
									}
								}
								if falseSide && definitelyNonNilError(core.ReturnOperand(r, hei)) {
									okHere = true
								}
							}
						}
						callersOK = callersOK && okHere
					}
				}
				missOK = missFalse && callersOK && nCallers > 0
			}
			R.Check(missOK && nret > 0, rule, base+"|miss-is-error", P.InstrPos(iff),
				"a response without an outstanding request returns a non-nil error",
				"the lookup-miss branch does not return a freshly constructed non-nil error (a response without a request would be guessed)", nil)
		}
	}
	if nLookups == 0 {
		R.Fail(rule, "rtmp|transactions|lookup", "?", "no lookup of Protocol.input.transactions found in package rtmp", nil)
	}
	// both response commands (_result and _error) are typed by the outstanding request
	if parse := P.Func("rtmp", "(*Protocol).parseAMFObject"); parse != nil {
		if sw := P.SwitchOnType(parse, "amf0.String"); sw != nil {
			r1 := sw.CaseFor(constant.MakeString("_result"))
			r2 := sw.CaseFor(constant.MakeString("_error"))
			same := r1 != nil && r2 != nil && r1.Clause == r2.Clause
			R.Check(same, rule, "rtmp|(*Protocol).parseAMFObject|result-and-error", P.Pos(sw.Stmt.Pos()),
				"_result and _error are both matched to the outstanding request",
				"_result and _error are not handled by the same transaction-matching branch: a rejected request stays registered and a later response with its id is matched to it", nil)
		}
	}
}

// definitelyNonNilError: the value is the result of a constructor that never returns nil
// (errors.New/Errorf of this module or of the standard library, fmt.Errorf) or a MakeInterface.
func definitelyNonNilError(v ssa.Value) bool {
	switch x := v.(type) {
	case *ssa.MakeInterface:
		return true
	case *ssa.Call:
		if f := x.Call.StaticCallee(); f != nil {
			switch core.FullName(f) {
			case "errors.Errorf", "errors.New", "fmt.Errorf":
				return true
			}
			// a wrapper of this repository's errors package around a definitely non-nil error is non-nil
			if isModuleErrorsFn(f, errWrappers) && len(x.Call.Args) > 0 {
				return definitelyNonNilError(x.Call.Args[0])
			}
		}
	case *ssa.Phi:
		for _, e := range x.Edges {
			if !definitelyNonNilError(e) {
				return false
			}
		}
		return true
	}
	return false
}

// checkOwn: ownership partition between the reading and the writing goroutine.
func checkOwn(c *Ctx) {
	P, R := c.P, c.R
	readers := []string{"(*Protocol).ReadMessage", "(*Protocol).DecodeMessage", "(*Protocol).ExpectPacket", "(*Protocol).ExpectMessage"}
	writers := []string{"(*Protocol).WritePacket", "(*Protocol).WriteMessage"}
	// shared-state root types, each with its reason
	roots := map[string]string{
		"Protocol":    "the connection object itself",
		"settings":    "reached only through Protocol.{input,output}.opt",
		"chunkStream": "reached only through Protocol.input.chunks",
	}
	collect := func(names []string) (map[string]map[string]bool, bool) {
		out := map[string]map[string]bool{} // path -> kinds
		for _, n := range names {
			fn := P.Func("rtmp", n)
			if !R.Anchor(fn != nil, "C04.own", "rtmp."+n) {
				return nil, false
			}
			for e := range P.Effects(fn) {
				i := strings.Index(e, ":")
				if i < 0 {
					continue
				}
				kind, path := e[:i], e[i+1:]
				if kind == "call" || kind == "panic" || kind == "go" {
					continue
				}
				root := path
				if j := strings.IndexAny(path, ".["); j >= 0 {
					root = path[:j]
				}
				if _, ok := roots[root]; !ok {
					continue
				}
				if out[path] == nil {
					out[path] = map[string]bool{}
				}
				out[path][kind] = true
			}
		}
		return out, true
	}
	rd, ok1 := collect(readers)
	wr, ok2 := collect(writers)
	if !ok1 || !ok2 {
		return
	}
	// fields stored anywhere outside constructors (functions whose base object is fresh)
	storedOutsideCtor := map[string]bool{}
	for _, fn := range P.ModuleFuncs("rtmp") {
		core.EachInstr(fn, func(in ssa.Instruction) {
			if st, ok := in.(*ssa.Store); ok {
				if _, isF := st.Addr.(*ssa.FieldAddr); isF && !core.FreshBase(st.Addr) {
					storedOutsideCtor[core.TypedPath(st.Addr)] = true
				}
			}
		})
	}
	guarded := map[string]bool{"Protocol.input.transactions": true, "Protocol.input.ltransactions": true}
	var shared []string
	for p := range rd {
		if _, ok := wr[p]; ok {
			shared = append(shared, p)
		}
	}
	sort.Strings(shared)
	isWrite := func(k map[string]bool) bool { return k["store"] || k["mapupdate"] || k["mapdelete"] }
	for _, p := range shared {
		base := p
		if i := strings.Index(p, "["); i >= 0 {
			base = p[:i]
		}
		switch {
		case guarded[base]:
			R.OK("C04.own", "rtmp|shared|"+p, "-", "shared by reader and writer, lock-guarded (C04.lock)")
		case !isWrite(rd[p]) && !isWrite(wr[p]) && !storedOutsideCtor[p]:
			R.OK("C04.own", "rtmp|shared|"+p, "-", "read by both roles, never stored after construction")
		default:
			R.Fail("C04.own", "rtmp|shared|"+p, "-",
				"location is touched by both the reading and the writing goroutine, is written after construction and is not lock-guarded (data race)",
				map[string]interface{}{"reader": keys(rd[p]), "writer": keys(wr[p])})
		}
	}
	R.OKf("C04.own", "rtmp|partition", "-", "reader/writer access-path partition computed",
		map[string]interface{}{"reader_only": diffKeys(rd, wr), "writer_only": diffKeys(wr, rd), "shared": shared})

	// input.opt / output.opt are distinct fresh allocations, never re-pointed
	np := P.Func("rtmp", "NewProtocol")
	if R.Anchor(np != nil, "C04.own", "rtmp.NewProtocol") {
		vals := map[string]ssa.Value{}
		core.EachInstr(np, func(in ssa.Instruction) {
			if st, ok := in.(*ssa.Store); ok {
				p := core.Path(st.Addr)
				if strings.HasSuffix(p, ".input.opt") {
					vals["input"] = st.Val
				}
				if strings.HasSuffix(p, ".output.opt") {
					vals["output"] = st.Val
				}
			}
		})
		distinct := vals["input"] != nil && vals["output"] != nil && vals["input"] != vals["output"] &&
			freshResult(vals["input"]) && freshResult(vals["output"])
		R.Check(distinct, "C04.own", "rtmp|NewProtocol|settings-distinct", P.Pos(np.Pos()),
			"input and output settings are two distinct fresh allocations",
			"input.opt and output.opt are not two distinct fresh allocations (reader and writer would share chunk-size state)", nil)
		repoint := storedOutsideCtor["Protocol.input.opt"] || storedOutsideCtor["Protocol.output.opt"]
		R.Check(!repoint, "C04.own", "rtmp|settings-never-repointed", "-",
			"input.opt/output.opt are assigned only in the constructor",
			"input.opt or output.opt is re-assigned after construction", nil)
	}
}

func freshResult(v ssa.Value) bool {
	switch x := v.(type) {
	case *ssa.Alloc:
		return true
	case *ssa.Call:
		f := x.Call.StaticCallee()
		if f == nil || !core.InModule(f) {
			return false
		}
		for _, r := range core.Returns(f) {
			if len(r.Results) != 1 {
				return false
			}
			if _, ok := r.Results[0].(*ssa.Alloc); !ok {
				return false
			}
		}
		return true
	}
	return false
}

func keys(m map[string]bool) []string {
	var out []string
	for k := range m {
		out = append(out, k)
	}
	sort.Strings(out)
	return out
}

func diffKeys(a, b map[string]map[string]bool) []string {
	var out []string
	for k := range a {
		if _, ok := b[k]; !ok {
			out = append(out, k)
		}
	}
	sort.Strings(out)
	return out
}

// checkRegistrationOrder: in WritePacket the request is registered before any transport write and never after one.
func checkRegistrationOrder(c *Ctx, rule string) {
	P, R := c.P, c.R
	// ---- C04.order
	wp := P.Func("rtmp", "(*Protocol).WritePacket")
	if R.Anchor(wp != nil, rule, "rtmp.(*Protocol).WritePacket") {
		reg := P.Carriers(wp, "mapupdate:Protocol.input.transactions")
		var outs []ssa.Instruction
		for _, pat := range []string{"call:(*bufio.Writer).Flush", "call:io.Copy", "call:(*bufio.Writer).Write", "call:invoke io.Writer.Write"} {
			outs = append(outs, P.Carriers(wp, pat)...)
		}
		seen := map[ssa.Instruction]bool{}
		counts := map[string]int{}
		if len(reg) == 0 {
			R.Fail(rule, "rtmp|(*Protocol).WritePacket|register", P.Pos(wp.Pos()),
				"WritePacket never registers the request in Protocol.input.transactions", nil)
		}
		for _, o := range outs {
			if seen[o] {
				continue
			}
			seen[o] = true
			ok := false
			var regPos []string
			// some registration can run before this write, and none can run after it (the registration may sit under
			// "if this packet is a request": it need not dominate the write, it must never follow it)
			after := false
			for _, r := range reg {
				regPos = append(regPos, P.InstrPos(r))
				if r != o && reaches(r, o) {
					// the decision to register - the nearest block above the registration that dominates the write -
					// precedes the write on every path; a write that bypasses it altogether is only dominated by
					// the function entry
					b := r.Block()
					for b != nil && !(b == o.Block() && core.Precedes(r, o)) && !(b != o.Block() && b.Dominates(o.Block())) {
						b = b.Idom()
					}
					if b != nil && (b != wp.Blocks[0] || r.Block() == wp.Blocks[0]) {
						ok = true
					}
				}
				if r != o && reaches(o, r) {
					after = true
				}
			}
			ok = ok && !after
			key := ordKey(counts, "rtmp|(*Protocol).WritePacket|transport-write")
			R.Check(ok, rule, key, P.InstrPos(o),
				"request registered before this transport write on every path",
				"bytes of a request can reach the transport before the request is registered in the transaction table (a fast peer's response finds no matching request)",
				map[string]interface{}{"transport_write": describeInstr(o), "registration_sites": regPos})
		}
		// the transaction lock is bookkeeping only: it must not be held while bytes go to the transport (the reading
		// goroutine needs it to match the response, which can arrive before the write returns)
		li := P.MayLockAnalysis(wp, P.EntryLocks(wp))
		counts3 := map[string]int{}
		seen3 := map[ssa.Instruction]bool{}
		for _, o := range outs {
			if seen3[o] {
				continue
			}
			seen3[o] = true
			held := li.HeldAt(o)
			key := ordKey(counts3, "rtmp|(*Protocol).WritePacket|no-transaction-lock-across-write")
			R.Check(!held["Protocol.input.ltransactions"], rule, key, P.InstrPos(o),
				"the transaction lock is not held during this transport write",
				"the transaction lock is held across this transport write: the reader cannot match a response that arrives while the request is still being written (and deadlocks with a synchronous transport)",
				map[string]interface{}{"held": held.Sorted()})
		}
		// and never again afterwards: a registration that can follow a transport write re-inserts a request the reader may
		// already have matched and deleted, so the same response could be matched twice
		counts2 := map[string]int{}
		for _, r := range reg {
			late := ""
			for _, o := range outs {
				if o != r && reaches(o, r) {
					late = P.InstrPos(o)
				}
			}
			key := ordKey(counts2, "rtmp|(*Protocol).WritePacket|registration-not-after-write")
			R.Check(late == "", rule, key, P.InstrPos(r),
				"the request is registered only before its bytes can reach the transport",
				"the request is (also) registered after the transport write at "+late+": if the peer answered in between, the reader already matched and removed it, and it is inserted again - a later response with this id is matched a second time", nil)
		}
	}

}
