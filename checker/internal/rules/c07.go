package rules

import (
	"fmt"
	"go/token"
	"go/types"
	"sort"
	"strings"

	"golang.org/x/tools/go/ssa"

	"oryxverif/checker/internal/abs"
	"oryxverif/checker/internal/core"
)

func init() {
	register(&Property{
		ID: "C07",
		Explain: "Decided (panic-freedom obligations of the decoders, no input is executed): C07.bounds - every index, slice and make in the functions of rtmp, amf0, flv, aac, avc and of the WebSocket frame reader, the JSON+ scanner " +
			"and the JOSE key-unwrap/CBC-HMAC/padding helpers that are reachable from the decoder entry points is discharged either by abstract interpretation of the decoder on a fully symbolic input (all paths, lengths and bytes symbolic) " +
			"or by a dominating length guard / mask / type range / loop guard on the very value indexed; C07.enum - every method of a named integer type in aac, flv, avc, amf0, rtmp is abstractly interpreted over its whole integer range " +
			"with no out-of-range index and no panic; C07.precond - standard-library calls with panicking preconditions on peer data (AEAD Open nonce length, make with a computed length) are guarded; C07.nil - pointers populated from JSON " +
			"are tested before they are dereferenced; C07.panic - no explicit panic is reachable from a decoder entry point except listed misuse traps; C07.cplx - no decoder re-traverses the decoded subtree per element (super-linear shape); " +
			"C07.term - every loop of the media decoders is bounded by a counter towards a loop-invariant bound, a strictly shrinking cursor, or a transport read. " +
			"Not decided: internals of encoding/json, encoding/asn1 (OCSP), compress/flate, crypto/*, bufio (trusted); the unsafe word-wise masking; caller misuse (non-pointer arguments, reused receivers); wall-clock linearity, allocation size, stack depth.",
		Assume: []string{"standard library decoders (encoding/json, asn1, flate, crypto) do not panic on untrusted input", "contract: X.UnmarshalBinary(p) == nil implies X.Size() <= len(p) (C05.consumed)", "Conn.read(n) returns n bytes or an error"},
		Run:    runC07,
	})
}

// absDecoder describes one decoder run on a fully symbolic input.
type absDecoder struct {
	pkg, fn string
	ctor    string // receiver constructor ("" = zero/lazy)
	dataArg int    // index of the []byte argument (-1: none, stream based)
	stream  string // reader access path for stream based decoders
	bind    map[string]int64
	dom     map[string]Dom
	nilv    []string
	name    string
}

func c07Decoders() []absDecoder {
	var out []absDecoder
	for _, t := range []string{"SetChunkSize", "WindowAcknowledgementSize", "SetPeerBandwidth", "UserControl"} {
		out = append(out, absDecoder{pkg: "rtmp", fn: "(*" + t + ").UnmarshalBinary", dataArg: 1})
	}
	for _, t := range []string{"Number", "Boolean", "String", "amf0UTF8", "objectEOF"} {
		out = append(out, absDecoder{pkg: "amf0", fn: "(*" + t + ").UnmarshalBinary", dataArg: 1})
	}
	out = append(out,
		absDecoder{pkg: "amf0", fn: "(*singleMarkerObject).UnmarshalBinary", dataArg: 1},
		absDecoder{pkg: "flv", fn: "(*audioPackager).Decode", dataArg: 1},
		absDecoder{pkg: "flv", fn: "(*videoPackager).Decode", dataArg: 1},
		absDecoder{pkg: "aac", fn: "(*ADTSImpl).Decode", dataArg: 1},
		absDecoder{pkg: "aac", fn: "(*ADTSImpl).SetASC", dataArg: 1},
		absDecoder{pkg: "aac", fn: "(*AudioSpecificConfig).UnmarshalBinary", dataArg: 1},
		absDecoder{pkg: "avc", fn: "(*NALUHeader).UnmarshalBinary", dataArg: 1},
		absDecoder{pkg: "avc", fn: "(*NALU).UnmarshalBinary", ctor: "NewNALU", dataArg: 1},
		absDecoder{pkg: "flv", fn: "(*demuxer).ReadHeader", dataArg: -1, stream: "v.r"},
		absDecoder{pkg: "flv", fn: "(*demuxer).ReadTagHeader", dataArg: -1, stream: "v.r"},
		// the size handed to ReadTag is the 24-bit DataSize ReadTagHeader returned
		absDecoder{pkg: "flv", fn: "(*demuxer).ReadTag", dataArg: -1, stream: "v.r", dom: map[string]Dom{"tagSize": {W: 24, Hi: -1}}},
		absDecoder{pkg: "rtmp", fn: "(*Protocol).readBasicHeader", dataArg: -1, stream: "v.r"},
		// readMessageHeader is only called with the 2-bit format readBasicHeader returned (checked below: C07.bounds ...|format-is-2-bits)
	)
	out = append(out,
		// buffer assemblers of the JOSE key derivation / MAC input: lengths of all pieces symbolic
		absDecoder{pkg: "https/jose/cipher", fn: "(*cbcAEAD).computeAuthTag", dataArg: -1},
		absDecoder{pkg: "https/jose/cipher", fn: "NewConcatKDF", dataArg: -1},
	)
	for f := int64(0); f < 4; f++ {
		out = append(out,
			absDecoder{pkg: "rtmp", fn: "(*Protocol).readMessageHeader", name: fmt.Sprintf("new-message,fmt%d", f), dataArg: -1, stream: "v.r", bind: map[string]int64{"format": f}, nilv: []string{"chunk.message"}},
			absDecoder{pkg: "rtmp", fn: "(*Protocol).readMessageHeader", name: fmt.Sprintf("continued-message,fmt%d", f), dataArg: -1, stream: "v.r", bind: map[string]int64{"format": f}})
	}
	return out
}

// c07Scope lists the packages whose decoder-reachable functions are subject to C07.bounds, and for
// the large packages the functions taken (everything else there is JSON/ASN.1/HTTP glue over the standard library).
var c07Scope = map[string][]string{
	"rtmp": nil, "amf0": nil, "flv": nil, "aac": nil, "avc": nil,
	"websocket": nil, "json": nil, "https/jose": nil, "https/jose/cipher": nil, "https/crypto/ocsp": nil,
}

// c07Trusted: functions whose bounds obligations are not analysed, one symbol per row with the reason.
var c07Trusted = map[string]string{
	"websocket.maskBytes": "upstream gorilla word-wise XOR through unsafe pointers: the unsafe part has no bounds obligations at all and the byte-wise head/tail loops are driven by pointer alignment arithmetic; trusted as upstream code (the appengine build's plain loop is analysed in the thorough tier)",
}

// c07Entries are the decoder entry points (resolved by object identity; a missing one is an anchor failure).
var c07Entries = map[string][]string{
	"rtmp":              {"(*Protocol).ReadMessage", "(*Protocol).DecodeMessage", "(*Protocol).ExpectPacket", "(*Protocol).ExpectMessage", "(*Handshake).ReadC0S0", "(*Handshake).ReadC1S1", "(*Handshake).ReadC2S2"},
	"amf0":              {"Discovery", "(*Object).UnmarshalBinary", "(*EcmaArray).UnmarshalBinary", "(*StrictArray).UnmarshalBinary", "(*Number).UnmarshalBinary", "(*String).UnmarshalBinary", "(*Boolean).UnmarshalBinary"},
	"flv":               {"(*demuxer).ReadHeader", "(*demuxer).ReadTagHeader", "(*demuxer).ReadTag", "(*audioPackager).Decode", "(*videoPackager).Decode"},
	"aac":               {"(*ADTSImpl).Decode", "(*ADTSImpl).SetASC", "(*AudioSpecificConfig).UnmarshalBinary"},
	"avc":               {"(*NALUHeader).UnmarshalBinary", "(*NALU).UnmarshalBinary", "(*AVCDecoderConfigurationRecord).UnmarshalBinary", "(*AVCSample).UnmarshalBinary"},
	"websocket":         {"(*Conn).NextReader", "(*Conn).ReadMessage", "(*messageReader).Read"},
	"json":              {"NewCommentReader$1", "(*commentReader).Read"},
	"https/jose":        {"ParseSigned", "ParseEncrypted", "(JsonWebSignature).Verify", "(JsonWebEncryption).Decrypt", "(*JsonWebKey).UnmarshalJSON"},
	"https/crypto/ocsp": {"ParseResponse", "ParseResponseForCert", "ParseRequest"},
}

func runC07(c *Ctx) {
	P, R := c.P, c.R
	R.Require("C07.bounds", 120)
	R.Require("C07.enum", 25)
	R.Require("C07.precond", 2)
	R.Require("C07.nil", 2)
	R.Require("C07.panic", 3)
	R.Require("C07.cplx", 1)
	R.Require("C07.term", 10)

	// ---- entry points and reachability
	var roots []*ssa.Function
	for pkg, names := range c07Entries {
		for _, n := range names {
			fn := P.Func(pkg, n)
			if R.Anchor(fn != nil, "C07.bounds", pkg+"."+n) {
				roots = append(roots, fn)
			}
		}
	}
	reach := P.Reachable(roots...)
	inScope := func(fn *ssa.Function) bool {
		names, ok := c07Scope[core.ShortPkg(fn)]
		if !ok {
			return false
		}
		if _, trusted := c07Trusted[core.QualName(fn)]; trusted {
			return false
		}
		if names == nil {
			return true
		}
		for _, n := range names {
			if core.FuncName(fn) == n {
				return true
			}
		}
		return false
	}

	// ---- abstract interpretation on fully symbolic inputs
	type absVerdict struct {
		proven, unproven int
		detail           string
	}
	// functions whose sites get their own obligation below (an unproven site is reported there, where a guard or a
	// listed contract may still discharge it)
	ownObligation := map[string]bool{}
	for fn := range reach {
		if inScope(fn) {
			ownObligation[core.QualName(fn)] = true
		}
	}
	absSites := map[string]*absVerdict{} // func|pos
	absFuncs := map[string]bool{}
	e := abs.NewEngine(P)
	e.FailReads = true // truncated input: every transport read may deliver fewer bytes than asked and fail
	for _, d := range c07Decoders() {
		d := d
		fn := P.Func(d.pkg, d.fn)
		if !R.Anchor(fn != nil, "C07.bounds", d.pkg+"."+d.fn) {
			continue
		}
		res := e.Run(fn, func(p *abs.Path) []abs.Value {
			if d.pkg == "rtmp" {
				rtmpPrep(e, P)(p)
			}
			v := Variant{Dom: d.dom, Nil: d.nilv, Bind: d.bind}
			v.apply(p)
			args := e.AutoArgs(p, fn)
			if d.ctor != "" {
				args[0] = e.CallFn(p, P.Func(d.pkg, d.ctor), nil)[0]
			} else if fn.Signature.Recv() != nil && d.dataArg >= 0 {
				if _, isPtr := fn.Params[0].Type().Underlying().(*types.Pointer); isPtr && d.pkg != "flv" && core.FuncName(fn) != "(*ADTSImpl).Decode" && core.FuncName(fn) != "(*ADTSImpl).SetASC" {
					args[0] = e.NewZeroPtr(p, fn.Params[0].Type())
				}
			}
			return args
		})
		key := d.pkg + "|" + d.fn + "|symbolic-input"
		if d.name != "" {
			key += "|" + d.name
		}
		var problems []string
		for _, r := range res {
			if r.Path.Abort != "" {
				problems = append(problems, "undecided: "+r.Path.Abort)
				continue
			}
			if r.Path.Panics != "" {
				problems = append(problems, "a path panics: "+r.Path.Panics+pathSuffix(r))
			}
			for _, b := range r.Path.Bounds {
				k := b.Func + "|" + b.Pos
				if absSites[k] == nil {
					absSites[k] = &absVerdict{}
				}
				if b.Proven {
					absSites[k].proven++
				} else {
					absSites[k].unproven++
					d := fmt.Sprintf("out of range possible at %s: %s%s", b.Pos, b.What, pathSuffix(r))
					if absSites[k].detail == "" {
						absSites[k].detail = d
					}
					if !ownObligation[b.Func] {
						problems = append(problems, d)
					}
				}
				absFuncs[b.Func] = true
			}
		}
		R.Funcs[core.QualName(fn)] = true
		report(R, "C07.bounds", key, P.Pos(fn.Pos()), fmt.Sprintf("no out-of-range access and no panic on any of the %d paths over a fully symbolic input", len(res)), "", dedup(problems),
			map[string]interface{}{"paths": len(res)})
	}

	// ---- guarantee side of the advance contract for composite (non-AMF0) codec types
	guaranteed := map[*types.Named]bool{}
	sizeGuaranteeCheck = func(T *types.Named) bool {
		if v, ok := guaranteed[T]; ok {
			return v
		}
		pkg := strings.TrimPrefix(strings.TrimPrefix(T.Obj().Pkg().Path(), core.ModulePath), "/")
		sz := P.Func(pkg, "(*"+core.TypeNameOf(T.Obj())+").Size")
		um := P.Func(pkg, "(*"+core.TypeNameOf(T.Obj())+").UnmarshalBinary")
		key := pkg + "|(*" + core.TypeNameOf(T.Obj()) + ").UnmarshalBinary|size-within-consumed"
		if sz == nil || um == nil {
			guaranteed[T] = false
			return false
		}
		ok, why := sizeCoveredByDecode(P, sz, um)
		guaranteed[T] = ok
		R.Check(ok, "C07.bounds", key, P.Pos(um.Pos()),
			"after a successful decode Size() counts only members that were decoded from the input (or cleared), so callers may advance by Size()",
			why+": a caller slicing by Size() after a successful decode can slice past the end of the input", nil)
		return ok
	}
	defer func() { sizeGuaranteeCheck = nil }()

	// ---- every remaining site: guard matching
	var fns []*ssa.Function
	for fn := range reach {
		if inScope(fn) {
			fns = append(fns, fn)
		}
	}
	sort.Slice(fns, func(i, j int) bool { return core.QualName(fns[i]) < core.QualName(fns[j]) })
	counts := map[string]int{}
	nAbs, nGuard := 0, 0
	for _, fn := range fns {
		R.Funcs[core.QualName(fn)] = true
		for _, s := range core.BoundSites(fn) {
			pos := P.InstrPos(s.In)
			key := ordKey(counts, core.QualName(fn)+"|"+s.Kind)
			if v := absSites[core.QualName(fn)+"|"+pos]; v != nil && v.unproven == 0 && v.proven > 0 {
				nAbs++
				R.OK("C07.bounds", key, pos, "in range on every abstractly interpreted path")
				continue
			}
			if why := core.ProveBound(s); why != "" {
				nGuard++
				R.OK("C07.bounds", key, pos, why)
				continue
			}
			if why := advanceContract(s); why != "" {
				nGuard++
				R.OK("C07.bounds", key, pos, why)
				continue
			}
			if why, ok := c07Contracts[key]; ok {
				R.OK("C07.bounds", key, pos, "contract: "+why)
				continue
			}
			if why := shapeContract(s); why != "" {
				R.OK("C07.bounds", key, pos, "contract: "+why)
				continue
			}
			msg := "this " + s.Kind + " is not proven in range for untrusted input: " + describeSite(s)
			if v := absSites[core.QualName(fn)+"|"+pos]; v != nil && v.detail != "" {
				msg += " (abstract interpretation: " + v.detail + ")"
			}
			R.Fail("C07.bounds", key, pos, msg, nil)
		}
	}
	R.Extra["bounds_by_abstract_interpretation"] = nAbs
	R.Extra["bounds_by_guards"] = nGuard

	checkEnums(c, e)
	checkPreconds(c, reach)
	checkNilJSON(c, reach)
	checkPanics(c, reach, roots)
	checkEphemeralKeyValidated(c)
	checkFormatFact(c)
	checkResizeCallers(c)
	// the guarantee side of the contract of rtmp.(*Protocol).readMessagePayload|make#1 (len(Payload) <= payloadLength while a
	// message is attached): a changed length and a type-0 header inside an unfinished message are rejected, and a
	// completed message is detached from its chunk stream
	headerDecodeChecksFiltered(c, "C07.bounds", false, func(name string) bool {
		return name == "reject:type0-inside-unfinished-message" || name == "reject:length-changed-mid-message"
	})
	checkMessageDetached(c, "C07.bounds")
	checkChunkSizeUnsigned(c)
	// the guarantee side of the advance contract for AMF0 values (UnmarshalBinary(p) == nil => Size() <= len(p), the
	// decoder having consumed exactly Size() bytes): every AMF0 decoder on its own encodings, nested containers included
	amfDecodeChecks(c, newAmfEngine(c), "C07.bounds", "C07.bounds", func(d amfDec) bool { return d.expErr })
	checkCplx(c)
	checkTerm(c, fns)
	var all []*ssa.Function
	for fn := range reach {
		if fn.Blocks != nil {
			all = append(all, fn)
		}
	}
	sort.Slice(all, func(i, j int) bool { return core.QualName(all[i]) < core.QualName(all[j]) })
	checkLockReleased(c, all)
	checkLoopCarriedCopy(c, all)
	checkNilFuncValues(c, all)
	checkTokenizerScans(c)
}

// checkTokenizerScans (super-linear shape): a bufio.Scanner split function is called once per token with the whole
// unconsumed buffer. Its work must be proportional to the bytes it consumes. A loop that searches the same
// (loop-invariant) buffer once per iteration - one full scan per marker, keeping the earliest match - costs the whole
// buffered remainder for every token, however short the token: many short tokens behind one long one are quadratic.
func checkTokenizerScans(c *Ctx) {
	P, R := c.P, c.R
	// split functions: closures handed to (*bufio.Scanner).Split anywhere in the module
	var splits []*ssa.Function
	for _, fn := range P.ModuleFuncs() {
		core.EachInstr(fn, func(in ssa.Instruction) {
			call, ok := in.(*ssa.Call)
			if !ok || call.Call.StaticCallee() == nil || core.FullName(call.Call.StaticCallee()) != "(*bufio.Scanner).Split" {
				return
			}
			if t := funcValueTarget(call.Call.Args[1], 0); t != nil {
				splits = append(splits, t)
			}
		})
	}
	if !R.Anchor(len(splits) >= 1, "C07.cplx", "a bufio.Scanner split function in the module (json.NewCommentReader)") {
		return
	}
	searches := map[string]bool{"bytes.Index": true, "bytes.IndexByte": true, "bytes.IndexAny": true, "bytes.IndexRune": true, "bytes.LastIndex": true,
		"bytes.Contains": true, "bytes.Count": true, "strings.Index": true, "strings.IndexByte": true, "strings.IndexAny": true, "strings.Contains": true, "strings.Count": true}
	nCalls := 0
	for _, sp := range splits {
		var bad []string
		for fn := range P.Reachable(sp) {
			if fn.Blocks == nil {
				continue
			}
			for _, hdr := range fn.Blocks {
				isHeader := false
				for _, pr := range hdr.Preds {
					if hdr.Dominates(pr) {
						isHeader = true
					}
				}
				if !isHeader {
					continue
				}
				inLoop := loopBlocks(fn, hdr)
				for b := range inLoop {
					for _, in := range b.Instrs {
						call, ok := in.(*ssa.Call)
						if !ok || call.Call.StaticCallee() == nil || !searches[core.FullName(call.Call.StaticCallee())] {
							continue
						}
						nCalls++
						// loop-invariant haystack: defined outside the loop (a parameter, or an instruction of a block outside)
						hay := core.StripConv(call.Call.Args[0])
						invariant := true
						if hi, isInstr := hay.(ssa.Instruction); isInstr && inLoop[hi.Block()] {
							invariant = false
						}
						if invariant {
							bad = append(bad, fmt.Sprintf("%s at %s scans the loop-invariant buffer %s on every iteration", core.CalleeName(&call.Call), P.InstrPos(call), describeOperand(hay)))
						}
					}
				}
			}
		}
		sort.Strings(bad)
		R.Check(len(bad) == 0, "C07.cplx", core.QualName(sp)+"|scan-proportional-to-consumption", P.Pos(sp.Pos()),
			"no function of the tokenizer re-scans an unchanged buffer inside a loop",
			"the tokenizer "+strings.Join(bad, "; ")+": every token costs a scan of the whole buffered remainder for each marker, only the earliest match is used - many short tokens behind a long one take quadratic time", nil)
	}
	R.Extra["tokenizer_search_calls_in_loops"] = nCalls
}

func describeOperand(v ssa.Value) string {
	if p := core.Path(v); !strings.HasPrefix(p, "%") {
		return p
	}
	return v.Name()
}

// checkNilFuncValues: a function value selected by a switch/if without a default stays nil on the unmatched path; when
// the selector is message-controlled (a key size, an algorithm) its later call is a nil dereference. Every merge (phi)
// of function type that has a nil edge must have all its uses guarded by a nil test.
func checkNilFuncValues(c *Ctx, fns []*ssa.Function) {
	P, R := c.P, c.R
	counts := map[string]int{}
	examined := 0
	for _, fn := range fns {
		core.EachInstr(fn, func(in ssa.Instruction) {
			phi, ok := in.(*ssa.Phi)
			if !ok {
				return
			}
			if _, isSig := phi.Type().Underlying().(*types.Signature); !isSig {
				return
			}
			examined++
			hasNil := false
			for _, e := range phi.Edges {
				if core.IsNilConst(e) {
					hasNil = true
				}
			}
			if !hasNil {
				return
			}
			key := ordKey(counts, core.QualName(fn)+"|func-value "+phi.Comment)
			var bad ssa.Instruction
			for _, u := range *phi.Referrers() {
				if _, isDbg := u.(*ssa.DebugRef); isDbg {
					continue
				}
				if bo, isCmp := u.(*ssa.BinOp); isCmp && (bo.Op == token.EQL || bo.Op == token.NEQ) {
					continue
				}
				guarded := false
				for _, a := range core.GuardAtoms(u.Block()) {
					if a.LV == ssa.Value(phi) && a.Op == "!=" && (a.R == "nil" || strings.HasPrefix(a.R, "nil:")) {
						guarded = true
					}
				}
				if !guarded {
					bad = u
				}
			}
			if bad == nil {
				R.OK("C07.nil", key, P.InstrPos(phi), "every use of the possibly-nil function value is behind a nil test")
			} else {
				R.Fail("C07.nil", key, P.InstrPos(bad), fmt.Sprintf("the function value %s is nil on a path through the selection at %s (no case matched) and is used here without a nil test: calling it panics", phi.Comment, P.InstrPos(phi)), nil)
			}
		})
	}
	R.Extra["func_typed_merges_examined"] = examined

	// function-typed struct fields that may be nil (the module itself tests them against nil somewhere): a call through
	// such a field must be behind "field != nil", directly or through a boolean field that is only ever set to a
	// non-false value under that test (c.readDecompress is set only when a decompressor was negotiated)
	fieldOf := func(v ssa.Value) *types.Var {
		ld, ok := v.(*ssa.UnOp)
		if !ok || ld.Op != token.MUL {
			return nil
		}
		fa, ok := ld.X.(*ssa.FieldAddr)
		if !ok {
			return nil
		}
		return core.FieldVar(fa)
	}
	// nullable: the module tests the field against nil somewhere, or no store to it is unconditional (every store sits
	// behind some condition, so an object can exist without it)
	nullable := map[*types.Var]bool{}
	uncond := map[*types.Var]bool{}
	stored := map[*types.Var]bool{}
	mods := P.ModuleFuncs()
	for _, fn := range mods {
		core.EachInstr(fn, func(in ssa.Instruction) {
			switch x := in.(type) {
			case *ssa.BinOp:
				if (x.Op != token.EQL && x.Op != token.NEQ) || !core.IsNilConst(x.Y) {
					return
				}
				if f := fieldOf(x.X); f != nil {
					if _, isSig := f.Type().Underlying().(*types.Signature); isSig {
						nullable[f] = true
					}
				}
			case *ssa.Store:
				fa, ok := x.Addr.(*ssa.FieldAddr)
				if !ok {
					return
				}
				f := core.FieldVar(fa)
				if f == nil {
					return
				}
				if _, isSig := f.Type().Underlying().(*types.Signature); !isSig || core.IsNilConst(x.Val) {
					return
				}
				stored[f] = true
				if len(core.Guards(x.Block())) == 0 {
					uncond[f] = true
				}
			}
		})
	}
	for f := range stored {
		if !uncond[f] && !f.Exported() {
			nullable[f] = true
		}
	}
	guardedByField := func(b *ssa.BasicBlock, f *types.Var) bool {
		for _, a := range core.GuardAtoms(b) {
			if a.Op == "!=" && (a.R == "nil" || strings.HasPrefix(a.R, "nil:")) && fieldOf(a.LV) == f {
				return true
			}
		}
		return false
	}
	counts2 := map[string]int{}
	for _, fn := range fns {
		core.EachInstr(fn, func(in ssa.Instruction) {
			call, ok := in.(*ssa.Call)
			if !ok || call.Call.IsInvoke() {
				return
			}
			f := fieldOf(call.Call.Value)
			if f == nil || !nullable[f] {
				return
			}
			key := ordKey(counts2, core.QualName(fn)+"|call through "+f.Name())
			if guardedByField(call.Block(), f) {
				R.OK("C07.nil", key, P.InstrPos(call), "the call is behind "+f.Name()+" != nil")
				return
			}
			// a boolean flag guard whose every non-false store is behind field != nil
			okFlag := ""
			for _, a := range core.GuardAtoms(call.Block()) {
				flag := fieldOf(a.LV)
				if flag == nil || a.Op != "is" {
					continue
				}
				if bt, isB := flag.Type().Underlying().(*types.Basic); !isB || bt.Kind() != types.Bool {
					continue
				}
				all, n := true, 0
				for _, g := range mods {
					core.EachInstr(g, func(in2 ssa.Instruction) {
						st, isSt := in2.(*ssa.Store)
						if !isSt {
							return
						}
						fa, isFA := st.Addr.(*ssa.FieldAddr)
						if !isFA || core.FieldVar(fa) != flag {
							return
						}
						if k, isK := core.ConstInt(st.Val); isK && k == 0 {
							return
						}
						if c, isC := st.Val.(*ssa.Const); isC && c.Value != nil && c.Value.String() == "false" {
							return
						}
						n++
						if !guardedByField(st.Block(), f) {
							all = false
						}
					})
				}
				if all && n > 0 {
					okFlag = flag.Name()
				}
			}
			if okFlag != "" {
				R.OK("C07.nil", key, P.InstrPos(call), "the call is behind the flag "+okFlag+", which is only set under "+f.Name()+" != nil")
			} else {
				R.Fail("C07.nil", key, P.InstrPos(call), "the function field "+f.Name()+" can be nil (the code tests it elsewhere) and is called here without a test that implies it is set: a message can make this call a nil dereference", nil)
			}
		})
	}
}

// checkLockReleased (part of "always returns"): a mutex taken while decoding is released on every path to a return
// of the function that took it - otherwise the next message that needs it never returns.
func checkLockReleased(c *Ctx, fns []*ssa.Function) {
	checkLockReleasedRule(c, "C07.term", "the next decode that needs it never returns", fns)
}

// checkLockReleasedRule is the same obligation under another rule id (the transaction lock of C04, the writer lock of C18).
func checkLockReleasedRule(c *Ctx, rule, consequence string, fns []*ssa.Function) {
	P, R := c.P, c.R
	lockName := func(cc *ssa.CallCommon) (string, ssa.Value) {
		f := cc.StaticCallee()
		if f == nil || f.Pkg == nil || f.Pkg.Pkg.Path() != "sync" || len(cc.Args) == 0 {
			return "", nil
		}
		return f.Name(), cc.Args[0]
	}
	counts := map[string]int{}
	n := 0
	for _, fn := range fns {
		core.EachInstr(fn, func(in ssa.Instruction) {
			call, ok := in.(*ssa.Call)
			if !ok {
				return
			}
			name, mu := lockName(&call.Call)
			if name != "Lock" && name != "RLock" {
				return
			}
			want := "Unlock"
			if name == "RLock" {
				want = "RUnlock"
			}
			mp := core.Path(mu)
			n++
			key := ordKey(counts, core.QualName(fn)+"|"+name+"("+trimRoot(mp)+")")
			releases := func(x ssa.Instruction) bool {
				var cc *ssa.CallCommon
				switch y := x.(type) {
				case *ssa.Call:
					cc = &y.Call
				case *ssa.Defer:
					cc = &y.Call
				}
				if cc == nil {
					return false
				}
				nm, m2 := lockName(cc)
				return nm == want && core.Path(m2) == mp
			}
			// a deferred release registered before the acquisition covers every exit as well
			for _, b := range fn.Blocks {
				for _, x := range b.Instrs {
					if d, isD := x.(*ssa.Defer); isD && releases(d) && (b.Dominates(call.Block()) && (b != call.Block() || core.Precedes(d, call))) {
						R.OK(rule, key, P.InstrPos(call), "released by a deferred "+want+" registered before the acquisition")
						return
					}
				}
			}
			var bad *ssa.Return
			seen := map[*ssa.BasicBlock]bool{}
			var walk func(b *ssa.BasicBlock, from int)
			walk = func(b *ssa.BasicBlock, from int) {
				if bad != nil {
					return
				}
				for _, x := range b.Instrs[from:] {
					if releases(x) {
						return
					}
					if r, isR := x.(*ssa.Return); isR {
						bad = r
						return
					}
				}
				for _, s := range b.Succs {
					if !seen[s] {
						seen[s] = true
						walk(s, 0)
					}
				}
			}
			walk(call.Block(), core.InstrIndex(call)+1)
			if bad == nil {
				R.OK(rule, key, P.InstrPos(call), "every path from the acquisition to a return releases it ("+want+" or a deferred "+want+")")
			} else {
				R.Fail(rule, key, P.InstrPos(call), fmt.Sprintf("the mutex %s taken here is still held at the return at %s: %s", trimRoot(mp), P.InstrPos(bad), consequence), nil)
			}
		})
	}
	if rule == "C07.term" {
		R.Extra["mutex_acquisitions_in_decoder_reach"] = n
	}
}

// checkLoopCarriedCopy (super-linear shape): a loop must not rebuild its loop-carried string or slice by copying it
// (s = s[:i] + s[j:], x = append(x[:i], x[j:]...)) once per iteration - each iteration is then linear in the input and
// the loop quadratic.
func checkLoopCarriedCopy(c *Ctx, fns []*ssa.Function) {
	P, R := c.P, c.R
	counts := map[string]int{}
	nLoops := 0
	for _, fn := range fns {
		for _, hdr := range fn.Blocks {
			isHeader := false
			for _, pr := range hdr.Preds {
				if hdr.Dominates(pr) {
					isHeader = true
				}
			}
			if !isHeader {
				continue
			}
			nLoops++
			inLoop := loopBlocks(fn, hdr)
			bad := ""
			for _, in := range hdr.Instrs {
				phi, ok := in.(*ssa.Phi)
				if !ok {
					break
				}
				bt, isStr := phi.Type().Underlying().(*types.Basic)
				_, isSl := phi.Type().Underlying().(*types.Slice)
				if !(isSl || (isStr && bt.Info()&types.IsString != 0)) {
					continue
				}
				for i, pr := range hdr.Preds {
					if !inLoop[pr] {
						continue
					}
					if w := rebuiltFrom(phi.Edges[i], phi, 0); w != "" {
						bad = phi.Comment + ": " + w
					}
				}
			}
			key := ordKey(counts, core.QualName(fn)+"|loop")
			if bad != "" {
				R.Fail("C07.cplx", key+"|no-loop-carried-copy", P.Pos(hdr.Instrs[0].Pos()), "the loop rebuilds its loop-carried value by copying it on every iteration ("+bad+"): each iteration is linear in the input, the loop quadratic", nil)
			}
		}
	}
	R.Check(nLoops >= 20, "C07.cplx", "decoder-reach|loops|no-loop-carried-copy", "-",
		fmt.Sprintf("none of the %d loops in the %d module functions reachable from the decoder entry points rebuilds its loop-carried string/slice by concatenation", nLoops, len(fns)),
		"fewer loops than confirmed by hand were analysed", nil)
}

// rebuiltFrom: v is a concatenation (string +, append of a spread slice) one of whose operands is a piece of phi.
func rebuiltFrom(v ssa.Value, phi *ssa.Phi, d int) string {
	if d > 6 {
		return ""
	}
	piece := func(x ssa.Value) bool {
		for i := 0; i < 4; i++ {
			x = core.StripConv(x)
			if x == ssa.Value(phi) {
				return true
			}
			sl, ok := x.(*ssa.Slice)
			if !ok {
				return false
			}
			x = sl.X
		}
		return false
	}
	switch x := core.StripConv(v).(type) {
	case *ssa.BinOp:
		if x.Op == token.ADD {
			if _, isStr := x.Type().Underlying().(*types.Basic); isStr && (piece(x.X) || piece(x.Y)) {
				return "string concatenation with a piece of itself"
			}
		}
	case *ssa.Call:
		if b, ok := x.Call.Value.(*ssa.Builtin); ok && b.Name() == "append" && len(x.Call.Args) == 2 {
			// append(head, tail...) where both are pieces of the carried value (removal of an element by copying the tail)
			if piece(x.Call.Args[0]) && piece(x.Call.Args[1]) {
				if sl, isSl := core.StripConv(x.Call.Args[1]).(*ssa.Slice); isSl && sl.Low != nil {
					return "append of its own tail onto its own head"
				}
			}
		}
	case *ssa.Phi:
		for _, e := range x.Edges {
			if e != ssa.Value(phi) {
				if w := rebuiltFrom(e, phi, d+1); w != "" {
					return w
				}
			}
		}
	}
	return ""
}

// shapeContract: contracts of the standard library recognised by the shape of the site, wherever it stands.
func shapeContract(site core.BoundSite) string {
	sl, ok := site.In.(*ssa.Slice)
	if !ok {
		return ""
	}
	// b[:n] with n, _ := r.Read(b): the io.Reader contract 0 <= n <= len(b)
	if sl.Low == nil && sl.High != nil {
		if ex, isEx := core.StripConv(sl.High).(*ssa.Extract); isEx && ex.Index == 0 {
			if call, isCall := ex.Tuple.(*ssa.Call); isCall {
				name := core.CalleeName(&call.Call)
				isRead := name == "(*bufio.Reader).Read" || (call.Call.IsInvoke() && call.Call.Method.Name() == "Read")
				args := call.Call.Args
				if isRead && len(args) >= 1 && sameValue(args[len(args)-1], sl.X) {
					return "io.Reader contract of " + name + ": 0 <= n <= len(b)"
				}
			}
		}
	}
	return ""
}

// advanceContract discharges p[X.Size():] when it is dominated by a successful X.UnmarshalBinary(p) on the same
// slice value (contract A.3: a nil error implies X.Size() <= len(p); guaranteed by C05.consumed).
func advanceContract(site core.BoundSite) string {
	sl, ok := site.In.(*ssa.Slice)
	if !ok || sl.Low == nil || sl.High != nil {
		return ""
	}
	recvOf := func(call *ssa.Call) (ssa.Value, string, ssa.Value) {
		if call.Call.IsInvoke() {
			var arg ssa.Value
			if len(call.Call.Args) > 0 {
				arg = call.Call.Args[0]
			}
			return call.Call.Value, call.Call.Method.Name(), arg
		}
		if f := call.Call.StaticCallee(); f != nil && f.Signature.Recv() != nil && len(call.Call.Args) > 0 {
			var arg ssa.Value
			if len(call.Call.Args) > 1 {
				arg = call.Call.Args[1]
			}
			return call.Call.Args[0], f.Name(), arg
		}
		return nil, "", nil
	}
	// the amount: X.Size(), a helper returning the decoded size of X, or - written in place - a selection over the
	// dynamic type of X between X.Size() and the byte count a container recorded (k + X.field)
	rootOf := func(v ssa.Value) ssa.Value {
		for i := 0; i < 8; i++ {
			switch x := v.(type) {
			case *ssa.TypeAssert:
				v = x.X
			case *ssa.Extract:
				v = x.Tuple
			case *ssa.FieldAddr:
				v = x.X
			case *ssa.UnOp:
				v = x.X
			case *ssa.ChangeInterface:
				v = x.X
			case *ssa.MakeInterface:
				v = x.X
			default:
				return v
			}
		}
		return v
	}
	helper := ""
	var sizeOf func(v ssa.Value, d int) ssa.Value
	sizeOf = func(v ssa.Value, d int) ssa.Value {
		if d > 4 {
			return nil
		}
		switch x := core.StripConv(v).(type) {
		case *ssa.Call:
			if h := x.Call.StaticCallee(); h != nil && h.Signature.Recv() == nil && len(x.Call.Args) == 1 && isSizeHelper(h) {
				helper = " through " + core.QualName(h)
				return x.Call.Args[0]
			}
			if r, name, _ := recvOf(x); name == "Size" && r != nil {
				if d == 0 {
					return r
				}
				return rootOf(r)
			}
		case *ssa.BinOp:
			k, isK := core.ConstInt(x.X)
			ld, isLd := x.Y.(*ssa.UnOp)
			if x.Op == token.ADD && isK && k >= 0 && isLd && ld.Op == token.MUL {
				if _, isField := ld.X.(*ssa.FieldAddr); isField {
					return rootOf(ld.X)
				}
			}
		case *ssa.Phi:
			var root ssa.Value
			for _, e := range x.Edges {
				r := sizeOf(e, d+1)
				if r == nil || (root != nil && r != root) {
					return nil
				}
				root = r
			}
			if root != nil {
				helper = " (selected by the dynamic type, in place)"
			}
			return root
		}
		return nil
	}
	recv := sizeOf(sl.Low, 0)
	if recv == nil {
		return ""
	}
	// the guarantee side of the contract: AMF0 values (C05.consumed) or a composite whose Size() is covered by its decoder
	if why := sizeGuarantee(recv); why == "" {
		return ""
	} else {
		helper += "; " + why
	}
	rp := core.Path(recv)
	fn := site.Fn
	found := ""
	core.EachInstr(fn, func(in ssa.Instruction) {
		uc, ok := in.(*ssa.Call)
		if !ok {
			return
		}
		r2, n2, arg := recvOf(uc)
		if n2 != "UnmarshalBinary" || r2 == nil || core.Path(r2) != rp || arg == nil || !core.Precedes(uc, sl) {
			return
		}
		if !sameSliceValue(arg, sl.X) {
			return
		}
		// the slice executes only after the decode's error was found nil
		for _, a := range core.GuardAtoms(sl.Block()) {
			if a.Op != "==" || !(a.R == "nil" || strings.HasPrefix(a.R, "nil:")) {
				continue
			}
			if a.LV == ssa.Value(uc) || derivesFrom(a.LV, uc) || storedThenLoaded(uc, a.LV) {
				found = "contract: " + core.Path(recv) + ".UnmarshalBinary succeeded on this very slice, so Size()" + helper + " <= len (C05.consumed, incl. nested containers)"
			}
		}
	})
	return found
}

// sizeGuaranteeCheck is installed by runC07: it decides, for a composite (non-AMF0) codec type, whether a successful
// UnmarshalBinary implies Size() <= bytes consumed, and reports the obligation once per type.
var sizeGuaranteeCheck func(T *types.Named) bool

// sizeGuarantee: who guarantees "UnmarshalBinary(p) == nil  =>  Size() <= len(p)" for this receiver.
func sizeGuarantee(recv ssa.Value) string {
	t := recv.Type()
	if pt, ok := t.Underlying().(*types.Pointer); ok {
		t = pt.Elem()
	}
	n, ok := t.(*types.Named)
	if !ok {
		return ""
	}
	if n.Obj().Pkg() != nil && strings.HasSuffix(n.Obj().Pkg().Path(), "/amf0") {
		return "AMF0 value"
	}
	if sizeGuaranteeCheck != nil && sizeGuaranteeCheck(n) {
		return "composite " + core.TypeNameOf(n.Obj()) + ": every member Size() counts is decoded or cleared on every successful decode"
	}
	return ""
}

// sizeCoveredByDecode: T.Size() is a sum of member Size() calls only, and for each such member every path of
// T.UnmarshalBinary to a return that can carry a nil error passes a successful member.UnmarshalBinary or stores nil
// into the member (so a member left over from the constructor is never counted without having been consumed).
func sizeCoveredByDecode(P *core.Program, sz, um *ssa.Function) (bool, string) {
	calls := memberCalls(sz, "Size")
	allowed := map[ssa.Value]bool{}
	for _, mc := range calls {
		allowed[mc.call] = true
	}
	var sumOnly func(v ssa.Value, d int) bool
	sumOnly = func(v ssa.Value, d int) bool {
		if d > 12 {
			return false
		}
		switch x := v.(type) {
		case *ssa.Const:
			k, ok := core.ConstInt(x)
			return ok && k == 0
		case *ssa.Call:
			return allowed[x]
		case *ssa.BinOp:
			return x.Op == token.ADD && sumOnly(x.X, d+1) && sumOnly(x.Y, d+1)
		case *ssa.Phi:
			for _, e := range x.Edges {
				if !sumOnly(e, d+1) {
					return false
				}
			}
			return true
		}
		return false
	}
	for _, r := range core.Returns(sz) {
		if len(r.Results) != 1 || !sumOnly(r.Results[0], 0) {
			return false, "Size() of " + core.QualName(sz) + " is not a plain sum of member sizes"
		}
	}
	if len(calls) == 0 {
		return false, "Size() of " + core.QualName(sz) + " counts no member"
	}
	ei := core.ErrResultIndex(um)
	if ei < 0 {
		return false, "decoder returns no error"
	}
	failure := func(r *ssa.Return) bool { return freshErrorValue(core.ReturnOperand(r, ei)) }
	for _, mc := range calls {
		m := mc.path
		through := func(in ssa.Instruction) bool {
			switch x := in.(type) {
			case *ssa.Call:
				for _, u := range memberCallsOf(x, "UnmarshalBinary") {
					if u == m {
						return true
					}
				}
			case *ssa.Store:
				if core.IsNilConst(x.Val) && trimRoot(core.Path(x.Addr)) == m {
					return true
				}
			}
			return false
		}
		ok, ret := core.MustPassThrough(um.Blocks[0], through, func(r *ssa.Return) bool { return !failure(r) })
		if !ok {
			return false, fmt.Sprintf("Size() counts member %s, but %s can succeed (return at %s) without decoding or clearing it: a value left by the constructor is counted although no byte of it was consumed", m, core.QualName(um), P.InstrPos(ret))
		}
	}
	return true, ""
}

// memberCallsOf: the receiver-relative member path of a call to the named method, if it is one.
func memberCallsOf(call *ssa.Call, meth string) []string {
	var recv ssa.Value
	name := ""
	if call.Call.IsInvoke() {
		recv, name = call.Call.Value, call.Call.Method.Name()
	} else if f := call.Call.StaticCallee(); f != nil && f.Signature.Recv() != nil && len(call.Call.Args) > 0 {
		recv, name = call.Call.Args[0], f.Name()
	}
	if name != meth || recv == nil {
		return nil
	}
	p := core.Path(recv)
	if i := strings.Index(p, "."); i >= 0 {
		return []string{p[i+1:]}
	}
	return nil
}

// isSizeHelper: a module function of one interface parameter whose every result is either the parameter's Size()
// or a constant header length plus a field of the parameter's concrete container type (the byte count its decode
// recorded). That the recorded count agrees with Size() is what C05.consumed establishes on nested containers.
func isSizeHelper(h *ssa.Function) bool {
	if !core.InModule(h) || len(h.Params) != 1 || h.Signature.Results().Len() != 1 || h.Blocks == nil {
		return false
	}
	param := h.Params[0]
	fromParam := func(v ssa.Value) bool {
		for i := 0; i < 6; i++ {
			switch x := v.(type) {
			case *ssa.Parameter:
				return x == param
			case *ssa.TypeAssert:
				v = x.X
			case *ssa.Extract:
				v = x.Tuple
			case *ssa.FieldAddr:
				v = x.X
			case *ssa.UnOp:
				v = x.X
			case *ssa.ChangeInterface:
				v = x.X
			case *ssa.MakeInterface:
				v = x.X
			default:
				return false
			}
		}
		return false
	}
	n := 0
	ok := true
	core.EachInstr(h, func(in ssa.Instruction) {
		ret, isRet := in.(*ssa.Return)
		if !isRet {
			return
		}
		n++
		switch x := ret.Results[0].(type) {
		case *ssa.Call:
			if x.Call.IsInvoke() && x.Call.Method.Name() != "Size" && fromParam(x.Call.Value) && core.CalleesOfSite != nil {
				// a method of the containers that hands back the recorded byte count (consumed()): every implementation
				// returns constants plus one field of its receiver
				cals := core.CalleesOfSite(x)
				good := len(cals) > 0
				for _, cal := range cals {
					if !recordedSizeMethod(cal) {
						good = false
					}
				}
				if !good {
					ok = false
				}
				break
			}
			if !(x.Call.IsInvoke() && x.Call.Method.Name() == "Size" && fromParam(x.Call.Value)) {
				ok = false
			}
		case *ssa.BinOp:
			k, isK := core.ConstInt(x.X)
			ld, isLd := x.Y.(*ssa.UnOp)
			if !(x.Op == token.ADD && isK && k >= 0 && isLd && ld.Op == token.MUL && fromParam(ld.X)) {
				ok = false
			}
		default:
			ok = false
		}
	})
	return ok && n > 0
}

// recordedSizeMethod: a module method whose single return is a sum of non-negative constants and one field of its receiver.
func recordedSizeMethod(f *ssa.Function) bool {
	if f == nil || !core.InModule(f) || len(f.Blocks) == 0 || len(f.Params) != 1 {
		return false
	}
	rets := core.Returns(f)
	if len(rets) != 1 || len(rets[0].Results) != 1 {
		return false
	}
	fields := 0
	var sum func(v ssa.Value, d int) bool
	sum = func(v ssa.Value, d int) bool {
		if d > 6 {
			return false
		}
		switch x := core.StripConv(v).(type) {
		case *ssa.Const:
			k, isK := core.ConstInt(x)
			return isK && k >= 0
		case *ssa.BinOp:
			return x.Op == token.ADD && sum(x.X, d+1) && sum(x.Y, d+1)
		case *ssa.UnOp:
			if fa, isFA := x.X.(*ssa.FieldAddr); isFA && x.Op == token.MUL {
				root := fa.X
				for {
					if f2, ok := root.(*ssa.FieldAddr); ok {
						root = f2.X
						continue
					}
					break
				}
				if root == ssa.Value(f.Params[0]) {
					fields++
					return true
				}
			}
		}
		return false
	}
	return sum(rets[0].Results[0], 0) && fields == 1
}

func sameSliceValue(a, b ssa.Value) bool {
	if sameValue(a, b) {
		return true
	}
	la, ok1 := core.StripConv(a).(*ssa.UnOp)
	lb, ok2 := core.StripConv(b).(*ssa.UnOp)
	if ok1 && ok2 && la.Op == token.MUL && lb.Op == token.MUL && core.Path(la.X) == core.Path(lb.X) {
		// two loads of the same captured cell: no store to it in between (same block, in order)
		if la.Block() == lb.Block() {
			i, j := core.InstrIndex(la), core.InstrIndex(lb)
			if i > j {
				i, j = j, i
			}
			for _, in := range la.Block().Instrs[i:j] {
				if st, ok := in.(*ssa.Store); ok && core.Path(st.Addr) == core.Path(la.X) {
					return false
				}
			}
			return true
		}
		return true
	}
	return false
}

// storedThenLoaded: v is a load of a cell into which the call's result was stored.
func storedThenLoaded(call *ssa.Call, v ssa.Value) bool {
	ld, ok := v.(*ssa.UnOp)
	if !ok || ld.Op != token.MUL {
		return false
	}
	for _, r := range *call.Referrers() {
		if st, ok := r.(*ssa.Store); ok && st.Val == ssa.Value(call) && core.Path(st.Addr) == core.Path(ld.X) {
			return true
		}
	}
	return false
}

// c07Contracts: sites discharged by a contract of DESIGN Appendix A.3, each with its reason.
var c07Contracts = map[string]string{
	"amf0.(*objectBase).unmarshal|slice#1":                "readOne returned a nil error, i.e. Discovery(p) accepted p, which requires len(p) >= 1 (Discovery's first test, proven by its own symbolic run)",
	"rtmp.(*Protocol).readMessagePayload|make#1":          "invariant of an attached unfinished message: len(Payload) < payloadLength (a changed length and a type-0 header mid-message are rejected: C02.reject; completed messages are detached: C02.complete), and min() with a chunk size >= 0",
	"https/jose/cipher.(*cbcAEAD).computeAuthTag|slice#4": "configuration, not input: the HMAC digest (SHA-256/384/512: 32/48/64 bytes, selected in NewCBCHMAC by the key size) is at least as long as the tag size stored beside it (16/24/32)",
	"https/jose/cipher.resize|slice#2":                    "head has n >= len(in) elements: every caller passes n = len(in) + k (checked: C07.bounds https/jose/cipher|resize|callers-pass-n>=len(in))",
	// JSON+ scanner: firstMatch returns (-1,-1) or an index into flags with 0 <= pos <= len(data)-len(flags[index]) (bytes.Index post-condition);
	// the four marker tables have equal length (C17.tables), and the (-1,-1) case returns before any use
	"json.NewCommentReader$1|index#1": "index returned by firstMatch is a valid index of startMatches (loop variable of range flags; -1 case returned earlier)",
	"json.NewCommentReader$1|index#2": "same index, tables of equal length (C17.tables)",
	"json.NewCommentReader$1|index#3": "same index, tables of equal length (C17.tables)",
	"json.NewCommentReader$1|index#4": "same index, tables of equal length (C17.tables)",
	"json.NewCommentReader$1|index#5": "same index, tables of equal length (C17.tables)",
	"json.NewCommentReader$1|index#6": "same index, tables of equal length (C17.tables)",
	"json.NewCommentReader$1|index#7": "same index, tables of equal length (C17.tables)",
	"json.NewCommentReader$1|index#8": "same index, tables of equal length (C17.tables)",
	"json.NewCommentReader$1|slice#1": "pos = bytes.Index(data, start) >= 0 implies pos+len(start) <= len(data)",
	"json.NewCommentReader$1|slice#2": "advance = pos+len(start)+extra+len(end) with extra = index of end inside data[pos+len(start):] (or len(left)-len(end) at EOF): advance <= len(data)",
	"json.NewCommentReader$1|slice#3": "pos = bytes.Index result, 0 <= pos <= len(data)",
}

func describeSite(s core.BoundSite) string {
	switch x := s.In.(type) {
	case *ssa.IndexAddr:
		return core.Path(x.X) + "[" + core.Path(x.Index) + "]"
	case *ssa.Index:
		return core.Path(x.X) + "[" + core.Path(x.Index) + "]"
	case *ssa.Slice:
		lo, hi := "", ""
		if x.Low != nil {
			lo = core.Path(x.Low)
		}
		if x.High != nil {
			hi = core.Path(x.High)
		}
		return core.Path(x.X) + "[" + lo + ":" + hi + "]"
	case *ssa.MakeSlice:
		return "make(len=" + core.Path(x.Len) + ")"
	}
	return s.In.String()
}

// checkResizeCallers: the caller-side fact the contract of cipher.resize|slice#2 relies on.
func checkResizeCallers(c *Ctx) {
	P, R := c.P, c.R
	rz := P.Func("https/jose/cipher", "resize")
	if !R.Anchor(rz != nil, "C07.bounds", "https/jose/cipher.resize") {
		return
	}
	n, bad := 0, ""
	for _, fn := range P.ModuleFuncs() {
		core.EachInstr(fn, func(in ssa.Instruction) {
			call, ok := in.(*ssa.Call)
			if !ok || call.Call.StaticCallee() != rz {
				return
			}
			n++
			// second argument: an unsigned sum one of whose terms is uint64(len(first argument))
			var hasLen func(v ssa.Value, d int) bool
			hasLen = func(v ssa.Value, d int) bool {
				if d > 4 {
					return false
				}
				switch x := v.(type) {
				case *ssa.Convert:
					return hasLen(x.X, d+1)
				case *ssa.BinOp:
					bt, isB := x.Type().Underlying().(*types.Basic)
					return x.Op == token.ADD && isB && bt.Info()&types.IsUnsigned != 0 && (hasLen(x.X, d+1) || hasLen(x.Y, d+1))
				case *ssa.Call:
					if b, ok := x.Call.Value.(*ssa.Builtin); ok && b.Name() == "len" {
						return sameValue(x.Call.Args[0], call.Call.Args[0])
					}
				}
				return false
			}
			if !hasLen(call.Call.Args[1], 0) {
				bad = P.InstrPos(call)
			}
		})
	}
	R.Check(bad == "" && n >= 2, "C07.bounds", "https/jose/cipher|resize|callers-pass-n>=len(in)", P.Pos(rz.Pos()),
		fmt.Sprintf("all %d callers pass n = uint64(len(in)) + k", n),
		"resize is called at "+bad+" with a size that is not len(in) plus something: head[len(in):] can be out of range", nil)
}

// checkFormatFact: the caller-side fact the readMessageHeader run relies on.
func checkFormatFact(c *Ctx) {
	P, R := c.P, c.R
	rm := P.Func("rtmp", "(*Protocol).ReadMessage")
	rb := P.Func("rtmp", "(*Protocol).readBasicHeader")
	rh := P.Func("rtmp", "(*Protocol).readMessageHeader")
	if !R.Anchor(rm != nil && rb != nil && rh != nil, "C07.bounds", "rtmp.ReadMessage/readBasicHeader/readMessageHeader") {
		return
	}
	// every call of readMessageHeader passes result #0 of readBasicHeader
	okCall := true
	n := 0
	for _, fn := range P.ModuleFuncs("rtmp") {
		core.EachInstr(fn, func(in ssa.Instruction) {
			call, ok := in.(*ssa.Call)
			if !ok || call.Call.StaticCallee() != rh {
				return
			}
			n++
			// the format argument (found by its name, wherever it stands in the parameter list) is result "format" of
			// readBasicHeader: result #0 of the call, or the format field of a struct the call hands back
			fi := core.ParamIndex(rh, "format")
			if fi < 0 || fi >= len(call.Call.Args) {
				okCall = false
				return
			}
			arg := core.StripConv(call.Call.Args[fi])
			if fld, isField := arg.(*ssa.Field); isField {
				if st, ok := fld.X.Type().Underlying().(*types.Struct); !ok || core.FieldVarName(st.Field(fld.Field)) != "format" {
					okCall = false
					return
				}
				arg = fld.X
			}
			// ... or of a local the struct was assigned to (var bh basicHeader; bh, err = readBasicHeader())
			if ld, isLoad := arg.(*ssa.UnOp); isLoad && ld.Op == token.MUL {
				if fa, isFA := ld.X.(*ssa.FieldAddr); isFA && core.FieldVarName(core.FieldVar(fa)) == "format" {
					if cell, isCell := fa.X.(*ssa.Alloc); isCell {
						var stored ssa.Value
						nst := 0
						for _, ref := range *cell.Referrers() {
							if st, ok := ref.(*ssa.Store); ok && st.Addr == ssa.Value(cell) {
								stored = st.Val
								nst++
							}
						}
						if nst == 1 {
							arg = core.StripConv(stored)
						}
					}
				}
			}
			ex, isEx := arg.(*ssa.Extract)
			if !isEx || ex.Index != 0 {
				okCall = false
				return
			}
			src, isCall := ex.Tuple.(*ssa.Call)
			if !isCall || src.Call.StaticCallee() != rb {
				okCall = false
			}
		})
	}
	// result #0 of readBasicHeader has only its two low bits set on every path
	e := abs.NewEngine(P)
	res := e.Run(rb, func(p *abs.Path) []abs.Value { rtmpPrep(e, P)(p); return e.AutoArgs(p, rb) })
	okBits := len(res) > 0
	for _, r := range res {
		if r.Path.Abort != "" || len(r.Ret) < 1 {
			okBits = false
			continue
		}
		if flat, grouped := flattenResults(r.Path, rb, r.Ret); grouped {
			r.Ret = flat
		}
		iv, isInt := r.Ret[0].(*abs.Int)
		if !isInt {
			okBits = false
			continue
		}
		for i := 2; i < len(iv.Bits); i++ {
			if iv.Bits[i].K != abs.B0 {
				okBits = false
			}
		}
	}
	R.Check(okCall && n > 0 && okBits, "C07.bounds", "rtmp|(*Protocol).readMessageHeader|format-is-2-bits", P.Pos(rh.Pos()),
		"the header format indexing the size table is the 2-bit value parsed by readBasicHeader at every call",
		"readMessageHeader can be called with a format that is not the 2-bit value from readBasicHeader: messageHeaderSizes[format] could be out of range", nil)
}

// checkEnums: every method of a named integer type is total over the type's range.
func checkEnums(c *Ctx, e *abs.Engine) {
	P, R := c.P, c.R
	for _, pkg := range []string{"aac", "flv", "avc", "amf0", "rtmp", "websocket", "https/crypto/ocsp", "https/jose"} {
		sp := P.SSAPkgs[pkg]
		if sp == nil {
			continue
		}
		var names []string
		for n := range sp.Members {
			names = append(names, n)
		}
		sort.Strings(names)
		for _, n := range names {
			t, ok := sp.Members[n].(*ssa.Type)
			if !ok {
				continue
			}
			named, ok := t.Type().(*types.Named)
			if !ok {
				continue
			}
			bt, ok := named.Underlying().(*types.Basic)
			if !ok || bt.Info()&types.IsInteger == 0 {
				continue
			}
			for _, recvT := range []types.Type{named, types.NewPointer(named)} {
				ms := P.SSA.MethodSets.MethodSet(recvT)
				for i := 0; i < ms.Len(); i++ {
					fn := P.SSA.MethodValue(ms.At(i))
					if fn == nil || fn.Synthetic != "" || len(fn.Blocks) == 0 {
						continue
					}
					if _, isPtr := fn.Signature.Recv().Type().(*types.Pointer); isPtr != (recvT != types.Type(named)) {
						continue
					}
					key := pkg + "|" + core.FuncName(fn) + "|total"
					res := e.Run(fn, func(p *abs.Path) []abs.Value { return e.AutoArgs(p, fn) })
					var problems []string
					for _, r := range res {
						if r.Path.Abort != "" {
							problems = append(problems, "undecided: "+r.Path.Abort)
						}
						if r.Path.Panics != "" {
							problems = append(problems, "panics for some value of the type: "+r.Path.Panics+pathSuffix(r))
						}
						for _, b := range unprovenBounds(r) {
							problems = append(problems, "index out of range for some value of the type: "+b+pathSuffix(r))
						}
					}
					R.Funcs[core.QualName(fn)] = true
					report(R, "C07.enum", key, P.Pos(fn.Pos()), fmt.Sprintf("total over the whole range of %s (%d paths)", bt.Name(), len(res)), "", dedup(problems), nil)
				}
			}
		}
	}
}

// checkPreconds: panicking preconditions of standard-library calls on peer data.
func checkPreconds(c *Ctx, reach map[*ssa.Function]bool) {
	P, R := c.P, c.R
	n := 0
	for fn := range reach {
		pk := core.ShortPkg(fn)
		if pk != "https/jose" && pk != "https/jose/cipher" {
			continue
		}
		core.EachInstr(fn, func(in ssa.Instruction) {
			call, ok := in.(*ssa.Call)
			if !ok || !call.Call.IsInvoke() {
				return
			}
			if call.Call.Method.Name() == "Open" && strings.HasSuffix(types.TypeString(call.Call.Value.Type(), nil), "cipher.AEAD") {
				n++
				nonce := call.Call.Args[1]
				ok2 := false
				for _, a := range core.GuardAtoms(call.Block()) {
					if a.Op != "==" {
						continue
					}
					l, r := a.L, a.R
					if strings.HasPrefix(r, "len(") {
						l, r = r, l
					}
					if l == "len("+core.Path(nonce)+")" && strings.Contains(r, "NonceSize") {
						ok2 = true
					}
				}
				R.Check(ok2, "C07.precond", fmt.Sprintf("%s|%s|aead-open-nonce-length#%d", pk, core.FuncName(fn), n), P.InstrPos(call),
					"the peer-supplied nonce length is checked against NonceSize() before AEAD.Open",
					"cipher.AEAD.Open is called with a peer-supplied nonce ("+core.Path(nonce)+") whose length is not checked: GCM panics with 'incorrect nonce length given to GCM' for an IV that is not 12 bytes", nil)
			}
		})
	}
	// cipher.BlockMode.CryptBlocks panics unless the input is a whole number of blocks
	nb := 0
	for fn := range reach {
		pk := core.ShortPkg(fn)
		if pk != "https/jose" && pk != "https/jose/cipher" {
			continue
		}
		core.EachInstr(fn, func(in ssa.Instruction) {
			call, ok := in.(*ssa.Call)
			if !ok || !call.Call.IsInvoke() || call.Call.Method.Name() != "CryptBlocks" {
				return
			}
			nb++
			src := call.Call.Args[1]
			guarded := false
			for _, g := range core.Guards(call.Block()) {
				a, isCmp := core.AtomOf(g)
				if !isCmp {
					continue
				}
				// len(src) % BlockSize() == 0   (any spelling: !(x%y > 0), x%y == 0)
				rem, isRem := core.StripConv(a.LV).(*ssa.BinOp)
				if !isRem || rem.Op != token.REM {
					continue
				}
				k, isK := core.ConstInt(a.RV)
				zero := isK && k == 0 && (a.Op == "==" || a.Op == "<=")
				if !zero {
					continue
				}
				if lc, isCall := core.StripConv(rem.X).(*ssa.Call); isCall {
					if bi, isB := lc.Call.Value.(*ssa.Builtin); isB && bi.Name() == "len" && sameValue(lc.Call.Args[0], src) {
						if bs, isBS := core.StripConv(rem.Y).(*ssa.Call); isBS && bs.Call.IsInvoke() && bs.Call.Method.Name() == "BlockSize" {
							guarded = true
						}
					}
				}
			}
			if !guarded && encryptSide(fn) {
				// the encrypt side pads its own plaintext to a whole number of blocks (padBuffer)
				guarded = paddedBefore(call, src)
			}
			R.Check(guarded, "C07.precond", fmt.Sprintf("%s|%s|cryptblocks-whole-blocks#%d", pk, core.FuncName(fn), nb), P.InstrPos(call),
				"the buffer handed to CryptBlocks is a whole number of cipher blocks (length tested against BlockSize(), or padded by this function)",
				"BlockMode.CryptBlocks is called on a buffer derived from the message without a test that its length is a multiple of BlockSize(): crypto/cipher panics with 'input not full blocks'", nil)
		})
	}
	if ku := P.Func("https/jose/cipher", "KeyUnwrap"); R.Anchor(ku != nil, "C07.precond", "https/jose/cipher.KeyUnwrap") {
		// abstract interpretation of the prologue: the make length is proven non-negative
		e := abs.NewEngine(P)
		res := e.Run(ku, func(p *abs.Path) []abs.Value { return e.AutoArgs(p, ku) })
		var problems []string
		seen := false
		for _, r := range res {
			for _, b := range r.Path.Bounds {
				if strings.HasPrefix(b.What, "make len") {
					seen = true
					if !b.Proven {
						problems = append(problems, "make([][]byte, n) with n = len(ciphertext)/8 - 1 can be negative ("+b.What+"): an empty or 1..7 byte encrypted key panics with 'makeslice: len out of range'")
					}
				}
			}
		}
		if !seen {
			problems = append(problems, "undecided: the make site was not reached by the abstract interpretation")
		}
		report(R, "C07.precond", "https/jose/cipher|KeyUnwrap|make-length", P.Pos(ku.Pos()), "the computed make length is proven non-negative", "", dedup(problems), nil)
	}
}

// encryptSide: the function produces ciphertext (Seal), its input is the caller's plaintext, not message bytes.
func encryptSide(fn *ssa.Function) bool { return fn.Name() == "Seal" }

// paddedBefore: src is the result of this package's padBuffer.
func paddedBefore(call *ssa.Call, src ssa.Value) bool {
	v := core.StripConv(src)
	for i := 0; i < 4; i++ {
		switch x := v.(type) {
		case *ssa.Call:
			if f := x.Call.StaticCallee(); f != nil && core.FnName(f) == "padBuffer" {
				return true
			}
			return false
		case *ssa.Slice:
			v = x.X
		case *ssa.Extract:
			v = x.Tuple
		default:
			return false
		}
	}
	return false
}

// checkNilJSON: pointer fields populated by encoding/json are tested before use.
func checkNilJSON(c *Ctx, reach map[*ssa.Function]bool) {
	P, R := c.P, c.R
	// nullable: pointer-typed fields of the wire/sanitised JOSE structs
	nullableOwners := map[string]bool{"rawJsonWebEncryption": true, "rawJsonWebSignature": true, "rawSignatureInfo": true, "rawRecipientInfo": true, "rawHeader": true,
		"JsonWebEncryption": true, "Signature": true, "recipientInfo": true}
	counts := map[string]int{}
	var fns []*ssa.Function
	for fn := range reach {
		if core.ShortPkg(fn) == "https/jose" {
			fns = append(fns, fn)
		}
	}
	sort.Slice(fns, func(i, j int) bool { return core.QualName(fns[i]) < core.QualName(fns[j]) })
	for _, fn := range fns {
		core.EachInstr(fn, func(in ssa.Instruction) {
			// a load of a nullable pointer field ...
			ld, ok := in.(*ssa.UnOp)
			if !ok || ld.Op != token.MUL {
				return
			}
			fa, ok := ld.X.(*ssa.FieldAddr)
			if !ok {
				return
			}
			fv := core.FieldVar(fa)
			if fv == nil {
				return
			}
			if _, isPtr := fv.Type().Underlying().(*types.Pointer); !isPtr {
				return
			}
			owner := ""
			if pt, ok := fa.X.Type().Underlying().(*types.Pointer); ok {
				if nt, ok := pt.Elem().(*types.Named); ok {
					owner = core.TypeNameOf(nt.Obj())
				}
			}
			if !nullableOwners[owner] {
				return
			}
			// ... that is dereferenced
			for _, use := range *ld.Referrers() {
				deref := ""
				switch u := use.(type) {
				case *ssa.FieldAddr:
					if u.X == ssa.Value(ld) {
						deref = "field " + fieldNameOf(u)
					}
				case *ssa.Call:
					if g := u.Call.StaticCallee(); g != nil && len(u.Call.Args) > 0 && u.Call.Args[0] == ssa.Value(ld) && g.Signature.Recv() != nil && core.InModule(g) {
						if len(g.Params) > 0 && derefsUnguarded(g.Params[0]) {
							deref = "method " + g.Name() + " (not nil-safe)"
						}
					}
				case *ssa.UnOp:
					if u.Op == token.MUL && u.X == ssa.Value(ld) {
						deref = "load"
					}
				}
				if deref == "" {
					continue
				}
				p := core.Path(ld)
				guarded := false
				for _, a := range core.GuardAtoms(use.Block()) {
					if a.Op == "!=" && (a.R == "nil" || strings.HasPrefix(a.R, "nil:")) && a.L == p {
						guarded = true
					}
				}
				// fields set unconditionally by the constructor of the sanitised object are not nullable on that path:
				// only the objects produced by parsing are in question, so constructors are exempt
				if core.FreshBase(fa) {
					continue
				}
				key := ordKey(counts, "https/jose|"+core.FuncName(fn)+"|"+owner+"."+core.FieldVarName(fv))
				if why, ok := c07NonNil[owner+"."+core.FieldVarName(fv)]; ok && !guarded {
					R.OK("C07.nil", key, P.InstrPos(use), "non-nil by construction: "+why)
					continue
				}
				R.Check(guarded, "C07.nil", key, P.InstrPos(use),
					p+" is tested against nil before "+deref,
					p+" is populated from the peer's JSON and may be nil, but it is used ("+deref+") without a nil test: a crafted object makes the parser or Verify/Decrypt panic with a nil pointer dereference", nil)
			}
		})
	}
}

// c07NonNil: pointer fields that every producer sets, with the reason (confirmed by reading).
var c07NonNil = map[string]string{}

func fieldNameOf(fa *ssa.FieldAddr) string {
	if fv := core.FieldVar(fa); fv != nil {
		return core.FieldVarName(fv)
	}
	return "?"
}

// checkPanics: explicit panics reachable from the entry points.
func checkPanics(c *Ctx, reach map[*ssa.Function]bool, roots []*ssa.Function) {
	P, R := c.P, c.R
	allowed := map[string]string{
		"websocket.(*Conn).NextReader": "deliberate misuse trap: panics only after 1000 reads on a connection that already reported a permanent error",
	}
	var fns []*ssa.Function
	for fn := range reach {
		fns = append(fns, fn)
	}
	sort.Slice(fns, func(i, j int) bool { return core.QualName(fns[i]) < core.QualName(fns[j]) })
	counts := map[string]int{}
	for _, fn := range fns {
		core.EachInstr(fn, func(in ssa.Instruction) {
			pn, ok := in.(*ssa.Panic)
			if !ok {
				return
			}
			if mi, isMI := pn.X.(*ssa.MakeInterface); isMI {
				if s, isS := core.ConstString(mi.X); isS && s == "blocking select matched no case" {
					return // synthetic, unreachable
				}
			}
			key := ordKey(counts, core.QualName(fn)+"|panic")
			if why, ok := allowed[core.QualName(fn)]; ok {
				R.OK("C07.panic", key, P.InstrPos(in), "listed exception: "+why)
				return
			}
			if why, ok := c07PanicGuards[core.QualName(fn)]; ok {
				R.OK("C07.panic", key, P.InstrPos(in), "guarded: "+why)
				return
			}
			path := ""
			for _, r := range roots {
				if cp := P.CallPath(r, fn); cp != nil {
					path = strings.Join(cp, " -> ")
					break
				}
			}
			R.Fail("C07.panic", key, P.InstrPos(in), "an explicit panic is reachable from a decoder entry point ("+path+")", nil)
		})
	}
}

// checkEphemeralKeyValidated: the guard the DeriveECDHES exception relies on.
func checkEphemeralKeyValidated(c *Ctx) {
	P, R := c.P, c.R
	fn := P.Func("https/jose", "(ecDecrypterSigner).decryptKey")
	if !R.Anchor(fn != nil, "C07.panic", "https/jose.(ecDecrypterSigner).decryptKey") {
		return
	}
	ok := false
	wrongCurve := ""
	core.EachInstr(fn, func(in ssa.Instruction) {
		call, isCall := in.(*ssa.Call)
		if !isCall || !call.Call.IsInvoke() || call.Call.Method.Name() != "IsOnCurve" {
			return
		}
		// the curve asked must be the recipient's (the private key's), the one DeriveECDHES computes on - not the
		// curve the message's own key claims
		if rp := core.Path(call.Call.Value); !strings.Contains(rp, "privateKey") {
			wrongCurve = rp
			return
		}
		for _, r := range *call.Referrers() {
			if iff, isIf := r.(*ssa.If); isIf {
				fail := iff.Block().Succs[1]
				for _, x := range fail.Instrs {
					if ret, isRet := x.(*ssa.Return); isRet && len(ret.Results) == 2 && !core.IsNilConst(ret.Results[1]) {
						ok = true
					}
				}
			}
		}
	})
	// DeriveECDHES is called from nowhere else on the decode side
	der := P.Func("https/jose/cipher", "DeriveECDHES")
	only := true
	if der != nil {
		if n := P.CallGraph().Nodes[der]; n != nil {
			for _, e := range n.In {
				cn := core.QualName(e.Caller.Func)
				if !strings.HasPrefix(cn, "https/jose.(ecDecrypterSigner).decryptKey") && !strings.Contains(cn, "genKey") && !strings.Contains(cn, "ecKeyGenerator") {
					only = false
				}
			}
		}
	}
	R.Check(ok && only, "C07.panic", "https/jose|(ecDecrypterSigner).decryptKey|ephemeral-key-validated", P.Pos(fn.Pos()),
		"the peer's ephemeral public key is checked to be on the private key's curve before key derivation (whose panics test exactly that)",
		"the peer's ephemeral key reaches DeriveECDHES without an on-curve check against the recipient's curve"+map[bool]string{true: " (the check asks " + wrongCurve + ", the key's own curve)", false: ""}[wrongCurve != ""]+": DeriveECDHES panics on a point that is not on the private key's curve", nil)
}

// c07PanicGuards: functions whose panic is unreachable for wire data, with the guard (confirmed by reading).
var c07PanicGuards = map[string]string{
	"https/jose.mustSerializeJSON":   "panics only if encoding/json cannot marshal a *rawHeader (a plain struct of strings and byte buffers: cannot fail); independent of the message bytes",
	"https/jose/cipher.DeriveECDHES": "both panics test the peer's ephemeral key against the curve; the only caller decryptKey rejects a key that is not on the private key's curve first (checked: C07.panic ...|ephemeral-key-validated)",
}

// checkCplx: inside a recursive decoder, no call into a different recursive traversal of the decoded subtree.
//
// D is the decode cycle (functions that reach unmarshal and are reached from it). Every call made from D, directly or
// through helper functions outside D, is resolved with the VTA call graph; the dynamic types a dominating failed
// type switch/assertion on the receiver rules out are removed. A remaining callee outside D that is itself recursive
// walks the element's subtree once per nesting level: quadratic in the depth.
func checkCplx(c *Ctx) {
	P, R := c.P, c.R
	um := P.Func("amf0", "(*objectBase).unmarshal")
	if !R.Anchor(um != nil, "C07.cplx", "amf0.(*objectBase).unmarshal") {
		return
	}
	fromUm := P.Reachable(um)
	inD := map[*ssa.Function]bool{}
	for f := range fromUm {
		if core.InModule(f) && P.Reachable(f)[um] {
			inD[f] = true
		}
	}
	for _, f := range core.WithClosures(um) {
		inD[f] = true
	}
	selfRec := map[*ssa.Function]bool{}
	isRec := func(f *ssa.Function) bool {
		v, ok := selfRec[f]
		if !ok {
			v = reachesSelf(P, f)
			selfRec[f] = v
		}
		return v
	}
	var bad []string
	visited := map[*ssa.Function]bool{}
	nSites := 0
	var walk func(f *ssa.Function, via string)
	walk = func(f *ssa.Function, via string) {
		if visited[f] || f.Blocks == nil {
			return
		}
		visited[f] = true
		core.EachInstr(f, func(in ssa.Instruction) {
			var cc *ssa.CallCommon
			switch x := in.(type) {
			case *ssa.Call:
				cc = &x.Call
			case *ssa.Defer:
				cc = &x.Call
			case *ssa.Go:
				cc = &x.Call
			}
			if cc == nil {
				return
			}
			excl := excludedTypes(in, cc)
			for _, cal := range P.Callees(in.(ssa.CallInstruction)) {
				if !core.InModule(cal) || inD[cal] {
					continue
				}
				if cc.IsInvoke() && cal.Signature.Recv() != nil {
					skip := false
					for _, t := range excl {
						if types.Identical(t, cal.Signature.Recv().Type()) {
							skip = true
						}
						// a failed assertion to an interface excludes every type that implements it
						if it, isI := t.Underlying().(*types.Interface); isI && types.Implements(cal.Signature.Recv().Type(), it) {
							skip = true
						}
					}
					if skip {
						continue
					}
				}
				nSites++
				if isRec(cal) {
					bad = append(bad, fmt.Sprintf("%s at %s%s", core.QualName(cal), P.InstrPos(in), via))
					continue
				}
				walk(cal, " (via "+core.QualName(cal)+")")
			}
		})
	}
	var ds []*ssa.Function
	for f := range inD {
		ds = append(ds, f)
	}
	sort.Slice(ds, func(i, j int) bool { return core.QualName(ds[i]) < core.QualName(ds[j]) })
	for _, f := range ds {
		walk(f, "")
	}
	sort.Strings(bad)
	R.Extra["cplx_decode_cycle_functions"] = len(ds)
	R.Extra["cplx_calls_resolved"] = nSites
	R.Check(len(bad) == 0 && len(ds) >= 4 && nSites >= 10, "C07.cplx", "amf0|(*objectBase).unmarshal|no-retraversal", P.Pos(um.Pos()),
		fmt.Sprintf("no function of the recursive decode cycle (%d functions, %d resolved calls) calls a second recursive traversal of a decoded subtree", len(ds), nSites),
		"the recursive container decoder calls the recursive "+strings.Join(bad, "; ")+" for every element: each nesting level re-walks its whole subtree, so decoding a deeply nested 64 KiB value is quadratic", nil)
}

// excludedTypes: the concrete types the receiver of an invoke cannot have at this site, because a failed comma-ok
// type assertion (type switch arm) on the same value dominates it.
func excludedTypes(in ssa.Instruction, cc *ssa.CallCommon) []types.Type {
	if !cc.IsInvoke() {
		return nil
	}
	var out []types.Type
	b := in.Block()
	for d := b.Idom(); d != nil; d = d.Idom() {
		if len(d.Instrs) == 0 {
			continue
		}
		iff, ok := d.Instrs[len(d.Instrs)-1].(*ssa.If)
		if !ok {
			continue
		}
		ex, ok := iff.Cond.(*ssa.Extract)
		if !ok || ex.Index != 1 {
			continue
		}
		ta, ok := ex.Tuple.(*ssa.TypeAssert)
		if !ok || !ta.CommaOk || ta.X != cc.Value {
			continue
		}
		fail := d.Succs[1]
		if fail != d.Succs[0] && len(fail.Preds) == 1 && fail.Dominates(b) {
			out = append(out, ta.AssertedType)
		}
	}
	return out
}

func reachesSelf(P *core.Program, f *ssa.Function) bool {
	n := P.CallGraph().Nodes[f]
	if n == nil {
		return false
	}
	seen := map[*ssa.Function]bool{}
	var walk func(g *ssa.Function) bool
	walk = func(g *ssa.Function) bool {
		gn := P.CallGraph().Nodes[g]
		if gn == nil {
			return false
		}
		for _, e := range gn.Out {
			if e.Callee.Func == f {
				return true
			}
			if !seen[e.Callee.Func] && core.InModule(e.Callee.Func) {
				seen[e.Callee.Func] = true
				if walk(e.Callee.Func) {
					return true
				}
			}
		}
		return false
	}
	return walk(f)
}

func reachesRecursive(P *core.Program, f *ssa.Function) bool {
	for g := range P.Reachable(f) {
		if reachesSelf(P, g) {
			return true
		}
	}
	return false
}

// checkTerm: every loop of the scoped decoder functions has a recognised variant.
func checkTerm(c *Ctx, fns []*ssa.Function) {
	P, R := c.P, c.R
	counts := map[string]int{}
	for _, fn := range fns {
		for _, b := range fn.Blocks {
			// loop headers: a block with a predecessor it dominates (back edge)
			isHeader := false
			for _, pr := range b.Preds {
				if b.Dominates(pr) {
					isHeader = true
				}
			}
			if !isHeader {
				continue
			}
			key := ordKey(counts, core.QualName(fn)+"|loop")
			why := loopVariant(P, fn, b)
			if why == "" {
				if w, ok := c07Loops[key]; ok {
					why = "listed: " + w
				}
			}
			R.Check(why != "", "C07.term", key, P.Pos(fn.Pos()), "loop terminates: "+why,
				"a loop in a decoder has no recognised progress argument (counter towards an invariant bound, shrinking cursor, transport read): it may spin on crafted input", nil)
		}
	}
}

// c07Loops: loops whose exit argument was established by reading, keyed like the obligations.
var c07Loops = map[string]string{
	"https/jose/cipher.(*concatKDF).Read|loop#1": "each round appends a fresh digest: copy(out[copied:], hash) moves copied forward by min(len(hash), remaining) >= 1 because a hash.Hash digest is never empty; the loop ends when out is full (output size is the configured key size, not input)",
	"amf0.(*objectBase).unmarshal|loop#1":        "every iteration calls readOne, which returns an error on a short slice or advances the captured cursor by u.Size() >= 2 bytes; the loop ends with the input or at the end marker",
	"amf0.(*objectBase).unmarshal|loop#2":        "same cursor progress as loop#1, and bounded by maxElems appended properties",
}

// loopBlocks is the natural loop of hdr: the header and every block that reaches one of its back edges without
// passing the header.
func loopBlocks(fn *ssa.Function, hdr *ssa.BasicBlock) map[*ssa.BasicBlock]bool {
	inLoop := map[*ssa.BasicBlock]bool{hdr: true}
	var work []*ssa.BasicBlock
	for _, pr := range hdr.Preds {
		if hdr.Dominates(pr) && !inLoop[pr] {
			inLoop[pr] = true
			work = append(work, pr)
		}
	}
	for len(work) > 0 {
		b := work[len(work)-1]
		work = work[:len(work)-1]
		for _, pr := range b.Preds {
			if !inLoop[pr] {
				inLoop[pr] = true
				work = append(work, pr)
			}
		}
	}
	return inLoop
}

// everyCyclePasses: every path from the loop header back to the header executes an instruction satisfying pred.
func everyCyclePasses(hdr *ssa.BasicBlock, inLoop map[*ssa.BasicBlock]bool, pred func(ssa.Instruction) bool) bool {
	seen := map[*ssa.BasicBlock]bool{}
	ok := true
	var walk func(b *ssa.BasicBlock)
	walk = func(b *ssa.BasicBlock) {
		if !ok || seen[b] {
			return
		}
		seen[b] = true
		for _, in := range b.Instrs {
			if pred(in) {
				return
			}
		}
		for _, s := range b.Succs {
			if s == hdr {
				ok = false
				return
			}
			if inLoop[s] {
				walk(s)
			}
		}
	}
	walk(hdr)
	return ok
}

// dependsOn: v is computed from root (through at most d value-preserving or arithmetic steps, len() and loads).
func dependsOn(v, root ssa.Value, d int) bool {
	if v == root {
		return true
	}
	if d <= 0 {
		return false
	}
	switch x := v.(type) {
	case *ssa.BinOp:
		return dependsOn(x.X, root, d-1) || dependsOn(x.Y, root, d-1)
	case *ssa.UnOp:
		return dependsOn(x.X, root, d-1)
	case *ssa.Convert:
		return dependsOn(x.X, root, d-1)
	case *ssa.ChangeType:
		return dependsOn(x.X, root, d-1)
	case *ssa.Slice:
		return dependsOn(x.X, root, d-1)
	case *ssa.Phi:
		for _, e := range x.Edges {
			if dependsOn(e, root, d-1) {
				return true
			}
		}
	case *ssa.Call:
		if b, ok := x.Call.Value.(*ssa.Builtin); ok && (b.Name() == "len" || b.Name() == "cap") {
			return dependsOn(x.Call.Args[0], root, d-1)
		}
	}
	return false
}

// exitTests: some conditional branch of the loop that leaves it tests a value computed from phi.
func exitTests(hdr *ssa.BasicBlock, inLoop map[*ssa.BasicBlock]bool, phi *ssa.Phi) bool {
	for b := range inLoop {
		if len(b.Instrs) == 0 {
			continue
		}
		iff, ok := b.Instrs[len(b.Instrs)-1].(*ssa.If)
		if !ok {
			continue
		}
		leaves := false
		for _, s := range b.Succs {
			if !inLoop[s] {
				leaves = true
			}
		}
		if leaves && dependsOn(iff.Cond, phi, 6) {
			return true
		}
	}
	return false
}

// shrunk: v is phi advanced by at least one element: a chain of s[k:] steps from phi with one k >= 1 (merges of such).
func shrunk(v ssa.Value, phi *ssa.Phi, strict bool, d int) bool {
	if d > 8 {
		return false
	}
	switch x := core.StripConv(v).(type) {
	case *ssa.Phi:
		if x == phi {
			return strict
		}
		if len(x.Edges) == 0 {
			return false
		}
		for _, e := range x.Edges {
			if !shrunk(e, phi, strict, d+1) {
				return false
			}
		}
		return true
	case *ssa.Slice:
		if x.Low == nil || x.High != nil {
			return false
		}
		if atLeastOne(x.Low) {
			return shrunk(x.X, phi, true, d+1)
		}
		if core.NonNegative(x.Low) {
			return shrunk(x.X, phi, strict, d+1)
		}
	}
	return false
}

func loopVariant(P *core.Program, fn *ssa.Function, hdr *ssa.BasicBlock) string {
	inLoop := loopBlocks(fn, hdr)
	var back []int // indexes of the header's predecessors that are back edges
	for i, pr := range hdr.Preds {
		if inLoop[pr] {
			back = append(back, i)
		}
	}
	// (0) range over a map or string: the iterator instruction in the header ends the loop
	for _, in := range hdr.Instrs {
		if _, ok := in.(*ssa.Next); ok {
			return "range over a finite map/string (iterator exhausted)"
		}
	}
	// (1) induction variable / (2) shrinking cursor: on EVERY back edge the header phi has moved, and an exit tests it
	for _, in := range hdr.Instrs {
		phi, ok := in.(*ssa.Phi)
		if !ok {
			break
		}
		up, down, cur := true, true, true
		for _, i := range back {
			e := phi.Edges[i]
			if !incrOf(e, phi, 0) {
				up = false
			}
			if bo, ok := e.(*ssa.BinOp); !(ok && bo.Op == token.SUB && bo.X == ssa.Value(phi) && constPositive(bo.Y)) {
				down = false
			}
			if !shrunk(e, phi, false, 0) {
				cur = false
			}
		}
		if len(back) == 0 || !exitTests(hdr, inLoop, phi) {
			continue
		}
		switch {
		case up:
			return "counter " + phi.Comment + " grows by a positive constant on every iteration and an exit tests it"
		case down:
			return "counter " + phi.Comment + " decreases by a positive constant on every iteration and an exit tests it"
		case cur:
			return "the cursor " + phi.Comment + " shrinks by at least one element on every iteration and an exit tests its length"
		}
	}
	// (3) transport progress: every iteration reads from the transport (which ends) or returns
	var isReadD func(in ssa.Instruction, d int) bool
	isReadD = func(in ssa.Instruction, d int) bool {
		call, ok := in.(*ssa.Call)
		if !ok {
			return false
		}
		name := core.CalleeName(&call.Call)
		switch {
		case strings.Contains(name, "ReadFull"), strings.Contains(name, "CopyN"), strings.Contains(name, "binary.Read"),
			strings.HasSuffix(name, ".Scan"), strings.HasSuffix(name, ".ReadMessage"), strings.HasSuffix(name, ".advanceFrame"),
			strings.HasSuffix(name, ".readBasicHeader"), strings.HasSuffix(name, ".Read"):
			return true
		}
		if call.Call.IsInvoke() && call.Call.Method.Name() == "Read" {
			return true
		}
		// a module helper that reads from the transport on every path to its returns (extracted loop body)
		if f := call.Call.StaticCallee(); f != nil && d < 3 && core.InModule(f) && len(f.Blocks) > 0 {
			ok, _ := core.MustPassThrough(f.Blocks[0], func(x ssa.Instruction) bool { return isReadD(x, d+1) }, nil)
			return ok
		}
		return false
	}
	isRead := func(in ssa.Instruction) bool { return isReadD(in, 0) }
	if everyCyclePasses(hdr, inLoop, isRead) {
		return "every iteration reads from the transport (ends with the input) or returns"
	}
	return ""
}

func constPositive(v ssa.Value) bool {
	k, ok := core.ConstInt(v)
	return ok && k > 0
}

// incrOf: e is phi plus a positive constant, possibly through inner phis/additions of non-negative constants.
func incrOf(e ssa.Value, phi *ssa.Phi, d int) bool {
	if d > 6 {
		return false
	}
	bo, ok := e.(*ssa.BinOp)
	if !ok || bo.Op != token.ADD {
		return false
	}
	k, isK := core.ConstInt(bo.Y)
	if !isK || k <= 0 {
		return false
	}
	return reachesPhi(bo.X, phi, d+1)
}

func reachesPhi(v ssa.Value, phi *ssa.Phi, d int) bool {
	if v == ssa.Value(phi) {
		return true
	}
	if d > 6 {
		return false
	}
	switch x := v.(type) {
	case *ssa.Phi:
		for _, e := range x.Edges {
			if !reachesPhi(e, phi, d+1) {
				return false
			}
		}
		return len(x.Edges) > 0
	case *ssa.BinOp:
		if x.Op == token.ADD {
			if k, ok := core.ConstInt(x.Y); ok && k >= 0 {
				return reachesPhi(x.X, phi, d+1)
			}
		}
	}
	return false
}

// atLeastOne: the value is a constant >= 1 or (non-negative + constant >= 1).
func atLeastOne(v ssa.Value) bool {
	if k, ok := core.ConstInt(v); ok {
		return k >= 1
	}
	x := v
	for {
		if cv, ok := x.(*ssa.Convert); ok {
			x = cv.X
			continue
		}
		break
	}
	if bo, ok := x.(*ssa.BinOp); ok && bo.Op == token.ADD {
		if k, ok := core.ConstInt(bo.Y); ok && k >= 1 && core.NonNegative(bo.X) {
			return true
		}
	}
	return false
}

func feedsHeaderPhi(v ssa.Value, hdr *ssa.BasicBlock) bool {
	for _, r := range *v.Referrers() {
		switch x := r.(type) {
		case *ssa.Phi:
			if x.Block() == hdr {
				return true
			}
			if feedsHeaderPhi(x, hdr) {
				return true
			}
		case *ssa.Slice:
			// a further advance of the same cursor (s[k:][n:])
			if x.X == v && x.Low != nil && feedsHeaderPhi(x, hdr) {
				return true
			}
		case *ssa.Store:
			// stored into a captured cell that the header reloads
			if x.Val == v {
				return true
			}
		}
	}
	return false
}

// checkDecodedMembersCounted: for every RTMP packet type, an optional member that Size() counts when it is non-nil is
// only ever set by the decoder on a path that goes on to decode it from the input. A member created first and decoded
// "if bytes remain" is counted by Size() although no byte of it was consumed (Size() > bytes decoded, and the packet
// re-marshals to more than it was decoded from).
func checkDecodedMembersCounted(c *Ctx, rule string) {
	P, R := c.P, c.R
	sp := P.SSAPkgs["rtmp"]
	if sp == nil {
		return
	}
	n := 0
	for _, T := range packetTypes(P) {
		ms := P.SSA.MethodSets.MethodSet(types.NewPointer(T))
		sSel, uSel := ms.Lookup(sp.Pkg, "Size"), ms.Lookup(sp.Pkg, "UnmarshalBinary")
		if sSel == nil || uSel == nil {
			continue
		}
		sz, um := P.SSA.MethodValue(sSel), P.SSA.MethodValue(uSel)
		if sz == nil || um == nil || sz.Blocks == nil || um.Blocks == nil || sz.Synthetic != "" || um.Synthetic != "" {
			continue
		}
		ei := core.ErrResultIndex(um)
		for _, mc := range memberCalls(sz, "Size") {
			// only members counted under a nil test (optional ones)
			optional := false
			for _, a := range core.GuardAtoms(mc.call.Block()) {
				if a.Op == "!=" && (a.R == "nil" || strings.HasPrefix(a.R, "nil:")) && trimRoot(a.L) == mc.path {
					optional = true
				}
			}
			if !optional {
				continue
			}
			n++
			bad := ""
			core.EachInstr(um, func(in ssa.Instruction) {
				st, ok := in.(*ssa.Store)
				if !ok || core.IsNilConst(st.Val) || trimRoot(core.Path(st.Addr)) != mc.path {
					return
				}
				// from the store on, every path to a return that can be a success decodes the member
				seen := map[*ssa.BasicBlock]bool{}
				var walk func(b *ssa.BasicBlock, from int)
				walk = func(b *ssa.BasicBlock, from int) {
					if bad != "" {
						return
					}
					for _, x := range b.Instrs[from:] {
						if call, isCall := x.(*ssa.Call); isCall {
							for _, u := range memberCallsOf(call, "UnmarshalBinary") {
								if u == mc.path {
									return
								}
							}
						}
						if s2, isSt := x.(*ssa.Store); isSt && core.IsNilConst(s2.Val) && trimRoot(core.Path(s2.Addr)) == mc.path {
							return
						}
						if ret, isRet := x.(*ssa.Return); isRet {
							if !freshErrorValue(core.ReturnOperand(ret, ei)) {
								bad = fmt.Sprintf("set at %s, success return at %s", P.InstrPos(st), P.InstrPos(ret))
							}
							return
						}
					}
					for _, s2 := range b.Succs {
						if !seen[s2] {
							seen[s2] = true
							walk(s2, 0)
						}
					}
				}
				walk(st.Block(), core.InstrIndex(st)+1)
			})
			R.Check(bad == "", rule, "rtmp|"+core.TypeNameOf(T.Obj())+"|"+mc.path+"|counted-only-when-decoded", P.Pos(um.Pos()),
				"the optional member "+mc.path+" is set by the decoder only on paths that decode it from the input",
				"the decoder sets the optional member "+mc.path+" and can then succeed without decoding it ("+bad+"): Size() counts it although none of its bytes were consumed, and the packet re-marshals to more bytes than it was decoded from", nil)
		}
	}
	R.Check(n >= 3, rule, "rtmp|packets|optional-members-examined", "-", fmt.Sprintf("%d optional members of packet types examined", n), "fewer optional members than confirmed by hand were found", nil)
}

// freshErrorValue: the operand is an error built on a failure path (this repository's errors.New/Errorf/Wrap*/WithMessage,
// fmt.Errorf, errors.New, or a concrete error value), as opposed to the result of a decode call that is known to be nil
// where it is returned.
func freshErrorValue(v ssa.Value) bool {
	switch x := v.(type) {
	case *ssa.MakeInterface:
		return true
	case *ssa.Call:
		f := x.Call.StaticCallee()
		if f == nil {
			return false
		}
		switch core.FullName(f) {
		case "fmt.Errorf", "errors.New":
			return true
		}
		return isModuleErrorsFn(f, map[string]bool{"errors.New": true, "errors.Errorf": true, "errors.Wrap": true, "errors.Wrapf": true, "errors.WithMessage": true, "errors.WithStack": true})
	}
	return false
}

// checkChunkSizeUnsigned (third part of the guarantee of readMessagePayload|make#1, "min() with a chunk size >= 0"):
// the size make() is given is a phi/min of the remaining length and the input chunk size; the chunk-size operand is
// non-negative because it is an unsigned field widened to int.  A signed field (or a sign-changing conversion on the
// way from the peer's Set Chunk Size) makes a size with the top bit set negative, and make panics.
func checkChunkSizeUnsigned(c *Ctx) {
	P, R := c.P, c.R
	fn := P.Func("rtmp", "(*Protocol).readMessagePayload")
	if !R.Anchor(fn != nil, "C07.bounds", "rtmp.(*Protocol).readMessagePayload") {
		return
	}
	var bad []string
	n := 0
	var nonNeg func(v ssa.Value, d int) bool
	nonNeg = func(v ssa.Value, d int) bool {
		if d > 8 {
			return false
		}
		switch x := v.(type) {
		case *ssa.Const:
			k, ok := core.ConstInt(x)
			return ok && k >= 0
		case *ssa.Convert:
			from, ok1 := x.X.Type().Underlying().(*types.Basic)
			to, ok2 := x.Type().Underlying().(*types.Basic)
			if !ok1 || !ok2 {
				return false
			}
			if from.Info()&types.IsUnsigned != 0 {
				// unsigned -> wider signed keeps the value; same width or narrower can turn negative
				return P.SizeOf(to) > P.SizeOf(from) || to.Info()&types.IsUnsigned != 0
			}
			return nonNeg(x.X, d+1) && P.SizeOf(to) >= P.SizeOf(from)
		case *ssa.UnOp:
			if x.Op == token.MUL {
				if bt, ok := x.Type().Underlying().(*types.Basic); ok {
					return bt.Info()&types.IsUnsigned != 0
				}
			}
		case *ssa.Call:
			if b, ok := x.Call.Value.(*ssa.Builtin); ok && (b.Name() == "len" || b.Name() == "cap") {
				return true
			}
		}
		return false
	}
	core.EachInstr(fn, func(in ssa.Instruction) {
		ms, ok := in.(*ssa.MakeSlice)
		if !ok {
			return
		}
		res := core.NewResolver(false)
		for _, leaf := range core.ValueLeaves(ms.Len) {
			leaf = res.V(leaf) // a getter or a hoisted local stands for what it returns
			if !strings.Contains(core.Path(leaf), "chunkSize") {
				continue // the remaining-length operand: covered by the attached-message invariant
			}
			n++
			if !nonNeg(leaf, 0) {
				bad = append(bad, core.Path(leaf)+" ("+leaf.Type().String()+") at "+P.InstrPos(ms))
			}
		}
	})
	R.Check(len(bad) == 0 && n > 0, "C07.bounds", "rtmp|(*Protocol).readMessagePayload|chunk-size-operand-non-negative", P.Pos(fn.Pos()),
		"the chunk-size operand of the size given to make() is an unsigned value widened to int",
		"the chunk-size operand of the size given to make() can be negative: "+strings.Join(bad, "; ")+" - a peer's Set Chunk Size with the top bit set makes the next message's make() panic (makeslice: len out of range)", nil)
}
