package rules

import (
	"fmt"
	"go/token"
	"go/types"
	"sort"
	"strings"

	"golang.org/x/tools/go/ssa"

	"oryxverif/checker/internal/core"
)

func init() {
	register(&Property{
		ID: "C15",
		Explain: "Decided (structural, schedule-independent): C15.lock - every (net.Conn).Write on websocket.Conn.conn executes with the write mutex (the 1-slot channel Conn.mu; " +
			"receive acquires, send releases, the select form holds it on the chosen branch) in the must-hold lockset, and Conn.writeErr is only touched under Conn.writeErrMu; " +
			"C15.atomic - a frame is one critical section: flushFrame and WritePreparedMessage perform exactly one call of Conn.write on every success path (none in a loop), " +
			"WriteControl performs exactly one transport write of the complete frame buffer, and Conn.write keeps the lock from its first to its last transport write; " +
			"C15.latch - both lock holders read writeErr after acquiring the write lock and return before the transport write when it is set, and after writing a Close frame " +
			"the close-sent error is latched before the lock is released; C15.own - every Conn field reachable from the concurrency-safe API (WriteControl, Close) is either " +
			"never stored after construction or a lock-guarded location; they do not use scratch storage kept in the connection (an array field handed out as a slice) nor the buffer the message writer fills between two flushes; what runs on the reading goroutine (the frame loop, the default ping/pong/close handlers) answers through WriteControl only. Not decided: byte-stream well-formedness under all interleavings by enumeration, data-race freedom by a race detector.",
		Assume: []string{"a buffered channel of capacity 1 pre-filled with one token is a mutex", "net.Conn.Write writes the whole buffer or returns an error", "sync.Mutex"},
		Run:    runC15,
	})
}

// transportWrites lists invoke sites of Write on a value whose access path ends in ".conn".
func transportWrites(fn *ssa.Function) []*ssa.Call {
	var out []*ssa.Call
	core.EachInstr(fn, func(in ssa.Instruction) {
		call, ok := in.(*ssa.Call)
		if !ok || !call.Call.IsInvoke() || call.Call.Method.Name() != "Write" {
			return
		}
		if core.TypedPath(call.Call.Value) == "Conn.conn" {
			out = append(out, call)
		}
	})
	return out
}

func runC15(c *Ctx) {
	P, R := c.P, c.R
	R.Require("C15.lock", 5)
	R.Require("C15.atomic", 4)
	R.Require("C15.latch", 2)
	R.Require("C15.own", 4)
	conn := P.NamedType("websocket", "Conn")
	if !R.Anchor(conn != nil, "C15.lock", "websocket.Conn") {
		return
	}
	fns := P.ModuleFuncs("websocket")
	for _, f := range fns {
		R.Funcs[core.QualName(f)] = true
	}
	const mu = "Conn.mu"

	// ---- C15.lock: transport writes under Conn.mu
	counts := map[string]int{}
	nw := 0
	writeHolders := map[*ssa.Function]bool{}
	for _, fn := range fns {
		tw := transportWrites(fn)
		if len(tw) == 0 {
			continue
		}
		if core.FuncName(fn) == "(*PreparedMessage).frame" {
			// writes to a private Conn built around prepareConn in the same function (never shared)
		}
		li := P.LockAnalysis(fn, P.EntryLocks(fn))
		for _, w := range tw {
			nw++
			writeHolders[fn] = true
			held := li.HeldAt(w)
			key := ordKey(counts, "websocket|"+core.FuncName(fn)+"|conn.Write")
			R.Check(held[mu], "C15.lock", key, P.InstrPos(w),
				"transport write under the write mutex Conn.mu",
				"transport write on Conn.conn without holding the write mutex Conn.mu: a concurrent control frame can interleave with this frame's bytes",
				map[string]interface{}{"held": held.Sorted()})
		}
	}
	if nw < 1 {
		R.Fail("C15.lock", "websocket|conn.Write|sites", "?", "no transport write site found", nil)
	}
	// no other way to the transport: Conn.conn must not be handed to an io.Writer consumer
	for _, fn := range fns {
		core.EachInstr(fn, func(in ssa.Instruction) {
			call, ok := in.(*ssa.Call)
			if !ok {
				return
			}
			for _, a := range call.Call.Args {
				if core.TypedPath(a) == "Conn.conn" && !call.Call.IsInvoke() {
					name := core.CalleeName(&call.Call)
					if strings.HasPrefix(name, "io.") || strings.HasPrefix(name, "bufio.") || strings.HasPrefix(name, "fmt.F") {
						R.Fail("C15.lock", "websocket|"+core.FuncName(fn)+"|conn-escapes|"+name, P.InstrPos(call),
							"Conn.conn is passed to "+name+", a transport write that bypasses the write mutex", nil)
					}
				}
			}
		})
	}
	// writeErr under writeErrMu
	werr := structField(conn, "writeErr")
	if R.Anchor(werr != nil, "C15.lock", "websocket.Conn.writeErr") {
		checkGuarded(c, "C15.lock", fns, werr, "Conn.writeErrMu", "Conn.writeErr")
	}

	// ---- C15.atomic
	writeFn := P.Func("websocket", "(*Conn).write")
	if R.Anchor(writeFn != nil, "C15.atomic", "websocket.(*Conn).write") {
		// a forwarding wrapper: an unexported function that hands the buffers it received to Conn.write (exclusiveWrite);
		// a call of it is a call of Conn.write for its callers
		wrappers := map[*ssa.Function]bool{}
		for _, fn := range fns {
			if fn == writeFn || fn.Object() == nil || fn.Object().Exported() || fn.Parent() != nil {
				continue
			}
			core.EachInstr(fn, func(in ssa.Instruction) {
				call, ok := in.(*ssa.Call)
				if !ok || call.Call.StaticCallee() != writeFn || len(call.Call.Args) == 0 {
					return
				}
				last := core.StripConv(call.Call.Args[len(call.Call.Args)-1])
				if _, isPar := last.(*ssa.Parameter); isPar {
					wrappers[fn] = true
				}
			})
		}
		isWriteCall := func(in ssa.Instruction) bool {
			call, ok := in.(*ssa.Call)
			return ok && call.Call.StaticCallee() != nil && (call.Call.StaticCallee() == writeFn || wrappers[call.Call.StaticCallee()])
		}
		nCallers := 0
		for _, fn := range fns {
			has := false
			core.EachInstr(fn, func(in ssa.Instruction) {
				if isWriteCall(in) {
					has = true
				}
			})
			if !has {
				continue
			}
			nCallers++
			min, max, ok := core.PathCounts(fn, isWriteCall)
			ei := core.ErrResultIndex(fn)
			good := ok
			detail := ""
			for _, r := range core.Returns(fn) {
				success := ei >= 0 && core.IsNilConst(core.ReturnOperand(r, ei))
				if max[r] > 1 || (success && min[r] != 1) {
					good = false
					detail = fmt.Sprintf("return at %s: min=%d max=%d success=%v", P.InstrPos(r), min[r], max[r], success)
				}
			}
			if !ok {
				detail = "a call of Conn.write sits in a loop"
			}
			R.Check(good, "C15.atomic", "websocket|"+core.FuncName(fn)+"|one-write-per-frame", P.Pos(fn.Pos()),
				"exactly one Conn.write (one critical section) per frame on every success path",
				"a frame is handed to the transport in more than one critical section (or not at all) on some path: "+detail+"; a concurrent control frame can land inside the frame", nil)
		}
		if nCallers < 2 {
			R.Fail("C15.atomic", "websocket|callers-of-write", "?", fmt.Sprintf("%d callers of Conn.write found, 2 confirmed", nCallers), nil)
		}
		// inside write: the lock is not released between transport writes (no Send on mu outside the deferred closure)
		rel := 0
		core.EachInstr(writeFn, func(in ssa.Instruction) {
			if isRelease(in, mu) {
				rel++
			}
		})
		R.Check(rel == 0, "C15.atomic", "websocket|(*Conn).write|lock-span", P.Pos(writeFn.Pos()),
			"Conn.write releases the write mutex only at exit (deferred)",
			"Conn.write releases the write mutex between its transport writes", nil)
	}
	wc := P.Func("websocket", "(*Conn).WriteControl")
	if R.Anchor(wc != nil, "C15.atomic", "websocket.(*Conn).WriteControl") {
		isTW := func(in ssa.Instruction) bool {
			call, ok := in.(*ssa.Call)
			return ok && call.Call.IsInvoke() && call.Call.Method.Name() == "Write" && core.TypedPath(call.Call.Value) == "Conn.conn"
		}
		_, max, ok := core.PathCounts(wc, isTW)
		good := ok
		for _, r := range core.Returns(wc) {
			if max[r] > 1 {
				good = false
			}
		}
		R.Check(good, "C15.atomic", "websocket|(*Conn).WriteControl|one-transport-write", P.Pos(wc.Pos()),
			"a control frame is written with at most one transport write",
			"WriteControl hands a control frame to the transport in more than one write", nil)
	}

	// a deferred release must only run on paths that hold the lock
	for _, fn := range fns {
		var defers []*ssa.Defer
		core.EachInstr(fn, func(in ssa.Instruction) {
			d, ok := in.(*ssa.Defer)
			if !ok {
				return
			}
			rel := false
			if cl, ok := d.Call.Value.(*ssa.MakeClosure); ok {
				core.EachInstr(cl.Fn.(*ssa.Function), func(x ssa.Instruction) {
					if snd, ok := x.(*ssa.Send); ok && core.TypedPath(snd.Chan) == mu {
						rel = true
					}
				})
			}
			if rel {
				defers = append(defers, d)
			}
		})
		if len(defers) == 0 {
			continue
		}
		li := P.LockAnalysis(fn, P.EntryLocks(fn))
		for i, d := range defers {
			bad := ""
			reach := instrReach(d, nil)
			for _, r := range core.Returns(fn) {
				if reach[r] && !li.HeldAt(r)[mu] {
					bad = P.InstrPos(r)
				}
			}
			R.Check(bad == "", "C15.lock", fmt.Sprintf("websocket|%s|deferred-release-held#%d", core.FuncName(fn), i+1), P.InstrPos(d),
				"the deferred release of the write mutex runs only on paths that acquired it",
				"the deferred release of the write mutex also runs on a path that never acquired it (return at "+bad+"): a spurious token lets a second writer into an ongoing frame", nil)
		}
	}

	// ---- C15.latch
	for _, fn := range fns {
		if !writeHolders[fn] || core.FuncName(fn) == "(*PreparedMessage).frame" {
			continue
		}
		li := P.LockAnalysis(fn, P.EntryLocks(fn))
		for i, w := range transportWrites(fn) {
			okGuard := false
			for _, a := range core.GuardAtoms(w.Block()) {
				if a.Op != "==" || a.R != "nil" {
					continue
				}
				if addr, isGetter := core.GetterLoad(a.LV); isGetter {
					// x.get() where get only returns the field (extracted read)
					if core.TypedPath(addr) == "Conn.writeErr" && li.HeldAt(core.StripConv(a.LV).(*ssa.Call))[mu] {
						okGuard = true
					}
					continue
				}
				ld, isLoad := a.LV.(*ssa.UnOp)
				if !isLoad || ld.Op != token.MUL || core.TypedPath(ld.X) != "Conn.writeErr" {
					continue
				}
				if li.HeldAt(ld)[mu] {
					okGuard = true
				}
			}
			R.Check(okGuard, "C15.latch", fmt.Sprintf("websocket|%s|writeErr-checked-under-lock#%d", core.FuncName(fn), i+1), P.InstrPos(w),
				"the sticky write error is read after acquiring the write mutex and a non-nil value returns before the transport write",
				"the transport write is not guarded by a test of Conn.writeErr made while holding the write mutex: a frame can reach the wire after a Close frame was sent", nil)
		}
		// close latch
		var latch *ssa.Call
		core.EachInstr(fn, func(in ssa.Instruction) {
			call, ok := in.(*ssa.Call)
			if !ok || call.Call.StaticCallee() == nil || core.FnName(call.Call.StaticCallee()) != "writeFatal" || len(call.Call.Args) < 2 {
				return
			}
			if core.Path(call.Call.Args[1]) == "websocket.ErrCloseSent" {
				latch = call
			}
		})
		key := "websocket|" + core.FuncName(fn) + "|close-latch"
		if latch == nil {
			R.Fail("C15.latch", key, P.Pos(fn.Pos()), "after writing a Close frame the close-sent error is never latched: later writes would still reach the wire", nil)
			continue
		}
		held := li.HeldAt(latch)
		isClose := false
		var closeIf *ssa.If
		for _, g := range core.Guards(latch.Block()) {
			a, _ := core.AtomOf(g)
			if a.Op == "==" && a.R == "8" {
				if _, isParam := core.StripConv(a.LV).(*ssa.Parameter); isParam {
					isClose, closeIf = true, g.If
				}
			}
		}
		okPath := false
		if closeIf != nil {
			okPath, _ = core.MustPassThrough(closeIf.Block().Succs[0], func(in ssa.Instruction) bool { return in == ssa.Instruction(latch) }, nil)
		}
		tws := transportWrites(fn)
		after := len(tws) > 0
		for _, w := range tws {
			if !reaches(w, latch) {
				after = false
			}
		}
		R.Check(held[mu] && isClose && okPath && after, "C15.latch", key, P.InstrPos(latch),
			"after a Close frame is written the close-sent error is latched before the write mutex is released",
			"the close-sent latch is not executed under the write mutex on every path after writing a Close frame",
			map[string]interface{}{"held": held.Sorted(), "guarded_by_type==Close": isClose, "on_every_path": okPath, "after_transport_write": after})
	}

	// ---- C15.own
	checkConnOwn(c, core.TypeNameOf(conn.Obj()))
}

func reaches(a, b ssa.Instruction) bool {
	return instrReach(a, nil)[b]
}

// checkReaderRole: what runs on the reading goroutine - the frame loop and the default ping/pong/close handlers it
// calls - answers the peer through WriteControl only.  The message-writing API (NextWriter, WriteMessage, prepared
// messages, JSON) belongs to the one goroutine that writes data: it uses the shared write buffer and the single open
// message writer without a lock, and calling it from the reader truncates the application's message in progress.
func checkReaderRole(c *Ctx) {
	P, R := c.P, c.R
	var roots []*ssa.Function
	for _, n := range []string{"(*Conn).SetPingHandler", "(*Conn).SetPongHandler", "(*Conn).SetCloseHandler"} {
		fn := P.Func("websocket", n)
		if !R.Anchor(fn != nil, "C15.own", "websocket."+n) {
			return
		}
		roots = append(roots, fn.AnonFuncs...)
	}
	for _, n := range []string{"(*Conn).advanceFrame", "(*Conn).handleProtocolError"} {
		if fn := P.Func("websocket", n); fn != nil {
			roots = append(roots, fn)
		}
	}
	writerRole := map[*ssa.Function]bool{}
	for _, n := range []string{"(*Conn).prepWrite", "(*Conn).NextWriter", "(*Conn).WriteMessage", "(*Conn).WritePreparedMessage", "(*Conn).WriteJSON"} {
		if fn := P.Func("websocket", n); fn != nil {
			writerRole[fn] = true
		}
	}
	if !R.Anchor(len(writerRole) >= 4, "C15.own", "websocket message-writing API (prepWrite, NextWriter, WriteMessage, WritePreparedMessage)") {
		return
	}
	for _, root := range roots {
		// static calls only (the handler fields are function values: their defaults are the closures listed as roots)
		seen := map[*ssa.Function]*ssa.Function{root: nil}
		queue := []*ssa.Function{root}
		var hit *ssa.Function
		for len(queue) > 0 && hit == nil {
			f := queue[0]
			queue = queue[1:]
			for _, g := range core.WithClosures(f) {
				core.EachInstr(g, func(in ssa.Instruction) {
					ci, ok := in.(ssa.CallInstruction)
					if !ok {
						return
					}
					cal := ci.Common().StaticCallee()
					if cal == nil || !core.InModule(cal) {
						return
					}
					if _, dup := seen[cal]; dup {
						return
					}
					seen[cal] = f
					if writerRole[cal] && hit == nil {
						hit = cal
					}
					queue = append(queue, cal)
				})
			}
		}
		path := ""
		for f := hit; f != nil; f = seen[f] {
			if path != "" {
				path = " -> " + path
			}
			path = core.FuncName(f) + path
		}
		R.Check(hit == nil, "C15.own", "websocket|reader-role|"+core.FuncName(root)+"|answers-through-WriteControl-only", P.Pos(root.Pos()),
			"code running on the reading goroutine does not reach the message-writing API",
			"code that runs on the reading goroutine reaches the message-writing API ("+path+"): that API uses the shared write buffer and the one open message writer without a lock and belongs to the data-writing goroutine - the application's message in progress is flushed early and truncated, its remaining writes fail", nil)
	}
}

func checkConnOwn(c *Ctx, _ string) {
	P, R := c.P, c.R
	checkReaderRole(c)
	entries := []string{"(*Conn).WriteControl", "(*Conn).Close"}
	touched := map[string]map[string]bool{}
	for _, n := range entries {
		fn := P.Func("websocket", n)
		if !R.Anchor(fn != nil, "C15.own", "websocket."+n) {
			return
		}
		for e := range P.Effects(fn) {
			i := strings.Index(e, ":")
			if i < 0 {
				continue
			}
			kind, path := e[:i], e[i+1:]
			if !strings.HasPrefix(path, "Conn.") {
				continue
			}
			if touched[path] == nil {
				touched[path] = map[string]bool{}
			}
			touched[path][kind] = true
		}
	}
	stored := map[string][]string{}
	for _, fn := range P.ModuleFuncs("websocket") {
		core.EachInstr(fn, func(in ssa.Instruction) {
			if st, ok := in.(*ssa.Store); ok {
				if _, isF := st.Addr.(*ssa.FieldAddr); isF && !core.FreshBase(st.Addr) {
					p := core.TypedPath(st.Addr)
					stored[p] = append(stored[p], core.FuncName(fn))
				}
			}
		})
	}
	// buffers whose contents the message writer fills between two flushes, without the lock (the lock covers the
	// transport write only): a slice field of the connection that a messageWriter method copies into or stores through
	writerOwned := map[string]string{}
	connFields := map[*types.Var]bool{}
	if cn := P.NamedType("websocket", "Conn"); cn != nil {
		if st, ok := cn.Underlying().(*types.Struct); ok {
			for i := 0; i < st.NumFields(); i++ {
				connFields[st.Field(i)] = true
			}
		}
	}
	for _, fn := range P.ModuleFuncs("websocket") {
		if fn.Signature.Recv() == nil || !strings.Contains(types.TypeString(fn.Signature.Recv().Type(), nil), "messageWriter") {
			continue
		}
		fieldOf := func(v ssa.Value) string {
			for d := 0; d < 6 && v != nil; d++ {
				switch x := v.(type) {
				case *ssa.Slice:
					v = x.X
					continue
				case *ssa.IndexAddr:
					v = x.X
					continue
				case *ssa.UnOp:
					if x.Op == token.MUL {
						if _, isF := x.X.(*ssa.FieldAddr); isF {
							if _, isSl := x.Type().Underlying().(*types.Slice); isSl {
								if fv := core.FieldVar(x.X); fv != nil && connFields[fv] {
									return "Conn." + core.FieldVarName(fv)
								}
							}
						}
					}
				}
				break
			}
			return ""
		}
		core.EachInstr(fn, func(in ssa.Instruction) {
			switch x := in.(type) {
			case *ssa.Store:
				if ia, ok := x.Addr.(*ssa.IndexAddr); ok {
					if f := fieldOf(ia); strings.HasPrefix(f, "Conn.") {
						writerOwned[f] = core.FuncName(fn)
					}
				}
			case *ssa.Call:
				if b, ok := x.Call.Value.(*ssa.Builtin); ok && (b.Name() == "copy" || b.Name() == "append") && len(x.Call.Args) > 0 {
					if f := fieldOf(x.Call.Args[0]); strings.HasPrefix(f, "Conn.") {
						writerOwned[f] = core.FuncName(fn)
					}
				}
			}
		})
	}
	guarded := map[string]string{"Conn.writeErr": "Conn.writeErrMu"}
	var paths []string
	for p := range touched {
		paths = append(paths, p)
	}
	sort.Strings(paths)
	for _, p := range paths {
		base := p
		if i := strings.Index(p, "["); i >= 0 {
			base = p[:i]
		}
		key := "websocket|concurrent-api|" + p
		switch {
		case guarded[base] != "":
			R.OK("C15.own", key, "-", "lock-guarded location ("+guarded[base]+")")
		case writerOwned[base] != "":
			R.Fail("C15.own", key, "-",
				"WriteControl/Close (documented as safe to call concurrently with the data writer) use "+base+", the buffer "+writerOwned[base]+" fills between two flushes without holding the write mutex: a control frame assembled there overwrites message bytes that are buffered but not yet sent (holding the mutex does not help - the writer does not take it to buffer)",
				map[string]interface{}{"kinds": keys(touched[p])})
		case touched[p]["slice"]:
			R.Fail("C15.own", key, "-",
				"WriteControl/Close (documented as safe to call concurrently with the data writer and the reader) hand out the storage of an array kept in the connection as a slice and build on it (append/copy): two concurrent control senders, or a sender and the writer, share that scratch space and overwrite each other's frame",
				map[string]interface{}{"kinds": keys(touched[p])})
		case len(stored[base]) == 0 && !touched[p]["store"]:
			R.OK("C15.own", key, "-", "never stored after construction")
		default:
			R.Fail("C15.own", key, "-",
				"WriteControl/Close (documented as safe to call concurrently with the data writer and the reader) touch a field that is written after construction and is not lock-guarded",
				map[string]interface{}{"kinds": keys(touched[p]), "stored_in": stored[base]})
		}
	}
}
