package rules

import (
	"fmt"
	"go/constant"
	"go/token"
	"go/types"
	"sort"
	"strings"

	"golang.org/x/tools/go/ssa"

	"oryxverif/checker/internal/core"
)

func init() {
	register(&Property{
		ID: "C08",
		Explain: "Decided (structural; every I/O call site on every path is an instance, so a cut or fault at any byte offset lands on one of them): C08.errors - WithStack/Wrap/Wrapf/WithMessage " +
			"return the nil constant for a nil error, store the wrapped error in the field their type's Cause() returns (through every layer they build), withMessage.Error() is msg + \": \" + cause.Error(), " +
			"and Cause() loops while the value implements Cause() error; C08.cause - every error produced by a transport primitive (io.Copy/CopyN/ReadFull, binary.Read, bufio Flush, Read/Write on " +
			"io.Reader/io.Writer values) or by a function that carries such errors, in packages rtmp and flv, is tested and, on the non-nil branch, every return carries that very error or " +
			"this repository's errors.Wrap*/WithMessage/WithStack of it (never nil, never a fresh error); C08.excl - exported item-returning carriers return only zero values beside an error, " +
			"a message is returned with a nil error only under payloadLength == len(Payload) (or 0) and its payload grows only after a successful full read, a tag only after a successful CopyN; " +
			"C08.fullread - the transports are read only through all-or-error primitives. " +
			"Also: no wrapper returns its error argument itself (every call adds its layer). " +
			"Not decided: enumeration of cut offsets and injected faults (each lands on one of the enumerated sites); bufio internals are trusted.",
		Assume: []string{"io.ReadFull/io.CopyN/binary.Read return io.EOF or io.ErrUnexpectedEOF on a cut stream and the transport's error otherwise", "bufio passes the underlying error through"},
		Run:    runC08,
	})
}

var errWrappers = map[string]bool{"errors.Wrap": true, "errors.Wrapf": true, "errors.WithMessage": true, "errors.WithStack": true}

func isModuleErrorsFn(f *ssa.Function, names map[string]bool) bool {
	return f != nil && core.InModule(f) && names[core.QualName(f)]
}

// errorSource classifies a call as a transport primitive.
func errorSource(call *ssa.CallCommon) (string, bool) {
	if call.IsInvoke() {
		m := call.Method.Name()
		if m == "Read" || m == "Write" || m == "Flush" {
			t := types.TypeString(call.Value.Type(), nil)
			if strings.HasPrefix(t, "io.") {
				return "invoke " + t + "." + m, true
			}
		}
		return "", false
	}
	f := call.StaticCallee()
	if f == nil || core.InModule(f) {
		return "", false
	}
	switch n := core.FullName(f); n {
	case "io.Copy", "io.CopyN", "io.ReadFull", "io.ReadAtLeast", "io.CopyBuffer", "binary.Read", "binary.Write",
		"(*bufio.Writer).Flush", "(*bufio.Writer).Write", "(*bufio.Reader).Read", "(*bufio.Reader).ReadByte", "(*bufio.Reader).Discard", "(*bufio.Reader).Peek", "ioutil.ReadAll", "io.ReadAll":
		return n, true
	}
	return "", false
}

// errValueOf returns the SSA value holding the error result of a call, or nil when it is dropped.
func errValueOf(call *ssa.Call) (ssa.Value, bool) {
	sig := call.Call.Signature()
	res := sig.Results()
	if res.Len() == 0 || !core.IsErrorType(res.At(res.Len()-1).Type()) {
		return nil, false
	}
	if res.Len() == 1 {
		return call, true
	}
	for _, r := range *call.Referrers() {
		if ex, ok := r.(*ssa.Extract); ok && ex.Index == res.Len()-1 {
			return ex, true
		}
	}
	return nil, true // has an error result but it is never extracted
}

// derivedFrom: v is E, a phi over E, or a wrap (this repository's errors package) of a derived value.
func derivedFrom(v, E ssa.Value, d int) bool {
	if d > 10 || v == nil {
		return false
	}
	if v == E {
		return true
	}
	switch x := v.(type) {
	case *ssa.Phi:
		any := false
		for _, e := range x.Edges {
			if c, ok := e.(*ssa.Const); ok && c.Value == nil {
				continue // nil edge: cannot be taken under the non-nil guard when E is the only non-nil source
			}
			if !derivedFrom(e, E, d+1) {
				return false
			}
			any = true
		}
		return any
	case *ssa.Call:
		if isModuleErrorsFn(x.Call.StaticCallee(), errWrappers) && len(x.Call.Args) > 0 {
			return derivedFrom(x.Call.Args[0], E, d+1)
		}
	case *ssa.UnOp:
		// load of a cell holding E (named result spilled because of a defer/closure)
		if x.Op == token.MUL {
			if a, ok := x.X.(*ssa.Alloc); ok {
				for _, r := range *a.Referrers() {
					if st, ok := r.(*ssa.Store); ok && st.Addr == ssa.Value(a) && derivedFrom(st.Val, E, d+1) {
						return true
					}
				}
			}
		}
	}
	return false
}

type errSite struct {
	fn      *ssa.Function
	call    *ssa.Call
	what    string
	carrier bool
}

func runC08(c *Ctx) {
	P, R := c.P, c.R
	R.Require("C08.errors", 14)
	R.Require("C08.cause", 20)
	R.Require("C08.excl", 5)
	R.Require("C08.fullread", 4)
	checkErrorsPkg(c)

	fns := P.ModuleFuncs("rtmp", "flv")
	for _, f := range fns {
		R.Funcs[core.QualName(f)] = true
	}
	// carriers: least fixpoint
	carrier := map[*ssa.Function]bool{}
	for changed := true; changed; {
		changed = false
		for _, fn := range fns {
			if carrier[fn] || core.ErrResultIndex(fn) < 0 {
				continue
			}
			found := false
			core.EachInstr(fn, func(in ssa.Instruction) {
				call, ok := in.(*ssa.Call)
				if !ok {
					return
				}
				if _, isSrc := errorSource(&call.Call); isSrc {
					found = true
				}
				for _, cal := range P.Callees(call) {
					if carrier[cal] {
						found = true
					}
				}
			})
			if found {
				carrier[fn] = true
				changed = true
			}
		}
	}
	var sites []errSite
	nSources := 0
	for _, fn := range fns {
		core.EachInstr(fn, func(in ssa.Instruction) {
			call, ok := in.(*ssa.Call)
			if !ok {
				return
			}
			if n, isSrc := errorSource(&call.Call); isSrc {
				nSources++
				sites = append(sites, errSite{fn, call, n, false})
				return
			}
			for _, cal := range P.Callees(call) {
				if carrier[cal] {
					sites = append(sites, errSite{fn, call, core.QualName(cal), true})
					return
				}
			}
		})
	}
	R.Extra["transport_sources"] = nSources
	var cl []string
	for f := range carrier {
		cl = append(cl, core.QualName(f))
	}
	sort.Strings(cl)
	R.Extra["carriers"] = cl
	counts := map[string]int{}
	for _, s := range sites {
		base := ordKey(counts, core.ShortPkg(s.fn)+"|"+core.FuncName(s.fn)+"|"+s.what)
		pos := P.InstrPos(s.call)
		E, has := errValueOf(s.call)
		if !has {
			continue
		}
		if E == nil || len(*E.Referrers()) == 0 {
			R.Fail("C08.cause", base+"|checked", pos, "the error of "+s.what+" is dropped: a failing or cut transport would go unnoticed here", nil)
			continue
		}
		if core.ErrResultIndex(s.fn) < 0 {
			R.Fail("C08.cause", base+"|checked", pos, "the error of "+s.what+" cannot be reported: the enclosing function has no error result", nil)
			continue
		}
		ei := core.ErrResultIndex(s.fn)
		// find the test of E
		var tested *ssa.If
		nonNilIdx := 0
		for _, r := range *E.Referrers() {
			bo, ok := r.(*ssa.BinOp)
			if !ok || (bo.Op != token.NEQ && bo.Op != token.EQL) {
				continue
			}
			if !core.IsNilConst(bo.X) && !core.IsNilConst(bo.Y) {
				continue
			}
			for _, r2 := range *bo.Referrers() {
				if iff, ok := r2.(*ssa.If); ok {
					tested = iff
					if bo.Op == token.EQL {
						nonNilIdx = 1
					}
				}
			}
		}
		if tested == nil {
			// returned directly on every path?
			direct := false
			for _, r := range core.Returns(s.fn) {
				if derivedFrom(core.ReturnOperand(r, ei), E, 0) {
					direct = true
				}
			}
			if !direct {
				// the returns reached from the call all carry E (operands resolved along the path: the return sits at
				// a merge of several such calls)
				frs := returnsAfterKnowing(s.call, E)
				direct = len(frs) > 0
				for _, fr := range frs {
					if !derivedFrom(fr.ops[ei], E, 0) {
						direct = false
					}
				}
			}
			R.Check(direct, "C08.cause", base+"|checked", pos,
				"the error of "+s.what+" is returned directly",
				"the error of "+s.what+" is neither tested against nil nor returned", nil)
			continue
		}
		R.OK("C08.cause", base+"|checked", pos, "the error of "+s.what+" is tested against nil")
		nn := tested.Block().Succs[nonNilIdx]
		nret := 0
		bad := ""
		for _, r := range core.Returns(s.fn) {
			if !(nn == r.Block() || nn.Dominates(r.Block())) || len(nn.Preds) != 1 {
				continue
			}
			nret++
			op := core.ReturnOperand(r, ei)
			if !derivedFrom(op, E, 0) {
				bad = fmt.Sprintf("return at %s yields %s", P.InstrPos(r), describeErrOperand(op))
			}
		}
		var failRets []failReturn
		if nret == 0 {
			// the non-nil branch does not return at once (break, or the success path is nested under err == nil and both
			// meet at one return): every return reached from the failure edge must carry E; the operands are resolved
			// along the path (a phi takes the value of the edge the path came in by)
			failRets = returnsFromEdgeKnowing(tested.Block(), nonNilIdx, E)
			for _, fr := range failRets {
				nret++
				if op := fr.ops[ei]; !derivedFrom(op, E, 0) {
					bad = fmt.Sprintf("return at %s yields %s", P.InstrPos(fr.ret), describeErrOperand(op))
				}
			}
		}
		R.Check(bad == "" && nret > 0, "C08.cause", base+"|preserved", pos,
			"on failure every return carries this error (possibly wrapped by this repository's errors package)",
			"on failure of "+s.what+" the root cause is lost: "+bad, nil)
		// exclusive: exported item-returning carriers return zero values beside the error
		if exportedItemReturning(s.fn) {
			okx := true
			detail := ""
			for _, r := range core.Returns(s.fn) {
				if !(nn == r.Block() || nn.Dominates(r.Block())) || failRets != nil {
					continue
				}
				for i := range r.Results {
					if i == ei {
						continue
					}
					if !isZeroConst(core.ReturnOperand(r, i)) {
						okx = false
						detail = fmt.Sprintf("result #%d at %s is %s", i, P.InstrPos(r), core.Path(core.ReturnOperand(r, i)))
					}
				}
			}
			for _, fr := range failRets {
				for i, op := range fr.ops {
					if i != ei && !isZeroConst(op) {
						okx = false
						detail = fmt.Sprintf("result #%d at %s is %s", i, P.InstrPos(fr.ret), core.Path(op))
					}
				}
			}
			R.Check(okx, "C08.excl", base+"|exclusive", pos,
				"nothing is returned alongside the error", "an item is returned together with the error ("+detail+"): a truncated or stale item could be used by the caller", nil)
		}
	}

	// complete: readMessagePayload and ReadTag
	if rp := P.Func("rtmp", "(*Protocol).readMessagePayload"); R.Anchor(rp != nil, "C08.excl", "rtmp.(*Protocol).readMessagePayload") {
		checkCompleteMessage(c, rp)
	}
	if rt := P.Func("flv", "(*demuxer).ReadTag"); R.Anchor(rt != nil, "C08.excl", "flv.(*demuxer).ReadTag") {
		checkItemAfterSuccess(c, rt, "io.CopyN")
	}
	for _, n := range []string{"(*demuxer).ReadHeader", "(*demuxer).ReadTagHeader"} {
		if f := P.Func("flv", n); R.Anchor(f != nil, "C08.excl", "flv."+n) {
			checkItemAfterSuccess(c, f, "io.CopyN")
		}
	}
	checkFullRead(c, "C08.fullread", "rtmp", "flv")
}

// failReturn is a return reached from one edge, with its operands resolved along the path taken.
type failReturn struct {
	ret *ssa.Return
	ops []ssa.Value
}

// returnsFromEdge walks every path from the idx-th successor edge of block b to the returns it reaches; phis take the
// value of the edge the path entered their block by, named results spilled to cells are read back (ReturnOperand).
func returnsFromEdge(b *ssa.BasicBlock, idx int) []failReturn {
	return returnsFromEdgeKnowing(b, idx, nil)
}

// returnsFromEdgeKnowing is returnsFromEdge for a walk on which the value nonNil is known not to be nil: a later test of
// that same value (possibly through a phi the path resolved to it) against nil has only one feasible outcome.
func returnsFromEdgeKnowing(b *ssa.BasicBlock, idx int, nonNil ssa.Value) []failReturn {
	var out []failReturn
	type key struct{ b, from *ssa.BasicBlock }
	seen := map[key]bool{}
	var walk func(blk, from *ssa.BasicBlock, env map[*ssa.Phi]ssa.Value)
	walk = func(blk, from *ssa.BasicBlock, env map[*ssa.Phi]ssa.Value) {
		k := key{blk, from}
		if seen[k] || len(out) > 64 {
			return
		}
		seen[k] = true
		ne := env
		for _, in := range blk.Instrs {
			phi, ok := in.(*ssa.Phi)
			if !ok {
				break
			}
			for i, p := range blk.Preds {
				if p == from {
					v := phi.Edges[i]
					if ph, isPhi := v.(*ssa.Phi); isPhi {
						if r, ok := env[ph]; ok {
							v = r
						}
					}
					if &ne == &env || len(ne) == len(env) {
						c := map[*ssa.Phi]ssa.Value{}
						for a, b := range env {
							c[a] = b
						}
						ne = c
					}
					ne[phi] = v
				}
			}
		}
		if r, ok := blk.Instrs[len(blk.Instrs)-1].(*ssa.Return); ok {
			fr := failReturn{ret: r}
			for i := range r.Results {
				op := core.ReturnOperand(r, i)
				if ph, isPhi := op.(*ssa.Phi); isPhi {
					if v, ok := ne[ph]; ok {
						op = v
					}
				}
				fr.ops = append(fr.ops, op)
			}
			out = append(out, fr)
			return
		}
		if iff, ok := blk.Instrs[len(blk.Instrs)-1].(*ssa.If); ok && nonNil != nil && len(blk.Succs) == 2 {
			if bo, ok := iff.Cond.(*ssa.BinOp); ok && (bo.Op == token.EQL || bo.Op == token.NEQ) {
				x := bo.X
				if core.IsNilConst(x) {
					x = bo.Y
				} else if !core.IsNilConst(bo.Y) {
					x = nil
				}
				if ph, isPhi := x.(*ssa.Phi); isPhi {
					if v, ok := ne[ph]; ok {
						x = v
					}
				}
				if x != nil && x == nonNil {
					// x != nil holds: "x == nil" is false, "x != nil" is true
					if bo.Op == token.EQL {
						walk(blk.Succs[1], blk, ne)
					} else {
						walk(blk.Succs[0], blk, ne)
					}
					return
				}
			}
		}
		for _, s := range blk.Succs {
			walk(s, blk, ne)
		}
	}
	if idx < len(b.Succs) {
		walk(b.Succs[idx], b, map[*ssa.Phi]ssa.Value{})
	}
	return out
}

// passedReturn: a return reached from the function entry, operands resolved along the path, and whether the path
// executed an instruction satisfying the predicate.
type passedReturn struct {
	failReturn
	passed bool
}

// returnsFromEntry walks every path from the entry of fn to its returns (phis resolved by the edge taken) and records
// for each whether an instruction satisfying through was executed on the way.
func returnsFromEntry(fn *ssa.Function, through func(ssa.Instruction) bool) []passedReturn {
	var out []passedReturn
	type key struct {
		b, from *ssa.BasicBlock
		passed  bool
	}
	seen := map[key]bool{}
	// the outcome of every branch taken so far: a boolean returned later (return elapsed) is that outcome
	known := map[ssa.Value]bool{}
	var walk func(blk, from *ssa.BasicBlock, env map[*ssa.Phi]ssa.Value, passed bool)
	walk = func(blk, from *ssa.BasicBlock, env map[*ssa.Phi]ssa.Value, passed bool) {
		k := key{blk, from, passed}
		if seen[k] || len(out) > 256 {
			return
		}
		seen[k] = true
		defer delete(seen, k) // path enumeration (the functions this is used on are small)
		ne := map[*ssa.Phi]ssa.Value{}
		for a, b := range env {
			ne[a] = b
		}
		for _, in := range blk.Instrs {
			if phi, ok := in.(*ssa.Phi); ok {
				for i, p := range blk.Preds {
					if p == from {
						v := phi.Edges[i]
						if ph, isPhi := v.(*ssa.Phi); isPhi {
							if r, ok := env[ph]; ok {
								v = r
							}
						}
						ne[phi] = v
					}
				}
				continue
			}
			if through(in) {
				passed = true
			}
		}
		if r, ok := blk.Instrs[len(blk.Instrs)-1].(*ssa.Return); ok {
			pr := passedReturn{failReturn{ret: r}, passed}
			for i := range r.Results {
				op := core.ReturnOperand(r, i)
				if ph, isPhi := op.(*ssa.Phi); isPhi {
					if v, ok := ne[ph]; ok {
						op = v
					}
				}
				if bv, ok := known[op]; ok {
					op = ssa.NewConst(constant.MakeBool(bv), types.Typ[types.Bool])
				}
				pr.ops = append(pr.ops, op)
			}
			out = append(out, pr)
			return
		}
		if iff, ok := blk.Instrs[len(blk.Instrs)-1].(*ssa.If); ok && len(blk.Succs) == 2 {
			cond, neg := iff.Cond, false
			for {
				if u, isNot := cond.(*ssa.UnOp); isNot && u.Op == token.NOT {
					cond, neg = u.X, !neg
					continue
				}
				break
			}
			for i, s := range blk.Succs {
				outcome := (i == 0) != neg // value of cond on this edge
				if old, had := known[cond]; had && old != outcome {
					continue // contradicts an earlier branch on the same value
				}
				_, hadC := known[cond]
				_, hadI := known[iff.Cond]
				known[cond] = outcome
				known[iff.Cond] = i == 0
				walk(s, blk, ne, passed)
				if !hadC {
					delete(known, cond)
				}
				if !hadI {
					delete(known, iff.Cond)
				}
			}
			return
		}
		for _, s := range blk.Succs {
			walk(s, blk, ne, passed)
		}
	}
	if len(fn.Blocks) > 0 {
		walk(fn.Blocks[0], nil, map[*ssa.Phi]ssa.Value{}, false)
	}
	return out
}

// returnsAfter lists the returns reached after instruction in, operands resolved along each path.
func returnsAfter(in ssa.Instruction) []failReturn { return returnsAfterKnowing(in, nil) }

// returnsAfterKnowing: the returns reached after in on the paths on which nonNil is not nil.
func returnsAfterKnowing(in ssa.Instruction, nonNil ssa.Value) []failReturn {
	b := in.Block()
	if r, ok := b.Instrs[len(b.Instrs)-1].(*ssa.Return); ok {
		fr := failReturn{ret: r}
		for i := range r.Results {
			fr.ops = append(fr.ops, core.ReturnOperand(r, i))
		}
		return []failReturn{fr}
	}
	var out []failReturn
	if iff, ok := b.Instrs[len(b.Instrs)-1].(*ssa.If); ok && nonNil != nil && len(b.Succs) == 2 {
		// the block of the call itself ends in a test of the value
		if bo, ok := iff.Cond.(*ssa.BinOp); ok && (bo.Op == token.EQL || bo.Op == token.NEQ) {
			if (bo.X == nonNil && core.IsNilConst(bo.Y)) || (bo.Y == nonNil && core.IsNilConst(bo.X)) {
				if bo.Op == token.EQL {
					return returnsFromEdgeKnowing(b, 1, nonNil)
				}
				return returnsFromEdgeKnowing(b, 0, nonNil)
			}
		}
	}
	for i := range b.Succs {
		out = append(out, returnsFromEdgeKnowing(b, i, nonNil)...)
	}
	return out
}

func describeErrOperand(v ssa.Value) string {
	if core.IsNilConst(v) {
		return "nil"
	}
	if call, ok := v.(*ssa.Call); ok && call.Call.StaticCallee() != nil {
		return "a fresh " + core.FullName(call.Call.StaticCallee()) + "(...) that does not wrap it"
	}
	return core.Path(v)
}

func isZeroConst(v ssa.Value) bool {
	c, ok := v.(*ssa.Const)
	if !ok {
		return false
	}
	if c.Value == nil {
		return true
	}
	switch c.Value.String() {
	case "0", "false", `""`:
		return true
	}
	return false
}

func exportedItemReturning(fn *ssa.Function) bool {
	if fn.Parent() != nil || fn.Object() == nil || !fn.Object().Exported() {
		return false
	}
	return fn.Signature.Results().Len() >= 2 && core.ErrResultIndex(fn) >= 0
}

// checkCompleteMessage: a non-nil message is returned with a nil error only under
// payloadLength == len(Payload) or payloadLength == 0; Payload grows only after ReadFull succeeded.
func checkCompleteMessage(c *Ctx, fn *ssa.Function) {
	P, R := c.P, c.R
	ei := core.ErrResultIndex(fn)
	n := 0
	for _, r := range core.Returns(fn) {
		if !mayBeNil(core.ReturnOperand(r, ei), 0) {
			continue
		}
		item := core.ReturnOperand(r, 0)
		var edges []struct {
			v    ssa.Value
			from *ssa.BasicBlock
		}
		if phi, ok := item.(*ssa.Phi); ok {
			for i, e := range phi.Edges {
				edges = append(edges, struct {
					v    ssa.Value
					from *ssa.BasicBlock
				}{e, phi.Block().Preds[i]})
			}
		} else {
			edges = append(edges, struct {
				v    ssa.Value
				from *ssa.BasicBlock
			}{item, r.Block()})
		}
		for _, e := range edges {
			if isZeroConst(e.v) {
				continue
			}
			n++
			ok := false
			var atoms []string
			for _, a := range core.GuardAtoms(e.from) {
				atoms = append(atoms, a.String())
				if a.Op != "==" || !strings.Contains(a.L+a.R, "payloadLength") {
					continue
				}
				other := a.R
				if strings.Contains(a.R, "payloadLength") {
					other = a.L
				}
				if other == "0" || (strings.HasPrefix(other, "len(") && strings.HasSuffix(other, ".Payload)")) {
					ok = true
				}
			}
			R.Check(ok, "C08.excl", fmt.Sprintf("rtmp|(*Protocol).readMessagePayload|complete#%d", n), P.InstrPos(r),
				"a message is returned only when its payload is complete",
				"a message can be returned with a nil error although its payload is not complete (no payloadLength == len(Payload) guard on this path)",
				map[string]interface{}{"guards": atoms})
		}
	}
	if n == 0 {
		R.Fail("C08.excl", "rtmp|(*Protocol).readMessagePayload|complete", P.Pos(fn.Pos()), "no path returns a message", nil)
	}
	// Payload stores after successful ReadFull
	var E ssa.Value
	core.EachInstr(fn, func(in ssa.Instruction) {
		if call, ok := in.(*ssa.Call); ok {
			if nme, isSrc := errorSource(&call.Call); isSrc && nme == "io.ReadFull" {
				E, _ = errValueOf(call)
			}
		}
	})
	k := 0
	core.EachInstr(fn, func(in ssa.Instruction) {
		st, ok := in.(*ssa.Store)
		if !ok || !strings.HasSuffix(core.Path(st.Addr), ".Payload") {
			return
		}
		k++
		good := false
		for _, a := range core.GuardAtoms(st.Block()) {
			if a.Op == "==" && a.R == "nil" && E != nil && a.LV == E {
				good = true
			}
		}
		R.Check(good, "C08.excl", fmt.Sprintf("rtmp|(*Protocol).readMessagePayload|payload-grows-after-read#%d", k), P.InstrPos(st),
			"the payload grows only after the chunk was read completely",
			"the payload is extended without the full read having succeeded: a truncated chunk would be accumulated", nil)
	})
}

// checkItemAfterSuccess: every return whose item results are not all zero constants is dominated
// by the success edge of the function's transport read.
// successSources lists the error values of fn whose being nil means "the transport read delivered everything": the error
// of the primitive src itself, or of a module wrapper around it (a function that returns a nil error only under such a
// test of its own).
func successSources(fn *ssa.Function, src string, depth int) []ssa.Value {
	var out []ssa.Value
	core.EachInstr(fn, func(in ssa.Instruction) {
		call, ok := in.(*ssa.Call)
		if !ok {
			return
		}
		if nme, isSrc := errorSource(&call.Call); isSrc && nme == src {
			if E, _ := errValueOf(call); E != nil {
				out = append(out, E)
			}
			return
		}
		if w := call.Call.StaticCallee(); w != nil && depth < 2 && core.InModule(w) && fullReadWrapper(w, src, depth+1) {
			if E, _ := errValueOf(call); E != nil {
				out = append(out, E)
			}
		}
	})
	return out
}

// fullReadWrapper: every return of w that reports success (nil error operand on that path) lies behind E == nil for a
// success source E of w.
func fullReadWrapper(w *ssa.Function, src string, depth int) bool {
	ei := core.ErrResultIndex(w)
	if ei < 0 || len(w.Blocks) == 0 {
		return false
	}
	srcs := successSources(w, src, depth)
	if len(srcs) == 0 {
		return false
	}
	for _, r := range core.Returns(w) {
		for _, vc := range core.ValueCases(core.ReturnOperand(r, ei), r.Block()) {
			if !core.IsNilConst(vc.Val) {
				// E itself (possibly wrapped) is returned: nil exactly when the read succeeded
				isSrc := false
				for _, E := range srcs {
					isSrc = isSrc || derivedFrom(vc.Val, E, 0)
				}
				if isSrc {
					continue
				}
				// a freshly built error is never nil: a failure report
				switch x := core.StripConv(vc.Val).(type) {
				case *ssa.Call:
					if f := x.Call.StaticCallee(); f != nil && (isModuleErrorsFn(f, errWrappers) || isModuleErrorsFn(f, map[string]bool{"errors.New": true, "errors.Errorf": true}) || core.FullName(f) == "errors.New" || core.FullName(f) == "fmt.Errorf") {
						continue
					}
				case *ssa.Alloc, *ssa.MakeInterface:
					continue
				}
				// any other error value may be nil while the read failed: treated like a success report
			}
			guarded, n := true, 0
			for _, E := range srcs {
				def, _ := E.(ssa.Instruction)
				if ex, isEx := E.(*ssa.Extract); isEx {
					def, _ = ex.Tuple.(ssa.Instruction)
				}
				if def != nil && def.Block() != r.Block() && !reaches(def, r) {
					continue
				}
				n++
				ok := false
				for _, a := range vc.Atoms {
					if a.Op == "==" && a.R == "nil" && a.LV == E {
						ok = true
					}
				}
				guarded = guarded && ok
			}
			if !guarded || n == 0 {
				return false
			}
		}
	}
	return true
}

func checkItemAfterSuccess(c *Ctx, fn *ssa.Function, src string) {
	P, R := c.P, c.R
	ei := core.ErrResultIndex(fn)
	srcs := successSources(fn, src, 0)
	n := 0
	for _, r := range core.Returns(fn) {
		// the cases in which some result other than the error is not the zero value
		type itemCase struct{ atoms []core.Atom }
		var cases []itemCase
		for i := range r.Results {
			if i == ei {
				continue
			}
			for _, vc := range core.ValueCases(core.ReturnOperand(r, i), r.Block()) {
				if !isZeroConst(vc.Val) {
					cases = append(cases, itemCase{vc.Atoms})
				}
			}
		}
		if len(cases) == 0 {
			continue
		}
		n++
		// every transport read that can run before this return must have been found successful on the way
		good := true
		for _, ic := range cases {
			n := 0
			for _, E := range srcs {
				def, _ := E.(ssa.Instruction)
				if ex, isEx := E.(*ssa.Extract); isEx {
					def, _ = ex.Tuple.(ssa.Instruction)
				}
				if def != nil && def.Block() != r.Block() && !reaches(def, r) {
					continue
				}
				n++
				ok := false
				for _, a := range ic.atoms {
					if a.Op == "==" && a.R == "nil" && a.LV == E {
						ok = true
					}
				}
				good = good && ok
			}
			good = good && n > 0
		}
		R.Check(good, "C08.excl", fmt.Sprintf("%s|%s|item-after-success#%d", core.ShortPkg(fn), core.FuncName(fn), n), P.InstrPos(r),
			"an item is returned only after the transport read succeeded",
			"an item is returned on a path where "+src+" did not succeed: a truncated item could be returned", nil)
	}
	if n == 0 {
		R.Fail("C08.excl", core.ShortPkg(fn)+"|"+core.FuncName(fn)+"|item-after-success", P.Pos(fn.Pos()), "no path returns an item", nil)
	}
}

// checkFullRead implements the who-may-call rule on transport readers.
func checkFullRead(c *Ctx, rule string, pkgs ...string) {
	P, R := c.P, c.R
	allowed := map[string]string{
		"io.ReadFull": "all-or-error", "io.CopyN": "all-or-error", "binary.Read": "all-or-error (io.ReadFull inside)",
		"(*bufio.Reader).ReadByte": "one byte or error", "(*bufio.Reader).Discard": "all-or-error", "(*bufio.Reader).Peek": "all-or-error",
		"bufio.NewReader": "construction", "bufio.NewReaderSize": "construction", "bufio.NewWriter": "construction (writer side)",
		"bufio.NewReadWriter": "construction",
	}
	isReaderType := func(t types.Type) bool {
		s := types.TypeString(t, nil)
		return s == "io.Reader" || s == "io.ReadWriter" || s == "io.ReadCloser" || s == "*bufio.Reader" || s == "io.ReadWriteCloser" || s == "net.Conn"
	}
	counts := map[string]int{}
	for _, fn := range P.ModuleFuncs(pkgs...) {
		core.EachInstr(fn, func(in ssa.Instruction) {
			call, ok := in.(*ssa.Call)
			if !ok {
				return
			}
			if call.Call.IsInvoke() {
				if isReaderType(call.Call.Value.Type()) && call.Call.Method.Name() == "Read" {
					key := ordKey(counts, core.ShortPkg(fn)+"|"+core.FuncName(fn)+"|invoke Read")
					R.Fail(rule, key, P.InstrPos(call), "the transport is read with a partial-read primitive (Read): a segmented stream can return fewer bytes than requested and the rest of the item would be misparsed", nil)
				}
				return
			}
			f := call.Call.StaticCallee()
			if f == nil {
				return
			}
			usesReader := false
			for i, a := range call.Call.Args {
				if !isReaderType(core.StripConv(a).Type()) {
					continue
				}
				name := core.FullName(f)
				// destination side of io.Copy(w, r): arg 0 is the writer
				if (name == "io.Copy" || name == "io.CopyN" || name == "io.CopyBuffer") && i == 0 {
					continue
				}
				usesReader = true
			}
			if !usesReader || core.InModule(f) {
				return
			}
			name := core.FullName(f)
			key := ordKey(counts, core.ShortPkg(fn)+"|"+core.FuncName(fn)+"|"+name)
			if name == "io.ReadAtLeast" && len(call.Call.Args) == 3 && core.Path(call.Call.Args[2]) == "len("+core.Path(call.Call.Args[1])+")" {
				R.OK(rule, key, P.InstrPos(call), "transport read through io.ReadAtLeast with min = len(buf) (all-or-error)")
				return
			}
			if name == "bufio.NewReader" || name == "bufio.NewReaderSize" {
				// a buffered reader reads ahead: it must live as long as the connection (kept in a field, returned), not be a
				// temporary around one read - the bytes it buffered beyond that read would be lost with it
				if !retained(call, 0) {
					R.Fail(rule, key, P.InstrPos(call), "the transport is read through a throw-away bufio.Reader: it reads ahead of the item it is created for and the surplus (the start of the next item) is dropped with it", nil)
					return
				}
				// a transport handed in for one call (a parameter other than the receiver) and buffered in the receiver: the
				// read-ahead stays in an object the caller does not read the rest of the stream through (the handshake
				// helper that reads C0..C2 through its own buffer swallows the first messages of the session)
				if fn.Signature.Recv() != nil && len(fn.Params) > 0 && len(call.Call.Args) > 0 {
					if par, isPar := core.StripConv(call.Call.Args[0]).(*ssa.Parameter); isPar && par != fn.Params[0] && keptInReceiver(call, fn.Params[0], 0) {
						R.Fail(rule, key, P.InstrPos(call), "the transport passed in as "+core.ParamName(par)+" for this call is wrapped in a bufio.Reader that is kept in the receiver ("+types.TypeString(fn.Params[0].Type(), nil)+"): it reads ahead of what the call consumes, and whoever reads the transport next (the message reader built on the same transport) never sees those bytes", nil)
						return
					}
				}
			}
			if why, ok := allowed[name]; ok {
				R.OK(rule, key, P.InstrPos(call), "transport read through "+name+" ("+why+")")
			} else {
				R.Fail(rule, key, P.InstrPos(call), "the transport is read through "+name+", which is not an all-or-error primitive: a segmented or cut stream could yield a short item without an error", nil)
			}
		})
	}
}

// ---------------------------------------------------------------------------------------------
// C08.errors

func checkErrorsPkg(c *Ctx) {
	P, R := c.P, c.R
	for _, name := range []string{"WithStack", "Wrap", "Wrapf", "WithMessage"} {
		fn := P.Func("errors", name)
		if !R.Anchor(fn != nil, "C08.errors", "errors."+name) {
			continue
		}
		R.Funcs[core.QualName(fn)] = true
		errP := fn.Params[0]
		// (1) nil in, nil out
		okNil := false
		if iff, ok := fn.Blocks[0].Instrs[len(fn.Blocks[0].Instrs)-1].(*ssa.If); ok {
			if bo, ok := iff.Cond.(*ssa.BinOp); ok && (bo.Op == token.EQL || bo.Op == token.NEQ) &&
				((bo.X == ssa.Value(errP) && core.IsNilConst(bo.Y)) || (bo.Y == ssa.Value(errP) && core.IsNilConst(bo.X))) {
				nilSucc := fn.Blocks[0].Succs[0]
				if bo.Op == token.NEQ {
					nilSucc = fn.Blocks[0].Succs[1]
				}
				if r, ok := nilSucc.Instrs[len(nilSucc.Instrs)-1].(*ssa.Return); ok && len(nilSucc.Instrs) == 1 && core.IsNilConst(r.Results[0]) {
					okNil = true
				}
			}
		}
		R.Check(okNil, "C08.errors", "errors|"+name+"|nil-yields-nil", P.Pos(fn.Pos()),
			"wrapping nil returns the nil constant", "wrapping a nil error does not return nil (callers' 'err != nil' tests would see a failure that never happened)", nil)
		// (1a) every call adds its layer: a non-nil argument never comes back as it is (no "already wrapped"/"same text"
		// shortcut - the message chain documents the path the error took, one entry per wrap)
		{
			same := ""
			for _, ret := range core.Returns(fn) {
				if len(ret.Results) == 0 {
					continue
				}
				for _, leaf := range core.ValueLeaves(ret.Results[0]) {
					if core.StripConv(leaf) == ssa.Value(errP) {
						same = P.InstrPos(ret)
					}
				}
			}
			R.Check(same == "", "C08.errors", "errors|"+name+"|always-adds-a-layer", P.Pos(fn.Pos()),
				"a non-nil error always comes back inside a new wrapper",
				"the argument itself is returned on some path (at "+same+"): that call's message or stack is missing from the chain although the caller asked for it", nil)
		}
		// (1b) wrapping allocates: no store into anything but objects created in this call
		pure := true
		core.EachInstr(fn, func(in ssa.Instruction) {
			if st, ok := in.(*ssa.Store); ok {
				if _, isAlloc := core.PathRoot(st.Addr).(*ssa.Alloc); !isAlloc {
					pure = false
				}
			}
		})
		R.Check(pure, "C08.errors", "errors|"+name+"|no-mutation", P.Pos(fn.Pos()),
			"the wrapped error is never modified (wrapping only allocates new layers)",
			"the constructor writes into an existing error value: wrapping the same error twice (or keeping the inner error) yields chains with layers that were never attached", nil)
		// (2) the chain of wrappers ends at the parameter, each through the field Cause() returns
		okChain, detail := wrapChain(P, fn, errP)
		R.Check(okChain, "C08.errors", "errors|"+name+"|cause-chain", P.Pos(fn.Pos()),
			"every layer built stores the wrapped error in the field its Cause() returns: "+detail,
			"the wrapped error is not reachable through Cause(): "+detail, nil)
	}
	// withMessage.Error()
	if fn := P.Func("errors", "(*withMessage).Error"); R.Anchor(fn != nil, "C08.errors", "errors.(*withMessage).Error") {
		ok := false
		for _, r := range core.Returns(fn) {
			outer, isB := r.Results[0].(*ssa.BinOp)
			if !isB || outer.Op != token.ADD {
				continue
			}
			inner, isB2 := outer.X.(*ssa.BinOp)
			if !isB2 || inner.Op != token.ADD {
				continue
			}
			sep, _ := core.ConstString(inner.Y)
			call, isCall := outer.Y.(*ssa.Call)
			if sep == ": " && strings.HasSuffix(core.Path(inner.X), ".msg") && isCall && call.Call.IsInvoke() &&
				call.Call.Method.Name() == "Error" && strings.HasSuffix(core.Path(call.Call.Value), ".cause") {
				ok = true
			}
		}
		R.Check(ok, "C08.errors", "errors|(*withMessage).Error|chain", P.Pos(fn.Pos()),
			"message chain is msg + \": \" + cause.Error()", "withMessage.Error() is not msg + \": \" + cause.Error()", nil)
	}
	// Cause()
	if fn := P.Func("errors", "Cause"); R.Anchor(fn != nil, "C08.errors", "errors.Cause") {
		var ta *ssa.TypeAssert
		var inv *ssa.Call
		core.EachInstr(fn, func(in ssa.Instruction) {
			switch x := in.(type) {
			case *ssa.TypeAssert:
				if it, ok := x.AssertedType.Underlying().(*types.Interface); ok && x.CommaOk && it.NumMethods() == 1 && it.Method(0).Name() == "Cause" {
					ta = x
				}
			case *ssa.Call:
				if x.Call.IsInvoke() && x.Call.Method.Name() == "Cause" {
					inv = x
				}
			}
		})
		ok := ta != nil && inv != nil && core.InLoop(ta.Block()) && core.InLoop(inv.Block())
		if ta == nil && inv == nil {
			// one unwrapping step in a helper (next, ok := unwrapOnce(err)): the loop variable is fed by the parameter
			// and by the helper's result, which is x.Cause() of its argument asserted to the one-method interface;
			// the helper's ok result ends the loop
			for _, r := range core.Returns(fn) {
				phi, isPhi := r.Results[0].(*ssa.Phi)
				if !isPhi || !core.InLoop(phi.Block()) {
					continue
				}
				hasP, hasC, other := false, false, false
				for _, e := range phi.Edges {
					switch {
					case e == ssa.Value(fn.Params[0]):
						hasP = true
					case e == ssa.Value(phi):
					default:
						res := core.NewResolver(false)
						cv, isCall := res.V(e).(*ssa.Call)
						step := false
						if isCall && cv.Call.IsInvoke() && cv.Call.Method.Name() == "Cause" {
							// receiver: result #0 of a comma-ok assertion of the helper's argument, which is the loop variable
							recv := res.V(cv.Call.Value)
							if ex, isEx := recv.(*ssa.Extract); isEx && ex.Index == 0 {
								if t2, isTA := ex.Tuple.(*ssa.TypeAssert); isTA && t2.CommaOk {
									if it, isI := t2.AssertedType.Underlying().(*types.Interface); isI && it.NumMethods() == 1 && it.Method(0).Name() == "Cause" {
										if res.V(t2.X) == ssa.Value(phi) {
											step = true
										}
									}
								}
							}
						}
						if step {
							hasC = true
						} else {
							other = true
						}
					}
				}
				// the loop is left through the helper's ok result
				exits := false
				core.EachInstr(fn, func(in ssa.Instruction) {
					if iff, isIf := in.(*ssa.If); isIf && core.InLoop(iff.Block()) {
						c := iff.Cond
						if u, isNot := c.(*ssa.UnOp); isNot && u.Op == token.NOT {
							c = u.X
						}
						if ex, isEx := c.(*ssa.Extract); isEx && ex.Index == 1 {
							if _, isCall := ex.Tuple.(*ssa.Call); isCall {
								exits = true
							}
						}
					}
				})
				if hasP && hasC && !other && exits {
					R.OK("C08.errors", "errors|Cause|unwinds", P.Pos(fn.Pos()), "Cause() follows Cause() links (through a one-step helper), and nothing else, until a value that does not implement it")
					return
				}
			}
		}
		if ok {
			// the returned value is the loop variable fed by the parameter and by Cause()'s result
			ok = false
			for _, r := range core.Returns(fn) {
				if phi, isPhi := r.Results[0].(*ssa.Phi); isPhi {
					hasP, hasC, other := false, false, false
					for _, e := range phi.Edges {
						switch {
						case e == ssa.Value(fn.Params[0]):
							hasP = true
						case e == ssa.Value(inv):
							hasC = true
						case e == ssa.Value(phi):
						default:
							other = true // unwinds through something that is not this package's Cause() link
						}
					}
					ok = hasP && hasC && !other
				}
			}
			// the not-a-causer exit leaves the loop
			okExit := false
			for _, r := range *ta.Referrers() {
				if ex, isEx := r.(*ssa.Extract); isEx && ex.Index == 1 {
					for _, r2 := range *ex.Referrers() {
						if _, isIf := r2.(*ssa.If); isIf {
							okExit = true
						}
					}
				}
			}
			ok = ok && okExit
		}
		R.Check(ok, "C08.errors", "errors|Cause|unwinds", P.Pos(fn.Pos()),
			"Cause() follows Cause() links, and nothing else, until a value that does not implement it", "Cause() does not stop exactly at the first error that is not one of this package's wrappers (it must follow every Cause() link and no other kind of link such as Unwrap(), or it returns something inside the transport's own error)", nil)
	}
}

// wrapChain follows the parameter: stored into field F of a fresh object of type T whose
// Cause() returns F; that object is returned or wrapped again the same way.
func wrapChain(P *core.Program, fn *ssa.Function, errP *ssa.Parameter) (bool, string) {
	var cur ssa.Value = errP
	var layers []string
	for step := 0; step < 4; step++ {
		// where is cur stored?
		var alloc *ssa.Alloc
		var fv *types.Var
		for _, r := range *cur.Referrers() {
			st, ok := r.(*ssa.Store)
			if !ok || st.Val != cur {
				continue
			}
			fa, ok := st.Addr.(*ssa.FieldAddr)
			if !ok {
				continue
			}
			if a, ok := fa.X.(*ssa.Alloc); ok {
				alloc, fv = a, core.FieldVar(fa)
			}
		}
		if alloc == nil {
			// cur (an interface wrapping an alloc) must be returned
			for _, r := range core.Returns(fn) {
				if r.Results[0] == cur && step > 0 {
					return true, strings.Join(layers, " <- ")
				}
			}
			return false, fmt.Sprintf("after %d layer(s) the value is neither stored in a wrapper nor returned", step)
		}
		T := alloc.Type().Underlying().(*types.Pointer).Elem()
		named, _ := T.(*types.Named)
		if named == nil {
			return false, "wrapper is not a named type"
		}
		sel := P.SSA.MethodSets.MethodSet(types.NewPointer(named)).Lookup(named.Obj().Pkg(), "Cause")
		if sel == nil {
			return false, core.TypeNameOf(named.Obj()) + " has no Cause() method"
		}
		cf := P.SSA.MethodValue(sel)
		okF := false
		for _, r := range core.Returns(cf) {
			if core.FieldVar(loadAddr(r.Results[0])) == fv {
				okF = true
			}
		}
		if !okF {
			return false, core.TypeNameOf(named.Obj()) + ".Cause() does not return the field the error is stored in (" + core.FieldVarName(fv) + ")"
		}
		layers = append(layers, core.TypeNameOf(named.Obj())+"."+core.FieldVarName(fv))
		// next: the alloc as an interface value
		cur = nil
		for _, r := range *alloc.Referrers() {
			if mi, ok := r.(*ssa.MakeInterface); ok {
				cur = mi
			}
		}
		if cur == nil {
			return false, "wrapper object is not converted to error"
		}
		for _, r := range core.Returns(fn) {
			if r.Results[0] == cur {
				return true, strings.Join(layers, " <- ")
			}
		}
	}
	return false, "more than 4 layers"
}

func loadAddr(v ssa.Value) ssa.Value {
	if u, ok := v.(*ssa.UnOp); ok && u.Op == token.MUL {
		return u.X
	}
	return v
}

// retained: the value is stored somewhere that outlives the call (a field, a global, a returned value), directly or
// through a wrapper built from it.
func retained(v ssa.Value, d int) bool {
	if d > 4 {
		return false
	}
	refs := v.Referrers()
	if refs == nil {
		return false
	}
	for _, r := range *refs {
		switch x := r.(type) {
		case *ssa.Store:
			if x.Val == v {
				return true
			}
		case *ssa.Return:
			return true
		case *ssa.MakeInterface:
			if retained(x, d+1) {
				return true
			}
		case *ssa.ChangeInterface:
			if retained(x, d+1) {
				return true
			}
		case *ssa.Phi:
			if retained(x, d+1) {
				return true
			}
		case *ssa.Call:
			if f := x.Call.StaticCallee(); f != nil && (core.FullName(f) == "bufio.NewReadWriter" || core.InModule(f)) {
				// handed to a constructor whose result is kept
				if retained(x, d+1) {
					return true
				}
			}
		}
	}
	return false
}

// keptInReceiver: v (or a wrapper built from it) is stored into memory rooted at the receiver recv.
func keptInReceiver(v ssa.Value, recv *ssa.Parameter, d int) bool {
	if d > 4 || v.Referrers() == nil {
		return false
	}
	for _, r := range *v.Referrers() {
		switch x := r.(type) {
		case *ssa.Store:
			if x.Val == v && core.PathRoot(x.Addr) == ssa.Value(recv) {
				return true
			}
		case *ssa.MakeInterface:
			if keptInReceiver(x, recv, d+1) {
				return true
			}
		case *ssa.ChangeInterface:
			if keptInReceiver(x, recv, d+1) {
				return true
			}
		case *ssa.Phi:
			if keptInReceiver(x, recv, d+1) {
				return true
			}
		}
	}
	return false
}
