package rules

import (
	"fmt"
	"go/token"
	"go/types"
	"sort"
	"strings"

	"golang.org/x/tools/go/ssa"

	"oryxverif/checker/internal/core"
)

func init() {
	register(&Property{
		ID: "C17",
		Explain: "Decided (structural): C17.tables - the four parallel marker tables of NewJsonPlusReader, evaluated and zipped, contain the three JSON-relevant tuples with exactly these flags: " +
			"(\", \", passed through, terminator required), (//, newline, dropped, terminator optional at end of input), (/*, */, dropped, terminator required); the tables have equal length; extra tuples whose " +
			"start marker cannot occur outside a string in valid JSON are tolerated; C17.token - in the scanner's split function the consumed length is pos + len(start) + extra + len(end), a non-comment " +
			"region is emitted whole (data[:advance]) and a comment region is dropped whole (data[:pos]), the end marker is searched in the bytes after the start marker, and 'need more data' is only " +
			"answered when not at end of input (or the input is empty); C17.escape - necessary condition for strings being closed by an unescaped quote: the computation of a region's end examines the " +
			"backslash (some module function reachable from the split function compares a byte with 0x5C or searches for a constant containing it); every such comparison is the condition of a branch of a forward scan whose taken edge " +
			"skips the next byte unconditionally (no look-behind from a candidate end mark, which ignores the parity of a run of backslashes), and that scan is enabled, at every call from the split function, exactly for the rules not marked as comments. " +
			"Not decided: semantic transparency for every JSON value, decoration and read segmentation (equivalence of a hand-written scanner with the JSON grammar).",
		Assume: []string{"bufio.Scanner calls the split function with a growing prefix of the remaining input and honours (advance, token)", "encoding/json"},
		Run:    runC17,
	})
}

// literalSlice evaluates a slice literal argument into constant strings ("true"/"false" for bools).
func literalSlice(v ssa.Value) ([]string, bool) {
	sl, ok := v.(*ssa.Slice)
	if !ok {
		return nil, false
	}
	arr, ok := sl.X.(*ssa.Alloc)
	if !ok {
		return nil, false
	}
	vals := map[int64]string{}
	max := int64(-1)
	okAll := true
	for _, r := range *arr.Referrers() {
		ia, ok := r.(*ssa.IndexAddr)
		if !ok {
			continue
		}
		i, isC := core.ConstInt(ia.Index)
		if !isC {
			okAll = false
			continue
		}
		for _, r2 := range *ia.Referrers() {
			st, ok := r2.(*ssa.Store)
			if !ok {
				continue
			}
			val := st.Val
			if cv, ok := val.(*ssa.Convert); ok {
				val = cv.X
			}
			// an element written as a byte literal ({'/', '*'}): the same bytes as []byte("/*")
			if sl, isSl := val.(*ssa.Slice); isSl && sl.Low == nil && sl.High == nil {
				if inner, isAlloc := sl.X.(*ssa.Alloc); isAlloc {
					bs := map[int64]byte{}
					top, good := int64(-1), true
					for _, r3 := range *inner.Referrers() {
						ia2, ok := r3.(*ssa.IndexAddr)
						if !ok {
							continue
						}
						k, isK := core.ConstInt(ia2.Index)
						for _, r4 := range *ia2.Referrers() {
							if st2, ok := r4.(*ssa.Store); ok {
								b, isB := core.ConstInt(st2.Val)
								if !isK || !isB {
									good = false
									continue
								}
								bs[k] = byte(b)
								if k > top {
									top = k
								}
							}
						}
					}
					if n := arrayLen(inner); good && n >= 0 {
						buf := make([]byte, n)
						for k, b := range bs {
							if int(k) < n {
								buf[k] = b
							}
						}
						vals[i] = string(buf)
						if i > max {
							max = i
						}
						continue
					}
				}
			}
			c, ok := val.(*ssa.Const)
			if !ok || c.Value == nil {
				okAll = false
				continue
			}
			if s, ok := core.ConstString(c); ok {
				vals[i] = s
			} else {
				vals[i] = c.Value.String()
			}
			if i > max {
				max = i
			}
		}
	}
	out := make([]string, max+1)
	for i := range out {
		s, ok := vals[int64(i)]
		if !ok {
			// zero value (false) elements of a bool literal are not stored explicitly
			s = "false"
		}
		out[i] = s
	}
	// the array length is authoritative
	if n := arrayLen(arr); n >= 0 && n != len(out) {
		for len(out) < n {
			out = append(out, "false")
		}
	}
	return out, okAll
}

func arrayLen(a *ssa.Alloc) int {
	s := a.Type().String()
	var n int
	if _, err := fmt.Sscanf(s, "*[%d]", &n); err == nil {
		return n
	}
	return -1
}

func runC17(c *Ctx) {
	P, R := c.P, c.R
	R.Require("C17.tables", 4)
	R.Require("C17.token", 6)
	R.Require("C17.escape", 3)
	R.Require("C17.read", 1)
	for _, f := range P.ModuleFuncs("json") {
		R.Funcs[core.QualName(f)] = true
	}
	np := P.Func("json", "NewJsonPlusReader")
	ncr := P.Func("json", "NewCommentReader")
	if !R.Anchor(np != nil && ncr != nil, "C17.tables", "json.NewJsonPlusReader / json.NewCommentReader") {
		return
	}
	// ---- C17.tables
	var call *ssa.Call
	core.EachInstr(np, func(in ssa.Instruction) {
		if cl, ok := in.(*ssa.Call); ok && cl.Call.StaticCallee() == ncr {
			call = cl
		}
	})
	if call == nil {
		R.Unknown("C17.tables", "json|NewJsonPlusReader|tables", P.Pos(np.Pos()), "NewJsonPlusReader no longer passes literal marker tables to NewCommentReader", nil)
	} else {
		var cols [4][]string
		okEval := true
		for i := 0; i < 4; i++ {
			var ok bool
			cols[i], ok = literalSlice(call.Call.Args[i+1])
			if !ok || cols[i] == nil {
				okEval = false
			}
		}
		if !okEval {
			R.Unknown("C17.tables", "json|NewJsonPlusReader|tables", P.InstrPos(call), "the marker tables are not constant slice literals", nil)
		} else {
			n := len(cols[0])
			R.Check(len(cols[1]) == n && len(cols[2]) == n && len(cols[3]) == n, "C17.tables", "json|NewJsonPlusReader|equal-length", P.InstrPos(call),
				fmt.Sprintf("the four marker tables have %d entries each", n),
				fmt.Sprintf("the marker tables have different lengths (%d,%d,%d,%d): an index found in one would be out of range in another", len(cols[0]), len(cols[1]), len(cols[2]), len(cols[3])), nil)
			tuples := map[string][3]string{}
			for i := 0; i < n && i < len(cols[1]) && i < len(cols[2]) && i < len(cols[3]); i++ {
				tuples[cols[0][i]] = [3]string{cols[1][i], cols[2][i], cols[3][i]}
			}
			want := []struct {
				start string
				t     [3]string
				what  string
			}{
				{`"`, [3]string{`"`, "false", "true"}, "string literals are passed through and must be terminated"},
				{`//`, [3]string{"\n", "true", "false"}, "line comments are dropped and may end at end of input"},
				{`/*`, [3]string{`*/`, "true", "true"}, "block comments are dropped and must be terminated"},
			}
			for _, w := range want {
				got, ok := tuples[w.start]
				R.Check(ok && got == w.t, "C17.tables", "json|NewJsonPlusReader|tuple|"+w.start, P.InstrPos(call), w.what,
					fmt.Sprintf("marker %q is configured as (end=%q, comment=%s, required=%s), expected (end=%q, comment=%s, required=%s)", w.start, got[0], got[1], got[2], w.t[0], w.t[1], w.t[2]), nil)
			}
			var starts []string
			for s := range tuples {
				starts = append(starts, s)
			}
			sort.Strings(starts)
			for _, s := range starts {
				if s == `"` || s == "//" || s == "/*" {
					continue
				}
				// an extra marker is harmless iff it cannot occur outside a string in valid JSON
				harmless := s != "" && !strings.ContainsAny(s[:1], "{}[]:,-+.0123456789eEtrufalsn \t\r\n")
				R.Check(harmless, "C17.tables", "json|NewJsonPlusReader|extra|"+s, P.InstrPos(call),
					fmt.Sprintf("extra marker %q cannot occur outside a string in valid JSON", s),
					fmt.Sprintf("extra marker %q can occur in valid JSON outside strings and would change the document", s), nil)
			}
		}
	}

	// ---- C17.token
	split := P.Func("json", "NewCommentReader$1") // by role: the function handed to (*bufio.Scanner).Split
	if !R.Anchor(split != nil, "C17.token", "json.NewCommentReader$1") {
		return
	}
	checkSplit(c, split)

	// ---- C17.read: end of input is reported only when the scanner is exhausted; after a successful Scan,
	// io.EOF may only be returned on a path that carries evidence that data was buffered (a non-empty
	// token test or a non-empty buffer test) - an empty token (a dropped comment with nothing before it)
	// must lead to another Scan, not to EOF.
	if rd := P.Func("json", "(*commentReader).Read"); R.Anchor(rd != nil, "C17.read", "json.(*commentReader).Read") {
		isScan := func(in ssa.Instruction) bool {
			call, ok := in.(*ssa.Call)
			return ok && call.Call.StaticCallee() != nil && core.FullName(call.Call.StaticCallee()) == "(*bufio.Scanner).Scan"
		}
		evidence := func(iff *ssa.If, succIdx int) bool {
			a, isCmp := core.AtomOf(core.Guard{Cond: iff.Cond, Pol: succIdx == 0, If: iff})
			if !isCmp {
				return false
			}
			isLen := strings.HasPrefix(a.L, "len(") || strings.Contains(a.L, ".Len(")
			if !isLen {
				return false
			}
			return (a.Op == ">" && a.R == "0") || (a.Op == "!=" && a.R == "0") || (a.Op == ">=" && a.R == "1")
		}
		n := 0
		// Scan sites: in Read itself, or in a module helper Read calls (the scan loop extracted into a function); for
		// the latter the walk continues after the call in Read when the helper returns.
		type scanSite struct {
			call *ssa.Call
			ret  *ssa.Call // call in Read through which the helper was entered (nil: the Scan is in Read)
		}
		var sites []scanSite
		core.EachInstr(rd, func(in ssa.Instruction) {
			if isScan(in) {
				sites = append(sites, scanSite{in.(*ssa.Call), nil})
				return
			}
			if call, ok := in.(*ssa.Call); ok {
				if f := call.Call.StaticCallee(); f != nil && core.InModule(f) && len(f.Blocks) > 0 && f != rd {
					core.EachInstr(f, func(x ssa.Instruction) {
						if isScan(x) {
							sites = append(sites, scanSite{x.(*ssa.Call), call})
						}
					})
				}
			}
		})
		for _, site := range sites {
			call := site.call
			for _, r := range *call.Referrers() {
				iff, ok := r.(*ssa.If)
				if !ok {
					continue
				}
				n++
				bad := ""
				type pos struct {
					b    *ssa.BasicBlock
					from int
					inRd bool
				}
				seen := map[pos]bool{}
				var walk func(b *ssa.BasicBlock, from int, ret *ssa.Call)
				walk = func(b *ssa.BasicBlock, from int, ret *ssa.Call) {
					k := pos{b, from, ret == nil}
					if seen[k] || bad != "" {
						return
					}
					seen[k] = true
					for _, x := range b.Instrs[from:] {
						if isScan(x) {
							return
						}
						if r, ok := x.(*ssa.Return); ok {
							if ret != nil {
								// back in Read, right after the call of the helper
								walk(ret.Block(), core.InstrIndex(ret)+1, nil)
								return
							}
							if len(r.Results) == 2 && (core.Path(r.Results[1]) == "io.EOF" || isBufferReadErr(r.Results[1])) {
								// io.EOF itself, or the result of bytes.Buffer.Read, which is io.EOF on an empty buffer
								bad = P.InstrPos(r)
							}
							return
						}
					}
					if i2, ok := b.Instrs[len(b.Instrs)-1].(*ssa.If); ok {
						for k, s2 := range b.Succs {
							if !evidence(i2, k) {
								walk(s2, 0, ret)
							}
						}
						return
					}
					for _, s2 := range b.Succs {
						walk(s2, 0, ret)
					}
				}
				walk(iff.Block().Succs[0], 0, site.ret)
				R.Check(bad == "", "C17.read", fmt.Sprintf("json|(*commentReader).Read|eof-only-when-exhausted#%d", n), P.InstrPos(call),
					"after a successful Scan, io.EOF is only returned on paths with evidence that data was buffered; an empty token leads to another Scan",
					"after a successful Scan that yielded an empty token (a comment with no data in front of it) Read can return io.EOF (at "+bad+") without scanning further: the rest of the document is cut off", nil)
			}
		}
		if n == 0 {
			R.Unknown("C17.read", "json|(*commentReader).Read|eof-only-when-exhausted", P.Pos(rd.Pos()), "Read no longer branches on bufio.Scanner.Scan", nil)
		}
	}

	// ---- C17.token: the search for the first start mark looks at every offset of the pending data, from 0, one by one
	if fm := P.Func("json", "firstMatch"); R.Anchor(fm != nil, "C17.token", "json.firstMatch") {
		okScan, why := false, "firstMatch does not test the marks against data[i:] for a scan position i"
		core.EachInstr(fm, func(in ssa.Instruction) {
			call, ok := in.(*ssa.Call)
			if !ok || call.Call.StaticCallee() == nil {
				return
			}
			name := core.FullName(call.Call.StaticCallee())
			if name != "bytes.HasPrefix" && name != "bytes.Equal" {
				return
			}
			sl, ok := core.StripConv(call.Call.Args[0]).(*ssa.Slice)
			if !ok || sl.Low == nil || sl.X != ssa.Value(fm.Params[0]) {
				return
			}
			// bytes.HasPrefix(data[i:], m), or the same test written as bytes.Equal(data[i:i+len(m)], m)
			if name == "bytes.HasPrefix" && sl.High != nil {
				return
			}
			if name == "bytes.Equal" {
				hi, isAdd := core.StripConv(sl.High).(*ssa.BinOp)
				if sl.High == nil || !isAdd || hi.Op != token.ADD {
					return
				}
				lenOfMark := func(v ssa.Value) bool {
					c, isCall := core.StripConv(v).(*ssa.Call)
					if !isCall {
						return false
					}
					b, isB := c.Call.Value.(*ssa.Builtin)
					return isB && b.Name() == "len" && core.StripConv(c.Call.Args[0]) == core.StripConv(call.Call.Args[1])
				}
				if !((hi.X == sl.Low && lenOfMark(hi.Y)) || (hi.Y == sl.Low && lenOfMark(hi.X))) {
					return
				}
			}
			// the position: a range index over data (starts at 0, step 1) or a counter phi(0, i+1)
			idx := sl.Low
			start, step := int64(-99), int64(0)
			if bo, isB := idx.(*ssa.BinOp); isB && bo.Op == token.ADD { // range: i = phi(-1, i) + 1
				if phi, isPhi := bo.X.(*ssa.Phi); isPhi {
					if k, isK := core.ConstInt(bo.Y); isK && k == 1 {
						for _, e := range phi.Edges {
							if c, isC := core.ConstInt(e); isC {
								start = c + 1
							} else if e == ssa.Value(bo) {
								step = 1
							}
						}
					}
				}
			}
			if phi, isPhi := idx.(*ssa.Phi); isPhi {
				for _, e := range phi.Edges {
					if c, isC := core.ConstInt(e); isC {
						start = c
					} else if d, ok := constAdvance(e, phi, nil, 0); ok {
						step = d
					}
				}
			}
			if start == 0 && step == 1 {
				okScan = true
			} else {
				why = fmt.Sprintf("the scan for a start mark begins at offset %d and moves by %d (expected 0 and 1)", start, step)
			}
		})
		R.Check(okScan, "C17.token", "json|firstMatch|scans-every-offset-from-0", P.Pos(fm.Pos()),
			"every offset of the pending data, starting with 0, is tested for a start mark",
			why+": a comment or string that begins exactly where the previous token ended (\"b\"/*c*/, two comments in a row, a document starting with a comment) is not recognised", nil)
	}

	// ---- C17.token: bufio.Scanner refuses tokens longer than 64 KiB unless Buffer() raises the limit; the reader's tokens
	// are whole strings, whole comments and whole runs of text between two marks
	if ncr := P.Func("json", "NewCommentReader"); R.Anchor(ncr != nil, "C17.token", "json.NewCommentReader") {
		raised := false
		core.EachInstr(ncr, func(in ssa.Instruction) {
			if call, ok := in.(*ssa.Call); ok && call.Call.StaticCallee() != nil && core.FullName(call.Call.StaticCallee()) == "(*bufio.Scanner).Buffer" {
				if k, isK := core.ConstInt(call.Call.Args[2]); isK && k >= 1<<30 {
					raised = true
				}
			}
		})
		R.Check(raised, "C17.token", "json|NewCommentReader|scanner-token-limit-raised", P.Pos(ncr.Pos()),
			"the scanner's token limit is raised, so long strings, comments and mark-free runs pass",
			"the scanner keeps bufio's default 64 KiB token limit: a document with a string literal, a comment or a run without quotes and comment marks of 65536 bytes or more fails with 'bufio.Scanner: token too long' instead of decoding to its value", nil)
	}

	// ---- C17.escape
	reach := P.Reachable(split)
	found := ""
	var names []string
	for fn := range reach {
		names = append(names, core.QualName(fn))
		core.EachInstr(fn, func(in ssa.Instruction) {
			switch x := in.(type) {
			case *ssa.BinOp:
				if x.Op == token.EQL || x.Op == token.NEQ {
					for _, op := range []ssa.Value{x.X, x.Y} {
						if n, ok := core.ConstInt(op); ok && n == 0x5c {
							found = core.QualName(fn) + " compares a byte with '\\\\' at " + P.InstrPos(x)
						}
					}
				}
			case *ssa.Call:
				for _, a := range x.Call.Args {
					if s, ok := core.ConstString(a); ok && strings.Contains(s, "\\") {
						found = core.QualName(fn) + " searches for a constant containing '\\\\' at " + P.InstrPos(x)
					}
					if n, ok := core.ConstInt(a); ok && n == 0x5c && strings.Contains(core.CalleeName(&x.Call), "Index") {
						found = core.QualName(fn) + " searches for '\\\\' at " + P.InstrPos(x)
					}
				}
			}
		})
	}
	// a backslash is only ever looked at as the condition of the scan's own branch (checked below): a test that looks
	// back from a candidate end mark ("is the byte before it a backslash?") ignores the parity of the run of backslashes
	for fn := range reach {
		if !core.InModule(fn) {
			continue
		}
		n := 0
		core.EachInstr(fn, func(in ssa.Instruction) {
			bo, ok := in.(*ssa.BinOp)
			if !ok || (bo.Op != token.EQL && bo.Op != token.NEQ) {
				return
			}
			isBS := false
			for _, op := range []ssa.Value{bo.X, bo.Y} {
				if k, ok := core.ConstInt(op); ok && k == 0x5c {
					isBS = true
				}
			}
			if !isBS {
				return
			}
			n++
			branch := false
			for _, r := range *bo.Referrers() {
				if _, isIf := r.(*ssa.If); isIf {
					branch = true
				}
			}
			R.Check(branch, "C17.escape", fmt.Sprintf("json|%s|backslash-test#%d|is-the-scan-branch", core.FuncName(fn), n), P.InstrPos(bo),
				"the byte is compared with a backslash as the condition of a branch of the scan",
				"a byte is compared with a backslash outside the scan's own branch (a look-behind from a candidate end mark, a flag computed for later): whether a mark is escaped depends on the parity of the backslashes before it (\"C:\\\\\" ends at its quote), which only a forward scan that skips the escaped byte gets right", nil)
		})
	}
	// the backslash escapes the byte after it whatever that byte is (JSON: \\ is one escaped backslash, so in "C:\\" the
	// quote after it closes the string): on the branch taken for a backslash the scan position moves on by two with no
	// further test on the way back to the loop head
	for fn := range reach {
		if fn.Blocks == nil {
			continue
		}
		for _, b := range fn.Blocks {
			if len(b.Instrs) == 0 {
				continue
			}
			iff, ok := b.Instrs[len(b.Instrs)-1].(*ssa.If)
			if !ok {
				continue
			}
			bo, ok := iff.Cond.(*ssa.BinOp)
			if !ok || (bo.Op != token.EQL && bo.Op != token.NEQ) {
				continue
			}
			k, isK := core.ConstInt(bo.Y)
			if !isK || k != 0x5c {
				continue
			}
			taken := b.Succs[0]
			if bo.Op == token.NEQ {
				taken = b.Succs[1]
			}
			// walk the straight line from the branch to a loop header, summing the constant increments of the index
			skipOK := false
			why := "the backslash branch does not return straight to the loop head"
			cur := taken
			env := map[ssa.Value]ssa.Value{} // phis of the blocks passed on the way, resolved along this path
			for steps := 0; steps < 6 && cur != nil; steps++ {
				if len(cur.Succs) != 1 {
					why = "another condition is tested on the backslash branch at " + P.InstrPos(cur.Instrs[len(cur.Instrs)-1]) + " before the position advances (the escape is honoured only in some contexts)"
					break
				}
				next := cur.Succs[0]
				if next.Dominates(cur) { // back edge: next is the loop head
					for _, in := range next.Instrs {
						phi, isPhi := in.(*ssa.Phi)
						if !isPhi {
							break
						}
						for i, pr := range next.Preds {
							if pr != cur {
								continue
							}
							if d, ok := constAdvance(phi.Edges[i], phi, env, 0); ok && d == 2 {
								skipOK = true
							}
						}
					}
					if !skipOK {
						why = "the scan position does not advance by two (the backslash and the byte it escapes) on the backslash branch"
					}
					break
				}
				for _, in := range next.Instrs {
					phi, isPhi := in.(*ssa.Phi)
					if !isPhi {
						break
					}
					for i, pr := range next.Preds {
						if pr == cur {
							env[phi] = phi.Edges[i]
						}
					}
				}
				cur = next
			}
			R.Check(skipOK, "C17.escape", "json|"+core.FuncName(fn)+"|backslash-skips-the-next-byte-unconditionally", P.InstrPos(iff),
				"a backslash makes the scan skip the byte after it, whatever it is",
				why+": an escaped backslash before the closing quote (\"C:\\\\\") leaves the string open and the rest of the document is mis-scanned", nil)
		}
	}
	// the escape is honoured in quoted text and nowhere else: a backslash inside a comment escapes nothing (/* C:\tmp\*/
	// ends at its end mark).  The scan's backslash branch runs under a boolean; that boolean is, at every call from the
	// split function, false exactly for the rules marked as comments (the polarity is followed through negations and
	// through the helper's own guard).
	for fn := range reach {
		if !core.InModule(fn) || fn.Blocks == nil {
			continue
		}
		for _, b := range fn.Blocks {
			if len(b.Instrs) == 0 {
				continue
			}
			iff, ok := b.Instrs[len(b.Instrs)-1].(*ssa.If)
			if !ok {
				continue
			}
			bo, ok := iff.Cond.(*ssa.BinOp)
			if !ok || (bo.Op != token.EQL && bo.Op != token.NEQ) {
				continue
			}
			if k, isK := core.ConstInt(bo.Y); !isK || k != 0x5c {
				continue
			}
			key := "json|" + core.FuncName(fn) + "|escape-applies-to-quoted-text-only"
			// the boolean guards of the scan
			type bguard struct {
				v   ssa.Value
				pol bool // the scan runs when v == pol
			}
			var gs []bguard
			for _, g := range core.Guards(b) {
				cond, pol := g.Cond, g.Pol
				for {
					if u, ok := cond.(*ssa.UnOp); ok && u.Op == token.NOT {
						cond, pol = u.X, !pol
						continue
					}
					break
				}
				if bt, ok := cond.Type().Underlying().(*types.Basic); ok && bt.Kind() == types.Bool {
					if _, isCmp := cond.(*ssa.BinOp); !isCmp {
						gs = append(gs, bguard{cond, pol})
					}
				}
			}
			// verdict for a boolean expression e that must equal pol for the scan to run: ok when that means "not a comment"
			judge := func(e ssa.Value, pol bool) (bool, string) {
				e = core.StripConv(e)
				for {
					if u, ok := e.(*ssa.UnOp); ok && u.Op == token.NOT {
						e, pol = u.X, !pol
						continue
					}
					break
				}
				path := core.Path(e)
				if !strings.HasPrefix(path, "isComments[") {
					return false, "the flag that enables the backslash scan is " + path + ", not derived from isComments[index]"
				}
				if pol {
					return false, "the backslash scan runs for the rules marked as comments and not for quoted text"
				}
				return true, ""
			}
			okAll, why, sites := false, "the backslash scan is not selected by any flag: a backslash would escape the next byte inside comments as well", 0
			for _, g := range gs {
				if par, isPar := g.v.(*ssa.Parameter); isPar {
					idx := -1
					for i, q := range fn.Params {
						if q == par {
							idx = i
						}
					}
					okAll, why = true, ""
					for caller := range reach {
						if !core.InModule(caller) {
							continue
						}
						core.EachInstr(caller, func(in ssa.Instruction) {
							call, isCall := in.(*ssa.Call)
							if !isCall || call.Call.StaticCallee() != fn || idx >= len(call.Call.Args) {
								return
							}
							sites++
							if ok, w := judge(call.Call.Args[idx], g.pol); !ok {
								okAll, why = false, w+" (call at "+P.InstrPos(call)+")"
							}
						})
					}
					if sites == 0 {
						okAll, why = false, "no call site of the scan found from the split function"
					}
					break
				}
				if ok, w := judge(g.v, g.pol); ok {
					okAll, why, sites = true, "", 1
					break
				} else if strings.HasPrefix(core.Path(core.StripConv(g.v)), "isComments[") || strings.HasPrefix(w, "the backslash scan runs") {
					okAll, why = false, w
					break
				}
			}
			R.Check(okAll, "C17.escape", key, P.InstrPos(iff),
				fmt.Sprintf("the backslash scan is enabled exactly for the rules not marked as comments (%d site(s))", sites),
				why+": JSON escapes exist in string literals only, so a comment whose text ends in a backslash (/* C:\\tmp\\*/) would run on to a later end mark and swallow members, or fail as unterminated", nil)
		}
	}
	sort.Strings(names)
	R.Check(found != "", "C17.escape", "json|NewCommentReader$1|backslash-examined", P.Pos(split.Pos()),
		"the end of a quoted region is computed with regard to backslash escapes: "+found,
		"no function reachable from the scanner's split function ever looks at a backslash: a string literal containing an escaped quote (\"x\\\"//y\") is cut at the escaped quote and the rest is mis-scanned",
		map[string]interface{}{"reachable": names})
}

func addTerms(v ssa.Value, out *[]ssa.Value) {
	if bo, ok := v.(*ssa.BinOp); ok && bo.Op == token.ADD {
		addTerms(bo.X, out)
		addTerms(bo.Y, out)
		return
	}
	*out = append(*out, v)
}

func checkSplit(c *Ctx, split *ssa.Function) {
	P, R := c.P, c.R
	// pos: Extract #0 of the call to firstMatch
	var pos ssa.Value
	core.EachInstr(split, func(in ssa.Instruction) {
		if ex, ok := in.(*ssa.Extract); ok && ex.Index == 0 {
			if call, ok := ex.Tuple.(*ssa.Call); ok && call.Call.StaticCallee() != nil && core.FnName(call.Call.StaticCallee()) == "firstMatch" {
				pos = ex
			}
		}
	})
	if pos == nil {
		R.Unknown("C17.token", "json|NewCommentReader$1|pos", P.Pos(split.Pos()), "the split function no longer obtains the region start from firstMatch", nil)
		return
	}
	data := split.Params[0]
	atEOF := split.Params[1]
	n := 0
	for _, r := range core.Returns(split) {
		adv, tok, errv := r.Results[0], r.Results[1], r.Results[2]
		if !core.IsNilConst(errv) {
			continue
		}
		n++
		key := fmt.Sprintf("json|NewCommentReader$1|return#%d", n)
		if a, ok := core.ConstInt(adv); ok && a == 0 && core.IsNilConst(tok) {
			// "need more data": only when not at EOF, or the input is empty
			ok2 := false
			for _, g := range core.Guards(r.Block()) {
				a, _ := core.AtomOf(g)
				if a.LV == ssa.Value(atEOF) && a.Op == "not" {
					ok2 = true
				}
				if a.L == "len(data)" && a.Op == "==" && a.R == "0" {
					ok2 = true
				}
			}
			R.Check(ok2, "C17.token", key+"|need-more", P.InstrPos(r),
				"'need more data' is answered only when more data can come (or the input is empty)",
				"'need more data' (0, nil, nil) can be answered at end of input with data pending: the rest of the document would be silently dropped", nil)
			continue
		}
		// token emitting return; a single merged return selects the token by a phi: each of its cases is judged with
		// the atoms of its edge
		tokCases := core.ValueCases(tok, r.Block())
		baseKey := key
		for ci, tc := range tokCases {
			key := baseKey
			if len(tokCases) > 1 {
				key = fmt.Sprintf("%s.%d", baseKey, ci+1)
			}
			caseAtoms := tc.Atoms
			sl, ok := tc.Val.(*ssa.Slice)
			if !ok || core.StripConv(sl.X) != ssa.Value(data) || sl.Low != nil {
				R.Fail("C17.token", key+"|token", P.InstrPos(r), "the emitted token is not a prefix of the scanned data", nil)
				continue
			}
			if sl.High == nil {
				// whole data at EOF with no marker
				lenOK := core.Path(adv) == "len(data)"
				eof := false
				for _, g := range core.Guards(r.Block()) {
					a, _ := core.AtomOf(g)
					if a.LV == ssa.Value(atEOF) && a.Op == "is" {
						eof = true
					}
				}
				R.Check(lenOK && eof, "C17.token", key+"|passthrough", P.InstrPos(r),
					"marker-free data passes through unchanged, and only at end of input (a marker may straddle a read boundary)",
					fmt.Sprintf("the pass-through return is wrong (consumes exactly what it emits: %v, only at end of input: %v): a comment marker split across two reads would be emitted as data", lenOK, eof), nil)
				continue
			}
			var terms []ssa.Value
			addTerms(adv, &terms)
			var names []string
			nPos, nStart, nEnd, nOther := 0, 0, 0, 0
			for _, t := range terms {
				p := core.Path(t)
				names = append(names, p)
				switch {
				case t == pos:
					nPos++
				case p == "len(startMatches[*])":
					nStart++
				case p == "len(endMatches[*])":
					nEnd++
				default:
					nOther++
				}
			}
			formula := nPos == 1 && nStart == 1 && nEnd == 1 && nOther == 1
			// the remaining term ("extra") is the offset of the end mark in the rest, or - at the end of input without an end
			// mark - len(rest) - len(end), so that adding len(end) again consumes exactly the rest
			extraOK, extraWhy := true, ""
			for _, t := range terms {
				pth := core.Path(t)
				if t == pos || pth == "len(startMatches[*])" || pth == "len(endMatches[*])" {
					continue
				}
				var edges []ssa.Value
				if phi, isPhi := t.(*ssa.Phi); isPhi {
					edges = phi.Edges
				} else {
					edges = []ssa.Value{t}
				}
				for _, e := range edges {
					switch x := core.StripConv(e).(type) {
					case *ssa.Call:
					case *ssa.Extract:
						// the search helper answers (index, ok)
						if _, isCall := x.Tuple.(*ssa.Call); !isCall {
							extraOK = false
							extraWhy = "the offset term is neither a search result nor len(rest) - len(end)"
						}
					case *ssa.BinOp:
						if x.Op != token.SUB || core.Path(x.Y) != "len(endMatches[*])" {
							extraOK = false
							extraWhy = "at the end of input the missing end mark is accounted with " + core.Path(x.Y) + " instead of len(endMatches[*])"
						}
					default:
						extraOK = false
						extraWhy = "the offset term is neither a search result nor len(rest) - len(end)"
					}
				}
				// "the region runs to the end of the data" is only right when no more data can come: while the input
				// is still open the end mark may simply not have arrived yet
				for _, vc := range core.ValueCases(t, r.Block()) {
					if bo, isB := core.StripConv(vc.Val).(*ssa.BinOp); isB && bo.Op == token.SUB {
						atEnd := false
						for _, a := range vc.Atoms {
							if a.LV == ssa.Value(atEOF) && a.Op == "is" {
								atEnd = true
							}
						}
						if !atEnd {
							extraOK = false
							extraWhy = "a region without its end mark is closed at the end of the buffered data although more input can follow (not under atEOF)"
						}
					}
				}
			}
			R.Check(extraOK, "C17.token", key+"|advance-at-eof", P.InstrPos(r),
				"without an end mark at the end of input the region runs to the end: extra = len(rest) - len(end)",
				extraWhy+": a final line comment without newline is consumed one byte short or long, so a byte of it reaches the decoder or the document's last byte is lost", nil)
			R.Check(formula, "C17.token", key+"|advance", P.InstrPos(r),
				"consumed length = pos + len(start) + extra + len(end)",
				"the consumed length is not pos + len(start) + extra + len(end) (terms: "+strings.Join(names, " + ")+"): part of a region would be emitted twice or skipped", nil)
			// which token under which flag
			isComment, found := false, false
			for _, a := range caseAtoms {
				if a.L == "isComments[*]" {
					found = true
					isComment = a.Op == "is"
				}
			}
			if !found {
				R.Fail("C17.token", key+"|token", P.InstrPos(r), "the emitted token does not depend on the region being a comment", nil)
				continue
			}
			if isComment {
				R.Check(sl.High == pos, "C17.token", key+"|comment-dropped", P.InstrPos(r),
					"a comment region is dropped whole: the token is data[:pos]", "for a comment region the token is not data[:pos]: comment bytes would reach the JSON decoder or real bytes would be lost", nil)
			} else {
				R.Check(sl.High == adv, "C17.token", key+"|text-passed", P.InstrPos(r),
					"a non-comment region is passed whole: the token is data[:advance]", "for a quoted region the token is not data[:advance]: part of a string literal would be lost", nil)
			}
		}
	}
	// the end marker is searched in the bytes after the start marker
	okLeft := false
	core.EachInstr(split, func(in ssa.Instruction) {
		sl, ok := in.(*ssa.Slice)
		if !ok || core.StripConv(sl.X) != ssa.Value(data) || sl.Low == nil || sl.High != nil {
			return
		}
		var terms []ssa.Value
		addTerms(sl.Low, &terms)
		if len(terms) == 2 && ((terms[0] == pos && core.Path(terms[1]) == "len(startMatches[*])") || (terms[1] == pos && core.Path(terms[0]) == "len(startMatches[*])")) {
			// used as first argument of a search call together with endMatches[index]
			for _, r := range *sl.Referrers() {
				if call, ok := r.(*ssa.Call); ok && len(call.Call.Args) >= 2 {
					// the rest and the end mark are both handed to the search, in whatever order its parameters stand
					hasRest, hasEnd := false, false
					for _, a := range call.Call.Args {
						if a == ssa.Value(sl) {
							hasRest = true
						}
						if core.Path(a) == "endMatches[*]" {
							hasEnd = true
						}
					}
					if hasRest && hasEnd {
						okLeft = true
					}
				}
			}
		}
	})
	R.Check(okLeft, "C17.token", "json|NewCommentReader$1|search-after-start", P.Pos(split.Pos()),
		"the end marker is searched in data[pos+len(start):]", "the end marker is not searched in the bytes following the start marker", nil)
}

// constAdvance: v = phi + d for a constant d, through a chain of constant additions.
func constAdvance(v ssa.Value, phi *ssa.Phi, env map[ssa.Value]ssa.Value, depth int) (int64, bool) {
	if v == ssa.Value(phi) {
		return 0, true
	}
	if depth > 8 {
		return 0, false
	}
	if r, ok := env[v]; ok {
		return constAdvance(r, phi, env, depth+1)
	}
	if bo, ok := v.(*ssa.BinOp); ok && bo.Op == token.ADD {
		if k, isK := core.ConstInt(bo.Y); isK {
			if d, ok := constAdvance(bo.X, phi, env, depth+1); ok {
				return d + k, true
			}
		}
	}
	return 0, false
}

// isBufferReadErr: the error result of (*bytes.Buffer).Read - io.EOF exactly when the buffer is empty.
func isBufferReadErr(v ssa.Value) bool {
	ex, ok := core.StripConv(v).(*ssa.Extract)
	if !ok || ex.Index != 1 {
		return false
	}
	call, ok := ex.Tuple.(*ssa.Call)
	return ok && call.Call.StaticCallee() != nil && core.FullName(call.Call.StaticCallee()) == "(*bytes.Buffer).Read"
}
