package rules

import (
	"fmt"
	"go/types"
	"sort"
	"strings"

	"golang.org/x/tools/go/ssa"

	"oryxverif/checker/internal/core"
)

// checkOwnsBytes: a codec hands out bytes that stay what they were.  Every []byte result of a function of the given
// packages is traced back to the storage it may alias (core.SliceOrigins); storage that outlives the call and is
// written again by the next one - an array or slice kept in the receiver, a buffer cached in a field, a package-level
// variable, a buffer that goes back to a sync.Pool - makes an item returned earlier change under the caller (the
// round trip of the first item fails once a second one was encoded or read).  A result that aliases a parameter (a
// decoder returning a window of its input) or fresh memory is fine; what cannot be traced is left alone.
func checkOwnsBytes(c *Ctx, rule string, pkgs ...string) {
	P, R := c.P, c.R
	R.Require(rule, 1)
	for _, fn := range P.ModuleFuncs(pkgs...) {
		if fn.Synthetic != "" || len(fn.Blocks) == 0 || fn.Object() == nil || !fn.Object().Exported() {
			continue // helpers are entered from the exported functions that use them
		}
		res := fn.Signature.Results()
		var idx []int
		for i := 0; i < res.Len(); i++ {
			if types.TypeString(res.At(i).Type(), nil) == "[]byte" {
				idx = append(idx, i)
			}
		}
		if len(idx) == 0 {
			continue
		}
		var bad []string
		where := P.Pos(fn.Pos())
		for _, r := range core.Returns(fn) {
			for _, i := range idx {
				if i >= len(r.Results) {
					continue
				}
				for _, o := range core.SliceOrigins(r.Results[i]) {
					switch o.Kind {
					case "receiver", "global", "pool":
						bad = append(bad, fmt.Sprintf("%s (%s, returned at %s)", o.Desc, o.Kind, P.InstrPos(r)))
						where = P.InstrPos(r)
					}
				}
			}
		}
		sort.Strings(bad)
		key := core.ShortPkg(fn) + "|" + core.FuncName(fn) + "|result-owns-its-bytes"
		R.Check(len(bad) == 0, rule, key, where,
			"the bytes returned are fresh or a window of the argument",
			"the bytes returned alias storage that outlives the call and is reused by the next one: "+strings.Join(dedup(bad), "; ")+" - an item handed out earlier changes when the next one is produced", nil)
	}
}

var _ = ssa.Value(nil)
