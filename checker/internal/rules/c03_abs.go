package rules

import (
	"fmt"
	"go/types"
	"strings"

	"golang.org/x/tools/go/ssa"

	"oryxverif/checker/internal/abs"
	"oryxverif/checker/internal/core"
)

func init() { absC03 = runC03abs }

// amf0Contract summarises AMF0 container values and values of unknown dynamic type:
// Size() is the atom size(<name>), MarshalBinary() yields one blob of exactly that length.
// Guaranteed where the types themselves are analysed (C05.size).
func amf0Contract(e *abs.Engine) func(p *abs.Path, call *ssa.CallCommon, callee *ssa.Function, args []abs.Value) (abs.Value, bool) {
	return func(p *abs.Path, call *ssa.CallCommon, callee *ssa.Function, args []abs.Value) (abs.Value, bool) {
		var meth string
		if callee != nil {
			if core.ShortPkg(callee) != "amf0" || callee.Signature.Recv() == nil {
				return nil, false
			}
			rt := callee.Signature.Recv().Type()
			if pt, ok := rt.(*types.Pointer); ok {
				rt = pt.Elem()
			}
			n, ok := rt.(*types.Named)
			if !ok {
				return nil, false
			}
			switch core.TypeNameOf(n.Obj()) {
			case "Object", "EcmaArray", "StrictArray":
			default:
				return nil, false
			}
			meth = callee.Name()
		} else {
			meth = call.Method.Name()
			if _, isSym := args[0].(*abs.SymIface); !isSym {
				return nil, false
			}
		}
		name := abs.NameOf(args[0])
		if name == "" {
			return nil, false
		}
		sz := "size(" + name + ")"
		if _, ok := p.Atoms[sz]; !ok {
			p.DeclareAtom(sz, 32, 1, 1<<31)
		}
		switch meth {
		case "Size":
			return p.SymInt(sz, 64, true), true
		case "MarshalBinary":
			return &abs.Tuple{Vs: []abs.Value{p.BytesValue(name+".bytes", []abs.Seg{{Blob: name + ".bytes", Len: abs.LAtom(sz)}}), &abs.NilV{}}}, true
		}
		return nil, false
	}
}

func runC03abs(c *Ctx) {
	R := c.R
	R.Require("C03.ctl", 12)
	R.Require("C03.size", 12)
	l := newLayout(c, "C03.ctl")
	u32 := func(a string) map[string]Dom { return map[string]Dom{a: {W: 32, Hi: -1}} }
	fresh := func(p *abs.Path, fn *ssa.Function, in []abs.Seg) []abs.Value {
		args := l.e.AutoArgs(p, fn)
		args[0] = l.e.NewZeroPtr(p, fn.Params[0].Type())
		p.Keep["recv"] = args[0]
		args[1] = p.BytesValue("data", in)
		return args
	}
	// trailing bytes after a control payload are tolerated by the decoders; use exact payloads
	for _, t := range []struct{ typ, field string }{{"SetChunkSize", "ChunkSize"}, {"WindowAcknowledgementSize", "AckSize"}} {
		l.encoder("rtmp", "(*"+t.typ+").MarshalBinary", []Variant{{Name: "any", Dom: u32("v." + t.field), Spec: abs.BE("v."+t.field, 4)}}, retBytes(0, 1))
		l.decoder("rtmp", "(*"+t.typ+").UnmarshalBinary", []Variant{{Name: "any", Dom: u32("x"), Spec: abs.BE("x", 4),
			Fields: map[string]Want{t.field: {Atom: "x", Width: 32}}}}, fresh, recvOrRet, 0)
	}
	l.encoder("rtmp", "(*SetPeerBandwidth).MarshalBinary", []Variant{{Name: "any", Dom: map[string]Dom{"v.Bandwidth": {W: 32, Hi: -1}, "v.LimitType": {W: 8, Hi: -1}},
		Spec: abs.Cat(abs.BE("v.Bandwidth", 4), abs.BE("v.LimitType", 1))}}, retBytes(0, 1))
	l.decoder("rtmp", "(*SetPeerBandwidth).UnmarshalBinary", []Variant{{Name: "any", Dom: map[string]Dom{"bw": {W: 32, Hi: -1}, "lt": {W: 8, Hi: -1}},
		Spec: abs.Cat(abs.BE("bw", 4), abs.BE("lt", 1)), Fields: map[string]Want{"Bandwidth": {Atom: "bw", Width: 32}, "LimitType": {Atom: "lt", Width: 8}}}}, fresh, recvOrRet, 0)

	// user control: three partitions cover all 65536 event types
	ucEnc := []Variant{
		{Name: "event=0x1a(1-byte data)", Dom: map[string]Dom{"v.EventType": {W: 16, Hi: -1}}, Bind: map[string]int64{"v.EventType": 0x1a},
			Spec: abs.Cat(abs.ConstBytes(0, 0x1a), abs.Pack(abs.F("v.EventData", 7, 0)))},
		{Name: "event=3(8-byte data)", Dom: map[string]Dom{"v.EventType": {W: 16, Hi: -1}}, Bind: map[string]int64{"v.EventType": 3},
			Spec: abs.Cat(abs.ConstBytes(0, 3), abs.BE("v.EventData", 4), abs.BE("v.ExtraData", 4))},
		{Name: "every other event(4-byte data)", Dom: map[string]Dom{"v.EventType": {W: 16, Hi: -1}}, Not: []string{"v.EventType == 26", "v.EventType == 3"},
			Spec: abs.Cat(abs.BE("v.EventType", 2), abs.BE("v.EventData", 4))},
	}
	l.encoder("rtmp", "(*UserControl).MarshalBinary", ucEnc, retBytes(0, 1))
	ucDec := []Variant{
		{Name: "event=0x1a(1-byte data)", Dom: map[string]Dom{"d": {W: 8, Hi: -1}}, Spec: abs.Cat(abs.ConstBytes(0, 0x1a), abs.BE("d", 1)),
			Fields: map[string]Want{"EventType": {Const: cst(0x1a)}, "EventData": {Atom: "d", Width: 8}, "ExtraData": {Const: cst(0)}}},
		{Name: "event=3(8-byte data)", Dom: map[string]Dom{"d": {W: 32, Hi: -1}, "x": {W: 32, Hi: -1}}, Spec: abs.Cat(abs.ConstBytes(0, 3), abs.BE("d", 4), abs.BE("x", 4)),
			Fields: map[string]Want{"EventType": {Const: cst(3)}, "EventData": {Atom: "d", Width: 32}, "ExtraData": {Atom: "x", Width: 32}}},
		{Name: "every other event(4-byte data)", Dom: map[string]Dom{"t": {W: 16, Hi: -1}, "d": {W: 32, Hi: -1}}, Not: []string{"t == 26", "t == 3"},
			Spec:   abs.Cat(abs.BE("t", 2), abs.BE("d", 4)),
			Fields: map[string]Want{"EventType": {Atom: "t", Width: 16}, "EventData": {Atom: "d", Width: 32}, "ExtraData": {Const: cst(0)}}},
	}
	l.decoder("rtmp", "(*UserControl).UnmarshalBinary", ucDec, fresh, recvOrRet, 0)

	checkPacketSizes(c, "C03.size")
}

// checkPacketSizes: len(MarshalBinary()) == Size() for every packet type and optional-member partition.
func checkPacketSizes(c *Ctx, rule string) {
	P, R := c.P, c.R
	e := abs.NewEngine(P)
	contract := amf0Contract(e)
	e.Contract = func(p *abs.Path, fr *abs.Frame, call *ssa.CallCommon, callee *ssa.Function, args []abs.Value) (abs.Value, bool) {
		return contract(p, call, callee, args)
	}
	sp := P.SSAPkgs["rtmp"]
	for _, T := range packetTypes(P) {
		ms := P.SSA.MethodSets.MethodSet(types.NewPointer(T))
		mSel, sSel := ms.Lookup(sp.Pkg, "MarshalBinary"), ms.Lookup(sp.Pkg, "Size")
		if mSel == nil || sSel == nil {
			continue
		}
		mf, sf := P.SSA.MethodValue(mSel), P.SSA.MethodValue(sSel)
		R.Funcs[core.QualName(mf)] = true
		// optional members: pointer or interface fields named Args / CommandObject
		opts := optionalMembers(T, "v")
		for mask := 0; mask < 1<<uint(len(opts)); mask++ {
			var nils []string
			for i, o := range opts {
				if mask&(1<<uint(i)) != 0 {
					nils = append(nils, o)
				}
			}
			name := "all-present"
			if len(nils) > 0 {
				name = "nil:" + strings.Join(nils, ",")
			}
			key := "rtmp|" + core.TypeNameOf(T.Obj()) + "|size=len(marshal)|" + name
			res := e.RunCustom(func(p *abs.Path) []abs.Value {
				for _, n := range nils {
					p.NilNames[n] = true
				}
				args := e.AutoArgs(p, mf)
				out := e.CallFn(p, mf, args)
				sz := e.CallFn(p, sf, args[:1])
				return append(out, sz...)
			})
			var problems []string
			for _, r := range res {
				if r.Path.Abort != "" {
					problems = append(problems, "undecided: "+r.Path.Abort)
					continue
				}
				if r.Path.Panics != "" {
					// a nil mandatory member: outside the property (well-formed packets)
					continue
				}
				if len(r.Ret) < 3 {
					problems = append(problems, "undecided: no result")
					continue
				}
				if _, isNil := r.Ret[1].(*abs.NilV); !isNil {
					continue // marshal error path
				}
				l1, ok1 := abs.LenOf(r.Ret[0])
				sv, ok2 := r.Ret[2].(*abs.Int)
				if !ok1 || !ok2 || sv.Lin == nil {
					problems = append(problems, "undecided: size or length is not a linear expression: "+abs.Describe(r.Path, r.Ret[2]))
					continue
				}
				if !r.Path.ProveEq(l1.Sub(sv.Lin)) {
					problems = append(problems, fmt.Sprintf("MarshalBinary yields %s bytes but Size() is %s%s", l1, sv.Lin, pathSuffix(r)))
				}
			}
			if len(problems) == 0 {
				R.OKf(rule, key, P.Pos(mf.Pos()), fmt.Sprintf("MarshalBinary yields exactly Size() bytes on all %d path(s)", len(res)), nil)
			} else if allUndecided(dedup(problems)) {
				R.Unknown(rule, key, P.Pos(mf.Pos()), problems[0], map[string]interface{}{"problems": dedup(problems)})
			} else {
				R.Fail(rule, key, P.Pos(mf.Pos()), problems[0], map[string]interface{}{"problems": dedup(problems)})
			}
		}
	}
}

// optionalMembers lists the access paths of optional members (fields named Args, and interface-typed
// CommandObject) of a packet type, looking through embedded structs.
func optionalMembers(T *types.Named, prefix string) []string {
	var out []string
	st, ok := T.Underlying().(*types.Struct)
	if !ok {
		return nil
	}
	for i := 0; i < st.NumFields(); i++ {
		f := st.Field(i)
		if f.Embedded() {
			if n, ok := f.Type().(*types.Named); ok {
				out = append(out, optionalMembers(n, prefix+"."+f.Name())...)
			}
			continue
		}
		_, isPtr := f.Type().Underlying().(*types.Pointer)
		_, isIface := f.Type().Underlying().(*types.Interface)
		if f.Name() == "Args" && (isPtr || isIface) {
			out = append(out, prefix+"."+f.Name())
		}
		if f.Name() == "CommandObject" && isIface {
			out = append(out, prefix+"."+f.Name())
		}
	}
	return out
}
