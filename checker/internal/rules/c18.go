package rules

import (
	"fmt"
	"go/token"
	"go/types"
	"sort"
	"strings"

	"golang.org/x/tools/go/ssa"

	"oryxverif/checker/internal/core"
)

func init() {
	register(&Property{
		ID: "C18",
		Explain: "Decided (structural, schedule-independent): C18.counter - every access to the package-level connection-id counter is a sync/atomic operation on its address " +
			"(the id handed out is the operation's own result) or happens under one package-level mutex held at all accesses; C18.ctx - the context forwarded by contextFormat/" +
			"contextFormatf to the id-object formatter is the caller's context parameter itself (not the result of a failed type assertion), and AliasContext stores under the id key " +
			"exactly the value it read from the source under the same key; C18.oneline - every path through doPrintln/doPrintf makes exactly one call into the standard logger " +
			"(one Write under its own mutex), and every level function reaches it exactly once; C18.prefix - the process id precedes the connection id in every prefix. " +
			"Also: the lock that serialises the lines is released on every path of the function that took it (also when the underlying writer refuses a line). " +
			"Not decided: uniqueness/wholeness by enumerating interleavings; Switch/Close racing with logging (outside the property's quantifier).",
		Assume: []string{"log.Logger serialises one Output call into one Write under its mutex", "sync/atomic operations are atomic"},
		Run:    runC18,
	})
}

func runC18(c *Ctx) {
	P, R := c.P, c.R
	R.Require("C18.counter", 2)
	R.Require("C18.ctx", 3)
	R.Require("C18.oneline", 12)
	R.Require("C18.prefix", 2)
	fns := P.ModuleFuncs("logger")
	for _, f := range fns {
		R.Funcs[core.QualName(f)] = true
	}
	// the lock that serialises the lines is released on every path of the function that took it - also when the
	// underlying writer refuses the line (the standard logger swallows that error; a lock kept on that exit silences
	// every later line for good)
	{
		var all []*ssa.Function
		for _, fn := range fns {
			if fn.Parent() == nil {
				all = append(all, core.WithClosures(fn)...)
			}
		}
		checkLockReleasedRule(c, "C18.oneline", "every later logging call that needs it blocks for good and emits nothing", all)
	}

	// ---- C18.counter
	g := P.Global("logger", "gCid")
	if R.Anchor(g != nil, "C18.counter", "logger.gCid") {
		type acc struct {
			fn   *ssa.Function
			in   ssa.Instruction
			kind string
		}
		var accs []acc
		for _, fn := range fns {
			if fn.Name() == "init" {
				continue
			}
			core.EachInstr(fn, func(in ssa.Instruction) {
				for _, op := range in.Operands(nil) {
					if *op != ssa.Value(g) {
						continue
					}
					kind := "address-taken"
					switch x := in.(type) {
					case *ssa.UnOp:
						if x.Op == token.MUL {
							kind = "plain load"
						}
					case *ssa.Store:
						if x.Addr == ssa.Value(g) {
							kind = "plain store"
						}
					case *ssa.Call:
						if f := x.Call.StaticCallee(); f != nil && f.Pkg != nil && f.Pkg.Pkg.Path() == "sync/atomic" {
							kind = "atomic:" + f.Name()
						}
					}
					accs = append(accs, acc{fn, in, kind})
				}
			})
		}
		counts := map[string]int{}
		// common global lock over all non-atomic accesses
		var common core.LockSet
		first := true
		for _, a := range accs {
			if strings.HasPrefix(a.kind, "atomic:") {
				continue
			}
			li := P.LockAnalysis(a.fn, P.EntryLocks(a.fn))
			h := core.LockSet{}
			for k := range li.HeldAt(a.in) {
				if strings.HasPrefix(k, "logger.") {
					h[k] = true
				}
			}
			if first {
				common, first = h, false
			} else {
				for k := range common {
					if !h[k] {
						delete(common, k)
					}
				}
			}
		}
		for _, a := range accs {
			key := ordKey(counts, "logger|"+core.FuncName(a.fn)+"|gCid-access")
			ok := strings.HasPrefix(a.kind, "atomic:") || len(common) > 0
			R.Check(ok, "C18.counter", key, P.InstrPos(a.in),
				"connection-id counter accessed atomically ("+a.kind+")",
				"the connection-id counter is accessed by a "+a.kind+" without sync/atomic or a common mutex: two goroutines creating contexts at the same time can obtain the same id (data race)",
				map[string]interface{}{"access": a.kind, "common_mutex": common.Sorted()})
		}
		// the id handed out must be the atomic operation's own result, not a later re-read
		wc := P.Func("logger", "WithContext")
		if R.Anchor(wc != nil, "C18.counter", "logger.WithContext") {
			core.EachInstr(wc, func(in ssa.Instruction) {
				call, ok := in.(*ssa.Call)
				if !ok || call.Call.StaticCallee() == nil || core.FullName(call.Call.StaticCallee()) != "context.WithValue" || len(call.Call.Args) != 3 {
					return
				}
				v := core.NewResolver(true).V(call.Call.Args[2]) // through a helper such as nextCid()
				src := "other"
				switch x := v.(type) {
				case *ssa.Call:
					if f := x.Call.StaticCallee(); f != nil && f.Pkg != nil && f.Pkg.Pkg.Path() == "sync/atomic" {
						if strings.HasPrefix(f.Name(), "Add") {
							src = "atomic-result" // the read-modify-write's own result is unique per call
						} else {
							src = "separate atomic " + f.Name() + " of the counter"
						}
					}
				case *ssa.UnOp:
					if x.X == ssa.Value(g) {
						src = "re-read of the counter"
					}
				case *ssa.BinOp:
					src = "arithmetic on a plain read"
				}
				ok2 := src == "atomic-result" || len(common) > 0
				R.Check(ok2, "C18.counter", "logger|WithContext|id-source", P.InstrPos(call),
					"the id stored in the context is the atomic operation's own result",
					"the id stored in the context is a "+src+", which another goroutine may have changed since the increment (duplicate ids)", nil)
			})
		}
	}

	// ---- C18.oneline: loggers that share a writer must share a lock. Each log.Logger serialises its own Output calls only;
	// two loggers over one writer (the levels after Switch) write to it concurrently - lines interleave or the writer's
	// state is corrupted (bufio.Writer, bytes.Buffer) unless the writer itself is serialised. *os.File is: one write
	// system call per line.
	for _, fn := range fns {
		cs := loggerCreations(P, fn, 0)
		byWriter := map[string][]loggerCreation{}
		for _, lc := range cs {
			byWriter[lc.under] = append(byWriter[lc.under], lc)
		}
		var keys []string
		for k := range byWriter {
			keys = append(keys, k)
		}
		sort.Strings(keys)
		for _, k := range keys {
			if len(byWriter[k]) < 2 || strings.HasSuffix(k, "Discard") {
				continue
			}
			w := byWriter[k][0].underV
			why := ""
			switch {
			case strings.HasSuffix(types.TypeString(w.Type(), nil), "os.File"):
				why = "an *os.File (one write system call per line)"
			default:
				// all of them go through one and the same serialising writer object
				lock, same := byWriter[k][0].lock, true
				for _, lc := range byWriter[k] {
					same = same && lc.lock == lock
				}
				if same && lock != "" {
					why = "one writer object whose Write holds a mutex around the inner write (" + lock + ")"
				}
			}
			R.Check(why != "", "C18.oneline", "logger|"+core.FuncName(fn)+"|loggers-sharing-"+k+"-are-serialised", P.InstrPos(byWriter[k][0].site),
				fmt.Sprintf("the %d loggers created over %s write to %s", len(byWriter[k]), k, why),
				fmt.Sprintf("%d loggers, each with its own mutex, are created over the same writer %s and do not share one serialising writer: calls at different levels write to it concurrently, so lines can interleave and a writer that is not safe for concurrent use (bufio.Writer, bytes.Buffer) is raced on", len(byWriter[k]), k), nil)
		}
	}

	// ---- C18.oneline: the formatting helpers build a new operand list; they do not write into the caller's variadic slice
	// (with spare capacity behind it, the caller's own values - or another goroutine's - would be overwritten)
	fmtAll, _ := c18Formatters(c, "C18.oneline")
	for _, fn := range fmtAll {
		name := core.FuncName(fn)
		bad := ""
		for _, prm := range fn.Params {
			if _, isSlice := prm.Type().Underlying().(*types.Slice); isSlice {
				if w := writesThrough(P, fn, prm); w != "" {
					bad = w
				}
			}
		}
		R.Check(bad == "", "C18.oneline", "logger|"+name+"|operands-not-modified", P.Pos(fn.Pos()),
			"the prefix is put in front of the operands in a new slice",
			"the helper writes into the caller's operand slice ("+bad+"): when that slice has spare capacity the caller's values are overwritten, a later line prints another connection's prefix, and two goroutines sharing the operands race", nil)
	}

	// ---- C18.ctx
	_, fmtCallers := c18Formatters(c, "C18.ctx")
	type fmtPair struct {
		fn   *ssa.Function
		base string
	}
	var fmtPairs []fmtPair
	for _, base := range []string{"format", "formatf"} {
		for _, g := range fmtCallers[base] {
			fmtPairs = append(fmtPairs, fmtPair{g, base})
		}
	}
	for _, fp := range fmtPairs {
		fn, pair := fp.fn, [2]string{core.FuncName(fp.fn), fp.base}
		n := 0
		core.EachInstr(fn, func(in ssa.Instruction) {
			call, ok := in.(*ssa.Call)
			if !ok || call.Call.StaticCallee() == nil || core.FnName(call.Call.StaticCallee()) != pair[1] {
				return
			}
			ci := core.ParamIndex(call.Call.StaticCallee(), "ctx") // the context, wherever it stands (method or plain function)
			if ci < 0 || ci >= len(call.Call.Args) {
				return
			}
			n++
			arg := core.StripConv(call.Call.Args[ci])
			par, isParam := arg.(*ssa.Parameter)
			ok2 := isParam && len(fn.Params) > 1 && par == fn.Params[1]
			R.Check(ok2, "C18.ctx", "logger|"+core.FuncName(fn)+"|forwarded-context", P.InstrPos(call),
				"the caller's context is forwarded to the id-object formatter",
				"the context forwarded to "+pair[1]+" is not the caller's context parameter (it is "+describeVal(arg)+"): an application object exposing Cid() is logged without its id", nil)
		})
		if n == 0 {
			R.Unknown("C18.ctx", "logger|"+core.FuncName(fn)+"|forwarded-context", P.Pos(fn.Pos()), "no call to "+pair[1]+" found (non-context.Context objects would not be formatted)", nil)
		}
	}
	if al := P.Func("logger", "AliasContext"); R.Anchor(al != nil, "C18.ctx", "logger.AliasContext") {
		n := 0
		core.EachInstr(al, func(in ssa.Instruction) {
			call, ok := in.(*ssa.Call)
			if !ok || call.Call.StaticCallee() == nil || core.FullName(call.Call.StaticCallee()) != "context.WithValue" || len(call.Call.Args) != 3 {
				return
			}
			n++
			keyArg := core.Path(call.Call.Args[1])
			res := core.NewResolver(false) // the id may be read through a helper (cidFromContext(source))
			val := res.V(call.Call.Args[2])
			okv := false
			detail := describeVal(val)
			if ex, isEx := val.(*ssa.Extract); isEx && ex.Index == 0 {
				if ta, isTA := ex.Tuple.(*ssa.TypeAssert); isTA {
					if vc, isCall := res.V(ta.X).(*ssa.Call); isCall && vc.Call.IsInvoke() && vc.Call.Method.Name() == "Value" {
						src, isP := res.V(vc.Call.Value).(*ssa.Parameter)
						okv = isP && len(al.Params) > 1 && src == al.Params[1] && len(vc.Call.Args) == 1 && core.Path(vc.Call.Args[0]) == keyArg
						detail = "value read from " + core.Path(vc.Call.Value) + " under key " + core.Path(vc.Call.Args[0])
					}
				}
			}
			R.Check(okv && keyArg == "logger.cidKey", "C18.ctx", "logger|AliasContext|same-id", P.InstrPos(call),
				"the alias stores exactly the id read from the source under the same key",
				"AliasContext does not store the unmodified id of its source context under the id key ("+detail+")", nil)
		})
		if n == 0 {
			R.Fail("C18.ctx", "logger|AliasContext|same-id", P.Pos(al.Pos()), "AliasContext never copies the source's id", nil)
		}
		// every result is either the source's id put on the parent, or a fresh id
		k := 0
		for _, r := range core.Returns(al) {
			k++
			okr := false
			var vals []ssa.Value
			if phi, isPhi := r.Results[0].(*ssa.Phi); isPhi {
				vals = phi.Edges
			} else {
				vals = []ssa.Value{r.Results[0]}
			}
			okr = true
			for _, v := range vals {
				call, isCall := v.(*ssa.Call)
				if !isCall || call.Call.StaticCallee() == nil {
					okr = false
					continue
				}
				switch core.FullName(call.Call.StaticCallee()) {
				case "context.WithValue", "logger.WithContext":
				default:
					okr = false
				}
			}
			R.Check(okr, "C18.ctx", fmt.Sprintf("logger|AliasContext|result#%d", k), P.InstrPos(r),
				"the alias is the parent carrying the source's id, or a fresh id when the source has none",
				"AliasContext can return a context that is neither WithValue(parent, idKey, source's id) nor WithContext(parent): the alias would not carry its source's id", nil)
		}
	}

	// ---- C18.oneline
	isStdLogDirect := func(in ssa.Instruction) bool {
		call, ok := in.(*ssa.Call)
		if !ok {
			return false
		}
		f := call.Call.StaticCallee()
		if f == nil || f.Signature.Recv() == nil {
			return false
		}
		return strings.HasPrefix(core.FullName(f), "(*log.Logger).")
	}
	exactlyOnce := func(fn *ssa.Function, pred func(ssa.Instruction) bool) bool {
		min, max, ok := core.PathCounts(fn, pred)
		if !ok {
			return false
		}
		for _, r := range core.Returns(fn) {
			if min[r] != 1 || max[r] != 1 {
				return false
			}
		}
		return len(core.Returns(fn)) > 0
	}
	// one logger call, possibly handed as a closure to a module helper that runs it exactly once (colorize(func(){..}))
	isStdLog := func(in ssa.Instruction) bool {
		if isStdLogDirect(in) {
			return true
		}
		call, ok := in.(*ssa.Call)
		if !ok {
			return false
		}
		h := call.Call.StaticCallee()
		if h == nil || !core.InModule(h) || len(h.Blocks) == 0 {
			return false
		}
		for i, a := range call.Call.Args {
			mc, isClosure := core.StripConv(a).(*ssa.MakeClosure)
			if !isClosure || i >= len(h.Params) {
				continue
			}
			body := mc.Fn.(*ssa.Function)
			par := h.Params[i]
			runsOnce := exactlyOnce(h, func(x ssa.Instruction) bool {
				c2, ok := x.(*ssa.Call)
				return ok && c2.Call.Value == ssa.Value(par)
			})
			noOther := true
			core.EachInstr(h, func(x ssa.Instruction) {
				if isStdLogDirect(x) {
					noOther = false
				}
			})
			if runsOnce && noOther && exactlyOnce(body, isStdLogDirect) {
				return true
			}
		}
		return false
	}
	for _, name := range []string{"(*loggerPlus).doPrintln", "(*loggerPlus).doPrintf"} {
		fn := P.Func("logger", name)
		if !R.Anchor(fn != nil, "C18.oneline", "logger."+name) {
			continue
		}
		min, max, ok := core.PathCounts(fn, isStdLog)
		good := ok
		for _, r := range core.Returns(fn) {
			if min[r] != 1 || max[r] != 1 {
				good = false
			}
		}
		R.Check(good, "C18.oneline", "logger|"+name+"|one-logger-call", P.Pos(fn.Pos()),
			"exactly one standard-logger call (one line, one Write) on every path",
			"some path makes zero or several standard-logger calls for one logging call: the line is lost or split into separately written pieces that can interleave", nil)
	}
	// level functions reach the sink exactly once
	reachOnce := func(fn *ssa.Function, isSink func(ssa.Instruction) bool, what string) {
		min, max, ok := core.PathCounts(fn, isSink)
		good := ok
		for _, r := range core.Returns(fn) {
			if min[r] != 1 || max[r] != 1 {
				good = false
			}
		}
		R.Check(good, "C18.oneline", "logger|"+core.FuncName(fn)+"|reaches-"+what+"-once", P.Pos(fn.Pos()),
			"reaches "+what+" exactly once on every path", "does not reach "+what+" exactly once on every path", nil)
	}
	for _, pair := range [][2]string{{"(*loggerPlus).Println", "doPrintln"}, {"(*loggerPlus).Printf", "doPrintf"}} {
		if fn := P.Func("logger", pair[0]); R.Anchor(fn != nil, "C18.oneline", "logger."+pair[0]) {
			sink := pair[1]
			reachOnce(fn, func(in ssa.Instruction) bool {
				call, ok := in.(*ssa.Call)
				return ok && call.Call.StaticCallee() != nil && core.FnName(call.Call.StaticCallee()) == sink
			}, sink)
		}
	}
	for _, name := range []string{"I", "T", "W", "E", "If", "Tf", "Wf", "Ef"} {
		fn := P.Func("logger", name)
		if !R.Anchor(fn != nil, "C18.oneline", "logger."+name) {
			continue
		}
		want := "Println"
		if strings.HasSuffix(name, "f") {
			want = "Printf"
		}
		reachOnce(fn, func(in ssa.Instruction) bool {
			call, ok := in.(*ssa.Call)
			return ok && call.Call.IsInvoke() && call.Call.Method.Name() == want
		}, "Logger."+want)
	}
	// no write other than the logger call may reach the current log writer
	for _, name := range []string{"(*loggerPlus).doPrintln", "(*loggerPlus).doPrintf"} {
		fn := P.Func("logger", name)
		if fn == nil {
			continue
		}
		bad := ""
		core.EachInstr(fn, func(in ssa.Instruction) {
			call, ok := in.(*ssa.Call)
			if !ok || isStdLog(in) {
				return
			}
			for _, a := range call.Call.Args {
				p := core.Path(a)
				if p == "logger.previousWriter" || strings.HasPrefix(p, "v.logger") {
					bad = core.CalleeName(&call.Call) + " on " + p + " at " + P.InstrPos(call)
				}
			}
			if call.Call.IsInvoke() && (core.Path(call.Call.Value) == "logger.previousWriter") {
				bad = "invoke " + call.Call.Method.Name() + " on logger.previousWriter at " + P.InstrPos(call)
			}
		})
		R.Check(bad == "", "C18.oneline", "logger|"+name+"|no-extra-write-to-log-writer", P.Pos(fn.Pos()),
			"nothing but the one logger call writes to the current log writer",
			"a logging call makes an additional, separately written output to the current log writer ("+bad+"): pieces of one line can interleave with another goroutine's line", nil)
	}
	// observation: colour escapes
	for _, name := range []string{"(*loggerPlus).doPrintln", "(*loggerPlus).doPrintf"} {
		if fn := P.Func("logger", name); fn != nil {
			n := 0
			core.EachCall(fn, func(site ssa.CallInstruction, callee string) {
				if callee == "fmt.Fprintf" {
					n++
				}
			})
			if n > 0 {
				R.Note("C18.oneline", "logger|"+name+"|colour-escapes", P.Pos(fn.Pos()),
					fmt.Sprintf("%d separate colour-escape writes to os.Stdout around the logger call while no closable writer is installed (not part of the rule)", n))
			}
		}
	}

	// ---- C18.prefix: pid before cid in every variadic prefix
	fmtAll2, _ := c18Formatters(c, "C18.prefix")
	for _, fn := range fmtAll2 {
		name := core.FuncName(fn)
		// group stores into literal arrays by array
		type slot struct {
			idx int64
			val ssa.Value
		}
		arrays := map[ssa.Value][]slot{}
		core.EachInstr(fn, func(in ssa.Instruction) {
			st, ok := in.(*ssa.Store)
			if !ok {
				return
			}
			ia, ok := st.Addr.(*ssa.IndexAddr)
			if !ok {
				return
			}
			if i, ok := core.ConstInt(ia.Index); ok {
				arrays[ia.X] = append(arrays[ia.X], slot{i, core.StripConv(st.Val)})
			}
		})
		n := 0
		for _, slots := range arrays {
			pid, cid := int64(-1), int64(-1)
			for _, s := range slots {
				if call, ok := s.val.(*ssa.Call); ok && call.Call.StaticCallee() != nil && core.FullName(call.Call.StaticCallee()) == "os.Getpid" {
					pid = s.idx
				} else if isCidValue(s.val) {
					cid = s.idx
				}
			}
			if pid < 0 || cid < 0 {
				continue
			}
			n++
			R.Check(pid < cid, "C18.prefix", fmt.Sprintf("logger|%s|pid-before-cid#%d", name, n), P.Pos(fn.Pos()),
				"the process id precedes the connection id in the prefix", "the connection id precedes the process id in the prefix", nil)
		}
	}
}

// c18Formatters: the id-object formatters format/formatf and, by role, the functions that call them (contextFormat and
// contextFormatf on the pinned tree; Println/Printf when those are written in place).
func c18Formatters(c *Ctx, rule string) (all []*ssa.Function, callers map[string][]*ssa.Function) {
	P, R := c.P, c.R
	callers = map[string][]*ssa.Function{}
	for _, base := range []string{"format", "formatf"} {
		f := P.Func("logger", "(*loggerPlus)."+base)
		if !R.Anchor(f != nil, rule, "logger.(*loggerPlus)."+base) {
			continue
		}
		all = append(all, f)
		for _, g := range P.ModuleFuncs("logger") {
			if g == f {
				continue
			}
			calls := false
			core.EachInstr(g, func(in ssa.Instruction) {
				if call, ok := in.(*ssa.Call); ok && call.Call.StaticCallee() == f {
					calls = true
				}
			})
			if calls {
				callers[base] = append(callers[base], g)
				all = append(all, g)
			}
		}
		name := map[string]string{"format": "contextFormat", "formatf": "contextFormatf"}[base]
		R.Anchor(len(callers[base]) > 0, rule, "logger.(*loggerPlus)."+name)
	}
	return
}

func isCidValue(v ssa.Value) bool {
	switch x := v.(type) {
	case *ssa.Call:
		return x.Call.IsInvoke() && x.Call.Method.Name() == "Cid"
	case *ssa.Extract:
		_, ok := x.Tuple.(*ssa.TypeAssert)
		return ok && x.Index == 0
	}
	return false
}

func describeVal(v ssa.Value) string {
	switch x := v.(type) {
	case *ssa.Parameter:
		return "parameter " + x.Name()
	case *ssa.Extract:
		if ta, ok := x.Tuple.(*ssa.TypeAssert); ok {
			return fmt.Sprintf("result #%d of the type assertion %s.(%s)", x.Index, core.Path(ta.X), ta.AssertedType)
		}
	case *ssa.Const:
		return "constant " + x.String()
	}
	return v.String()
}

// loggerCreation is one log.New reached from a function: the writer the lines finally go to (named in that function's
// vocabulary) and the serialising wrapper object in between, if any.
type loggerCreation struct {
	site   ssa.Instruction
	under  string
	underV ssa.Value
	lock   string // identity of the locked-writer object ("" = none; "fresh per call ..." = allocated by a helper)
}

// unwrapLocked: a freshly allocated locked writer (a module type whose Write holds a mutex) stands for the writer stored
// in it; the allocation is the lock's identity.
func unwrapLocked(P *core.Program, v ssa.Value) (ssa.Value, string) {
	v = core.StripConv(v)
	// built by a constructor (newLockedWriter(w)): the object is the call's, the writer inside is the argument
	if call, isCall := v.(*ssa.Call); isCall {
		if f := call.Call.StaticCallee(); f != nil && core.InModule(f) && len(f.Blocks) > 0 && lockedWriterType(P, call.Type()) {
			if rets := core.Returns(f); len(rets) == 1 && len(rets[0].Results) == 1 {
				inner, lock := unwrapLocked(P, rets[0].Results[0])
				if par, isPar := inner.(*ssa.Parameter); isPar && lock != "" {
					for i, q := range f.Params {
						if q == par && i < len(call.Call.Args) {
							return core.StripConv(call.Call.Args[i]), "built at " + P.InstrPos(call)
						}
					}
				}
			}
		}
		return v, ""
	}
	al, ok := v.(*ssa.Alloc)
	if !ok || !lockedWriterType(P, al.Type()) {
		return v, ""
	}
	var inner ssa.Value
	for _, r := range *al.Referrers() {
		fa, ok := r.(*ssa.FieldAddr)
		if !ok {
			continue
		}
		for _, r2 := range *fa.Referrers() {
			if st, ok := r2.(*ssa.Store); ok && st.Addr == ssa.Value(fa) {
				if _, isIface := st.Val.Type().Underlying().(*types.Interface); isIface {
					inner = core.StripConv(st.Val)
				}
			}
		}
	}
	if inner == nil {
		return v, ""
	}
	return inner, "allocated at " + P.InstrPos(al)
}

// loggerCreations lists the log.New calls of fn and of the module helpers it calls (the writer handed to a helper is
// followed through the helper's parameter).
func loggerCreations(P *core.Program, fn *ssa.Function, depth int) []loggerCreation {
	var out []loggerCreation
	core.EachInstr(fn, func(in ssa.Instruction) {
		call, ok := in.(*ssa.Call)
		if !ok || call.Call.StaticCallee() == nil {
			return
		}
		f := call.Call.StaticCallee()
		if core.FullName(f) == "log.New" {
			under, lock := unwrapLocked(P, call.Call.Args[0])
			k := core.Path(under)
			if strings.HasPrefix(k, "%") {
				k = under.Name()
			}
			out = append(out, loggerCreation{in, k, under, lock})
			return
		}
		if depth >= 2 || !core.InModule(f) || core.ShortPkg(f) != core.ShortPkg(fn) || len(f.Blocks) == 0 || f == fn {
			return
		}
		for _, lc := range loggerCreations(P, f, depth+1) {
			par, isPar := lc.underV.(*ssa.Parameter)
			if !isPar {
				continue // a writer of the helper's own (a constant destination): not shared through this call
			}
			idx := -1
			for i, p := range f.Params {
				if p == par {
					idx = i
				}
			}
			if idx < 0 || idx >= len(call.Call.Args) {
				continue
			}
			under, lock := unwrapLocked(P, call.Call.Args[idx])
			if lc.lock != "" {
				// the helper wraps the writer itself: a new lock object on every call
				lock = "fresh per call of " + core.FuncName(f) + " at " + P.InstrPos(call)
			}
			k := core.Path(under)
			if strings.HasPrefix(k, "%") {
				k = under.Name()
			}
			out = append(out, loggerCreation{in, k, under, lock})
		}
	})
	return out
}

// lockedWriterType: t is (a pointer to) a module type whose Write method calls the inner Write while a mutex of the
// receiver is held.
func lockedWriterType(P *core.Program, t types.Type) bool {
	pt, ok := t.Underlying().(*types.Pointer)
	if !ok {
		return false
	}
	n, ok := pt.Elem().(*types.Named)
	if !ok || n.Obj().Pkg() == nil || !strings.HasPrefix(n.Obj().Pkg().Path(), core.ModulePath) {
		return false
	}
	sel := P.SSA.MethodSets.MethodSet(t).Lookup(n.Obj().Pkg(), "Write")
	if sel == nil {
		return false
	}
	wf := P.SSA.MethodValue(sel)
	if wf == nil || wf.Blocks == nil {
		return false
	}
	li := P.LockAnalysis(wf, P.EntryLocks(wf))
	found := false
	core.EachInstr(wf, func(in ssa.Instruction) {
		call, ok := in.(*ssa.Call)
		if !ok || !call.Call.IsInvoke() || call.Call.Method.Name() != "Write" {
			return
		}
		if len(li.HeldAt(in)) > 0 {
			found = true
		}
	})
	return found
}
