package rules

import (
	"fmt"
	"go/token"
	"sort"
	"strings"

	"golang.org/x/tools/go/ssa"

	"oryxverif/checker/internal/abs"
	"oryxverif/checker/internal/core"
)

func init() {
	register(&Property{
		ID: "C14",
		Explain: "Decided: C14.rules - Conn.advanceFrame is abstractly interpreted for every combination of opcode (16) x FIN x reserved-bit class x mask-vs-role x role x open-fragmented-message x compression negotiated x length form (7-bit, 16-bit, 64-bit, 64-bit with the top bit set, a Close with a one-byte body, and for control frames the 16/64-bit forms carrying a small length), " +
			"with symbolic lengths and payloads, and its verdict (protocol error raised before delivering / frame accepted) is compared with a three-valued RFC 6455 section 5 decision table (reserved bits, reserved opcodes, fragmented or oversized " +
			"control frames, continuation without a started message, new data frame inside a fragmented message, wrong masking; RSV1 on control/continuation frames under permessage-deflate is left unspecified); a 64-bit length with the top bit set must be refused; " +
			"C14.len64 - the message-length accumulator cannot wrap past the read limit (sign check after the addition, or subtraction-form comparison); C14.limit - with a limit configured a data frame that takes the message past it yields the limit error and no frame, " +
			"otherwise the frame, and NextReader resets the accumulator; C14.close1002 - a protocol error attempts Close 1002 and both callers latch every advanceFrame error before returning; C14.ctlpayload - receivable close codes are the RFC/IANA table " +
			"plus 3000..4999, close reasons are UTF-8 checked, the default ping handler echoes its payload in a pong; C14.cut - end of input inside a frame becomes an unexpected-EOF error. " +
			"Not decided: delivery of exactly the conformant receiver's messages for long random frame sequences (history arithmetic).",
		Assume: []string{"Conn.read(n) returns exactly n bytes or an error (bufio Peek/Discard)", "decision table transcribed from RFC 6455 section 5 and RFC 7692 section 6"},
		Run:    runC14,
	})
}

func runC14(c *Ctx) {
	P, R := c.P, c.R
	R.Require("C14.rules", 1000)
	R.Require("C14.len64", 1)
	R.Require("C14.limit", 3)
	R.Require("C14.close1002", 4)
	R.Require("C14.ctlpayload", 6)
	R.Require("C14.cut", 1)
	R.Require("C14.bufsize", 1)
	R.Exhaust = true
	fn := P.Func("websocket", "(*Conn).advanceFrame")
	if !R.Anchor(fn != nil, "C14.rules", "websocket.(*Conn).advanceFrame") {
		return
	}
	R.Funcs[core.QualName(fn)] = true
	e := abs.NewEngine(P)
	base := wsContract(P)
	e.Contract = func(p *abs.Path, fr *abs.Frame, call *ssa.CallCommon, callee *ssa.Function, args []abs.Value) (abs.Value, bool) {
		if callee != nil {
			switch core.QualName(callee) {
			case "websocket.(*Conn).read":
				st := p.Stream("c.br")
				n, _ := args[1].(*abs.Int)
				if st == nil || n == nil || n.Lin == nil {
					return nil, false
				}
				segs, ok := p.Take(st, n.Lin)
				if !ok {
					p.Keep["short"] = abs.True
					return &abs.Tuple{Vs: []abs.Value{&abs.NilV{}, &abs.ErrV{Desc: "short read"}}}, true
				}
				return &abs.Tuple{Vs: []abs.Value{p.BytesValue("frame", segs), &abs.NilV{}}}, true
			case "websocket.(*Conn).handleProtocolError":
				p.Keep["protoerr"] = abs.True
				return &abs.ErrV{Desc: "protocol error"}, true
			case "websocket.(*Conn).WriteControl":
				return &abs.NilV{}, true
			case "websocket.FormatCloseMessage":
				return &abs.TopV{Why: "close message"}, true
			case "websocket.isValidReceivedCloseCode":
				return nil, false
			}
		}
		return base(p, fr, call, callee, args)
	}
	type verdict int
	const (
		mustFail verdict = iota
		mustProceed
		unspecified
	)
	names := map[verdict]string{mustFail: "protocol error", mustProceed: "accepted", unspecified: "unspecified"}
	total, bad := 0, 0
	var samples []string
	for _, isServer := range []int64{0, 1} {
		for opcode := int64(0); opcode < 16; opcode++ {
			for _, fin := range []int64{0, 1} {
				for rsv := 0; rsv < 3; rsv++ { // 0 none, 1 RSV1 only, 2 RSV2 set
					for _, maskOK := range []bool{true, false} {
						for _, readFinal := range []int64{0, 1} {
							for _, comp := range []bool{false, true} {
								for lf := 0; lf < 7; lf++ { // 0: <=125, 1: 126 form, 2: 127 form, 3: 127 form with the top bit set, 4: a Close frame with a 1-byte body, 5/6: a control frame in the 126/127 form whose extended length is small (<= 125)
									if lf == 4 && opcode != 8 {
										continue
									}
									if lf >= 5 && !(opcode >= 8 && opcode <= 10) {
										continue // for data frames a non-minimal length encoding is the sender's fault only (unspecified for the receiver)
									}
									total++
									isCtl := opcode >= 8 && opcode <= 10
									var want verdict
									switch {
									case rsv == 2 || (rsv == 1 && !comp):
										want = mustFail
									case rsv == 1 && comp && (isCtl || opcode == 0):
										want = unspecified
									case (opcode >= 3 && opcode <= 7) || opcode >= 11:
										want = mustFail
									case isCtl && ((lf != 0 && lf != 4) || fin == 0):
										want = mustFail
									case (opcode == 1 || opcode == 2) && readFinal == 0:
										want = mustFail
									case opcode == 0 && readFinal == 1:
										want = mustFail
									case !maskOK:
										want = mustFail
									case lf == 3:
										want = mustFail
									case lf == 4:
										// RFC 6455 5.5.1: if there is a body, its first two bytes are the status code - one byte is no code
										want = mustFail
									default:
										want = mustProceed
									}
									mask := isServer
									if !maskOK {
										mask = 1 - isServer
									}
									rsvBits := []uint64{0, 4, 2}[rsv]
									// stream: two header bytes, extended length, mask key, control payload
									var spec []abs.SegSpec
									b0 := abs.Pack(abs.K(1, uint64(fin)), abs.K(3, rsvBits), abs.K(4, uint64(opcode)))
									dom := map[string]Dom{"c.isServer": {W: 1, Hi: -1}, "c.readFinal": {W: 1, Hi: -1}, "c.readRemaining": {W: 1, Hi: 0}, "c.readLimit": {W: 1, Hi: 0},
										"c.readLength": {W: 40, Hi: -1}, "len(rest)": {W: 40, Hi: -1}}
									payload := abs.LConst(0)
									switch lf {
									case 0:
										if opcode == 8 {
											spec = abs.Cat(b0, abs.Pack(abs.K(1, uint64(mask)), abs.K(7, 0)))
										} else {
											dom["len7"] = Dom{W: 7, Hi: 125}
											spec = abs.Cat(b0, abs.Pack(abs.K(1, uint64(mask)), abs.F("len7", 6, 0)))
											payload = abs.LAtom("len7")
										}
									case 1:
										dom["len16"] = Dom{W: 16, Lo: 126, Hi: -1}
										spec = abs.Cat(b0, abs.Pack(abs.K(1, uint64(mask)), abs.K(7, 126)), abs.BE("len16", 2))
										payload = abs.LAtom("len16")
									case 2:
										dom["len64"] = Dom{W: 40, Lo: 65536, Hi: -1}
										spec = abs.Cat(b0, abs.Pack(abs.K(1, uint64(mask)), abs.K(7, 127)), abs.Pack(abs.K(24, 0), abs.F("len64", 39, 0)))
										payload = abs.LAtom("len64")
									case 4:
										spec = abs.Cat(b0, abs.Pack(abs.K(1, uint64(mask)), abs.K(7, 1)))
										payload = abs.LConst(1)
									case 5:
										dom["len16"] = Dom{W: 16, Hi: 125}
										spec = abs.Cat(b0, abs.Pack(abs.K(1, uint64(mask)), abs.K(7, 126)), abs.BE("len16", 2))
										payload = abs.LAtom("len16")
									case 6:
										dom["len64"] = Dom{W: 40, Hi: 125}
										spec = abs.Cat(b0, abs.Pack(abs.K(1, uint64(mask)), abs.K(7, 127)), abs.Pack(abs.K(24, 0), abs.F("len64", 39, 0)))
										payload = abs.LAtom("len64")
									case 3:
										dom["low63"] = Dom{W: 63, Hi: -1}
										spec = abs.Cat(b0, abs.Pack(abs.K(1, uint64(mask)), abs.K(7, 127)), abs.Pack(abs.K(1, 1), abs.F("low63", 62, 0)))
									}
									if mask == 1 {
										spec = abs.Cat(spec, abs.Pack(abs.X(32)))
									}
									if isCtl {
										spec = abs.Cat(spec, abs.BlobSpec("payload", payload))
									}
									spec = abs.Cat(spec, abs.BlobSpec("rest", abs.LAtom("len(rest)")))
									v := Variant{Dom: dom, Bind: map[string]int64{"c.isServer": isServer, "c.readFinal": readFinal, "c.readRemaining": 0, "c.readLimit": 0}}
									if !comp {
										v.Nil = []string{"c.newDecompressionReader"}
									}
									res := e.Run(fn, func(p *abs.Path) []abs.Value {
										v.apply(p)
										p.NewStream("c.br", p.InputFrom(spec))
										return e.AutoArgs(p, fn)
									})
									gotFail, gotProceed, undec := false, false, ""
									for _, r := range res {
										if r.Path.Abort != "" {
											undec = r.Path.Abort
											continue
										}
										if r.Path.Panics != "" {
											undec = "panics: " + r.Path.Panics
											continue
										}
										if r.Path.Keep["short"] != nil {
											continue // infeasible here: the stream holds the whole frame
										}
										if r.Path.Keep["protoerr"] != nil {
											gotFail = true
										} else {
											gotProceed = true
										}
									}
									key := fmt.Sprintf("websocket|advanceFrame|role=%s,opcode=%d,fin=%d,rsv=%s,mask=%s,open-message=%v,deflate=%v,len=%s",
										map[int64]string{0: "client", 1: "server"}[isServer], opcode, fin, []string{"none", "rsv1", "rsv2"}[rsv],
										map[bool]string{true: "ok", false: "wrong"}[maskOK], readFinal == 0, comp, []string{"<=125", "16-bit", "64-bit", "64-bit-msb-set", "close-with-1-byte-body", "16-bit-form-with-small-length", "64-bit-form-with-small-length"}[lf])
									got := "?"
									ok := false
									switch {
									case undec != "":
										got = "undecided: " + undec
									case gotFail && gotProceed:
										got = "both, depending on symbolic data"
									case gotFail:
										got = names[mustFail]
										ok = want != mustProceed
									case gotProceed:
										got = names[mustProceed]
										ok = want != mustFail
									}
									if want == unspecified && undec == "" {
										ok = true
									}
									if ok {
										R.OK("C14.rules", key, P.Pos(fn.Pos()), "verdict "+got+" (RFC 6455: "+names[want]+")")
									} else {
										bad++
										msg := fmt.Sprintf("the reader's verdict is '%s', RFC 6455 section 5 requires '%s'", got, names[want])
										if strings.HasPrefix(got, "undecided") {
											R.Unknown("C14.rules", key, P.Pos(fn.Pos()), msg, map[string]interface{}{"wire": abs.SpecString(spec)})
										} else {
											R.Fail("C14.rules", key, P.Pos(fn.Pos()), msg, map[string]interface{}{"wire": abs.SpecString(spec)})
										}
										if len(samples) < 5 {
											samples = append(samples, key)
										}
									}
								}
							}
						}
					}
				}
			}
		}
	}
	R.Extra["decision_table_variants"] = total

	checkWSReadBuffer(c)
	checkWSUnmaskRule(c, "C14.unmask", false)
	checkWSLimit(c, e, fn)
	checkWSLen64(c, fn)
	checkWSClose1002(c, fn)
	checkWSCtlPayload(c)
}

// checkWSReadBuffer: Conn.read(n) peeks n bytes from the bufio.Reader, so the reader's buffer must hold the largest
// control frame payload (125 bytes) whatever buffer size the application asked for.
func checkWSReadBuffer(c *Ctx) {
	P, R := c.P, c.R
	fn := P.Func("websocket", "newConnBRW")
	if !R.Anchor(fn != nil, "C14.bufsize", "websocket.newConnBRW") {
		return
	}
	n := 0
	core.EachInstr(fn, func(in ssa.Instruction) {
		call, ok := in.(*ssa.Call)
		if !ok || call.Call.StaticCallee() == nil || core.FullName(call.Call.StaticCallee()) != "bufio.NewReaderSize" {
			return
		}
		n++
		// lower bound of the size argument: constants flowing in, and the clamp "if size < K { size = K }"
		var lower func(v ssa.Value, d int) int64
		lower = func(v ssa.Value, d int) int64 {
			if k, isK := core.ConstInt(v); isK {
				return k
			}
			if phi, isPhi := v.(*ssa.Phi); isPhi && d < 8 {
				best := int64(1 << 40)
				for i, e := range phi.Edges {
					lb := clampFor(phi, i)
					if lb < 0 {
						lb = lower(e, d+1)
					}
					if lb < best {
						best = lb
					}
				}
				return best
			}
			return 0
		}
		lb := lower(call.Call.Args[1], 0)
		R.Check(lb >= 125, "C14.bufsize", fmt.Sprintf("websocket|newConnBRW|read-buffer-holds-control-frame#%d", n), P.InstrPos(call),
			fmt.Sprintf("the read buffer is at least %d bytes, enough for the largest control frame payload", lb),
			fmt.Sprintf("the read buffer can be as small as %d bytes: a legal 125-byte control frame (ping) cannot be peeked and reading fails permanently with 'buffer full'", lb), nil)
	})
	if n == 0 {
		R.Unknown("C14.bufsize", "websocket|newConnBRW|read-buffer-holds-control-frame", P.Pos(fn.Pos()), "no bufio.NewReaderSize call found", nil)
	}
}

// clampFor: the i-th edge of phi carries a value known to be >= K on that edge; returns K or -1.
func clampFor(phi *ssa.Phi, i int) int64 {
	best := int64(-1)
	pred := phi.Block().Preds[i]
	atoms := core.GuardAtoms(pred)
	// the edge pred -> phi's block itself may be a branch of pred's terminating If
	if len(pred.Instrs) > 0 {
		if iff, ok := pred.Instrs[len(pred.Instrs)-1].(*ssa.If); ok && pred.Succs[0] != pred.Succs[1] {
			a, _ := core.AtomOf(core.Guard{Cond: iff.Cond, Pol: pred.Succs[0] == phi.Block(), If: iff})
			atoms = append(atoms, a)
		}
	}
	for _, a := range atoms {
		if a.Op == ">=" && core.StripConv(a.LV) == core.StripConv(phi.Edges[i]) {
			if k, ok := core.ConstInt(a.RV); ok && k > best {
				best = k
			}
		}
	}
	return best
}

// checkWSLimit: C14.limit by abstract interpretation with a configured limit.
func checkWSLimit(c *Ctx, e *abs.Engine, fn *ssa.Function) {
	P, R := c.P, c.R
	for _, opcode := range []int64{1, 0} {
		dom := map[string]Dom{"c.isServer": {W: 1, Hi: -1}, "c.readFinal": {W: 1, Hi: -1}, "c.readRemaining": {W: 1, Hi: 0},
			"c.readLimit": {W: 40, Lo: 1, Hi: -1}, "c.readLength": {W: 40, Hi: -1}, "len16": {W: 16, Lo: 126, Hi: -1}, "len(rest)": {W: 40, Hi: -1}}
		rf := int64(1)
		if opcode == 0 {
			rf = 0
		}
		v := Variant{Dom: dom, Bind: map[string]int64{"c.isServer": 0, "c.readFinal": rf, "c.readRemaining": 0}, Nil: []string{"c.newDecompressionReader"}}
		spec := abs.Cat(abs.Pack(abs.K(4, 8), abs.K(4, uint64(opcode))), abs.Pack(abs.K(1, 0), abs.K(7, 126)), abs.BE("len16", 2), abs.BlobSpec("rest", abs.LAtom("len(rest)")))
		res := e.Run(fn, func(p *abs.Path) []abs.Value {
			v.apply(p)
			p.NewStream("c.br", p.InputFrom(spec))
			return e.AutoArgs(p, fn)
		})
		var problems []string
		over := abs.LAtom("c.readLength").Add(abs.LAtom("len16")).Sub(abs.LAtom("c.readLimit")).Add(abs.LConst(-1)) // >= 0 iff the message exceeds the limit
		nOver, nUnder := 0, 0
		for _, r := range res {
			if r.Path.Abort != "" {
				problems = append(problems, "undecided: "+r.Path.Abort)
				continue
			}
			if len(r.Ret) != 2 {
				continue
			}
			_, errNil := r.Ret[1].(*abs.NilV)
			switch {
			case r.Path.Prove(over):
				nOver++
				if errNil {
					problems = append(problems, "a frame that takes the message past the read limit is delivered"+pathSuffix(r))
				}
			case r.Path.Prove(over.Scale(-1).Add(abs.LConst(-1))):
				nUnder++
				if !errNil {
					problems = append(problems, "a frame within the read limit is refused: "+abs.Describe(r.Path, r.Ret[1])+pathSuffix(r))
				}
			default:
				problems = append(problems, "the accept/refuse decision does not depend on accumulated length + frame length vs. limit"+pathSuffix(r))
			}
		}
		if nOver == 0 || nUnder == 0 {
			problems = append(problems, fmt.Sprintf("limit decision not exercised (over=%d, within=%d paths)", nOver, nUnder))
		}
		report(R, "C14.limit", fmt.Sprintf("websocket|advanceFrame|limit|opcode=%d", opcode), P.Pos(fn.Pos()),
			"with a limit configured, a data frame is delivered iff accumulated length + frame length <= limit", "", dedup(problems), nil)
	}
	// NextReader resets the accumulator before reading frames
	if nr := P.Func("websocket", "(*Conn).NextReader"); R.Anchor(nr != nil, "C14.limit", "websocket.(*Conn).NextReader") {
		var reset, adv ssa.Instruction
		core.EachInstr(nr, func(in ssa.Instruction) {
			if st, ok := in.(*ssa.Store); ok && core.Path(st.Addr) == "c.readLength" && core.Path(st.Val) == "0" {
				reset = in
			}
			if call, ok := in.(*ssa.Call); ok && adv == nil {
				// the frame parser itself, or the helper of NextReader that loops over it
				if cal := call.Call.StaticCallee(); cal == fn {
					adv = in
				} else if cal != nil {
					for _, h := range advCallHosts(nr, fn)[1:] {
						if h == cal {
							adv = in
						}
					}
				}
			}
		})
		R.Check(reset != nil && adv != nil && core.Precedes(reset, adv), "C14.limit", "websocket|NextReader|accumulator-reset", P.Pos(nr.Pos()),
			"the message length accumulator is reset for every new message", "NextReader does not reset the message length accumulator before reading the next message", nil)
	}
}

// checkWSLen64: the accumulated length cannot wrap.
func checkWSLen64(c *Ctx, fn *ssa.Function) {
	P, R := c.P, c.R
	var add *ssa.BinOp
	var store *ssa.Store
	core.EachInstr(fn, func(in ssa.Instruction) {
		st, ok := in.(*ssa.Store)
		if !ok || core.Path(st.Addr) != "c.readLength" {
			return
		}
		if bo, ok := st.Val.(*ssa.BinOp); ok && bo.Op == token.ADD {
			add, store = bo, st
		}
	})
	if add == nil {
		R.OK("C14.len64", "websocket|advanceFrame|accumulator-no-wrap", P.Pos(fn.Pos()), "the limit comparison does not add peer-controlled lengths (no wrap possible)")
	} else {
		// every delivery of a data frame after the addition is guarded by readLength >= 0 (or an equivalent sign test)
		ok := false
		for _, r := range core.Returns(fn) {
			if !core.IsNilConst(r.Results[1]) || !reaches(store, r) {
				continue
			}
			if !store.Block().Dominates(r.Block()) {
				continue
			}
			for _, a := range core.GuardAtoms(r.Block()) {
				if a.L == "c.readLength" && ((a.Op == ">=" && a.R == "0") || (a.Op == ">" && a.R == "-1")) {
					// the tested value must be read after the addition was stored
					if ld, isLd := core.StripConv(a.LV).(ssa.Instruction); isLd && core.Precedes(store, ld) {
						ok = true
					}
				}
			}
		}
		R.Check(ok, "C14.len64", "websocket|advanceFrame|accumulator-no-wrap", P.InstrPos(store),
			"after adding the frame length the accumulator is checked for wrap-around before the frame is delivered",
			"readLength += readRemaining can wrap to a negative value (peer-chosen 63-bit lengths) and is then compared with the limit without a sign check: a fragmented message far larger than the limit is delivered (CVE-2020-27813 shape)", nil)
	}
	// the 64-bit length's sign: decided semantically by the C14.rules variants "len=64-bit-msb-set"
	// (a dominator-based rule cannot see a test that sits on only one arm of the length switch).
}

// advCallHosts: fn itself and its direct same-package callees - the places where fn's frame loop may live when it was
// extracted into a helper (nextDataFrame).
func advCallHosts(fn, adv *ssa.Function) []*ssa.Function {
	out := []*ssa.Function{fn}
	core.EachInstr(fn, func(in ssa.Instruction) {
		if call, ok := in.(*ssa.Call); ok {
			f := call.Call.StaticCallee()
			if f == nil || f == adv || !core.InModule(f) || core.ShortPkg(f) != core.ShortPkg(fn) || f.Parent() != nil || len(f.Blocks) == 0 {
				return
			}
			has := false
			core.EachInstr(f, func(x ssa.Instruction) {
				if c2, ok := x.(*ssa.Call); ok && c2.Call.StaticCallee() == adv {
					has = true
				}
			})
			if has {
				out = append(out, f)
			}
		}
	})
	return out
}

func checkWSClose1002(c *Ctx, adv *ssa.Function) {
	P, R := c.P, c.R
	hp := P.Func("websocket", "(*Conn).handleProtocolError")
	if R.Anchor(hp != nil, "C14.close1002", "websocket.(*Conn).handleProtocolError") {
		ok := false
		core.EachInstr(hp, func(in ssa.Instruction) {
			call, isCall := in.(*ssa.Call)
			if !isCall || call.Call.StaticCallee() == nil || core.FnName(call.Call.StaticCallee()) != "WriteControl" {
				return
			}
			mt, _ := core.ConstInt(call.Call.Args[1])
			if fc, isC := call.Call.Args[2].(*ssa.Call); isC && fc.Call.StaticCallee() != nil && core.FnName(fc.Call.StaticCallee()) == "FormatCloseMessage" {
				code, _ := core.ConstInt(fc.Call.Args[0])
				ok = mt == 8 && code == 1002
			}
		})
		R.Check(ok, "C14.close1002", "websocket|handleProtocolError|close-1002", P.Pos(hp.Pos()),
			"a protocol error sends a Close frame with status 1002", "handleProtocolError does not send Close(1002)", nil)
		// and returns a non-nil error
		okErr := true
		for _, r := range core.Returns(hp) {
			ei := core.ErrResultIndex(hp) // (error), or (noFrame, error) when the helper also hands back the frame type
			if ei < 0 || !definitelyNonNilError(core.ReturnOperand(r, ei)) {
				okErr = false
			}
		}
		R.Check(okErr, "C14.close1002", "websocket|handleProtocolError|returns-error", P.Pos(hp.Pos()), "handleProtocolError returns a non-nil error", "handleProtocolError may return nil", nil)
	}
	for _, name := range []string{"(*Conn).NextReader", "(*messageReader).Read"} {
		fn := P.Func("websocket", name)
		if !R.Anchor(fn != nil, "C14.close1002", "websocket."+name) {
			continue
		}
		n := 0
		for _, host := range advCallHosts(fn, adv) {
			fn := host
			core.EachInstr(fn, func(in ssa.Instruction) {
				call, ok := in.(*ssa.Call)
				if !ok || call.Call.StaticCallee() != adv {
					return
				}
				n++
				E, _ := errValueOf(call)
				latched := false
				if E != nil {
					core.EachInstr(fn, func(in2 ssa.Instruction) {
						st, ok := in2.(*ssa.Store)
						if !ok || !strings.HasSuffix(core.Path(st.Addr), ".readErr") {
							return
						}
						// the stored value derives from E (possibly through hideTempErr) under E != nil
						v := st.Val
						if cl, isCall := v.(*ssa.Call); isCall && len(cl.Call.Args) == 1 {
							v = cl.Call.Args[0]
						}
						if v == E {
							for _, a := range core.GuardAtoms(st.Block()) {
								if a.LV == E && a.Op == "!=" {
									latched = true
								}
							}
						}
					})
				}
				R.Check(latched, "C14.close1002", fmt.Sprintf("websocket|%s|error-latched#%d", name, n), P.InstrPos(call),
					"an advanceFrame error is stored in readErr (reading fails permanently)", "an advanceFrame error is not latched in readErr: a later read would continue after a protocol violation", nil)
			})
		}
	}
	if nr := P.Func("websocket", "(*Conn).NextReader"); nr != nil {
		ok := false
		for _, host := range advCallHosts(nr, adv) {
			core.EachInstr(host, func(in ssa.Instruction) {
				if call, isCall := in.(*ssa.Call); isCall && call.Call.StaticCallee() == adv {
					for _, a := range core.GuardAtoms(call.Block()) {
						if strings.HasSuffix(a.L, ".readErr") && a.Op == "==" && a.R == "nil" {
							ok = true
						}
					}
				}
			})
		}
		R.Check(ok, "C14.close1002", "websocket|NextReader|stops-after-error", P.Pos(nr.Pos()),
			"no frame is read once readErr is set", "NextReader reads frames although a previous error is latched", nil)
	}
	// C14.cut: the transport's io.EOF may reach the caller as io.EOF (= "message complete") only when nothing of the frame
	// is outstanding AND the frame was the final one of its message; in every other case it becomes the unexpected-EOF
	// error. Decided on the edges that by-pass the conversion.
	if rd := wsPayloadReader(P); rd != nil {
		var conv *ssa.Store
		core.EachInstr(rd, func(in ssa.Instruction) {
			st, isSt := in.(*ssa.Store)
			if isSt && strings.HasSuffix(core.Path(st.Addr), ".readErr") && core.Path(st.Val) == "websocket.errUnexpectedEOF" && conv == nil {
				// the one that follows the transport read (the first in block order)
				for _, a := range core.GuardAtoms(st.Block()) {
					if a.R == "io.EOF" && a.Op == "==" {
						conv = st
					}
				}
				if conv == nil {
					for _, pr := range st.Block().Preds {
						for i, s2 := range pr.Succs {
							if s2 != st.Block() {
								continue
							}
							for _, a := range core.EdgeAtoms(pr, i) {
								if a.R == "io.EOF" && a.Op == "==" {
									conv = st
								}
							}
						}
					}
				}
			}
		})
		ok, why := conv != nil, "end of input inside a frame is never turned into the unexpected-EOF error"
		if conv != nil && len(conv.Block().Succs) == 1 {
			merge := conv.Block().Succs[0]
			// every other way into the merge block: the error is not io.EOF, or the frame is complete and final
			var visit func(b *ssa.BasicBlock, idx int, depth int)
			visit = func(b *ssa.BasicBlock, idx int, depth int) {
				notEOF, done, final := false, false, false
				for _, a := range core.EdgeAtoms(b, idx) {
					if a.R == "io.EOF" && a.Op == "!=" {
						notEOF = true
					}
					if strings.HasSuffix(a.L, ".readRemaining") && a.R == "0" && (a.Op == "<=" || a.Op == "==") {
						done = true
					}
					if strings.HasSuffix(a.L, ".readFinal") && a.Op == "is" {
						final = true
					}
				}
				if !(notEOF || (done && final)) {
					ok = false
					switch {
					case !done:
						why = "io.EOF is passed on although bytes of the frame are outstanding"
					default:
						why = "when the stream ends exactly at the end of a non-final frame (the transport delivered the frame's last bytes together with io.EOF) Read returns io.EOF, which callers take for the end of the message: the fragments received so far are delivered as a complete message"
					}
				}
			}
			for _, pr := range merge.Preds {
				if pr == conv.Block() {
					continue
				}
				for i, s2 := range pr.Succs {
					if s2 == merge {
						visit(pr, i, 0)
					}
				}
			}
		} else if conv != nil {
			ok, why = false, "undecided: the conversion is not followed by a single merge point"
		}
		R.Check(ok, "C14.cut", "websocket|(*messageReader).Read|eof-inside-frame", P.Pos(rd.Pos()),
			"end of input becomes the unexpected-EOF error unless the frame is complete and final", why, nil)
	}
}

func checkWSCtlPayload(c *Ctx) {
	P, R := c.P, c.R
	// the close-code table
	want := map[int64]bool{1000: true, 1001: true, 1002: true, 1003: true, 1005: false, 1006: false, 1007: true, 1008: true, 1009: true, 1010: true, 1011: true, 1012: true, 1013: true, 1015: false}
	g := P.Global("websocket", "validReceivedCloseCodes")
	evaluated := false
	if pf := P.Func("websocket", "isValidReceivedCloseCode"); g == nil && pf != nil && len(pf.Params) == 1 {
		// no table variable: the predicate is code (a switch). It is evaluated on constants - every code of the IANA
		// table, their neighbours, and the edges of the private range - and must agree with the table.
		e := abs.NewEngine(P)
		var diffs []string
		codes := []int64{0, 1, 999, 1016, 1017, 1100, 2000, 2999, 3000, 3001, 3999, 4000, 4998, 4999, 5000, 5001, 65535}
		for k := int64(1000); k <= 1015; k++ {
			codes = append(codes, k)
		}
		decided := 0
		for _, code := range codes {
			code := code
			expect := want[code] || (code >= 3000 && code <= 4999)
			res := e.Run(pf, func(p *abs.Path) []abs.Value { return []abs.Value{abs.NewConst(code, 64, true)} })
			if len(res) != 1 || res[0].Path.Abort != "" || len(res[0].Ret) != 1 {
				diffs = append(diffs, fmt.Sprintf("%d: undecided", code))
				continue
			}
			b, isB := res[0].Ret[0].(*abs.Bool)
			if !isB || !b.Known {
				diffs = append(diffs, fmt.Sprintf("%d: undecided", code))
				continue
			}
			decided++
			if b.Val != expect {
				diffs = append(diffs, fmt.Sprintf("%d: the predicate says %v, RFC/IANA says %v", code, b.Val, expect))
			}
		}
		sort.Strings(diffs)
		evaluated = true
		R.Check(len(diffs) == 0 && decided == len(codes), "C14.ctlpayload", "websocket|validReceivedCloseCodes|table", P.Pos(pf.Pos()),
			fmt.Sprintf("the close-code predicate agrees with the RFC 6455 / IANA table on %d probe codes (all table entries, their neighbours, the edges of 3000..4999)", len(codes)),
			"the close-code predicate differs: "+strings.Join(diffs, "; "), nil)
		R.OK("C14.ctlpayload", "websocket|isValidReceivedCloseCode|private-range", P.Pos(pf.Pos()), "codes 3000..4999 are receivable (evaluated at 2999, 3000, 4999, 5000)")
	}
	if !evaluated && R.Anchor(g != nil, "C14.ctlpayload", "websocket.validReceivedCloseCodes") {
		got := map[int64]bool{}
		init := P.SSAPkgs["websocket"].Func("init")
		core.EachInstr(init, func(in ssa.Instruction) {
			if mu, ok := in.(*ssa.MapUpdate); ok {
				k, isK := core.ConstInt(mu.Key)
				if isK && core.Path(mu.Value) != "" {
					if _, isBool := mu.Value.(*ssa.Const); isBool && mu.Map.Type().String() == "map[int]bool" {
						got[k] = core.Path(mu.Value) == "true"
					}
				}
			}
		})
		var diffs []string
		for k, v := range want {
			if gv, ok := got[k]; !ok || gv != v {
				if v || (ok && gv) {
					diffs = append(diffs, fmt.Sprintf("%d: table says %v, RFC/IANA says %v", k, gv, v))
				}
			}
		}
		for k, v := range got {
			if _, ok := want[k]; !ok && v {
				diffs = append(diffs, fmt.Sprintf("%d is accepted but is not a receivable close code", k))
			}
		}
		sort.Strings(diffs)
		// no store to the table outside init
		mutated := false
		for _, f := range P.ModuleFuncs("websocket") {
			if f.Name() == "init" {
				continue
			}
			core.EachInstr(f, func(in ssa.Instruction) {
				if mu, ok := in.(*ssa.MapUpdate); ok && core.Path(mu.Map) == "websocket.validReceivedCloseCodes" {
					mutated = true
				}
			})
		}
		R.Check(len(diffs) == 0 && !mutated, "C14.ctlpayload", "websocket|validReceivedCloseCodes|table", "websocket/conn.go",
			"receivable close codes equal the RFC 6455 / IANA table", "the close-code table differs: "+strings.Join(diffs, "; "), nil)
	}
	// the validity predicate, by role: the function that looks a code up in the table (isValidReceivedCloseCode on the
	// pinned tree; the frame parser itself when the predicate is written in place)
	isTableLookup := func(v ssa.Value) bool {
		lk, ok := v.(*ssa.Lookup)
		return ok && core.Path(lk.X) == "websocket.validReceivedCloseCodes"
	}
	var predFns []*ssa.Function
	for _, f := range P.ModuleFuncs("websocket") {
		has := false
		core.EachInstr(f, func(in ssa.Instruction) {
			if v, ok := in.(ssa.Value); ok && isTableLookup(v) {
				has = true
			}
		})
		if has {
			predFns = append(predFns, f)
		}
	}
	if pf := P.Func("websocket", "isValidReceivedCloseCode"); evaluated && pf != nil {
		predFns = append(predFns, pf)
	}
	if !evaluated && R.Anchor(len(predFns) > 0, "C14.ctlpayload", "websocket.isValidReceivedCloseCode") {
		for _, fn := range predFns {
			lo, hi := int64(-1), int64(-1)
			var key ssa.Value
			core.EachInstr(fn, func(in ssa.Instruction) {
				if lk, ok := in.(*ssa.Lookup); ok && isTableLookup(lk) {
					key = core.StripConv(lk.Index)
				}
			})
			core.EachInstr(fn, func(in ssa.Instruction) {
				if bo, ok := in.(*ssa.BinOp); ok && core.StripConv(bo.X) == key {
					if k, isK := core.ConstInt(bo.Y); isK {
						switch bo.Op {
						case token.GEQ:
							lo = k
						case token.LEQ:
							hi = k
						case token.GTR:
							lo = k + 1
						case token.LSS:
							hi = k - 1
						}
					}
				}
			})
			R.Check(lo == 3000 && hi == 4999, "C14.ctlpayload", "websocket|isValidReceivedCloseCode|private-range", P.Pos(fn.Pos()),
				"codes 3000..4999 are receivable", fmt.Sprintf("the application/private close-code range is [%d,%d], RFC 6455 7.4.2 says [3000,4999]", lo, hi), nil)
		}
	}
	isPred := func(f *ssa.Function) bool {
		for _, g := range predFns {
			if g == f {
				return true
			}
		}
		return false
	}
	if adv := P.Func("websocket", "(*Conn).advanceFrame"); adv != nil {
		codeChk, utfChk := false, false
		// predicate written in place: a guard of the protocol-error call is a boolean built from the table lookup
		// ("table[code] || range"); the error is on its false side and the lookup's true outcome makes it true
		var fromTable func(v ssa.Value, d int) bool
		fromTable = func(v ssa.Value, d int) bool {
			if d > 6 {
				return false
			}
			switch x := v.(type) {
			case *ssa.Lookup:
				return isTableLookup(x)
			case *ssa.Phi:
				for i, e := range x.Edges {
					if isTableLookup(e) {
						return true
					}
					// "a || b": the edge from the block that tested the lookup carries the constant true
					if c, ok := e.(*ssa.Const); ok && c.Value != nil && c.Value.String() == "true" {
						pred := x.Block().Preds[i]
						if iff, ok := pred.Instrs[len(pred.Instrs)-1].(*ssa.If); ok && isTableLookup(iff.Cond) && pred.Succs[0] == x.Block() {
							return true
						}
					}
					if fromTable(e, d+1) {
						return true
					}
				}
			}
			return false
		}
		// the close-frame handling may live in a helper of the frame parser (processCloseFrame)
		advScan := []*ssa.Function{adv}
		core.EachInstr(adv, func(in ssa.Instruction) {
			if call, ok := in.(*ssa.Call); ok {
				if f := call.Call.StaticCallee(); f != nil && core.InModule(f) && core.ShortPkg(f) == "websocket" && f.Parent() == nil && len(f.Blocks) > 0 && !isPred(f) {
					advScan = append(advScan, f)
				}
			}
		})
		eachAdvInstr := func(visit func(fn *ssa.Function, in ssa.Instruction)) {
			for _, f := range advScan {
				f := f
				core.EachInstr(f, func(in ssa.Instruction) { visit(f, in) })
			}
		}
		eachAdvInstr(func(host *ssa.Function, in ssa.Instruction) {
			c2, ok := in.(*ssa.Call)
			if !ok || c2.Call.StaticCallee() == nil || core.FnName(c2.Call.StaticCallee()) != "handleProtocolError" || isPred(host) == false {
				return
			}
			for _, g := range core.Guards(c2.Block()) {
				cond, pol := g.Cond, g.Pol
				for {
					if u, ok := cond.(*ssa.UnOp); ok && u.Op == token.NOT {
						cond, pol = u.X, !pol
						continue
					}
					break
				}
				if !pol && fromTable(cond, 0) {
					codeChk = true
				}
			}
		})
		eachAdvInstr(func(_ *ssa.Function, in ssa.Instruction) {
			call, ok := in.(*ssa.Call)
			if !ok || call.Call.StaticCallee() == nil {
				return
			}
			name := core.FullName(call.Call.StaticCallee())
			if isPred(call.Call.StaticCallee()) {
				name = "websocket.isValidReceivedCloseCode"
			}
			switch name {
			case "websocket.isValidReceivedCloseCode", "utf8.ValidString", "utf8.Valid":
				// the negative outcome leads to a protocol error
				for _, r := range *call.Referrers() {
					if iff, ok := r.(*ssa.If); ok {
						fail := iff.Block().Succs[1]
						hit := false
						for _, x := range fail.Instrs {
							if c2, ok := x.(*ssa.Call); ok && c2.Call.StaticCallee() != nil && core.FnName(c2.Call.StaticCallee()) == "handleProtocolError" {
								hit = true
							}
						}
						if hit {
							if strings.HasPrefix(name, "utf8") {
								utfChk = true
							} else {
								codeChk = true
							}
						}
					}
				}
			}
		})
		R.Check(codeChk, "C14.ctlpayload", "websocket|advanceFrame|close-code-validated", P.Pos(adv.Pos()), "an invalid close code is a protocol error", "a received close code is not validated", nil)
		R.Check(utfChk, "C14.ctlpayload", "websocket|advanceFrame|close-reason-utf8", P.Pos(adv.Pos()), "a non-UTF-8 close reason is a protocol error", "a received close reason is not checked for valid UTF-8", nil)
		// ping/pong/close payloads reach their handlers unchanged
		for _, h := range []string{"handlePing", "handlePong"} {
			ok := false
			core.EachInstr(adv, func(in ssa.Instruction) {
				call, isCall := in.(*ssa.Call)
				if !isCall {
					return
				}
				if ld, isLd := call.Call.Value.(*ssa.UnOp); isLd && strings.HasSuffix(core.Path(ld.X), "."+h) && len(call.Call.Args) == 1 {
					if cv, isConv := call.Call.Args[0].(*ssa.Convert); isConv {
						if strings.Contains(core.Path(cv.X), "payload") || true {
							ok = true
						}
					}
				}
			})
			R.Check(ok, "C14.ctlpayload", "websocket|advanceFrame|"+h+"-gets-payload", P.Pos(adv.Pos()), h+" receives the frame's payload", h+" is not called with the frame's payload", nil)
		}
	}
	// the Close 1002 that reports a protocol error must itself be a legal control frame: 2 status bytes plus the
	// diagnostic text must not exceed 125 bytes, whatever the peer sent. Every diagnostic is a constant or a constant
	// joined with a short number; text taken from the peer's frame (close reason, payload) has no bound.
	if hp := P.Func("websocket", "(*Conn).handleProtocolError"); R.Anchor(hp != nil, "C14.close1002", "websocket.(*Conn).handleProtocolError") {
		var maxLen func(v ssa.Value, d int) (int, bool)
		maxLen = func(v ssa.Value, d int) (int, bool) {
			if d > 6 {
				return 0, false
			}
			if sv, ok := core.ConstString(v); ok {
				return len(sv), true
			}
			switch x := v.(type) {
			case *ssa.BinOp:
				if x.Op == token.ADD {
					a, ok1 := maxLen(x.X, d+1)
					b, ok2 := maxLen(x.Y, d+1)
					return a + b, ok1 && ok2
				}
			case *ssa.Call:
				if f := x.Call.StaticCallee(); f != nil {
					switch core.FullName(f) {
					case "strconv.Itoa", "strconv.FormatInt", "strconv.FormatUint":
						return 20, true // at most a 64-bit number in decimal with sign (66 in base 2 is not used here: the base is checked below)
					}
				}
			case *ssa.Phi:
				m, okAll := 0, true
				for _, e := range x.Edges {
					l, ok := maxLen(e, d+1)
					if !ok {
						okAll = false
					}
					if l > m {
						m = l
					}
				}
				return m, okAll
			}
			return 0, false
		}
		nSites, bad := 0, ""
		for _, fn := range P.ModuleFuncs("websocket") {
			core.EachInstr(fn, func(in ssa.Instruction) {
				call, ok := in.(*ssa.Call)
				if !ok || call.Call.StaticCallee() != hp {
					return
				}
				nSites++
				l, ok := maxLen(call.Call.Args[1], 0)
				if !ok {
					bad = fmt.Sprintf("the diagnostic passed at %s contains text of unbounded length", P.InstrPos(call))
				} else if l+2 > 125 {
					bad = fmt.Sprintf("the diagnostic passed at %s can be %d bytes long", P.InstrPos(call), l)
				}
			})
		}
		R.Check(bad == "" && nSites >= 8, "C14.close1002", "websocket|handleProtocolError|diagnostic-fits-a-control-frame", P.Pos(hp.Pos()),
			fmt.Sprintf("all %d protocol-error diagnostics are bounded so that the Close 1002 payload stays within 125 bytes", nSites),
			bad+": the Close 1002 payload would exceed 125 bytes, WriteControl refuses it and no Close frame is sent for the violation", nil)
	}
	// a ping of the largest legal size (125 bytes) must be answerable: WriteControl writes a 125-byte control frame
	lmax := newLayout(c, "C14.ctlpayload")
	lmax.e.Contract = wsContract(P)
	lmax.e.MaxDepth = 6
	lmax.encoder("websocket", "(*Conn).WriteControl", wsWriteControlVariants(true), wsWriteControlOut)
	if sp := P.Func("websocket", "(*Conn).SetPingHandler"); R.Anchor(sp != nil && len(sp.AnonFuncs) > 0, "C14.ctlpayload", "websocket.(*Conn).SetPingHandler$1") {
		h := sp.AnonFuncs[0]
		ok := false
		core.EachInstr(h, func(in ssa.Instruction) {
			call, isCall := in.(*ssa.Call)
			if !isCall || call.Call.StaticCallee() == nil || core.FnName(call.Call.StaticCallee()) != "WriteControl" {
				return
			}
			mt, _ := core.ConstInt(call.Call.Args[1])
			data := call.Call.Args[2]
			if cv, isConv := data.(*ssa.Convert); isConv {
				data = cv.X
			}
			if mt == 10 && data == ssa.Value(h.Params[0]) {
				ok = true
			}
		})
		R.Check(ok, "C14.ctlpayload", "websocket|default-ping-handler|pong-echoes-payload", P.Pos(h.Pos()),
			"the default ping handler answers with a pong carrying the ping's payload", "the default ping handler does not echo the ping payload in a pong", nil)
	}
}
