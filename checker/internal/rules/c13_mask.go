package rules

import (
	"fmt"
	"go/token"
	"go/types"

	"golang.org/x/tools/go/ssa"

	"oryxverif/checker/internal/core"
)

// checkMaskAdvance: the masking routine's contract towards its callers is "b is XORed with the key starting at key
// position pos, and the position after the last byte is returned".  The bytes themselves are covered by the upstream
// test; the returned position is what the payload reader keeps between two reads of one frame, so every byte the
// routine masks has to be accounted for in the position it returns:
//
//   - a byte-wise XOR loop over (a window of) b takes its key byte at key[P&3], where P is a loop-carried value that
//     starts from the incoming position and moves by one with every byte (or at key[(P+i)&3] with P invariant and the
//     position moved by the length of the window after the loop), and that carried value is what leaves the loop;
//   - a word-wise XOR loop through unsafe pointers moves by a constant multiple of 4 bytes per iteration, which leaves
//     the position modulo 4 where it was;
//   - every return hands back such a carried position modulo 4.
//
// This is a dataflow rule over the SSA form of the routine (and of same-shaped helpers it hands the work to); it
// does not interpret the unsafe arithmetic.
func checkMaskAdvance(c *Ctx, mb *ssa.Function) {
	P, R := c.P, c.R
	m := &maskScan{P: P, seen: map[*ssa.Function]bool{}}
	m.scan(mb)
	key := "websocket|maskBytes|position-advances-with-every-masked-byte"
	msg := ""
	if len(m.bad) > 0 {
		msg = m.bad[0]
	}
	if m.byteLoops == 0 && msg == "" {
		msg = "no byte-wise XOR loop found in the masking routine (rule found nothing to decide)"
	}
	R.Check(msg == "", "C13.unmask", key, P.Pos(mb.Pos()),
		fmt.Sprintf("every byte the masking routine XORs moves the returned key position (%d byte-wise loops carry the position, %d word-wise loops step by a multiple of 4, %d returns hand back the carried position mod 4)", m.byteLoops, m.wordLoops, m.returns),
		"the masking routine masks bytes without accounting for them in the key position it returns: "+msg+" - the payload reader keeps that position between two reads of one frame, so the rest of the frame is unmasked with a rotated key", nil)
}

type maskScan struct {
	P         *core.Program
	seen      map[*ssa.Function]bool
	bad       []string
	byteLoops int
	wordLoops int
	returns   int
}

func (m *maskScan) fail(pos token.Pos, f string, a ...interface{}) {
	m.bad = append(m.bad, fmt.Sprintf("%s: ", m.P.Pos(pos))+fmt.Sprintf(f, a...))
}

// maskShape finds the key ([4]byte), position (int) and buffer ([]byte) parameters by type.
func maskShape(fn *ssa.Function) (key, pos, buf *ssa.Parameter) {
	for _, p := range fn.Params {
		switch t := p.Type().Underlying().(type) {
		case *types.Array:
			if t.Len() == 4 && isByte(t.Elem()) && key == nil {
				key = p
			}
		case *types.Slice:
			if isByte(t.Elem()) && buf == nil {
				buf = p
			}
		case *types.Basic:
			if t.Kind() == types.Int && pos == nil {
				pos = p
			}
		}
	}
	return
}

func isByte(t types.Type) bool {
	b, ok := t.Underlying().(*types.Basic)
	return ok && b.Kind() == types.Uint8
}

func (m *maskScan) scan(fn *ssa.Function) {
	if m.seen[fn] {
		return
	}
	m.seen[fn] = true
	keyP, posP, bufP := maskShape(fn)
	if keyP == nil || posP == nil || bufP == nil || len(fn.Blocks) == 0 {
		m.fail(fn.Pos(), "%s does not have the (key [4]byte, pos int, b []byte) shape", core.FullName(fn))
		return
	}
	// the key parameter is indexed dynamically, so it lives in a cell
	isKey := func(v ssa.Value) bool {
		v = core.StripConv(v)
		if v == ssa.Value(keyP) {
			return true
		}
		if a, ok := v.(*ssa.Alloc); ok {
			n, isK := 0, false
			for _, r := range *a.Referrers() {
				if st, ok := r.(*ssa.Store); ok && st.Addr == ssa.Value(a) {
					n++
					isK = st.Val == ssa.Value(keyP)
				}
			}
			return n == 1 && isK
		}
		return false
	}
	// windows of the buffer
	var isBuf func(v ssa.Value, d int) bool
	isBuf = func(v ssa.Value, d int) bool {
		if d > 8 {
			return false
		}
		switch x := v.(type) {
		case *ssa.Parameter:
			return x == bufP
		case *ssa.Slice:
			return isBuf(x.X, d+1)
		case *ssa.Phi:
			for _, e := range x.Edges {
				if e != ssa.Value(x) && !isBuf(e, d+1) {
					return false
				}
			}
			return true
		}
		return false
	}
	// carried position: the incoming position, moved only by additions, merged only with other carried positions, or
	// the result of a same-shaped helper that got a carried position
	var helpers []*ssa.Function
	var isPos func(v ssa.Value, d int, seen map[ssa.Value]bool) bool
	isPos = func(v ssa.Value, d int, seen map[ssa.Value]bool) bool {
		if d > 12 {
			return false
		}
		if seen[v] {
			return true
		}
		switch x := v.(type) {
		case *ssa.Parameter:
			return x == posP
		case *ssa.BinOp:
			if x.Op == token.ADD {
				return isPos(x.X, d+1, seen) || isPos(x.Y, d+1, seen)
			}
			if x.Op == token.AND { // pos & 3 kept as the position
				if k, ok := core.ConstInt(x.Y); ok && k == 3 {
					return isPos(x.X, d+1, seen)
				}
			}
		case *ssa.Phi:
			seen[v] = true
			for _, e := range x.Edges {
				if !isPos(e, d+1, seen) {
					return false
				}
			}
			return true
		case *ssa.Call:
			if cal := x.Call.StaticCallee(); cal != nil && cal.Pkg == fn.Pkg {
				k2, p2, b2 := maskShape(cal)
				if k2 != nil && p2 != nil && b2 != nil && resultIsInt(cal) {
					for i, a := range x.Call.Args {
						if i < len(cal.Params) && cal.Params[i] == p2 && isPos(a, d+1, seen) {
							helpers = append(helpers, cal)
							return true
						}
					}
				}
			}
		}
		return false
	}
	carried := func(v ssa.Value) bool { return isPos(v, 0, map[ssa.Value]bool{}) }

	for _, b := range fn.Blocks {
		for _, in := range b.Instrs {
			switch x := in.(type) {
			case *ssa.Store:
				xor, ok := x.Val.(*ssa.BinOp)
				if !ok || xor.Op != token.XOR {
					continue
				}
				// x ^= k : one operand is the old content of the stored location
				var other ssa.Value
				for i, o := range []ssa.Value{xor.X, xor.Y} {
					if ld, ok := o.(*ssa.UnOp); ok && ld.Op == token.MUL && sameLocation(ld.X, x.Addr) {
						other = []ssa.Value{xor.Y, xor.X}[i]
					}
				}
				if other == nil {
					continue
				}
				ia, isIdx := x.Addr.(*ssa.IndexAddr)
				if !isIdx {
					// word-wise: the address comes out of unsafe arithmetic
					if !throughUnsafe(x.Addr) {
						continue
					}
					step, hdr := loopStepOf(fn, b)
					if hdr == nil || step == 0 || step%4 != 0 {
						m.fail(x.Pos(), "the word-wise XOR loop does not step by a constant multiple of 4 bytes")
						continue
					}
					m.wordLoops++
					continue
				}
				if !isBuf(ia.X, 0) || !isByte(x.Val.Type()) {
					continue
				}
				// the key byte
				kl, ok := other.(*ssa.UnOp)
				var kia *ssa.IndexAddr
				if ok && kl.Op == token.MUL {
					kia, _ = kl.X.(*ssa.IndexAddr)
				}
				if kia == nil || !isKey(kia.X) {
					m.fail(x.Pos(), "a byte of the buffer is XORed with something other than key[position&3], so the loop cannot move the position it returns")
					continue
				}
				and, ok := core.StripConv(kia.Index).(*ssa.BinOp)
				if k, isK := core.ConstInt(andY(and)); !ok || and.Op != token.AND || !isK || k != 3 {
					m.fail(x.Pos(), "the key index is not of the form position&3")
					continue
				}
				hdr := innermostLoopHeader(fn, b)
				if hdr == nil {
					m.fail(x.Pos(), "byte-wise XOR outside a loop")
					continue
				}
				inLoop := loopBlocks(fn, hdr)
				e := core.StripConv(and.X)
				okForm := false
				if ph, isPhi := e.(*ssa.Phi); isPhi && ph.Block() == hdr {
					// form (a): P starts carried, moves by one on every back edge, and leaves the loop
					okForm = true
					for i, pr := range hdr.Preds {
						if inLoop[pr] {
							add, isAdd := ph.Edges[i].(*ssa.BinOp)
							k, isK := int64(0), false
							if isAdd && add.Op == token.ADD && add.X == ssa.Value(ph) {
								k, isK = core.ConstInt(add.Y)
							}
							if !isK || k != 1 || !stepsByOne(ia.Index, hdr, inLoop) {
								okForm = false
							}
						} else if !carried(ph.Edges[i]) {
							okForm = false
						}
					}
					if okForm && !usedOutside(ph, inLoop) {
						m.fail(x.Pos(), "the position carried through this loop is dropped after it")
						continue
					}
				} else if add, isAdd := e.(*ssa.BinOp); isAdd && add.Op == token.ADD {
					// form (b): key[(P+i)&3] with P invariant and the position moved by len(window) afterwards
					for _, pr := range [][2]ssa.Value{{add.X, add.Y}, {add.Y, add.X}} {
						p0, i0 := pr[0], pr[1]
						if core.StripConv(i0) == core.StripConv(ia.Index) && carried(p0) && !definedIn(p0, inLoop) && stepsByOne(ia.Index, hdr, inLoop) && movedByLen(fn, p0, ia.X) {
							okForm = true
						}
					}
				}
				if !okForm {
					m.fail(x.Pos(), "the key index of this byte-wise XOR loop is not a position that starts from the incoming one and moves with every byte")
					continue
				}
				m.byteLoops++
			case *ssa.Return:
				if len(x.Results) != 1 {
					continue
				}
				v := core.StripConv(x.Results[0])
				if and, ok := v.(*ssa.BinOp); ok && and.Op == token.AND {
					if k, isK := core.ConstInt(and.Y); isK && k == 3 && carried(and.X) {
						m.returns++
						continue
					}
				}
				if carried(v) {
					m.returns++
					continue
				}
				m.fail(x.Pos(), "a return does not hand back the carried key position")
			}
		}
	}
	for _, h := range helpers {
		m.scan(h)
	}
}

func andY(b *ssa.BinOp) ssa.Value {
	if b == nil {
		return nil
	}
	return b.Y
}

func resultIsInt(fn *ssa.Function) bool {
	rs := fn.Signature.Results()
	if rs.Len() != 1 {
		return false
	}
	b, ok := rs.At(0).Type().Underlying().(*types.Basic)
	return ok && b.Kind() == types.Int
}

// sameLocation: two address expressions of the same element (SSA has no CSE, so b[i] ^= k builds &b[i] twice).
func sameLocation(a, b ssa.Value) bool {
	if a == b {
		return true
	}
	x, ok1 := a.(*ssa.IndexAddr)
	y, ok2 := b.(*ssa.IndexAddr)
	return ok1 && ok2 && x.X == y.X && x.Index == y.Index
}

func throughUnsafe(v ssa.Value) bool {
	for d := 0; d < 6; d++ {
		cv, ok := v.(*ssa.Convert)
		if !ok {
			return false
		}
		if b, ok := cv.X.Type().Underlying().(*types.Basic); ok && b.Kind() == types.UnsafePointer {
			return true
		}
		v = cv.X
	}
	return false
}

func innermostLoopHeader(fn *ssa.Function, b *ssa.BasicBlock) *ssa.BasicBlock {
	var best *ssa.BasicBlock
	bestN := 0
	for _, h := range fn.Blocks {
		back := false
		for _, pr := range h.Preds {
			if h.Dominates(pr) {
				back = true
			}
		}
		if !back {
			continue
		}
		l := loopBlocks(fn, h)
		if l[b] && (best == nil || len(l) < bestN) {
			best, bestN = h, len(l)
		}
	}
	return best
}

// loopStepOf: the constant by which the induction value of b's innermost loop moves per iteration (0 if none).
func loopStepOf(fn *ssa.Function, b *ssa.BasicBlock) (int64, *ssa.BasicBlock) {
	hdr := innermostLoopHeader(fn, b)
	if hdr == nil {
		return 0, nil
	}
	inLoop := loopBlocks(fn, hdr)
	var step int64
	for _, in := range hdr.Instrs {
		ph, ok := in.(*ssa.Phi)
		if !ok {
			break
		}
		for i, pr := range hdr.Preds {
			if !inLoop[pr] {
				continue
			}
			if add, ok := ph.Edges[i].(*ssa.BinOp); ok && add.Op == token.ADD && add.X == ssa.Value(ph) {
				if k, isK := core.ConstInt(add.Y); isK && k != 0 {
					step = k
				}
			}
		}
	}
	return step, hdr
}

// stepsByOne: idx is the loop's index moving by one per iteration (a header phi + 1 per back edge, or the
// range-index form phi+1 of go/ssa).
func stepsByOne(idx ssa.Value, hdr *ssa.BasicBlock, inLoop map[*ssa.BasicBlock]bool) bool {
	idx = core.StripConv(idx)
	var ph *ssa.Phi
	switch x := idx.(type) {
	case *ssa.Phi:
		ph = x
	case *ssa.BinOp:
		if k, ok := core.ConstInt(x.Y); ok && k == 1 && x.Op == token.ADD {
			ph, _ = x.X.(*ssa.Phi)
		}
	}
	if ph == nil || ph.Block() != hdr {
		return false
	}
	for i, pr := range hdr.Preds {
		if !inLoop[pr] {
			continue
		}
		add, ok := ph.Edges[i].(*ssa.BinOp)
		if !ok || add.Op != token.ADD || add.X != ssa.Value(ph) {
			return false
		}
		if k, isK := core.ConstInt(add.Y); !isK || k != 1 {
			return false
		}
	}
	return true
}

func usedOutside(v ssa.Value, inLoop map[*ssa.BasicBlock]bool) bool {
	for _, r := range *v.Referrers() {
		if !inLoop[r.Block()] {
			return true
		}
		// the loop header's exit side: a use in the header that is not part of the cycle cannot be told apart here;
		// phis of later blocks are outside by construction
	}
	return false
}

func definedIn(v ssa.Value, inLoop map[*ssa.BasicBlock]bool) bool {
	if in, ok := v.(ssa.Instruction); ok {
		return inLoop[in.Block()]
	}
	return false
}

// movedByLen: somewhere in fn the invariant position p0 is moved by the length of the window that was masked.
func movedByLen(fn *ssa.Function, p0, window ssa.Value) bool {
	found := false
	core.EachInstr(fn, func(in ssa.Instruction) {
		add, ok := in.(*ssa.BinOp)
		if !ok || add.Op != token.ADD {
			return
		}
		for _, pr := range [][2]ssa.Value{{add.X, add.Y}, {add.Y, add.X}} {
			if pr[0] != p0 {
				continue
			}
			if call, ok := core.StripConv(pr[1]).(*ssa.Call); ok {
				if b, isB := call.Call.Value.(*ssa.Builtin); isB && b.Name() == "len" && call.Call.Args[0] == window {
					if add.Referrers() != nil && len(*add.Referrers()) > 0 {
						found = true
					}
				}
			}
		}
	})
	return found
}
