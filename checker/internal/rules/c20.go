package rules

import (
	"fmt"
	"go/token"
	"go/types"
	"strings"

	"golang.org/x/tools/go/ssa"

	"oryxverif/checker/internal/core"
)

func init() {
	register(&Property{
		ID: "C20",
		Explain: "Decided (structural): C20.sign - every floating-point division whose divisor is not a constant (the rate computations) is dominated by a guard that the signed growth is " +
			"> 0 and has a positive divisor (a guarded duration, or the window length whose every store is a positive constant), and the complementary branch yields the constant 0; " +
			"C20.started - each of the 8 public getters reaches the meter only under 'started', the other branch panics; C20.scale - the four bitrate getters apply the same x8 /1000 " +
			"to the matching underlying window, the four request-rate getters none; C20.window - the per-window numerator is (observed - previous count) of the same receiver, the divisor its " +
			"own interval, no operand of a rate passes through an integer narrower than 64 bits, the average's start time is stored only together with its baseline, count/lastSample are updated on every path that consumes the sample and no path that touched the window answers false (doSample reads false as 'not due yet' and ends the cascade), each getter reads its own window, and all three windows are sampled. " +
			"Not decided: numerical equality with growth/window for all observation histories (runtime arithmetic).",
		Assume: []string{"time.Duration constants are evaluated by go/types", "float64 division of a positive by a positive finite value is finite and positive"},
		Run:    runC20,
	})
}

// guardPositive reports whether block b is dominated by an atom "v > 0" (or "v >= 1") for the
// value v (after stripping value-preserving conversions).
func guardPositive(b *ssa.BasicBlock, v ssa.Value) bool {
	for _, a := range core.GuardAtoms(b) {
		if a.LV == nil || stripAllConv(a.LV) != stripAllConv(v) {
			continue
		}
		if (a.Op == ">" && a.R == "0") || (a.Op == ">=" && a.R == "1") {
			return true
		}
	}
	return false
}

// c20Bind maps the parameters of a small arithmetic helper to the arguments of the call site under analysis, so that a
// formula moved into a helper (ratePerSecond(delta, millis)) is read with the caller's values and guards.
var c20Bind map[*ssa.Parameter]ssa.Value

func c20Subst(v ssa.Value) ssa.Value {
	for i := 0; i < 4; i++ {
		p, ok := v.(*ssa.Parameter)
		if !ok {
			return v
		}
		a, bound := c20Bind[p]
		if !bound {
			return v
		}
		v = a
	}
	return v
}

func stripAllConv(v ssa.Value) ssa.Value {
	for {
		v = core.StripConv(c20Subst(core.StripConv(v)))
		if c, ok := v.(*ssa.Convert); ok {
			// int64 -> float64 and integer narrowing keep the sign question on the source when the source is signed 64
			v = c.X
			continue
		}
		return v
	}
}

// arithChain lists the values from v downwards through sign-preserving steps: conversions,
// multiplication by a positive constant, floating-point division by a positive constant.
// An integer division is listed but not crossed (x > 0 does not imply x/c > 0).
func arithChain(v ssa.Value) []ssa.Value {
	var out []ssa.Value
	for i := 0; i < 16; i++ {
		v = core.StripConv(c20Subst(core.StripConv(v)))
		out = append(out, v)
		switch x := v.(type) {
		case *ssa.Convert:
			v = x.X
			continue
		case *ssa.BinOp:
			if x.Op == token.MUL && isPosConst(x.Y) {
				v = x.X
				continue
			}
			if x.Op == token.MUL && isPosConst(x.X) {
				v = x.Y
				continue
			}
			if x.Op == token.QUO && isPosConst(x.Y) {
				if bt, ok := x.Type().Underlying().(*types.Basic); ok && bt.Info()&types.IsFloat != 0 {
					v = x.X
					continue
				}
			}
		}
		break
	}
	return out
}

func arithRoot(v ssa.Value) ssa.Value {
	c := arithChain(v)
	return c[len(c)-1]
}

func guardPositiveChain(b *ssa.BasicBlock, v ssa.Value) (ssa.Value, bool) {
	for _, x := range arithChain(v) {
		if guardPositive(b, x) {
			return x, true
		}
	}
	return nil, false
}

func isPosConst(v ssa.Value) bool {
	c, ok := core.StripConv(v).(*ssa.Const)
	if !ok || c.Value == nil {
		if cv, ok := v.(*ssa.Convert); ok {
			return isPosConst(cv.X)
		}
		return false
	}
	f := c.Float64()
	return f > 0
}

func runC20(c *Ctx) {
	P, R := c.P, c.R
	R.Require("C20.sign", 4)
	R.Require("C20.started", 8)
	R.Require("C20.scale", 8)
	R.Require("C20.window", 8)
	R.Require("C20.units", 2)
	fns := P.ModuleFuncs("kxps")
	for _, f := range fns {
		R.Funcs[core.QualName(f)] = true
	}

	// all stores to sample.interval are positive constants >= 1ms
	sampleT := P.NamedType("kxps", "sample")
	if !R.Anchor(sampleT != nil, "C20.sign", "kxps.sample") {
		return
	}
	intervalVar := structField(sampleT, "interval")
	intervalOK, nStores := true, 0
	for _, fn := range fns {
		core.EachInstr(fn, func(in ssa.Instruction) {
			st, ok := in.(*ssa.Store)
			if !ok || core.FieldVar(st.Addr) != intervalVar {
				return
			}
			nStores++
			n, isC := core.ConstInt(st.Val)
			if !isC || n < 1000000 {
				intervalOK = false
				R.Fail("C20.sign", "kxps|"+core.FuncName(fn)+"|interval-store", P.InstrPos(st),
					"a window length is stored that is not a constant of at least one millisecond (the rate divisor could be zero or negative)", nil)
			}
		})
	}
	R.Check(intervalOK && nStores >= 3, "C20.sign", "kxps|sample.interval|positive-constants", "-",
		fmt.Sprintf("all %d stores to sample.interval are positive constants", nStores),
		fmt.Sprintf("window lengths are not all positive constants (%d stores)", nStores), nil)

	// ---- C20.sign: non-constant float divisions
	nDiv := 0
	type divSite struct {
		host *ssa.Function   // function whose guards apply (the caller, for a formula in a helper)
		blk  *ssa.BasicBlock // block whose dominating guards apply
		bo   *ssa.BinOp
		bind map[*ssa.Parameter]ssa.Value
	}
	var divSites []divSite
	for _, fn := range fns {
		fn := fn
		core.EachInstr(fn, func(in ssa.Instruction) {
			bo, ok := in.(*ssa.BinOp)
			if !ok || bo.Op != token.QUO {
				return
			}
			bt, isB := bo.Type().Underlying().(*types.Basic)
			if !isB || bt.Info()&types.IsFloat == 0 {
				return
			}
			if _, isC := core.StripConv(bo.Y).(*ssa.Const); isC {
				return // constant scaling
			}
			// a formula in an unexported helper over its parameters: judged at every call site with the arguments
			_, xPar := arithRoot(bo.X).(*ssa.Parameter)
			_, yPar := arithRoot(bo.Y).(*ssa.Parameter)
			// (when the helper guards its parameters itself, it is judged in place)
			_, numHere := guardPositiveChain(bo.Block(), bo.X)
			_, denHere := guardPositiveChain(bo.Block(), bo.Y)
			if ((xPar && !numHere) || (yPar && !denHere)) && fn.Object() != nil && !fn.Object().Exported() && fn.Parent() == nil && core.CallersOf != nil {
				sites := core.CallersOf(fn)
				if len(sites) > 0 {
					for _, site := range sites {
						args := site.Common().Args
						if len(args) != len(fn.Params) {
							continue
						}
						bind := map[*ssa.Parameter]ssa.Value{}
						for i, p := range fn.Params {
							bind[p] = args[i]
						}
						divSites = append(divSites, divSite{site.Parent(), site.Block(), bo, bind})
					}
					return
				}
			}
			divSites = append(divSites, divSite{fn, bo.Block(), bo, nil})
		})
	}
	for _, ds := range divSites {
		func() {
			fn, bo, gblk := ds.host, ds.bo, ds.blk
			c20Bind = ds.bind
			defer func() { c20Bind = nil }()
			nDiv++
			key := fmt.Sprintf("kxps|%s|rate-division#%d", core.FuncName(fn), nDiv)
			num, numOK := guardPositiveChain(gblk, bo.X)
			den, denOK := guardPositiveChain(gblk, bo.Y)
			if !numOK {
				num = arithRoot(bo.X)
			}
			if !denOK {
				den = arithRoot(bo.Y)
			}
			denWhy := "guarded > 0"
			if !denOK {
				// derived from the receiver's interval
				d := den
				for {
					if b2, ok := d.(*ssa.BinOp); ok && b2.Op == token.QUO && isPosConst(b2.Y) {
						d = arithRoot(b2.X)
						continue
					}
					break
				}
				if ld, ok := d.(*ssa.UnOp); ok && ld.Op == token.MUL && core.FieldVar(ld.X) == intervalVar && intervalOK {
					denOK, denWhy = true, "the window's own interval (positive constant)"
				}
			}
			R.Check(numOK && denOK, "C20.sign", key, P.InstrPos(bo),
				"rate division guarded: growth > 0, divisor "+denWhy,
				fmt.Sprintf("a rate is computed by a division that is not guarded (growth > 0 guard: %v, positive divisor: %v): a stalled or backwards counter would yield a negative, infinite or NaN rate", numOK, denOK),
				map[string]interface{}{"numerator": core.Path(num), "divisor": core.Path(den)})
			// C20.units: rate = growth x K / (elapsed / U) must be per second: K x U = 1 s, and the
			// integer division of the elapsed time must not be coarser than a millisecond.
			if k, u, shape := rateUnits(bo); shape != "" {
				okU := k*u == 1e9 && u <= 1e6
				R.Check(okU, "C20.units", key+"|per-second", P.InstrPos(bo),
					fmt.Sprintf("rate is per second: growth x %d / (elapsed / %dns)", k, u),
					fmt.Sprintf("the rate is not growth per second at millisecond (or finer) granularity: growth x %d / (elapsed / %dns), K x U = %dns (expected 1e9ns, U <= 1e6ns): sub-unit elapsed time is truncated away and the rate is overstated", k, u, k*u), nil)
			} else {
				R.Note("C20.units", key+"|per-second", P.InstrPos(bo), "rate formula shape not recognised for the unit check (no obligation)")
			}
			// neither operand passes through an integer narrower than 64 bits: elapsed milliseconds overflow 31 bits after
			// 24.8 days of uptime, a counter difference after 2^31 requests - the rate turns 0, negative or absurd
			{
				narrow := ""
				var scan func(v ssa.Value, d int)
				scan = func(v ssa.Value, d int) {
					if d > 10 || v == nil || narrow != "" {
						return
					}
					switch x := c20Subst(v).(type) {
					case *ssa.Convert:
						if bt, ok := x.Type().Underlying().(*types.Basic); ok && bt.Info()&types.IsInteger != 0 {
							switch bt.Kind() {
							case types.Int8, types.Int16, types.Int32, types.Uint8, types.Uint16, types.Uint32:
								narrow = fmt.Sprintf("%s converted to %s at %s", core.Path(x.X), bt.Name(), P.InstrPos(x))
								return
							}
						}
						scan(x.X, d+1)
					case *ssa.ChangeType:
						scan(x.X, d+1)
					case *ssa.BinOp:
						scan(x.X, d+1)
						scan(x.Y, d+1)
					case *ssa.Phi:
						for _, e := range x.Edges {
							scan(e, d+1)
						}
					}
				}
				scan(bo.X, 0)
				scan(bo.Y, 0)
				R.Check(narrow == "", "C20.units", key+"|no-narrow-integer", P.InstrPos(bo),
					"growth and elapsed time stay 64 bits wide up to the division",
					"an operand of the rate passes through a narrow integer ("+narrow+"): it wraps for a meter that has been up for weeks (2^31 ms = 24.8 days) or has counted 2^31 events, and the rate becomes 0, negative or absurdly large", nil)
			}
			// the complementary branch of the growth guard yields constant 0
			for _, g := range core.Guards(gblk) {
				a, _ := core.AtomOf(g)
				if a.LV == nil || stripAllConv(a.LV) != stripAllConv(num) || a.Op != ">" {
					continue
				}
				// the branch not taken
				other := g.If.Block().Succs[0]
				if g.Pol {
					other = g.If.Block().Succs[1]
				}
				zero := false
				for _, in2 := range other.Instrs {
					switch x := in2.(type) {
					case *ssa.Store:
						if f, isC := constFloat(x.Val); isC && f == 0 {
							zero = true
						}
					case *ssa.Return:
						if len(x.Results) > 0 {
							if f, isC := constFloat(x.Results[0]); isC && f == 0 {
								zero = true
							}
						}
					}
				}
				R.Check(zero, "C20.sign", key+"|zero-branch", P.InstrPos(g.If),
					"a stalled or backwards counter yields the constant 0",
					"the branch taken when the counter did not grow does not yield the constant 0", nil)
			}
		}()
	}

	// ---- C20.started and C20.scale
	type getter struct {
		typ, name, imp string
		scaled         bool
	}
	getters := []getter{
		{"kbps", "Kbps10s", "Xps10s", true}, {"kbps", "Kbps30s", "Xps30s", true}, {"kbps", "Kbps300s", "Xps300s", true}, {"kbps", "Average", "Average", true},
		{"krps", "Rps10s", "Xps10s", false}, {"krps", "Rps30s", "Xps30s", false}, {"krps", "Rps300s", "Xps300s", false}, {"krps", "Average", "Average", false},
	}
	for _, g := range getters {
		fn := P.Func("kxps", "(*"+g.typ+")."+g.name)
		if !R.Anchor(fn != nil, "C20.started", "kxps.(*"+g.typ+")."+g.name) {
			continue
		}
		key := "kxps|(*" + g.typ + ")." + g.name
		// calls into imp.* must be guarded by started; the other branch panics
		var impCalls []*ssa.Call
		core.EachInstr(fn, func(in ssa.Instruction) {
			if call, ok := in.(*ssa.Call); ok && call.Call.StaticCallee() != nil && call.Call.StaticCallee().Signature.Recv() != nil &&
				strings.HasSuffix(core.Path(call.Call.Args[0]), ".imp") {
				impCalls = append(impCalls, call)
			}
		})
		ok := len(impCalls) == 1
		for _, call := range impCalls {
			guarded := false
			for _, gd := range core.Guards(call.Block()) {
				a, _ := core.AtomOf(gd)
				if strings.HasSuffix(a.L, ".imp.started") && a.Op == "is" {
					guarded = true
					other := gd.If.Block().Succs[1]
					if !gd.Pol {
						other = gd.If.Block().Succs[0]
					}
					_, isPanic := other.Instrs[len(other.Instrs)-1].(*ssa.Panic)
					if !isPanic {
						guarded = false
					}
				}
			}
			if !guarded {
				// the guard extracted into a helper (v.mustStarted()): a call that precedes the read, on the same
				// receiver, of a module function that returns only behind started and panics otherwise
				core.EachInstr(fn, func(in2 ssa.Instruction) {
					hc, isCall := in2.(*ssa.Call)
					if !isCall || hc.Call.StaticCallee() == nil || !core.Precedes(hc, call) {
						return
					}
					h := hc.Call.StaticCallee()
					if !core.InModule(h) || len(h.Blocks) == 0 || len(hc.Call.Args) == 0 || hc.Call.Args[0] != ssa.Value(fn.Params[0]) {
						return
					}
					panics, allBehind := false, true
					core.EachInstr(h, func(x ssa.Instruction) {
						switch y := x.(type) {
						case *ssa.Panic:
							panics = true
						case *ssa.Return:
							behind := false
							for _, a := range core.GuardAtoms(y.Block()) {
								if strings.HasSuffix(a.L, ".imp.started") && a.Op == "is" {
									behind = true
								}
							}
							allBehind = allBehind && behind
						}
					})
					if panics && allBehind {
						guarded = true
					}
				})
			}
			if !guarded {
				ok = false
			}
		}
		R.Check(ok, "C20.started", key+"|started-guard", P.Pos(fn.Pos()),
			"the meter is read only after it was started, otherwise the call panics (is refused)",
			"the getter reads the meter without the 'started' guard (or the unstarted branch does not refuse)", nil)
		// scale
		if len(impCalls) != 1 {
			continue
		}
		call := impCalls[0]
		rightWindow := core.FnName(call.Call.StaticCallee()) == g.imp
		var ret ssa.Value
		for _, r := range core.Returns(fn) {
			ret = r.Results[0]
		}
		shape := "other"
		// the scaling may sit in a helper applied to the reading (bpsToKbps(v.imp.Xps10s())): one level, the helper's
		// parameter standing for the reading
		var readingParam ssa.Value
		if rc, isCall := ret.(*ssa.Call); isCall && rc != call && len(rc.Call.Args) == 1 && rc.Call.Args[0] == ssa.Value(call) {
			if h := rc.Call.StaticCallee(); h != nil && core.InModule(h) && len(h.Blocks) > 0 && len(h.Params) == 1 {
				if rets := core.Returns(h); len(rets) == 1 && len(rets[0].Results) == 1 {
					ret, readingParam = rets[0].Results[0], h.Params[0]
				}
			}
		}
		isReading := func(v ssa.Value) bool { return v == ssa.Value(call) || (readingParam != nil && v == readingParam) }
		if isReading(ret) {
			shape = "raw"
		} else if q, ok := ret.(*ssa.BinOp); ok && q.Op == token.QUO {
			if m, ok := q.X.(*ssa.BinOp); ok && m.Op == token.MUL && isReading(m.X) {
				mf, _ := constFloat(m.Y)
				qf, _ := constFloat(q.Y)
				if mf == 8 && qf == 1000 {
					shape = "x8/1000"
				} else {
					shape = fmt.Sprintf("x%v/%v", mf, qf)
				}
			}
		}
		want := map[bool]string{true: "x8/1000", false: "raw"}[g.scaled]
		R.Check(rightWindow && shape == want, "C20.scale", key+"|scale", P.Pos(fn.Pos()),
			"reads "+g.imp+" with scaling "+want,
			fmt.Sprintf("reads %s with scaling %s (expected %s with %s)", core.FnName(call.Call.StaticCallee()), shape, g.imp, want), nil)
	}

	// ---- C20.window
	for _, w := range []struct{ getter, field string }{{"Xps10s", "r10s"}, {"Xps30s", "r30s"}, {"Xps300s", "r300s"}} {
		fn := P.Func("kxps", "(*kxps)."+w.getter)
		if !R.Anchor(fn != nil, "C20.window", "kxps.(*kxps)."+w.getter) {
			continue
		}
		ok := false
		for _, r := range core.Returns(fn) {
			if core.TypedPath(r.Results[0]) == "kxps."+w.field+".rps" {
				ok = true
			}
		}
		R.Check(ok, "C20.window", "kxps|(*kxps)."+w.getter+"|own-window", P.Pos(fn.Pos()),
			"returns the rate of window "+w.field, "does not return the rate of its own window "+w.field, nil)
	}
	newK := P.Func("kxps", "newKxps")
	if R.Anchor(newK != nil, "C20.window", "kxps.newKxps") {
		want := map[string]int64{"r10s": 10e9, "r30s": 30e9, "r300s": 300e9}
		got := map[string]int64{}
		core.EachInstr(newK, func(in ssa.Instruction) {
			if st, ok := in.(*ssa.Store); ok && core.FieldVar(st.Addr) == intervalVar {
				p := core.Path(st.Addr)
				parts := strings.Split(p, ".")
				if len(parts) >= 2 {
					n, _ := core.ConstInt(st.Val)
					got[parts[len(parts)-2]] = n
				}
			}
		})
		for f, n := range want {
			R.Check(got[f] == n, "C20.window", "kxps|newKxps|interval|"+f, P.Pos(newK.Pos()),
				fmt.Sprintf("window %s has length %ds", f, n/1e9), fmt.Sprintf("window %s has length %dns instead of %ds", f, got[f], n/1e9), nil)
		}
	}
	smp := P.Func("kxps", "(*sample).sample")
	if R.Anchor(smp != nil, "C20.window", "kxps.(*sample).sample") {
		// numerator: param nbRequests - receiver.count
		var sub *ssa.BinOp
		core.EachInstr(smp, func(in ssa.Instruction) {
			if bo, ok := in.(*ssa.BinOp); ok && bo.Op == token.SUB {
				if _, isP := core.StripConv(bo.X).(*ssa.Parameter); isP && core.Path(bo.Y) == core.ParamName(smp.Params[0])+".count" {
					sub = bo
				}
			}
		})
		R.Check(sub != nil, "C20.window", "kxps|(*sample).sample|growth", P.Pos(smp.Pos()),
			"growth = observed counter - this window's previous count", "the growth is not (observed counter - this window's previous count)", nil)
		// count and lastSample stored on every path that returns true
		for _, f := range []string{"count", "lastSample"} {
			fv := structField(sampleT, f)
			isStore := func(in ssa.Instruction) bool {
				st, ok := in.(*ssa.Store)
				return ok && core.FieldVar(st.Addr) == fv
			}
			// every path whose result (a phi of a single merged return is resolved by the edge taken) is not the
			// constant false passes a store
			ok := true
			var bad *ssa.Return
			for _, pr := range returnsFromEntry(smp, isStore) {
				cst, isC := pr.ops[0].(*ssa.Const)
				if isC && cst.Value != nil && cst.Value.String() == "false" {
					continue
				}
				if !pr.passed {
					ok, bad = false, pr.ret
				}
			}
			pos := P.Pos(smp.Pos())
			if bad != nil {
				pos = P.InstrPos(bad)
			}
			R.Check(ok, "C20.window", "kxps|(*sample).sample|updates-"+f, pos,
				f+" is updated on every path that consumes the sample", "a path returns true without updating "+f+": the next rate would span more than one window", nil)
		}
		// the converse, which doSample relies on: "false" means "this window is not due yet, nothing happened" - it ends the
		// cascade over the longer windows, so a path that changed the window's state (directly or through a method of
		// the window) must not answer false
		if sampleS, isS := sampleT.Underlying().(*types.Struct); isS {
			writes := func(fn *ssa.Function) bool {
				w := false
				core.EachInstr(fn, func(in ssa.Instruction) {
					if st, ok := in.(*ssa.Store); ok {
						if fv := core.FieldVar(st.Addr); fv != nil {
							for i := 0; i < sampleS.NumFields(); i++ {
								if sampleS.Field(i) == fv {
									w = true
								}
							}
						}
					}
				})
				return w
			}
			touches := func(in ssa.Instruction) bool {
				switch x := in.(type) {
				case *ssa.Store:
					if fv := core.FieldVar(x.Addr); fv != nil {
						for i := 0; i < sampleS.NumFields(); i++ {
							if sampleS.Field(i) == fv {
								return true
							}
						}
					}
				case *ssa.Call:
					if cal := x.Call.StaticCallee(); cal != nil && cal != smp && core.InModule(cal) && len(cal.Blocks) > 0 && len(x.Call.Args) > 0 && x.Call.Args[0] == ssa.Value(smp.Params[0]) {
						return writes(cal)
					}
				}
				return false
			}
			ok := true
			var bad *ssa.Return
			for _, pr := range returnsFromEntry(smp, touches) {
				cst, isC := pr.ops[0].(*ssa.Const)
				if isC && cst.Value != nil && cst.Value.String() == "false" && pr.passed {
					ok, bad = false, pr.ret
				}
			}
			pos := P.Pos(smp.Pos())
			if bad != nil {
				pos = P.InstrPos(bad)
			}
			R.Check(ok, "C20.window", "kxps|(*sample).sample|false-means-untouched", pos,
				"a window answers false only when it left its state alone (not due yet)",
				"a path changes the window's state and answers false: doSample reads false as 'not due yet' and skips the longer windows, which then keep a stale rate and a stale baseline", nil)
		}
		// stored count is the observed counter
		okc := false
		core.EachInstr(smp, func(in ssa.Instruction) {
			if st, ok := in.(*ssa.Store); ok && core.FieldVar(st.Addr) == structField(sampleT, "count") {
				if _, isP := core.StripConv(st.Val).(*ssa.Parameter); isP {
					okc = true
				}
			}
		})
		R.Check(okc, "C20.window", "kxps|(*sample).sample|count-is-observed", P.Pos(smp.Pos()),
			"the stored count is the observed counter", "the stored count is not the observed counter", nil)
	}
	// the average's start time and its baseline count are one observation: they are only ever stored together (a start
	// time moved by the sampler's first tick, with the baseline left alone, divides the old growth by too short a time)
	if kx := P.NamedType("kxps", "kxps"); R.Anchor(kx != nil, "C20.window", "kxps.kxps") {
		cv, av := structField(kx, "create"), structField(kx, "average")
		if R.Anchor(cv != nil && av != nil, "C20.window", "kxps.kxps.{create,average}") {
			bad, n := "", 0
			for _, fn := range P.ModuleFuncs("kxps") {
				for _, b := range fn.Blocks {
					hasC, hasA := false, false
					var at ssa.Instruction
					for _, in := range b.Instrs {
						if st, ok := in.(*ssa.Store); ok {
							if core.FieldVar(st.Addr) == cv {
								hasC, at = true, in
							}
							if core.FieldVar(st.Addr) == av {
								hasA = true
							}
						}
					}
					if hasC {
						n++
						if !hasA {
							bad = core.FuncName(fn) + " at " + P.InstrPos(at)
						}
					}
				}
			}
			R.Check(bad == "" && n > 0, "C20.window", "kxps|average|start-time-stored-with-its-baseline", P.Pos(kx.Obj().Pos()),
				"the average's start time is stored only together with its baseline count",
				"the average's start time is stored without its baseline count in "+bad+": the two no longer describe one observation, and the average divides the growth since the old baseline by the time since the new start", nil)
		}
	}
	ds := P.Func("kxps", "(*kxps).doSample")
	if R.Anchor(ds != nil, "C20.window", "kxps.(*kxps).doSample") {
		sampled := map[string]bool{}
		core.EachInstr(ds, func(in ssa.Instruction) {
			if call, ok := in.(*ssa.Call); ok && call.Call.StaticCallee() == smp && smp != nil {
				p := core.Path(call.Call.Args[0])
				sampled[p[strings.LastIndex(p, ".")+1:]] = true
			}
		})
		for _, f := range []string{"r10s", "r30s", "r300s"} {
			R.Check(sampled[f], "C20.window", "kxps|(*kxps).doSample|samples|"+f, P.Pos(ds.Pos()),
				"window "+f+" is sampled", "window "+f+" is never sampled: its rate stays 0", nil)
		}
	}
}

// rateUnits recognises  float(x) [* K] / float(int(d / U))  and returns K (default 1) and U.
func rateUnits(div *ssa.BinOp) (k, u int64, shape string) {
	k = 1
	// numerator: optional multiplication by a constant
	n := core.StripConv(div.X)
	if m, ok := n.(*ssa.BinOp); ok && m.Op == token.MUL {
		if f, isC := constFloat(m.Y); isC {
			k = int64(f)
		} else if f, isC := constFloat(m.X); isC {
			k = int64(f)
		}
	}
	// denominator: conversions down to an integer division by a constant
	d := div.Y
	for i := 0; i < 8; i++ {
		d = core.StripConv(c20Subst(core.StripConv(d)))
		if cv, ok := d.(*ssa.Convert); ok {
			d = cv.X
			continue
		}
		break
	}
	q, ok := d.(*ssa.BinOp)
	if !ok || q.Op != token.QUO {
		return 0, 0, ""
	}
	c, isC := core.ConstInt(q.Y)
	if !isC || c <= 0 {
		return 0, 0, ""
	}
	return k, c, "int-div"
}

func constFloat(v ssa.Value) (float64, bool) {
	v = core.StripConv(v)
	if cv, ok := v.(*ssa.Convert); ok {
		return constFloat(cv.X)
	}
	c, ok := v.(*ssa.Const)
	if !ok || c.Value == nil {
		return 0, false
	}
	return c.Float64(), true
}
