package rules

import (
	"fmt"
	"go/types"
	"strings"

	"golang.org/x/tools/go/ssa"

	"oryxverif/checker/internal/abs"
	"oryxverif/checker/internal/core"
)

func init() {
	register(&Property{
		ID: "C05",
		Explain: "Decided (bit-provenance abstract interpretation; child values of containers are abstract values with the contract len(MarshalBinary())=Size(), property counts 0..2 enumerated): " +
			"C05.size - for Number, Boolean, String, the UTF-8 name, object-end, null, undefined, Object, ECMA array and strict array MarshalBinary yields exactly Size() bytes; " +
			"C05.scalar - Number is the 64 IEEE bits big-endian both ways (NaN payloads, infinities, -0 are just bit patterns), Boolean is 1/0 out and !=0 in, string lengths are BE16 of len; " +
			"C05.consumed - every decoder, run on an encoding followed by nothing, accepts it with all indexes proven in range and reports Size() equal to the number of bytes of the encoding, also for " +
			"containers with Number/String/null/nested-object children and for keys that may be equal (repeated keys); C05.count - a strict array's count prefix is the number of elements that follow. " +
			"RTMP command parsers advancing by Size(): C03.order. " +
			"C05.alias - no []byte result aliases storage that outlives the call (receiver fields, package variables, pooled buffers): an item handed out earlier stays what it was. " +
			"Not decided: equality of arbitrary trees and key order under arbitrary API use (follows from the per-level results by induction, argued not mechanised).",
		Assume: []string{"child contract: a value's MarshalBinary yields exactly Size() bytes (guaranteed level by level by C05.size itself)", "bytes.Buffer and encoding/binary models"},
		Run:    runC05,
	})
	register(&Property{
		ID: "C06",
		Explain: "Decided: C06.markers - the 18 marker constants equal the AMF0 specification's table (section 2.1); C06.discovery - all 256 marker bytes enumerated: supported markers yield a value whose own " +
			"marker is that byte, every other byte is an error (9, object-end, meaningful only inside a container, is unspecified); C06.layout - per-type bytes equal the AMF0 specification layout in both " +
			"directions (number, boolean, string, object, null, undefined, ECMA array, strict array); C06.strict - a strict array is count + values only. " +
			"Not decided: agreement with an independent codec on arbitrary trees (the layout tables are that second implementation in static form, one nesting level at a time).",
		Assume: []string{"layout tables transcribed from amf0_spec_121207 section 2"},
		Run:    runC06,
	})
}

type amfCase struct {
	name   string
	typ    string // receiver type name
	ctor   string // constructor used to build the receiver ("" = lazily symbolic / zero)
	dom    map[string]Dom
	bind   map[string]int64
	spec   []abs.SegSpec // library layout
	iso    []abs.SegSpec // AMF0 specification layout when different (nil = same)
	fields map[string]Want
	decode bool
}

func propDom(dom map[string]Dom, n int) {
	dom["len(v.objectBase.properties)"] = Dom{W: 8, Hi: -1}
	for i := 0; i < n; i++ {
		dom[fmt.Sprintf("len(v.objectBase.properties[%d].key)", i)] = Dom{W: 16, Hi: -1}
	}
}

func propSpec(n int, keyed bool) []abs.SegSpec {
	var out []abs.SegSpec
	for i := 0; i < n; i++ {
		k := fmt.Sprintf("v.objectBase.properties[%d].key", i)
		val := fmt.Sprintf("v.objectBase.properties[%d].value", i)
		if keyed {
			out = abs.Cat(out, abs.BE("len("+k+")", 2), abs.BlobSpec(k, abs.LAtom("len("+k+")")))
		}
		out = abs.Cat(out, abs.BlobSpec(val+".bytes", abs.LAtom("size("+val+")")))
	}
	return out
}

func amfEncodeCases() []amfCase {
	cases := []amfCase{
		{name: "Number", typ: "Number", spec: abs.Cat(abs.ConstBytes(0), abs.BE("v", 8))},
		{name: "Boolean", typ: "Boolean", dom: map[string]Dom{"v": {W: 1, Hi: -1}}, spec: abs.Cat(abs.ConstBytes(1), abs.Pack(abs.K(7, 0), abs.F("v", 0, 0)))},
		{name: "String", typ: "String", dom: map[string]Dom{"len(v)": {W: 16, Hi: -1}}, spec: abs.Cat(abs.ConstBytes(2), abs.BE("len(v)", 2), abs.BlobSpec("v", abs.LAtom("len(v)")))},
		{name: "amf0UTF8", typ: "amf0UTF8", dom: map[string]Dom{"len(v)": {W: 16, Hi: -1}}, spec: abs.Cat(abs.BE("len(v)", 2), abs.BlobSpec("v", abs.LAtom("len(v)")))},
		{name: "objectEOF", typ: "objectEOF", spec: abs.ConstBytes(0, 0, 9)},
		{name: "null", typ: "null", ctor: "NewNull", spec: abs.ConstBytes(5)},
		{name: "undefined", typ: "undefined", ctor: "NewUndefined", spec: abs.ConstBytes(6)},
	}
	for n := 0; n <= 2; n++ {
		d := func() map[string]Dom { m := map[string]Dom{"v.count": {W: 32, Hi: -1}}; propDom(m, n); return m }
		b := map[string]int64{"len(v.objectBase.properties)": int64(n)}
		cases = append(cases,
			amfCase{name: fmt.Sprintf("Object,props=%d", n), typ: "Object", dom: d(), bind: b, spec: abs.Cat(abs.ConstBytes(3), propSpec(n, true), abs.ConstBytes(0, 0, 9))},
			amfCase{name: fmt.Sprintf("EcmaArray,props=%d", n), typ: "EcmaArray", dom: d(), bind: b,
				spec: abs.Cat(abs.ConstBytes(8), abs.BE("v.count", 4), propSpec(n, true), abs.ConstBytes(0, 0, 9))},
			amfCase{name: fmt.Sprintf("StrictArray,elems=%d", n), typ: "StrictArray", dom: d(), bind: b,
				spec: abs.Cat(abs.ConstBytes(10), abs.Pack(abs.K(32, uint64(n))), propSpec(n, true)),
				iso:  abs.Cat(abs.ConstBytes(10), abs.Pack(abs.K(32, uint64(n))), propSpec(n, false))})
	}
	return cases
}

// checkAmfOverlong: a string or property name longer than the 16-bit length field can express (65535 bytes) must be
// refused by the encoder; writing a wrapped length in front of all its bytes is silent corruption the library itself
// cannot read back.
func checkAmfOverlong(c *Ctx, e *abs.Engine, rule string) {
	P, R := c.P, c.R
	for _, typ := range []string{"String", "amf0UTF8"} {
		mf := P.Func("amf0", "(*"+typ+").MarshalBinary")
		if !R.Anchor(mf != nil, rule, "amf0.(*"+typ+").MarshalBinary") {
			continue
		}
		cs := amfCase{typ: typ, dom: map[string]Dom{"len(v)": {W: 24, Lo: 65536, Hi: -1}}}
		v := Variant{Dom: cs.dom}
		res := e.RunCustom(func(p *abs.Path) []abs.Value {
			v.apply(p)
			return e.CallFn(p, mf, []abs.Value{amfReceiver(e, P, p, mf, cs)})
		})
		var problems []string
		for _, r := range res {
			if r.Path.Abort != "" {
				problems = append(problems, "undecided: "+r.Path.Abort)
				continue
			}
			if r.Path.Panics != "" {
				problems = append(problems, "panics: "+r.Path.Panics)
				continue
			}
			if len(r.Ret) == 2 {
				if _, isNil := r.Ret[1].(*abs.NilV); isNil {
					problems = append(problems, "a value of more than 65535 bytes is encoded without an error: the 16-bit length wraps, so the bytes written cannot be decoded back (not by this library either)"+pathSuffix(r))
				}
			}
		}
		report(R, rule, "amf0|"+typ+"|encode|longer-than-65535-is-an-error", P.Pos(mf.Pos()), "a value that does not fit the 16-bit length is refused", "", dedup(problems), map[string]interface{}{"paths": len(res)})
	}
}

func amfReceiver(e *abs.Engine, P *core.Program, p *abs.Path, fn *ssa.Function, cs amfCase) abs.Value {
	if cs.ctor != "" {
		v := e.CallFn(p, P.Func("amf0", cs.ctor), nil)[0]
		if i, ok := v.(*abs.Iface); ok {
			return i.V
		}
		return v
	}
	return e.AutoArgs(p, fn)[0]
}

// runAmfEncode runs MarshalBinary and Size on one receiver and reports layout and size problems.
func runAmfEncode(c *Ctx, e *abs.Engine, cs amfCase, spec []abs.SegSpec) (layout, size []string, paths int, pos string) {
	P := c.P
	mf := P.Func("amf0", "(*"+cs.typ+").MarshalBinary")
	sf := P.Func("amf0", "(*"+cs.typ+").Size")
	if mf == nil || sf == nil {
		return []string{"undecided: anchor amf0.(*" + cs.typ + ").MarshalBinary/Size"}, nil, 0, "?"
	}
	c.R.Funcs[core.QualName(mf)] = true
	c.R.Funcs[core.QualName(sf)] = true
	v := Variant{Dom: cs.dom, Bind: cs.bind}
	res := e.RunCustom(func(p *abs.Path) []abs.Value {
		v.apply(p)
		recv := amfReceiver(e, P, p, mf, cs)
		out := e.CallFn(p, mf, []abs.Value{recv})
		sz := e.CallFn(p, sf, []abs.Value{recv})
		return append(out, sz...)
	})
	for _, r := range res {
		if r.Path.Abort != "" {
			layout = append(layout, "undecided: "+r.Path.Abort)
			continue
		}
		if r.Path.Panics != "" {
			layout = append(layout, "panics: "+r.Path.Panics)
			continue
		}
		if len(r.Ret) < 3 {
			layout = append(layout, "undecided: no result")
			continue
		}
		if _, isNil := r.Ret[1].(*abs.NilV); !isNil {
			layout = append(layout, "the encoder returns "+abs.Describe(r.Path, r.Ret[1])+pathSuffix(r))
			continue
		}
		sl, ok := r.Ret[0].(*abs.Slice)
		if !ok {
			layout = append(layout, "undecided: result is "+abs.Describe(r.Path, r.Ret[0]))
			continue
		}
		segs, ok := r.Path.SegsOf(sl)
		if !ok {
			layout = append(layout, "undecided: result window not aligned")
			continue
		}
		for _, m := range r.Path.Compare(segs, spec) {
			layout = append(layout, m+pathSuffix(r))
		}
		sv, ok := r.Ret[2].(*abs.Int)
		if !ok || sv.Lin == nil {
			size = append(size, "undecided: Size() is not a linear expression: "+abs.Describe(r.Path, r.Ret[2]))
		} else if !r.Path.ProveEq(sl.Len.Sub(sv.Lin)) {
			size = append(size, fmt.Sprintf("MarshalBinary yields %s bytes but Size() is %s%s", sl.Len, sv.Lin, pathSuffix(r)))
		}
	}
	return dedup(layout), dedup(size), len(res), P.Pos(mf.Pos())
}

func report(R *core.Run, rule, key, pos, okMsg, failPrefix string, problems []string, facts map[string]interface{}) {
	if len(problems) == 0 {
		R.OKf(rule, key, pos, okMsg, facts)
		return
	}
	if facts == nil {
		facts = map[string]interface{}{}
	}
	facts["problems"] = problems
	if allUndecided(problems) {
		R.Unknown(rule, key, pos, problems[0], facts)
	} else {
		R.Fail(rule, key, pos, failPrefix+problems[0], facts)
	}
}

func newAmfEngine(c *Ctx) *abs.Engine {
	e := abs.NewEngine(c.P)
	contract := amf0Contract(e)
	e.Contract = func(p *abs.Path, fr *abs.Frame, call *ssa.CallCommon, callee *ssa.Function, args []abs.Value) (abs.Value, bool) {
		if callee != nil {
			return nil, false // inside package amf0 the container types themselves are analysed, not summarised
		}
		return contract(p, call, callee, args)
	}
	return e
}

func runC05(c *Ctx) {
	checkOwnsBytes(c, "C05.alias", "amf0")
	R := c.R
	R.Require("C05.size", 16)
	R.Require("C05.scalar", 4)
	R.Require("C05.consumed", 10)
	R.Require("C05.count", 3)
	e := newAmfEngine(c)
	for _, cs := range amfEncodeCases() {
		layout, size, paths, pos := runAmfEncode(c, e, cs, cs.spec)
		facts := map[string]interface{}{"paths": paths, "layout": abs.SpecString(cs.spec)}
		report(R, "C05.size", "amf0|"+cs.name+"|size=len(marshal)", pos, "MarshalBinary yields exactly Size() bytes", "", append(onlyUndecided(layout), size...), facts)
		switch cs.typ {
		case "Number", "Boolean", "String", "amf0UTF8":
			report(R, "C05.scalar", "amf0|"+cs.name+"|encode", pos, "bit-exact scalar encoding", "scalar encoding differs: ", layout, facts)
		case "StrictArray":
			report(R, "C05.count", "amf0|"+cs.name+"|count-prefix", pos, "the count prefix is the number of elements written", "", countProblems(layout), facts)
		}
	}
	amfDecodeChecks(c, e, "C05.consumed", "C05.scalar", nil)
	checkAmfOverlong(c, e, "C05.scalar")
	// the RTMP command packets are built from these values and advance by Size(): their Size() must be what they marshal
	checkPacketSizes(c, "C05.size")
	checkDecodedMembersCounted(c, "C05.consumed")
}

func onlyUndecided(s []string) []string {
	var out []string
	for _, x := range s {
		if strings.HasPrefix(x, "undecided:") || strings.HasPrefix(x, "panics:") {
			out = append(out, x)
		}
	}
	return out
}

func countProblems(layout []string) []string {
	var out []string
	for _, x := range layout {
		if strings.HasPrefix(x, "byte 1 ") || strings.HasPrefix(x, "byte 2 ") || strings.HasPrefix(x, "byte 3 ") || strings.HasPrefix(x, "byte 4 ") {
			out = append(out, "the 32-bit count written is not the number of elements that follow: "+x)
		} else if strings.HasPrefix(x, "undecided") {
			out = append(out, x)
		}
	}
	return out
}

// ---------------------------------------------------------------------------------------------
// decoders

type amfDec struct {
	name   string
	typ    string
	ctor   string
	dom    map[string]Dom
	spec   []abs.SegSpec
	fields map[string]Want
	nprops int  // expected number of properties (-1 = not a container)
	expErr bool // the input is malformed and must be rejected
}

func childSpec(kind string, i int, dom map[string]Dom) []abs.SegSpec {
	switch kind {
	case "number":
		a := fmt.Sprintf("num%d", i)
		return abs.Cat(abs.ConstBytes(0), abs.BE(a, 8))
	case "string":
		a := fmt.Sprintf("len(str%d)", i)
		dom[a] = Dom{W: 16, Hi: -1}
		return abs.Cat(abs.ConstBytes(2), abs.BE(a, 2), abs.BlobSpec(fmt.Sprintf("str%d", i), abs.LAtom(a)))
	case "null":
		return abs.ConstBytes(5)
	case "object":
		return abs.ConstBytes(3, 0, 0, 9)
	case "ecma":
		return abs.ConstBytes(8, 0, 0, 0, 0, 0, 0, 9)
	case "strict":
		return abs.ConstBytes(10, 0, 0, 0, 0)
	case "strict1": // one element in the library's keyed element layout (see the C06 known finding)
		return abs.ConstBytes(10, 0, 0, 0, 1, 0, 1, 'k', 5)
	case "objnum": // a non-empty nested object
		a := fmt.Sprintf("num%d", i)
		return abs.Cat(abs.ConstBytes(3, 0, 1, 'k', 0), abs.BE(a, 8), abs.ConstBytes(0, 0, 9))
	case "ecmanum":
		a := fmt.Sprintf("num%d", i)
		return abs.Cat(abs.ConstBytes(8, 0, 0, 0, 1, 0, 1, 'k', 0), abs.BE(a, 8), abs.ConstBytes(0, 0, 9))
	}
	return nil
}

func amfDecodeCases(tier string) []amfDec {
	cases := []amfDec{
		{name: "Number", typ: "Number", spec: abs.Cat(abs.ConstBytes(0), abs.BE("x", 8)), fields: map[string]Want{"*": {Atom: "x", Width: 64}}, nprops: -1},
		{name: "Boolean=false", typ: "Boolean", spec: abs.ConstBytes(1, 0), fields: map[string]Want{"*": {Const: cst(0)}}, nprops: -1},
		{name: "Boolean=nonzero", typ: "Boolean", dom: map[string]Dom{"b": {W: 8, Lo: 1, Hi: 255}}, spec: abs.Cat(abs.ConstBytes(1), abs.BE("b", 1)), fields: map[string]Want{"*": {Const: cst(1)}}, nprops: -1},
		{name: "String", typ: "String", dom: map[string]Dom{"len(s)": {W: 16, Hi: -1}}, spec: abs.Cat(abs.ConstBytes(2), abs.BE("len(s)", 2), abs.BlobSpec("s", abs.LAtom("len(s)"))),
			fields: map[string]Want{"*": {Blob: "s", Len: abs.LAtom("len(s)")}}, nprops: -1},
		{name: "amf0UTF8", typ: "amf0UTF8", dom: map[string]Dom{"len(s)": {W: 16, Hi: -1}}, spec: abs.Cat(abs.BE("len(s)", 2), abs.BlobSpec("s", abs.LAtom("len(s)"))),
			fields: map[string]Want{"*": {Blob: "s", Len: abs.LAtom("len(s)")}}, nprops: -1},
		{name: "objectEOF", typ: "objectEOF", spec: abs.ConstBytes(0, 0, 9), nprops: -1},
		{name: "null", typ: "null", ctor: "NewNull", spec: abs.ConstBytes(5), nprops: -1},
		{name: "undefined", typ: "undefined", ctor: "NewUndefined", spec: abs.ConstBytes(6), nprops: -1},
	}
	// malformed: the object-end marker as the value of a named property (only an empty name may precede it)
	for _, t := range []string{"Object", "EcmaArray"} {
		dom := map[string]Dom{"cnt": {W: 32, Hi: -1}, "len(key0)": {W: 16, Lo: 1, Hi: -1}}
		body := abs.Cat(abs.BE("len(key0)", 2), abs.BlobSpec("key0", abs.LAtom("len(key0)")), abs.ConstBytes(9, 0, 0, 9))
		spec := abs.Cat(abs.ConstBytes(3), body)
		if t == "EcmaArray" {
			spec = abs.Cat(abs.ConstBytes(8), abs.BE("cnt", 4), body)
		}
		cases = append(cases, amfDec{name: t + ",object-end-marker-as-named-value", typ: t, ctor: "New" + t, dom: dom, spec: spec, nprops: -1, expErr: true})
	}
	kinds := [][]string{{}, {"number"}, {"string", "null"}, {"object", "number"}, {"ecma", "number"}, {"strict", "number"}, {"strict1", "null"}, {"objnum", "null"}, {"ecmanum", "number"}}
	if tier == "thorough" {
		// every ordered pair and a sample of triples of child kinds
		all := []string{"number", "string", "null", "object", "ecma", "strict", "strict1", "objnum", "ecmanum"}
		have := map[string]bool{}
		for _, ks := range kinds {
			have[strings.Join(ks, "+")] = true
		}
		for _, a := range all {
			for _, b := range all {
				if ks := []string{a, b}; !have[strings.Join(ks, "+")] {
					kinds = append(kinds, ks)
				}
			}
		}
		kinds = append(kinds, []string{"number", "object", "string"}, []string{"ecma", "strict1", "null"}, []string{"objnum", "objnum", "number"})
	}
	for _, ks := range kinds {
		for _, t := range []string{"Object", "EcmaArray", "StrictArray"} {
			dom := map[string]Dom{"cnt": {W: 32, Hi: -1}}
			var body []abs.SegSpec
			for i, k := range ks {
				ka := fmt.Sprintf("len(key%d)", i)
				dom[ka] = Dom{W: 16, Hi: -1}
				if t != "StrictArray" {
					dom[ka] = Dom{W: 16, Lo: 1, Hi: -1} // an empty key followed by marker 9 is the end marker; keys of real properties are non-empty here
				}
				body = abs.Cat(body, abs.BE(ka, 2), abs.BlobSpec(fmt.Sprintf("key%d", i), abs.LAtom(ka)), childSpec(k, i, dom))
			}
			var spec []abs.SegSpec
			switch t {
			case "Object":
				spec = abs.Cat(abs.ConstBytes(3), body, abs.ConstBytes(0, 0, 9))
			case "EcmaArray":
				spec = abs.Cat(abs.ConstBytes(8), abs.BE("cnt", 4), body, abs.ConstBytes(0, 0, 9))
			case "StrictArray":
				spec = abs.Cat(abs.ConstBytes(10), abs.Pack(abs.K(32, uint64(len(ks)))), body)
			}
			cases = append(cases, amfDec{name: fmt.Sprintf("%s,children=%s", t, strings.Join(ks, "+")), typ: t, ctor: "New" + t, dom: dom, spec: spec, nprops: len(ks)})
		}
	}
	return cases
}

func amfDecodeChecks(c *Ctx, e *abs.Engine, ruleConsumed, ruleScalar string, skip func(amfDec) bool) {
	P, R := c.P, c.R
	for _, cs := range amfDecodeCases(c.Tier) {
		cs := cs
		if skip != nil && skip(cs) {
			continue
		}
		uf := P.Func("amf0", "(*"+cs.typ+").UnmarshalBinary")
		sf := P.Func("amf0", "(*"+cs.typ+").Size")
		if !R.Anchor(uf != nil && sf != nil, ruleConsumed, "amf0.(*"+cs.typ+").UnmarshalBinary/Size") {
			continue
		}
		R.Funcs[core.QualName(uf)] = true
		v := Variant{Dom: cs.dom}
		var total *abs.Lin
		res := e.RunCustom(func(p *abs.Path) []abs.Value {
			v.apply(p)
			var recv abs.Value
			if cs.ctor != "" {
				recv = e.CallFn(p, P.Func("amf0", cs.ctor), nil)[0]
				if i, ok := recv.(*abs.Iface); ok {
					recv = i.V
				}
			} else {
				recv = e.NewZeroPtr(p, uf.Params[0].Type())
			}
			p.Keep["recv"] = recv
			in := p.InputFrom(cs.spec)
			data := p.BytesValue("data", in)
			total = data.Len
			out := e.CallFn(p, uf, []abs.Value{recv, data})
			sz := e.CallFn(p, sf, []abs.Value{recv})
			return append(out, sz...)
		})
		var consumed, scalar []string
		for _, r := range res {
			if r.Path.Abort != "" {
				consumed = append(consumed, "undecided: "+r.Path.Abort)
				continue
			}
			if r.Path.Panics != "" {
				consumed = append(consumed, "panics on a well-formed encoding: "+r.Path.Panics+pathSuffix(r))
				continue
			}
			if len(r.Ret) < 2 {
				consumed = append(consumed, "undecided: no result")
				continue
			}
			if _, isNil := r.Ret[0].(*abs.NilV); cs.expErr {
				if isNil {
					consumed = append(consumed, "a malformed encoding (marker 9 as the value of a named property) is accepted: the rest of the container is silently dropped and Size() no longer matches the bytes consumed"+pathSuffix(r))
				}
				continue
			} else if !isNil {
				consumed = append(consumed, "a well-formed encoding is rejected: "+abs.Describe(r.Path, r.Ret[0])+pathSuffix(r))
				continue
			}
			for _, b := range unprovenBounds(r) {
				consumed = append(consumed, "bounds not proven on a well-formed encoding: "+b+pathSuffix(r))
			}
			sv, ok := r.Ret[1].(*abs.Int)
			if !ok || sv.Lin == nil {
				consumed = append(consumed, "undecided: Size() after decoding is not a linear expression: "+abs.Describe(r.Path, r.Ret[1]))
			} else if !r.Path.ProveEq(total.Sub(sv.Lin)) {
				consumed = append(consumed, fmt.Sprintf("the decoder consumed %s bytes but Size() afterwards is %s: a caller advancing by Size() loses alignment%s", total, sv.Lin, pathSuffix(r)))
			}
			for f, w := range cs.fields {
				var got abs.Value
				if f == "*" {
					got = abs.Deref(r.Path, r.Path.Keep["recv"])
				} else {
					got, _ = abs.Resolve(r.Path, r.Path.Keep["recv"], f)
				}
				if fv, isF := got.(*abs.FloatV); isF {
					got = fv.Bits
				}
				if m := wantMatches(r.Path, got, w); m != "" {
					scalar = append(scalar, "decoded value: "+m+pathSuffix(r))
				}
			}
		}
		facts := map[string]interface{}{"paths": len(res), "input": abs.SpecString(cs.spec)}
		report(R, ruleConsumed, "amf0|"+cs.name+"|decode-consumes-size", P.Pos(uf.Pos()), "decoding consumes exactly Size() bytes, in bounds", "", dedup(consumed), facts)
		if len(cs.fields) > 0 {
			report(R, ruleScalar, "amf0|"+cs.name+"|decode", P.Pos(uf.Pos()), "decoded value is the encoded value's own bits", "", dedup(scalar), facts)
		}
	}
}

// ---------------------------------------------------------------------------------------------
// C06

func runC06(c *Ctx) {
	P, R := c.P, c.R
	R.Require("C06.markers", 18)
	R.Require("C06.discovery", 256)
	R.Require("C06.layout", 14)
	R.Require("C06.decode", 14)
	R.Require("C06.strict", 2)
	R.Exhaust = true
	// markers
	want := map[string]int64{"markerNumber": 0, "markerBoolean": 1, "markerString": 2, "markerObject": 3, "markerMovieClip": 4, "markerNull": 5, "markerUndefined": 6,
		"markerReference": 7, "markerEcmaArray": 8, "markerObjectEnd": 9, "markerStrictArray": 10, "markerDate": 11, "markerLongString": 12, "markerUnsupported": 13,
		"markerRecordSet": 14, "markerXmlDocument": 15, "markerTypedObject": 16, "markerAvmPlusObject": 17}
	for name, val := range want {
		nc := P.Const("amf0", name)
		ok := false
		got := "missing"
		if nc != nil {
			if i, isI := core.ConstInt(nc.Value); isI {
				got = fmt.Sprint(i)
				ok = i == val
			}
		}
		R.Check(ok, "C06.markers", "amf0|"+name, "amf0/amf0.go", fmt.Sprintf("%s = %d", name, val), fmt.Sprintf("%s is %s, the AMF0 specification says %d", name, got, val), nil)
	}
	// discovery: all 256 marker bytes
	e := newAmfEngine(c)
	disc := P.Func("amf0", "Discovery")
	if R.Anchor(disc != nil, "C06.discovery", "amf0.Discovery") {
		supported := map[int64]bool{0: true, 1: true, 2: true, 3: true, 5: true, 6: true, 8: true, 10: true}
		sp := P.SSAPkgs["amf0"]
		for m := int64(0); m < 256; m++ {
			m := m
			res := e.RunCustom(func(p *abs.Path) []abs.Value {
				in := p.InputFrom(abs.Cat(abs.ConstBytes(byte(m)), abs.BlobSpec("rest", abs.LAtom("len(rest)"))))
				out := e.CallFn(p, disc, []abs.Value{p.BytesValue("data", in)})
				if len(out) == 2 {
					if iv, ok := out[0].(*abs.Iface); ok {
						if t, ok := iv.Type.(types.Type); ok {
							if sel := P.SSA.MethodSets.MethodSet(t).Lookup(sp.Pkg, "amf0Marker"); sel != nil {
								out = append(out, e.CallFn(p, P.SSA.MethodValue(sel), []abs.Value{iv.V})...)
							}
						}
					}
				}
				return out
			})
			key := fmt.Sprintf("amf0|Discovery|marker=%d", m)
			if m == 9 {
				R.OK("C06.discovery", key, P.Pos(disc.Pos()), "object-end marker outside a container: unspecified")
				continue
			}
			var problems []string
			for _, r := range res {
				if r.Path.Abort != "" || len(r.Ret) < 2 {
					problems = append(problems, "undecided: "+r.Path.Abort)
					continue
				}
				_, errNil := r.Ret[1].(*abs.NilV)
				if supported[m] {
					if !errNil {
						problems = append(problems, fmt.Sprintf("supported marker %d is rejected", m))
						continue
					}
					ok := false
					if len(r.Ret) == 3 {
						if iv, isI := r.Ret[2].(*abs.Int); isI {
							if cv, isC := iv.Const(); isC && cv == m {
								ok = true
							}
						}
					}
					if !ok {
						problems = append(problems, fmt.Sprintf("marker %d yields a value of a type whose own marker is %s", m, abs.Describe(r.Path, last(r.Ret))))
					}
				} else if errNil {
					problems = append(problems, fmt.Sprintf("unsupported marker %d is not reported as an error (result %s)", m, abs.Describe(r.Path, r.Ret[0])))
				}
			}
			report(R, "C06.discovery", key, P.Pos(disc.Pos()), "marker handled as the specification's type table says", "", dedup(problems), nil)
		}
	}
	// layout: encoders against the AMF0 specification, decoders on it
	for _, cs := range amfEncodeCases() {
		if cs.typ == "amf0UTF8" || cs.typ == "objectEOF" {
			continue // building blocks, covered inside the container layouts
		}
		spec := cs.spec
		if cs.iso != nil {
			spec = cs.iso
		}
		layout, _, paths, pos := runAmfEncode(c, e, cs, spec)
		if cs.typ == "StrictArray" && cs.iso != nil && len(cs.bind) > 0 && cs.bind["len(v.objectBase.properties)"] == 0 {
			// empty strict array: identical in both layouts
		}
		report(R, "C06.layout", "amf0|"+cs.name+"|encode", pos, "bytes equal the AMF0 specification layout", "bytes differ from the AMF0 specification layout: ", layout,
			map[string]interface{}{"paths": paths, "expected": abs.SpecString(spec)})
	}
	// decoders run on the specification layout (strict arrays with elements: see C06.strict)
	checkAmfOverlong(c, e, "C06.layout")
	amfDecodeChecks(c, e, "C06.decode", "C06.decode", func(d amfDec) bool {
		return d.typ == "amf0UTF8" || d.typ == "objectEOF" || (d.typ == "StrictArray" && d.nprops > 0)
	})
	// C06.strict: structural - the strict array codec must not touch the UTF-8 name codec per element
	for _, dir := range []string{"MarshalBinary", "UnmarshalBinary"} {
		fn := P.Func("amf0", "(*StrictArray)."+dir)
		if !R.Anchor(fn != nil, "C06.strict", "amf0.(*StrictArray)."+dir) {
			continue
		}
		bad := ""
		for f := range P.Reachable(fn) {
			if core.QualName(f) == "amf0.(*amf0UTF8)."+dir {
				bad = strings.Join(P.CallPath(fn, f), " -> ")
			}
		}
		R.Check(bad == "", "C06.strict", "amf0|(*StrictArray)."+dir+"|values-only", P.Pos(fn.Pos()),
			"strict array elements are values only", "a strict array is coded as (name, value) pairs ("+bad+"); AMF0 2.12 defines it as count followed by values only, so arrays from/to other AMF0 implementations are mis-decoded", nil)
	}
}

func last(v []abs.Value) abs.Value { return v[len(v)-1] }
