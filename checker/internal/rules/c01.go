package rules

import (
	"fmt"
	"go/token"
	"go/types"
	"sort"
	"strings"

	"golang.org/x/tools/go/ssa"

	"oryxverif/checker/internal/abs"
	"oryxverif/checker/internal/core"
)

func init() {
	register(&Property{
		ID: "C01",
		Explain: "Decided (structural and by bit-provenance abstract interpretation): C01.hdr - the type-0 and type-3 chunk headers the writer generates are the RTMP 5.3.1 layout (basic header fmt<<6|csid, 24-bit timestamp or ffffff, " +
			"24-bit length, type, little-endian stream id, extended timestamp present iff timestamp >= 0xffffff, repeated on type-3 chunks) for every timestamp < 2^31, length < 2^24, stream id and chunk stream id, and the reader run on " +
			"that layout recovers the same fields and consumes exactly the header; C01.bound - the reader takes min(remaining, input chunk size) bytes per chunk and completes the message exactly when the payload is full, the writer " +
			"cuts min(remaining, output chunk size); C01.csz - a chunk size announced by this endpoint is applied to its own output settings after the announcing message was flushed, as the peer's announcement is applied to the input settings; " +
			"C01.flush - every successful WriteMessage passed the transport flush; C01.fullread - the transport is read only through all-or-error primitives (any segmentation); C01.partial - a partially received message " +
			"(nil, nil from the payload reader) is never dereferenced; C01.c0c3 - the first chunk of a message carries the type-0 header, the following ones type-3. " +
			"Also: the announced length is stored from len(Payload) on every path before the first header is generated (a reused Message carries nothing over); both sides apply the announced 32-bit chunk size unchanged (no mask, no narrowing or sign-changing conversion); a transport handed in for one call is not buffered in the receiver (the handshake reads exactly its bytes). " +
			"Not decided: byte equality of payloads for all lengths/chunk sizes/sequences (loop arithmetic over runtime lengths; the clauses above are its per-iteration ingredients); handshake content.",
		Assume: []string{"bufio.Reader/Writer, io.ReadFull, io.Copy, binary.Read models", "layout tables transcribed from RTMP 1.0 section 5.3.1"},
		Run:    runC01,
	})
	register(&Property{
		ID: "C02",
		Explain: "Decided (bit-provenance abstract interpretation of the header parsers over symbolic chunk-stream state, plus structural rules): C02.basic - the 1-, 2- and 3-byte basic header forms are decoded to csid 2..63, 64+b1, 64+b1+256*b2 " +
			"consuming 1/2/3 bytes; C02.inherit - per message-header type the reader replaces exactly the fields RTMP 5.3.1.2 says (type 0: all, absolute timestamp; type 1: delta, length, type; type 2: delta; type 3: none, delta re-applied on a new message), " +
			"timestamps reduced to 31 bits; the extended timestamp is consumed exactly when the 24-bit field is 0xffffff, also on type-3 chunks; C02.reject - a fresh chunk stream not starting with type 0 (other than librtmp's type 1 on chunk stream 2), " +
			"a type-0 header inside an unfinished message and a changed message length are rejected before any further read; C02.field-unset - every chunk-stream field the parser tests is assigned from the parsed header. " +
			"C02.ts-additive (extended timestamp on type-1/2 headers is a delta) is a recorded known finding (deliberate SRS compatibility). " +
			"Not decided: timestamps/completion order for arbitrary interleavings and long traces (accumulation over history is runtime arithmetic).",
		Assume: []string{"layout tables transcribed from RTMP 1.0 section 5.3.1", "io.ReadFull/binary.Read models"},
		Run:    runC02,
	})
}

// rtmpEngine prepares an engine whose paths start with the rtmp package initialised (table globals).
func rtmpPrep(e *abs.Engine, P *core.Program) func(p *abs.Path) {
	init := P.SSAPkgs["rtmp"].Func("init")
	return func(p *abs.Path) {
		e.CallFn(p, init, nil)
	}
}

// consumedOr resolves "consumed" to the number of bytes read from v.r, "retN" to results, and
// other names as paths from the kept receiver/argument.
func consumedOr(keep string) func(r abs.Result, field string) (abs.Value, bool) {
	return func(r abs.Result, field string) (abs.Value, bool) {
		if field == "consumed" {
			st := r.Path.Stream("v.r")
			if st == nil {
				return nil, false
			}
			return &abs.Int{W: 64, Signed: true, Bits: nil, Lin: st.Pos}, true
		}
		var i int
		if n, _ := fmt.Sscanf(field, "ret%d", &i); n == 1 {
			if i < len(r.Ret) {
				return r.Ret[i], true
			}
			return nil, false
		}
		return abs.Resolve(r.Path, r.Path.Keep[keep], field)
	}
}

// checkCsidDomain: for chunk stream ids outside 2..63 both header generators must fall back to one and the same id
// inside 2..63 (0 and 1 select the 2- and 3-byte basic header forms, larger ids do not fit the 6-bit field).
func checkCsidDomain(c *Ctx, l *layoutCtx) {
	P, R := c.P, c.R
	mh := "v.messageHeader."
	parts := []struct {
		name   string
		lo, hi int64
	}{{"csid<2", 0, 1}, {"csid>63", 64, 1<<32 - 1}}
	for _, part := range parts {
		first := map[string]int64{} // generator -> constant first byte (low 6 bits)
		var problems []string
		for _, g := range []string{"(*Message).generateC0Header", "(*Message).generateC3Header"} {
			fn := P.Func("rtmp", g)
			if !R.Anchor(fn != nil, "C01.hdr", "rtmp."+g) {
				return
			}
			v := Variant{Dom: map[string]Dom{mh + "Timestamp": {W: 31, Hi: -1}, mh + "payloadLength": {W: 24, Hi: -1}, mh + "MessageType": {W: 8, Hi: -1},
				mh + "streamID": {W: 32, Hi: -1}, mh + "betterCid": {W: 32, Lo: part.lo, Hi: part.hi}}}
			res := l.e.Run(fn, func(p *abs.Path) []abs.Value { v.apply(p); return l.e.AutoArgs(p, fn) })
			for _, r := range res {
				if pp := pathProblems(r); pp != "" {
					problems = append(problems, "undecided: "+pp)
					continue
				}
				segs, why := retBytes(0, 1)(r)
				if why != "" || len(segs) == 0 || segs[0].Byte == nil {
					problems = append(problems, g+": first header byte not determined "+why)
					continue
				}
				val, known := int64(0), true
				for i := 0; i < 6; i++ {
					switch segs[0].Byte.Bits[i].K {
					case abs.B1:
						val |= 1 << uint(i)
					case abs.B0:
					default:
						known = false
					}
				}
				if !known {
					problems = append(problems, fmt.Sprintf("%s writes the low bits of a chunk stream id outside 2..63 into the 6-bit field (%s): the ids 0 and 1 announce a 2- or 3-byte basic header that is not written, larger ids are truncated, and the peer cannot parse the chunk", g, segs[0].Byte))
					continue
				}
				if val < 2 || val > 63 {
					problems = append(problems, fmt.Sprintf("%s falls back to chunk stream id %d, which is not in 2..63", g, val))
				}
				if old, ok := first[g]; ok && old != val {
					problems = append(problems, g+" uses different fallback ids on different paths")
				}
				first[g] = val
			}
		}
		if a, b := first["(*Message).generateC0Header"], first["(*Message).generateC3Header"]; len(problems) == 0 && a != b {
			problems = append(problems, fmt.Sprintf("the first chunk uses chunk stream id %d and the continuation chunks %d", a, b))
		}
		report(R, "C01.hdr", "rtmp|(*Message).generateC0Header/generateC3Header|"+part.name, "rtmp/rtmp.go", "a message without a usable chunk stream id is written on one fixed id in 2..63", "", dedup(problems), nil)
	}
}

func runC01(c *Ctx) {
	P, R := c.P, c.R
	R.Require("C01.hdr", 8)
	R.Require("C01.bound", 3)
	R.Require("C01.csz", 2)
	R.Require("C01.flush", 1)
	R.Require("C01.fullread", 4)
	R.Require("C01.partial", 1)
	R.Require("C01.c0c3", 1)

	// ---- C01.hdr writer side
	l := newLayout(c, "C01.hdr")
	mh := "v.messageHeader."
	dom := func() map[string]Dom {
		return map[string]Dom{mh + "Timestamp": {W: 31, Hi: -1}, mh + "payloadLength": {W: 24, Hi: -1}, mh + "MessageType": {W: 8, Hi: -1},
			mh + "streamID": {W: 32, Hi: -1}, mh + "betterCid": {W: 6, Lo: 2, Hi: 63}}
	}
	small := []*abs.Lin{abs.LConst(0xfffffe).Sub(abs.LAtom(mh + "Timestamp"))}
	large := []*abs.Lin{abs.LAtom(mh + "Timestamp").Add(abs.LConst(-0xffffff))}
	body := abs.Cat(abs.Pack(abs.F(mh+"payloadLength", 23, 0)), abs.Pack(abs.F(mh+"MessageType", 7, 0)), abs.LE(mh+"streamID", 4))
	l.encoder("rtmp", "(*Message).generateC0Header", []Variant{
		{Name: "timestamp<0xffffff", Dom: dom(), Assume: small,
			Spec: abs.Cat(abs.Pack(abs.K(2, 0), abs.F(mh+"betterCid", 5, 0)), abs.Pack(abs.F(mh+"Timestamp", 23, 0)), body)},
		{Name: "timestamp>=0xffffff", Dom: dom(), Assume: large,
			Spec: abs.Cat(abs.Pack(abs.K(2, 0), abs.F(mh+"betterCid", 5, 0)), abs.ConstBytes(0xff, 0xff, 0xff), body, abs.BE(mh+"Timestamp", 4))},
	}, retBytes(0, 1))
	l.encoder("rtmp", "(*Message).generateC3Header", []Variant{
		{Name: "timestamp<0xffffff", Dom: dom(), Assume: small, Spec: abs.Pack(abs.K(2, 3), abs.F(mh+"betterCid", 5, 0))},
		{Name: "timestamp>=0xffffff", Dom: dom(), Assume: large, Spec: abs.Cat(abs.Pack(abs.K(2, 3), abs.F(mh+"betterCid", 5, 0)), abs.BE(mh+"Timestamp", 4))},
	}, retBytes(0, 1))
	// the chunk stream id written must be one the 1-byte basic header can carry (2..63), whatever the message carries:
	// a message made by NewMessage has none (0), a relayed one may have been read on a chunk stream >= 64
	checkCsidDomain(c, l)
	// reader side: the same layout through readBasicHeader + readMessageHeader (C02 rules share the machinery)
	headerDecodeChecks(c, "C01.hdr", true)

	// ---- C01.bound
	checkChunkBounds(c)

	// ---- C01.csz: sibling agreement reader <-> writer
	checkChunkSizeApplied(c)

	// ---- C01.flush
	if wm := P.Func("rtmp", "(*Protocol).WriteMessage"); R.Anchor(wm != nil, "C01.flush", "rtmp.(*Protocol).WriteMessage") {
		isFlush := func(in ssa.Instruction) bool {
			call, ok := in.(*ssa.Call)
			return ok && call.Call.StaticCallee() != nil && core.FullName(call.Call.StaticCallee()) == "(*bufio.Writer).Flush"
		}
		ei := core.ErrResultIndex(wm)
		ok, bad := core.MustPassThrough(wm.Blocks[0], isFlush, func(r *ssa.Return) bool { return !isErrorReturn(r, ei) })
		pos := P.Pos(wm.Pos())
		if bad != nil {
			pos = P.InstrPos(bad)
		}
		// the flush must come after the last copy into the buffered writer
		after := true
		var flushes []ssa.Instruction
		core.EachInstr(wm, func(in ssa.Instruction) {
			if isFlush(in) {
				flushes = append(flushes, in)
			}
		})
		core.EachInstr(wm, func(in ssa.Instruction) {
			if call, isCall := in.(*ssa.Call); isCall && call.Call.StaticCallee() != nil && core.FullName(call.Call.StaticCallee()) == "io.Copy" {
				for _, f := range flushes {
					if reaches(f, in) {
						after = false
					}
				}
			}
		})
		R.Check(ok && after && len(flushes) > 0, "C01.flush", "rtmp|(*Protocol).WriteMessage|flush-before-success", pos,
			"every successful WriteMessage handed the message to the transport (Flush after the last buffered write)",
			"WriteMessage can return success without flushing the buffered writer (or buffers more after the flush): the peer would wait for a message that was 'written'", nil)
	}

	checkLengthFromPayload(c)
	// ---- C01.fullread
	checkFullRead(c, "C01.fullread", "rtmp")

	// ---- C01.partial
	checkNilResultUse(c, "C01.partial", "rtmp", "(*Protocol).readMessagePayload", "(*Protocol).ReadMessage")

	// ---- C01.c0c3
	if wm := P.Func("rtmp", "(*Protocol).WriteMessage"); wm != nil {
		// the header copied in the chunk loop is phi(c0 header on the first iteration, c3 header afterwards)
		ok := false
		core.EachInstr(wm, func(in ssa.Instruction) {
			call, isCall := in.(*ssa.Call)
			if !isCall || call.Call.StaticCallee() == nil || core.FullName(call.Call.StaticCallee()) != "bytes.NewReader" || !core.InLoop(call.Block()) {
				return
			}
			phi, isPhi := call.Call.Args[0].(*ssa.Phi)
			if !isPhi || len(phi.Edges) != 2 {
				return
			}
			// the header generators may return (bytes, error) or just bytes
			genOf := func(e ssa.Value) string {
				e = core.StripConv(e)
				if ex, isEx := e.(*ssa.Extract); isEx {
					e = ex.Tuple
				}
				if cl, isCall := e.(*ssa.Call); isCall && cl.Call.StaticCallee() != nil {
					return core.FnName(cl.Call.StaticCallee())
				}
				return ""
			}
			var names []string
			for _, e := range phi.Edges {
				if n := genOf(e); n != "" {
					names = append(names, n)
				}
			}
			sort.Strings(names)
			if strings.Join(names, ",") != "generateC0Header,generateC3Header" {
				return
			}
			for i, e := range phi.Edges {
				if genOf(e) != "generateC0Header" {
					continue
				}
				// (a) selected inside the loop: the c0 edge is chosen when the header variable is still nil (first iteration)
				for _, a := range core.GuardAtoms(phi.Block().Preds[i]) {
					if a.Op == "==" && a.R == "nil:[]byte" || a.Op == "==" && a.R == "nil" {
						ok = true
					}
				}
				// (b) carried by the loop: h := c0 before the loop, h = c3 at the end of every iteration - the phi sits in
				// the loop header, its c0 edge comes from outside the loop and its c3 edge from inside
				hdr := phi.Block()
				other := phi.Block().Preds[1-i]
				if !hdr.Dominates(phi.Block().Preds[i]) && hdr.Dominates(other) && hdr.Dominates(call.Block()) {
					ok = true
				}
			}
		})
		R.Check(ok, "C01.c0c3", "rtmp|(*Protocol).WriteMessage|first-c0-then-c3", P.Pos(wm.Pos()),
			"the first chunk of a message carries the type-0 header, every following chunk the type-3 header",
			"the chunk loop does not send the type-0 header on the first chunk and the type-3 header on the following ones", nil)
	}
}

// isErrorReturn: the return's error operand is a freshly built or wrapped error, or a value
// known to be non-nil at that point.
func isErrorReturn(r *ssa.Return, ei int) bool {
	v := core.ReturnOperand(r, ei)
	if core.IsNilConst(v) {
		return false
	}
	if call, ok := v.(*ssa.Call); ok {
		if f := call.Call.StaticCallee(); f != nil {
			if definitelyNonNilError(call) || isModuleErrorsFn(f, errWrappers) {
				return true
			}
		}
	}
	for _, a := range core.GuardAtoms(r.Block()) {
		if a.LV == v && a.Op == "!=" && (a.R == "nil" || strings.HasPrefix(a.R, "nil:")) {
			return true
		}
	}
	return false
}

// checkLengthFromPayload (C01.hdr): the length WriteMessage announces in the message header is the length of the
// payload it is about to send - assigned from len(Payload) on every path before the first header is generated, whatever
// the Message object carried before (a Message is an exported struct: applications reuse and forward them).
func checkLengthFromPayload(c *Ctx) {
	P, R := c.P, c.R
	wm := P.Func("rtmp", "(*Protocol).WriteMessage")
	if !R.Anchor(wm != nil, "C01.hdr", "rtmp.(*Protocol).WriteMessage") {
		return
	}
	isSet := func(in ssa.Instruction) bool {
		st, ok := in.(*ssa.Store)
		if !ok || !strings.HasSuffix(core.Path(st.Addr), ".payloadLength") {
			return false
		}
		call, ok := core.StripConv(stripAnyConv(st.Val)).(*ssa.Call)
		if !ok {
			return false
		}
		b, isB := call.Call.Value.(*ssa.Builtin)
		return isB && b.Name() == "len" && strings.HasSuffix(core.Path(call.Call.Args[0]), ".Payload")
	}
	out := map[*ssa.BasicBlock]bool{}
	for _, b := range wm.Blocks {
		out[b] = true
	}
	for changed := true; changed; {
		changed = false
		for _, b := range wm.Blocks {
			in := len(b.Preds) > 0
			for _, pr := range b.Preds {
				if !out[pr] {
					in = false
				}
			}
			o := in
			for _, x := range b.Instrs {
				if isSet(x) {
					o = true
				}
			}
			if o != out[b] {
				out[b], changed = o, true
			}
		}
	}
	ok, n := true, 0
	where := P.Pos(wm.Pos())
	core.EachInstr(wm, func(in ssa.Instruction) {
		call, isCall := in.(*ssa.Call)
		if !isCall || call.Call.StaticCallee() == nil || !strings.Contains(core.FuncName(call.Call.StaticCallee()), "generateC0Header") {
			return
		}
		n++
		// the store precedes the call in its own block, or every path into the block passed one
		pre := false
		for _, x := range call.Block().Instrs {
			if x == in {
				break
			}
			if isSet(x) {
				pre = true
			}
		}
		inOK := len(call.Block().Preds) > 0
		for _, pr := range call.Block().Preds {
			if !out[pr] {
				inOK = false
			}
		}
		if !pre && !inOK {
			ok, where = false, P.InstrPos(call)
		}
	})
	R.Check(ok && n > 0, "C01.hdr", "rtmp|(*Protocol).WriteMessage|length-is-len-of-payload", where,
		"the announced message length is assigned from len(Payload) on every path before the header is generated",
		"the message header can be generated with a payload length that was not just taken from len(Payload) (kept from an earlier use of the Message object): a Message written a second time with a payload of another size is chunked under the old length and the peer loses framing", nil)
}

func stripAnyConv(v ssa.Value) ssa.Value {
	for {
		switch x := v.(type) {
		case *ssa.Convert:
			v = x.X
			continue
		case *ssa.ChangeType:
			v = x.X
			continue
		}
		return v
	}
}

// checkChunkSizeApplied implements C01.csz.
func checkChunkSizeApplied(c *Ctx) { checkChunkSizeAppliedAs(c, "C01.csz") }

// checkChunkSizeAppliedAs runs the chunk-size sibling rules under the given rule id.
func checkChunkSizeAppliedAs(c *Ctx, rule string) {
	P, R := c.P, c.R
	rm := P.Func("rtmp", "(*Protocol).ReadMessage")
	wp := P.Func("rtmp", "(*Protocol).WritePacket")
	if !R.Anchor(rm != nil && wp != nil, rule, "rtmp.(*Protocol).ReadMessage/WritePacket") {
		return
	}
	// non-constant stores to a settings' chunkSize reachable from an entry point, by role
	find := func(entry *ssa.Function, path string) []ssa.Instruction {
		var out []ssa.Instruction
		for fn := range P.Reachable(entry) {
			core.EachInstr(fn, func(in ssa.Instruction) {
				st, ok := in.(*ssa.Store)
				if !ok || core.TypedPath(st.Addr) != path {
					return
				}
				if _, isC := core.ConstInt(st.Val); isC {
					return
				}
				out = append(out, in)
			})
		}
		return out
	}
	rd := find(rm, "Protocol.input.opt.chunkSize")
	R.Check(len(rd) > 0, rule, "rtmp|reader|applies-peer-chunk-size", P.Pos(rm.Pos()),
		"the reader applies the peer's Set Chunk Size to its input settings",
		"the reader never applies a received Set Chunk Size to its input settings: every following message larger than the old chunk size is mis-framed", nil)
	// both sides apply the announced 32-bit value as it is: a mask, a narrowing or a sign-changing conversion on one side
	// only makes the two endpoints chunk with different sizes for a value the other side accepts
	checkAnnounced := func(side string, stores []ssa.Instruction) {
		res := core.NewResolver(false)
		for i, in := range stores {
			st := in.(*ssa.Store)
			v := core.StripConv(res.V(st.Val))
			why := ""
			switch x := v.(type) {
			case *ssa.BinOp:
				switch x.Op {
				case token.OR, token.SHL, token.ADD, token.XOR:
					// assembling the value from its bytes by hand
				default:
					why = "computed from it (" + x.Op.String() + ")"
				}
			case *ssa.Convert:
				why = "converted from " + x.X.Type().String() + " to " + x.Type().String()
			}
			R.Check(why == "", rule, fmt.Sprintf("rtmp|%s|applies-the-announced-size-unchanged#%d", side, i+1), P.InstrPos(in),
				"the chunk size applied is the announced 32-bit value itself",
				"the "+side+" does not apply the announced chunk size as it is but a value "+why+": for a size with the top bit set the two endpoints disagree (or the size turns negative), and every later message longer than the smaller size is mis-framed", nil)
		}
	}
	checkAnnounced("reader", rd)
	// every exported way to put a message on the wire: a Set Chunk Size message is a message of type 1 whoever built it
	// (WritePacket from a packet, WriteMessage from raw bytes, e.g. when relaying)
	for _, entry := range []string{"(*Protocol).WritePacket", "(*Protocol).WriteMessage"} {
		wfn := P.Func("rtmp", entry)
		key := "rtmp|writer|applies-own-chunk-size"
		if entry != "(*Protocol).WritePacket" {
			key += "|" + entry
		}
		if !R.Anchor(wfn != nil, rule, "rtmp."+entry) {
			continue
		}
		wr := find(wfn, "Protocol.output.opt.chunkSize")
		if entry == "(*Protocol).WriteMessage" {
			checkAnnounced("writer", wr)
		}
		if len(wr) == 0 {
			R.Fail(rule, key, P.Pos(wfn.Pos()),
				"a Set Chunk Size message sent through "+entry+" is never applied to this endpoint's own output settings: the peer switches to the announced size while this writer keeps chunking with the old one, so every later message longer than the smaller of the two is mis-framed", nil)
			continue
		}
		// ordered after the transport flush of the announcing message: the carrier of the store follows the carrier of Flush
		st := P.Carriers(wfn, "store:Protocol.output.opt.chunkSize")
		fl := P.Carriers(wfn, "call:(*bufio.Writer).Flush")
		ok := len(st) > 0 && len(fl) > 0
		for _, s := range st {
			for _, f := range fl {
				if s == f {
					continue
				}
				if !core.Precedes(f, s) {
					ok = false
				}
			}
		}
		R.Check(ok, rule, key, P.InstrPos(wr[0]),
			"the writer applies its own announced chunk size after the announcing message was flushed",
			"the writer's own chunk size is not applied strictly after the announcing Set Chunk Size message was flushed (the announcement itself must still be chunked with the old size)", nil)
	}
}

// checkNilResultUse: callee may return (nil, nil); in caller, every dereferencing use of that
// result must be guarded by a non-nil test.
func checkNilResultUse(c *Ctx, rule, pkg, calleeName, callerName string) {
	P, R := c.P, c.R
	callee, caller := P.Func(pkg, calleeName), P.Func(pkg, callerName)
	if !R.Anchor(callee != nil && caller != nil, rule, pkg+"."+calleeName+"/"+callerName) {
		return
	}
	ei := core.ErrResultIndex(callee)
	nullable := false
	for _, r := range core.Returns(callee) {
		if mayBeNil(core.ReturnOperand(r, ei), 0) && mayBeNilItem(core.ReturnOperand(r, 0)) {
			nullable = true
		}
	}
	if !nullable {
		R.OK(rule, pkg+"|"+callerName+"|nil-result-guarded", P.Pos(caller.Pos()), calleeName+" never returns (nil, nil)")
		return
	}
	n := 0
	core.EachInstr(caller, func(in ssa.Instruction) {
		call, ok := in.(*ssa.Call)
		if !ok || call.Call.StaticCallee() != callee {
			return
		}
		var item ssa.Value
		for _, r := range *call.Referrers() {
			if ex, ok := r.(*ssa.Extract); ok && ex.Index == 0 {
				item = ex
			}
		}
		if item == nil {
			return
		}
		// all values that may hold the item: the extract and phis over it
		holders := map[ssa.Value]bool{item: true}
		for changed := true; changed; {
			changed = false
			for h := range holders {
				for _, r := range *h.Referrers() {
					if phi, ok := r.(*ssa.Phi); ok && !holders[phi] {
						holders[phi] = true
						changed = true
					}
				}
			}
		}
		for h := range holders {
			for _, use := range *h.Referrers() {
				deref := ""
				switch u := use.(type) {
				case *ssa.FieldAddr:
					deref = "field access"
				case *ssa.Call:
					if g := u.Call.StaticCallee(); g != nil && core.InModule(g) {
						for i, a := range u.Call.Args {
							if a == h && i < len(g.Params) && derefsUnguarded(g.Params[i]) {
								deref = "call to " + core.FuncName(g) + ", which dereferences it unconditionally"
							}
						}
					}
				}
				if deref == "" {
					continue
				}
				n++
				guarded := false
				for _, a := range core.GuardAtoms(use.Block()) {
					if a.Op == "!=" && (a.R == "nil" || strings.HasPrefix(a.R, "nil:")) && holders[a.LV] {
						guarded = true
					}
				}
				R.Check(guarded, rule, fmt.Sprintf("%s|%s|nil-result-guarded#%d", pkg, callerName, n), P.InstrPos(use),
					"the possibly-nil result of "+calleeName+" is tested before it is dereferenced",
					calleeName+" returns (nil, nil) for a message that is not complete yet, and "+callerName+" uses that result in a "+deref+" without a nil test: every message longer than one chunk panics the reader", nil)
			}
		}
	})
	if n == 0 {
		R.OK(rule, pkg+"|"+callerName+"|nil-result-guarded", P.Pos(caller.Pos()), "the possibly-nil result is not dereferenced")
	}
}

func mayBeNilItem(v ssa.Value) bool {
	switch x := v.(type) {
	case *ssa.Const:
		return x.Value == nil
	case *ssa.Phi:
		for _, e := range x.Edges {
			if mayBeNilItem(e) {
				return true
			}
		}
	}
	return false
}

// derefsUnguarded: the parameter is dereferenced (field access/load) in a block that is not
// dominated by a non-nil test of it.
func derefsUnguarded(par *ssa.Parameter) bool {
	for _, use := range *par.Referrers() {
		switch use.(type) {
		case *ssa.FieldAddr, *ssa.UnOp:
			guarded := false
			for _, a := range core.GuardAtoms(use.Block()) {
				if a.LV == ssa.Value(par) && a.Op == "!=" {
					guarded = true
				}
			}
			if !guarded {
				return true
			}
		}
	}
	return false
}

// checkChunkBounds implements C01.bound.
func checkChunkBounds(c *Ctx) {
	P, R := c.P, c.R
	checkChunkBoundsReader(c, "C01.bound")
	// writer: min idiom on the slice bound in the chunk loop
	wm := P.Func("rtmp", "(*Protocol).WriteMessage")
	checkChunkBoundsWriter(c, P, R, wm)
}

// checkChunkBoundsReader: every chunk takes min(remaining, CURRENT input chunk size) bytes - the size in force when the
// chunk is read, so that a Set Chunk Size between two chunks of an unfinished message applies to its later chunks.
func checkChunkBoundsReader(c *Ctx, rule string) {
	P, R := c.P, c.R
	e := abs.NewEngine(P)
	prep := rtmpPrep(e, P)
	// reader: abstract interpretation of readMessagePayload over symbolic lengths
	fn := P.Func("rtmp", "(*Protocol).readMessagePayload")
	if R.Anchor(fn != nil, rule, "rtmp.(*Protocol).readMessagePayload") {
		const pl, have, cs = "chunk.message.messageHeader.payloadLength", "len(chunk.message.Payload)", "v.input.opt.chunkSize"
		res := e.Run(fn, func(p *abs.Path) []abs.Value {
			prep(p)
			p.DeclareAtom(pl, 24, 1, 1<<24-1)
			p.DeclareAtom(have, 24, 0, 1<<24-1)
			p.DeclareAtom(cs, 31, 1, 1<<31-1)
			p.AssumeLin(abs.LAtom(pl).Sub(abs.LAtom(have)).Add(abs.LConst(-1))) // an unfinished message: something remains
			args := e.AutoArgs(p, fn)
			p.Keep["chunk"] = args[1]
			return args
		})
		var problems []string
		remaining := abs.LAtom(pl).Sub(abs.LAtom(have))
		for _, r := range res {
			if r.Path.Abort != "" {
				problems = append(problems, "undecided: "+r.Path.Abort)
				continue
			}
			if r.Path.Panics != "" {
				problems = append(problems, "panics: "+r.Path.Panics)
				continue
			}
			st := r.Path.Stream("v.r")
			if st == nil || len(r.Ret) != 2 {
				problems = append(problems, "undecided: no transport read")
				continue
			}
			took := st.Pos
			isRem := r.Path.ProveEq(took.Sub(remaining))
			isCS := r.Path.ProveEq(took.Sub(abs.LAtom(cs)))
			le1 := r.Path.Prove(remaining.Sub(took))
			le2 := r.Path.Prove(abs.LAtom(cs).Sub(took))
			if !(le1 && le2 && (isRem || isCS)) {
				problems = append(problems, fmt.Sprintf("the reader takes %s bytes for a chunk, not min(remaining=%s, input chunk size)%s", took, remaining, pathSuffix(r)))
			}
			_, gotMsg := r.Ret[0].(*abs.Ptr)
			if gotMsg != isRem && !(isRem && isCS) {
				problems = append(problems, fmt.Sprintf("message returned=%v although the payload is complete=%v%s", gotMsg, isRem, pathSuffix(r)))
			}
			for _, b := range unprovenBounds(r) {
				problems = append(problems, "bounds not proven: "+b)
			}
		}
		report(R, rule, "rtmp|(*Protocol).readMessagePayload|min(remaining,input-chunk-size)", P.Pos(fn.Pos()),
			fmt.Sprintf("each chunk takes min(remaining, input chunk size) bytes and the message completes exactly when full (%d paths)", len(res)), "", dedup(problems), nil)
	}
}

func checkChunkBoundsWriter(c *Ctx, P *core.Program, R *core.Run, wm *ssa.Function) {
	if R.Anchor(wm != nil, "C01.bound", "rtmp.(*Protocol).WriteMessage") {
		n := 0
		core.EachInstr(wm, func(in ssa.Instruction) {
			sl, ok := in.(*ssa.Slice)
			if !ok || sl.High == nil || sl.Low != nil || !core.InLoop(sl.Block()) {
				return
			}
			n++
			a, b, ok := minIdiom(sl.High)
			good := ok && ((a == "len("+core.Path(sl.X)+")" && strings.HasSuffix(b, "output.opt.chunkSize")) || (b == "len("+core.Path(sl.X)+")" && strings.HasSuffix(a, "output.opt.chunkSize")))
			R.Check(good, "C01.bound", fmt.Sprintf("rtmp|(*Protocol).WriteMessage|min(remaining,output-chunk-size)#%d", n), P.InstrPos(sl),
				"each chunk carries min(remaining, output chunk size) payload bytes",
				fmt.Sprintf("the chunk payload bound is not min(len(remaining), output chunk size) (operands %q, %q): chunks would not match what the peer expects", a, b), nil)
			// the cursor advances by the same amount
			adv := false
			core.EachInstr(wm, func(in2 ssa.Instruction) {
				if s2, ok := in2.(*ssa.Slice); ok && s2.Low == sl.High && s2.High == nil && s2.X == sl.X {
					adv = true
				}
			})
			R.Check(adv, "C01.bound", fmt.Sprintf("rtmp|(*Protocol).WriteMessage|advance-by-chunk#%d", n), P.InstrPos(sl),
				"the remaining payload advances by exactly the bytes sent", "the remaining payload does not advance by exactly the chunk that was sent", nil)
		})
		if n == 0 {
			R.Unknown("C01.bound", "rtmp|(*Protocol).WriteMessage|min(remaining,output-chunk-size)", P.Pos(wm.Pos()), "no chunk slice found in the write loop", nil)
		}
	}
}

// checkMessageDetached: when readMessagePayload returns a message, the chunk stream no longer refers to it
// (otherwise the next type-0 header on that chunk stream is rejected as "inside an unfinished message").
func checkMessageDetached(c *Ctx, rule string) {
	P, R := c.P, c.R
	fn := P.Func("rtmp", "(*Protocol).readMessagePayload")
	if !R.Anchor(fn != nil, rule, "rtmp.(*Protocol).readMessagePayload") {
		return
	}
	e := abs.NewEngine(P)
	prep := rtmpPrep(e, P)
	const pl, have, cs = "chunk.message.messageHeader.payloadLength", "len(chunk.message.Payload)", "v.input.opt.chunkSize"
	for _, zero := range []bool{true, false} {
		name := "non-empty-message"
		if zero {
			name = "zero-length-message"
		}
		res := e.Run(fn, func(p *abs.Path) []abs.Value {
			prep(p)
			if zero {
				p.DeclareAtom(pl, 24, 0, 0)
				p.BindAtom(pl, 0, 24)
				p.DeclareAtom(have, 24, 0, 0)
			} else {
				p.DeclareAtom(pl, 24, 1, 1<<24-1)
				p.DeclareAtom(have, 24, 0, 1<<24-1)
				p.AssumeLin(abs.LAtom(pl).Sub(abs.LAtom(have)).Add(abs.LConst(-1)))
			}
			p.DeclareAtom(cs, 31, 1, 1<<31-1)
			args := e.AutoArgs(p, fn)
			p.Keep["chunk"] = args[1]
			return args
		})
		var problems []string
		returned := 0
		for _, r := range res {
			if r.Path.Abort != "" {
				problems = append(problems, "undecided: "+r.Path.Abort)
				continue
			}
			if len(r.Ret) != 2 {
				continue
			}
			_, gotMsg := r.Ret[0].(*abs.Ptr)
			left, ok := abs.Resolve(r.Path, r.Path.Keep["chunk"], "message")
			if !ok {
				problems = append(problems, "undecided: chunk.message not resolvable")
				continue
			}
			_, cleared := left.(*abs.NilV)
			if gotMsg {
				returned++
				if !cleared {
					problems = append(problems, "a completed message is returned but the chunk stream still refers to it: the next message on this chunk stream is rejected (type-0 'inside an unfinished message') or overwrites the delivered one"+pathSuffix(r))
				}
			} else if cleared {
				if _, isErr := r.Ret[1].(*abs.NilV); isErr {
					problems = append(problems, "the partial message is dropped from the chunk stream although it is not complete"+pathSuffix(r))
				}
			}
		}
		if returned == 0 && len(problems) == 0 {
			problems = append(problems, "no path returns the message")
		}
		report(R, rule, "rtmp|(*Protocol).readMessagePayload|detached|"+name, P.Pos(fn.Pos()), "a returned message is detached from its chunk stream; an unfinished one stays attached", "", dedup(problems), nil)
	}
}

// minIdiom recognises the smaller of two values in any spelling -- x := a; if x > b { x = b }, the builtin min(a, b), or
// a helper returning one of its two arguments -- and returns the paths of a and b.  Every case of the operand must be
// one of the two values, selected under a comparison of the two that makes it the smaller (or equal) one.
func minIdiom(v ssa.Value) (string, string, bool) {
	if call, ok := core.StripConv(v).(*ssa.Call); ok {
		if b, isB := call.Call.Value.(*ssa.Builtin); isB && b.Name() == "min" && len(call.Call.Args) == 2 {
			return core.PathBound(call.Call.Args[0], nil, true), core.PathBound(call.Call.Args[1], nil, true), true
		}
	}
	cases := core.ResultCases(v, nil, true)
	var vals []string
	for _, c := range cases {
		dup := false
		for _, x := range vals {
			dup = dup || x == c.Val
		}
		if !dup {
			vals = append(vals, c.Val)
		}
	}
	if len(vals) != 2 {
		return "", "", false
	}
	pa, pb := vals[0], vals[1]
	for _, c := range cases {
		other := pa
		if c.Val == pa {
			other = pb
		}
		smaller := false
		for _, a := range c.Atoms {
			op := ""
			if a.L == c.Val && a.R == other {
				op = a.Op
			} else if a.L == other && a.R == c.Val {
				op = swapCmp[a.Op]
			}
			if op == "<" || op == "<=" {
				smaller = true
			}
		}
		if !smaller {
			return pa, pb, false
		}
	}
	return pa, pb, true
}

var swapCmp = map[string]string{"==": "==", "!=": "!=", "<": ">", ">": "<", "<=": ">=", ">=": "<="}

// ---------------------------------------------------------------------------------------------
// header decoding (shared by C01.hdr and C02.*)

type hdrCase struct {
	name   string
	format int64
	fresh  bool // chunk.message == nil
	dom    map[string]Dom
	bind   map[string]int64
	assume []*abs.Lin
	spec   []abs.SegSpec
	fields map[string]Want
	expErr bool
	known  bool
}

const (
	hTs, hLen, hType, hSid, hDelta = "chunk.header.Timestamp", "chunk.header.payloadLength", "chunk.header.MessageType", "chunk.header.streamID", "chunk.header.timestampDelta"
)

func headerDecodeChecks(c *Ctx, rule string, onlyC01 bool) {
	headerDecodeChecksFiltered(c, rule, onlyC01, nil)
}

// headerDecodeChecksFiltered runs the header cases accepted by filter (all when nil).
func headerDecodeChecksFiltered(c *Ctx, rule string, onlyC01 bool, filter func(name string) bool) {
	P, R := c.P, c.R
	fn := P.Func("rtmp", "(*Protocol).readMessageHeader")
	if !R.Anchor(fn != nil, rule, "rtmp.(*Protocol).readMessageHeader") {
		return
	}
	R.Funcs[core.QualName(fn)] = true
	l := newLayout(c, rule)
	prep := rtmpPrep(l.e, P)
	old := func() map[string]Dom {
		return map[string]Dom{hTs: {W: 31, Hi: -1}, hLen: {W: 24, Hi: -1}, hType: {W: 8, Hi: -1}, hSid: {W: 32, Hi: -1}, hDelta: {W: 24, Hi: -1},
			"chunk.count": {W: 32, Lo: 1, Hi: -1}, "chunk.cid": {W: 16, Hi: -1}}
	}
	with := func(base map[string]Dom, extra map[string]Dom) map[string]Dom {
		for k, v := range extra {
			base[k] = v
		}
		return base
	}
	noExt := map[string]int64{"chunk.extendedTimestamp": 0}
	var cases []hdrCase
	// type 0 on a fresh chunk stream
	cases = append(cases,
		hdrCase{name: "type0,timestamp<0xffffff", format: 0, fresh: true,
			dom:  with(old(), map[string]Dom{"ts": {W: 24, Hi: 0xfffffe}, "len": {W: 24, Hi: -1}, "type": {W: 8, Hi: -1}, "sid": {W: 32, Hi: -1}, "chunk.count": {W: 32, Hi: -1}}),
			bind: map[string]int64{"chunk.count": 0},
			spec: abs.Cat(abs.Pack(abs.F("ts", 23, 0)), abs.Pack(abs.F("len", 23, 0)), abs.Pack(abs.F("type", 7, 0)), abs.LE("sid", 4)),
			fields: map[string]Want{"header.Timestamp": {Atom: "ts", Width: 24}, "header.payloadLength": {Atom: "len", Width: 24}, "header.MessageType": {Atom: "type", Width: 8},
				"header.streamID": {Atom: "sid", Width: 32}, "message.messageHeader.Timestamp": {Atom: "ts", Width: 24}, "message.messageHeader.payloadLength": {Atom: "len", Width: 24},
				// RTMP 5.3.1.2.4: a type-3 chunk that starts a new message right after a type-0 one uses that timestamp as its delta
				"header.timestampDelta": {Atom: "ts", Width: 24},
				"consumed":              {Const: cst(11)}, "count": {Const: cst(1)}}},
		hdrCase{name: "type0,extended-timestamp", format: 0, fresh: true,
			dom:  with(old(), map[string]Dom{"ext": {W: 31, Hi: -1}, "len": {W: 24, Hi: -1}, "type": {W: 8, Hi: -1}, "sid": {W: 32, Hi: -1}, "chunk.count": {W: 32, Hi: -1}}),
			bind: map[string]int64{"chunk.count": 0},
			spec: abs.Cat(abs.ConstBytes(0xff, 0xff, 0xff), abs.Pack(abs.F("len", 23, 0)), abs.Pack(abs.F("type", 7, 0)), abs.LE("sid", 4), abs.Pack(abs.X(1), abs.F("ext", 30, 0))),
			fields: map[string]Want{"header.Timestamp": {Atom: "ext", Width: 31}, "header.payloadLength": {Atom: "len", Width: 24}, "header.streamID": {Atom: "sid", Width: 32},
				"extendedTimestamp": {Const: cst(1)}, "consumed": {Const: cst(15)}}},
		// type 3 continuing a message
		hdrCase{name: "type3,continuation", format: 3, dom: old(), bind: noExt, spec: nil,
			fields: map[string]Want{"header.Timestamp": {Atom: hTs, Width: 31}, "header.payloadLength": {Atom: hLen, Width: 24}, "header.streamID": {Atom: hSid, Width: 32}, "consumed": {Const: cst(0)}}},
		hdrCase{name: "type3,continuation,extended-timestamp-repeated", format: 3, dom: with(old(), map[string]Dom{"ext": {W: 31, Hi: -1}}), bind: map[string]int64{"chunk.extendedTimestamp": 1},
			spec:   abs.Pack(abs.X(1), abs.F("ext", 30, 0)),
			fields: map[string]Want{"header.Timestamp": {Atom: "ext", Width: 31}, "consumed": {Const: cst(4)}}},
	)
	if !onlyC01 {
		sum := func(a, b string) string { return abs.LAtom(a).Add(abs.LAtom(b)).String() }
		cases = append(cases,
			hdrCase{name: "type1,new-message", format: 1, fresh: true,
				dom:  with(old(), map[string]Dom{"delta": {W: 24, Hi: 0xfffffe}, "len": {W: 24, Hi: -1}, "type": {W: 8, Hi: -1}}),
				spec: abs.Cat(abs.Pack(abs.F("delta", 23, 0)), abs.Pack(abs.F("len", 23, 0)), abs.Pack(abs.F("type", 7, 0))),
				fields: map[string]Want{"header.Timestamp": {Atom: sum(hTs, "delta"), Width: 31}, "header.payloadLength": {Atom: "len", Width: 24}, "header.MessageType": {Atom: "type", Width: 8},
					"header.streamID": {Atom: hSid, Width: 32}, "consumed": {Const: cst(7)}}},
			hdrCase{name: "type2,new-message", format: 2, fresh: true,
				dom:  with(old(), map[string]Dom{"delta": {W: 24, Hi: 0xfffffe}}),
				spec: abs.Pack(abs.F("delta", 23, 0)),
				fields: map[string]Want{"header.Timestamp": {Atom: sum(hTs, "delta"), Width: 31}, "header.payloadLength": {Atom: hLen, Width: 24}, "header.MessageType": {Atom: hType, Width: 8},
					"header.streamID": {Atom: hSid, Width: 32}, "consumed": {Const: cst(3)}}},
			hdrCase{name: "type3,new-message(delta re-applied)", format: 3, fresh: true, dom: old(), bind: noExt,
				fields: map[string]Want{"header.Timestamp": {Atom: sum(hTs, hDelta), Width: 31}, "header.payloadLength": {Atom: hLen, Width: 24}, "consumed": {Const: cst(0)}}},
			hdrCase{name: "type1,extended-timestamp-is-a-delta", format: 1, fresh: true, known: true,
				dom:    with(old(), map[string]Dom{"ext": {W: 31, Hi: -1}, "len": {W: 24, Hi: -1}, "type": {W: 8, Hi: -1}}),
				spec:   abs.Cat(abs.ConstBytes(0xff, 0xff, 0xff), abs.Pack(abs.F("len", 23, 0)), abs.Pack(abs.F("type", 7, 0)), abs.Pack(abs.X(1), abs.F("ext", 30, 0))),
				fields: map[string]Want{"header.Timestamp": {Atom: sum(hTs, "ext"), Width: 31}, "consumed": {Const: cst(11)}}},
			hdrCase{name: "type2,extended-timestamp-is-a-delta", format: 2, fresh: true, known: true,
				dom:    with(old(), map[string]Dom{"ext": {W: 31, Hi: -1}}),
				spec:   abs.Cat(abs.ConstBytes(0xff, 0xff, 0xff), abs.Pack(abs.X(1), abs.F("ext", 30, 0))),
				fields: map[string]Want{"header.Timestamp": {Atom: sum(hTs, "ext"), Width: 31}, "consumed": {Const: cst(7)}}},
			hdrCase{name: "type3,new-message,extended-timestamp-is-a-delta", format: 3, fresh: true, known: true,
				dom: with(old(), map[string]Dom{"ext": {W: 31, Hi: -1}}), bind: map[string]int64{"chunk.extendedTimestamp": 1},
				spec:   abs.Pack(abs.X(1), abs.F("ext", 30, 0)),
				fields: map[string]Want{"header.Timestamp": {Atom: sum(hTs, "ext"), Width: 31}, "consumed": {Const: cst(4)}}},
			// rejections
			hdrCase{name: "reject:fresh-stream,type1,csid!=2", format: 1, fresh: true, dom: with(old(), map[string]Dom{"chunk.count": {W: 32, Hi: -1}, "chunk.cid": {W: 16, Lo: 3, Hi: -1}}),
				bind: map[string]int64{"chunk.count": 0}, expErr: true, fields: map[string]Want{"consumed": {Const: cst(0)}}},
			hdrCase{name: "reject:fresh-stream,type2", format: 2, fresh: true, dom: with(old(), map[string]Dom{"chunk.count": {W: 32, Hi: -1}}),
				bind: map[string]int64{"chunk.count": 0}, expErr: true, fields: map[string]Want{"consumed": {Const: cst(0)}}},
			hdrCase{name: "reject:fresh-stream,type3", format: 3, fresh: true, dom: with(old(), map[string]Dom{"chunk.count": {W: 32, Hi: -1}}),
				bind: map[string]int64{"chunk.count": 0}, expErr: true, fields: map[string]Want{"consumed": {Const: cst(0)}}},
			hdrCase{name: "accept:fresh-stream,type1,csid=2(librtmp)", format: 1, fresh: true,
				dom:  with(old(), map[string]Dom{"chunk.count": {W: 32, Hi: -1}, "delta": {W: 24, Hi: 0xfffffe}, "len": {W: 24, Hi: -1}, "type": {W: 8, Hi: -1}}),
				bind: map[string]int64{"chunk.count": 0, "chunk.cid": 2},
				spec: abs.Cat(abs.Pack(abs.F("delta", 23, 0)), abs.Pack(abs.F("len", 23, 0)), abs.Pack(abs.F("type", 7, 0))), fields: map[string]Want{"consumed": {Const: cst(7)}}},
			hdrCase{name: "reject:type0-inside-unfinished-message", format: 0, dom: old(), expErr: true, fields: map[string]Want{"consumed": {Const: cst(0)}}},
			hdrCase{name: "reject:length-changed-mid-message", format: 1,
				dom:    with(old(), map[string]Dom{"delta": {W: 24, Hi: 0xfffffe}, "len": {W: 24, Hi: -1}, "type": {W: 8, Hi: -1}}),
				assume: []*abs.Lin{abs.LAtom("len").Sub(abs.LAtom(hLen)).Add(abs.LConst(-1))},
				spec:   abs.Cat(abs.Pack(abs.F("delta", 23, 0)), abs.Pack(abs.F("len", 23, 0)), abs.Pack(abs.F("type", 7, 0))), expErr: true},
		)
	}
	for _, cs := range cases {
		cs := cs
		if filter != nil && !filter(cs.name) {
			continue
		}
		key := "rtmp|(*Protocol).readMessageHeader|" + cs.name
		v := Variant{Dom: cs.dom, Bind: cs.bind, Assume: cs.assume}
		if v.Bind == nil {
			v.Bind = map[string]int64{}
		}
		for a := range v.Bind {
			if _, ok := v.Dom[a]; !ok {
				v.Dom[a] = Dom{W: 1, Hi: -1}
			}
		}
		if cs.fresh {
			v.Nil = []string{"chunk.message"}
		}
		res := l.e.Run(fn, func(p *abs.Path) []abs.Value {
			prep(p)
			v.apply(p)
			p.NewStream("v.r", p.InputFrom(cs.spec))
			args := l.e.AutoArgs(p, fn)
			p.Keep["chunk"] = args[1]
			args[2] = abs.NewConst(cs.format, 8, false)
			return args
		})
		get := consumedOr("chunk")
		var problems []string
		for _, r := range res {
			if r.Path.Abort != "" {
				problems = append(problems, "undecided: "+r.Path.Abort)
				continue
			}
			if r.Path.Panics != "" {
				problems = append(problems, "panics: "+r.Path.Panics+pathSuffix(r))
				continue
			}
			_, errNil := r.Ret[0].(*abs.NilV)
			if cs.expErr && errNil {
				problems = append(problems, "a stream that breaks the chunking rules is accepted instead of rejected"+pathSuffix(r))
			}
			if !cs.expErr && !errNil {
				problems = append(problems, "a conformant header is rejected: "+abs.Describe(r.Path, r.Ret[0])+pathSuffix(r))
				continue
			}
			for _, b := range unprovenBounds(r) {
				problems = append(problems, "bounds not proven: "+b+pathSuffix(r))
			}
			var names []string
			for f := range cs.fields {
				names = append(names, f)
			}
			sort.Strings(names)
			for _, f := range names {
				got, ok := get(r, f)
				if !ok {
					problems = append(problems, "undecided: result "+f+" not found")
					continue
				}
				if f == "consumed" {
					iv := got.(*abs.Int)
					if !iv.Lin.IsConst() || iv.Lin.C != *cs.fields[f].Const {
						problems = append(problems, fmt.Sprintf("%s bytes of the stream are consumed, expected %d%s", iv.Lin, *cs.fields[f].Const, pathSuffix(r)))
					}
					continue
				}
				if m := wantMatches(r.Path, got, cs.fields[f]); m != "" {
					problems = append(problems, f+": "+m+pathSuffix(r))
				}
			}
		}
		facts := map[string]interface{}{"paths": len(res), "wire": abs.SpecString(cs.spec)}
		problems = dedup(problems)
		r2 := rule
		if cs.known {
			r2 = "C02.ts-additive"
		} else if strings.HasPrefix(cs.name, "reject:") || strings.HasPrefix(cs.name, "accept:") {
			r2 = strings.Replace(rule, "inherit", "reject", 1)
		}
		report(R, r2, key, P.Pos(fn.Pos()), "header handled as RTMP 5.3.1 prescribes", "", problems, facts)
	}
}

func runC02(c *Ctx) {
	P, R := c.P, c.R
	R.Require("C02.basic", 3)
	R.Require("C02.inherit", 7)
	R.Require("C02.reject", 6)
	R.Require("C02.field-unset", 5)
	R.Require("C02.ts-additive", 3)
	R.Require("C02.complete", 2)
	R.Require("C02.bound", 1)

	// ---- C02.basic
	l := newLayout(c, "C02.basic")
	get := consumedOr("recv")
	withStream := func(p *abs.Path, fn *ssa.Function, in []abs.Seg) []abs.Value {
		p.NewStream("v.r", in)
		return l.e.AutoArgs(p, fn)
	}
	b1plus := abs.LAtom("b1").Add(abs.LConst(64)).String()
	b12 := abs.LAtom("b1").Add(abs.LAtom("b2").Scale(256)).Add(abs.LConst(64)).String()
	l.decoder("rtmp", "(*Protocol).readBasicHeader", []Variant{
		{Name: "1-byte form(csid 2..63)", Dom: map[string]Dom{"fmt": {W: 2, Hi: -1}, "csid": {W: 6, Lo: 2, Hi: 63}},
			Spec:   abs.Pack(abs.F("fmt", 1, 0), abs.F("csid", 5, 0)),
			Fields: map[string]Want{"ret0": {Atom: "fmt", Width: 2}, "ret1": {Atom: "csid", Width: 6}, "consumed": {Const: cst(1)}}},
		{Name: "2-byte form(csid 64..319)", Dom: map[string]Dom{"fmt": {W: 2, Hi: -1}, "b1": {W: 8, Hi: -1}},
			Spec:   abs.Cat(abs.Pack(abs.F("fmt", 1, 0), abs.K(6, 0)), abs.BE("b1", 1)),
			Fields: map[string]Want{"ret0": {Atom: "fmt", Width: 2}, "ret1": {Atom: b1plus, Width: 9}, "consumed": {Const: cst(2)}}},
		{Name: "3-byte form(csid 64..65599)", Dom: map[string]Dom{"fmt": {W: 2, Hi: -1}, "b1": {W: 8, Hi: -1}, "b2": {W: 8, Hi: -1}},
			Spec:   abs.Cat(abs.Pack(abs.F("fmt", 1, 0), abs.K(6, 1)), abs.BE("b1", 1), abs.BE("b2", 1)),
			Fields: map[string]Want{"ret0": {Atom: "fmt", Width: 2}, "ret1": {Atom: b12, Width: 17}, "consumed": {Const: cst(3)}}},
	}, withStream, func(r abs.Result, f string) (abs.Value, bool) {
		if f == "consumed" {
			v, ok := get(r, f)
			if !ok {
				return nil, false
			}
			iv := v.(*abs.Int)
			if iv.Lin.IsConst() {
				return abs.NewConst(iv.Lin.C, 64, true), true
			}
			return nil, false
		}
		return get(r, f)
	}, 2)

	// ---- C02.inherit / C02.reject / C02.ts-additive
	headerDecodeChecks(c, "C02.inherit", false)

	// ---- C02.bound: chunks are cut at the input chunk size in force when each chunk is read
	checkChunkBoundsReader(c, "C02.bound")

	// ---- C02.complete: a completed message (also a zero-length one) is handed out once and detached from its chunk stream
	checkMessageDetached(c, "C02.complete")

	// ---- C02.field-unset
	cst := P.NamedType("rtmp", "chunkStream")
	if R.Anchor(cst != nil, "C02.field-unset", "rtmp.chunkStream") {
		st := cst.Underlying().(*types.Struct)
		loads, stores := map[*types.Var]int{}, map[*types.Var]int{}
		for _, fn := range P.ModuleFuncs("rtmp") {
			core.EachInstr(fn, func(in ssa.Instruction) {
				fa, ok := in.(*ssa.FieldAddr)
				if !ok {
					return
				}
				fv := core.FieldVar(fa)
				for _, r := range *fa.Referrers() {
					switch x := r.(type) {
					case *ssa.Store:
						if x.Addr == ssa.Value(fa) {
							stores[fv]++
						}
					case *ssa.UnOp:
						loads[fv]++
					case *ssa.FieldAddr:
						// nested struct: counts as both
						loads[fv]++
						stores[fv]++
					}
				}
			})
		}
		for i := 0; i < st.NumFields(); i++ {
			f := st.Field(i)
			if loads[f] == 0 {
				continue
			}
			R.Check(stores[f] > 0, "C02.field-unset", "rtmp|chunkStream."+f.Name(), P.Pos(f.Pos()),
				fmt.Sprintf("chunkStream.%s is read %d time(s) and assigned", f.Name(), loads[f]),
				fmt.Sprintf("chunkStream.%s is read %d time(s) by the chunk parser but never assigned (it is always the zero value): the rule that tests it can never match the parsed stream", f.Name(), loads[f]), nil)
		}
	}
}
