package rules

import (
	"fmt"

	"golang.org/x/tools/go/ssa"

	"oryxverif/checker/internal/abs"
)

func init() {
	register(&Property{
		ID: "C09",
		Explain: "Decided (bit-provenance abstract interpretation of the SSA, all field values symbolic): C09.layout - muxer.WriteHeader writes 'F' 'L' 'V' 01 [00000 A 0 V] 00000009 00000000 for all four flag " +
			"combinations; muxer.WriteTag writes [type][size 23..0 BE][timestamp 23..0 BE][timestamp 31..24][000000][body][BE32(11+len(body))] in that order for every type byte, every 32-bit timestamp and every " +
			"body length up to 2^24-1 (both length prefixes derive from len of the very slice written); demuxer.ReadHeader/ReadTagHeader/ReadTag, run on that layout, return exactly the fields' own bits, " +
			"consume 13 / 11 / size+4 bytes and never index out of range; C09.fullread - the file is read only through all-or-error primitives (io.CopyN). " +
			"C09.alias - no []byte result aliases storage that outlives the call (receiver fields, package variables, pooled buffers): an item handed out earlier stays what it was. " +
			"Not decided: equality of body bytes as data (the body is one opaque blob that ABS shows passing through untouched on both sides); sequences of tags follow by induction from the per-tag result.",
		Assume: []string{"io.Copy from a bytes.Reader writes all bytes or returns an error; io.CopyN(buf, r, n) == nil implies exactly n bytes were appended", "the layout table is my transcription of FLV v10 Annex E"},
		Run:    runC09,
	})
}

func streamArgs(reader string) func(p *abs.Path, fn *ssa.Function, in []abs.Seg) []abs.Value {
	return func(p *abs.Path, fn *ssa.Function, in []abs.Seg) []abs.Value {
		p.NewStream(reader, in)
		e := abs.NewEngine(nil)
		_ = e
		return nil
	}
}

func retIndex(names ...string) func(r abs.Result, field string) (abs.Value, bool) {
	return func(r abs.Result, field string) (abs.Value, bool) {
		for i, n := range names {
			if n == field && i < len(r.Ret) {
				return r.Ret[i], true
			}
		}
		return nil, false
	}
}

func runC09(c *Ctx) {
	checkOwnsBytes(c, "C09.alias", "flv")
	R := c.R
	R.Require("C09.layout", 11)
	R.Require("C09.fullread", 1)
	l := newLayout(c, "C09.layout")
	lenTag := abs.LAtom("len(tag)")

	// ---- writer side
	var hv []Variant
	for _, a := range []int64{0, 1} {
		for _, v := range []int64{0, 1} {
			hv = append(hv, Variant{
				Name: fmt.Sprintf("audio=%d,video=%d", a, v),
				Dom:  map[string]Dom{"hasVideo": {W: 1, Hi: -1}, "hasAudio": {W: 1, Hi: -1}},
				Bind: map[string]int64{"hasVideo": v, "hasAudio": a},
				Spec: abs.Cat(abs.ConstBytes('F', 'L', 'V', 1), abs.Pack(abs.K(5, 0), abs.K(1, uint64(a)), abs.K(1, 0), abs.K(1, uint64(v))),
					abs.ConstBytes(0, 0, 0, 9, 0, 0, 0, 0)),
			})
		}
	}
	l.encoder("flv", "(*muxer).WriteHeader", hv, sinkBytes("v.w", 0))

	tagDom := map[string]Dom{"len(tag)": {W: 24, Hi: -1}, "timestamp": {W: 32, Hi: -1}, "tagType": {W: 8, Hi: -1}}
	tagSpec := abs.Cat(
		abs.Pack(abs.F("tagType", 7, 0)),
		abs.Pack(abs.F("len(tag)", 23, 0)),
		abs.Pack(abs.F("timestamp", 23, 0)), abs.Pack(abs.F("timestamp", 31, 24)),
		abs.ConstBytes(0, 0, 0),
		abs.BlobSpec("tag", lenTag),
		abs.BE("len(tag)+11", 4))
	l.encoder("flv", "(*muxer).WriteTag", []Variant{{Name: "any", Dom: tagDom, Spec: tagSpec}}, sinkBytes("v.w", 0))

	// ---- reader side
	withStream := func(p *abs.Path, fn *ssa.Function, in []abs.Seg) []abs.Value {
		p.NewStream("v.r", in)
		return l.e.AutoArgs(p, fn)
	}
	var rv []Variant
	for _, a := range []int64{0, 1} {
		for _, v := range []int64{0, 1} {
			rv = append(rv, Variant{
				Name: fmt.Sprintf("audio=%d,video=%d", a, v),
				Dom:  map[string]Dom{"version": {W: 8, Hi: -1}},
				Spec: abs.Cat(abs.ConstBytes('F', 'L', 'V'), abs.Pack(abs.F("version", 7, 0)),
					abs.Pack(abs.X(5), abs.K(1, uint64(a)), abs.X(1), abs.K(1, uint64(v))), abs.Pack(abs.X(32)), abs.Pack(abs.X(32))),
				Fields: map[string]Want{"version": {Atom: "version", Width: 8}, "hasVideo": {Const: cst(v)}, "hasAudio": {Const: cst(a)}},
			})
		}
	}
	l.decoder("flv", "(*demuxer).ReadHeader", rv, withStream, retIndex("version", "hasVideo", "hasAudio"), 3)

	l.decoder("flv", "(*demuxer).ReadTagHeader", []Variant{{
		Name:   "any",
		Dom:    map[string]Dom{"type": {W: 8, Hi: -1}, "size": {W: 24, Hi: -1}, "ts": {W: 32, Hi: -1}},
		Spec:   abs.Cat(abs.Pack(abs.F("type", 7, 0)), abs.Pack(abs.F("size", 23, 0)), abs.Pack(abs.F("ts", 23, 0)), abs.Pack(abs.F("ts", 31, 24)), abs.Pack(abs.X(24))),
		Fields: map[string]Want{"tagType": {Atom: "type", Width: 8}, "tagSize": {Atom: "size", Width: 24}, "timestamp": {Atom: "ts", Width: 32}},
	}}, withStream, retIndex("tagType", "tagSize", "timestamp"), 3)

	l.decoder("flv", "(*demuxer).ReadTag", []Variant{{
		Name:   "any",
		Dom:    map[string]Dom{"tagSize": {W: 24, Hi: -1}},
		Spec:   abs.Cat(abs.BlobSpec("body", abs.LAtom("tagSize")), abs.Pack(abs.X(32))),
		Fields: map[string]Want{"tag": {Blob: "body", Len: abs.LAtom("tagSize")}},
	}}, withStream, retIndex("tag"), 1)

	checkFullRead(c, "C09.fullread", "flv")
}
