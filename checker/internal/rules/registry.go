// Package rules holds the repository-specific rules, one file per property.
package rules

import (
	"sort"

	"oryxverif/checker/internal/core"
)

// Ctx is what a rule sees: the loaded program and the run collecting obligations.
type Ctx struct {
	P    *core.Program
	R    *core.Run
	Tier string
}

// Property describes one property check.
type Property struct {
	ID      string
	Explain string   // S clauses decided / N clauses not decided
	Assume  []string // trusted base
	Run     func(c *Ctx)
}

var registry = map[string]*Property{}

func register(p *Property) {
	p.Explain += explainMore[p.ID]
	registry[p.ID] = p
}

// Get returns the property check for id.
func Get(id string) *Property { return registry[id] }

// IDs lists the implemented property ids.
func IDs() []string {
	var out []string
	for k := range registry {
		out = append(out, k)
	}
	sort.Strings(out)
	return out
}
