package rules

import (
	"fmt"
	"go/token"
	"go/types"
	"reflect"
	"sort"
	"strings"

	"golang.org/x/tools/go/ssa"

	"oryxverif/checker/internal/core"
)

func init() {
	register(&Property{
		ID: "C19",
		Explain: "Decided (structural): C19.order - in every handler that writes a response, each body/status write (Write, WriteHeader, fmt.Fprint* to the ResponseWriter, http.Error) is " +
			"dominated by SetHeader(w) and by Header().Set(\"Content-Type\", ...), and no WriteHeader can follow a body write; C19.envelope - the success filter builds exactly the keys " +
			"code (constant 0), server (os.Getpid()), data (the value passed in); a non-empty callback selects application/javascript and the format \"%s(%s)\" with (callback, json), " +
			"otherwise application/json and the raw bytes; C19.dispatch - Error() tests each error kind (complex, system, application) and routes it to its own filter, whose code is " +
			"data-dependent on the error; the plain path answers status 500 unless the error carries its own status; C19.marshal - a json.Marshal failure leads to the error handler and " +
			"no body bytes; C19.client - the client returns a nil error only under code == 0 where code is the decoded \"code\" member. " +
			"Not decided: agreement of encoding/json with itself on all value trees (trusted).",
		Assume: []string{"encoding/json round-trips its own output", "net/http sends headers set before the first body write"},
		Run:    runC19,
	})
}

func isRespWriter(t types.Type) bool {
	return types.TypeString(t, nil) == "net/http.ResponseWriter"
}

type bodyWrite struct {
	in   ssa.Instruction
	kind string
}

// respWriterHelper: an unexported, named function that is not itself a handler (signature other than
// (ResponseWriter, *Request)) and writes to a ResponseWriter it receives as a parameter.  Its writes are attributed to
// its call sites (the headers are the caller's business); it returns the kinds of those writes.
func respWriterHelper(f *ssa.Function, depth int) []string {
	if f == nil || depth > 3 || !core.InModule(f) || f.Parent() != nil || f.Object() == nil || f.Object().Exported() || len(f.Blocks) == 0 {
		return nil
	}
	sig := f.Signature
	if sig.Recv() != nil {
		return nil
	}
	hasW := false
	for i := 0; i < sig.Params().Len(); i++ {
		if isRespWriter(sig.Params().At(i).Type()) {
			hasW = true
		}
	}
	if !hasW || (sig.Params().Len() == 2 && types.TypeString(sig.Params().At(1).Type(), nil) == "*net/http.Request") {
		return nil
	}
	var kinds []string
	for _, w := range bodyWritesDepth(f, depth+1) {
		if call, ok := w.in.(*ssa.Call); ok {
			var recv ssa.Value
			if call.Call.IsInvoke() {
				recv = call.Call.Value
			} else if len(call.Call.Args) > 0 {
				recv = core.StripConv(call.Call.Args[0])
			}
			if _, isPar := recv.(*ssa.Parameter); !isPar {
				return nil // writes to something else than its parameter: checked in place
			}
		}
		kinds = append(kinds, w.kind)
	}
	return kinds
}

func bodyWrites(fn *ssa.Function) []bodyWrite { return bodyWritesDepth(fn, 0) }

func bodyWritesDepth(fn *ssa.Function, depth int) []bodyWrite {
	var out []bodyWrite
	core.EachInstr(fn, func(in ssa.Instruction) {
		call, ok := in.(*ssa.Call)
		if !ok {
			return
		}
		if kinds := respWriterHelper(call.Call.StaticCallee(), depth); len(kinds) > 0 {
			for _, k := range kinds {
				out = append(out, bodyWrite{in, k})
			}
			return
		}
		if call.Call.IsInvoke() && isRespWriter(call.Call.Value.Type()) {
			switch call.Call.Method.Name() {
			case "Write", "WriteHeader":
				out = append(out, bodyWrite{in, call.Call.Method.Name()})
			}
			return
		}
		f := call.Call.StaticCallee()
		if f == nil {
			return
		}
		name := core.FullName(f)
		switch name {
		case "fmt.Fprintf", "fmt.Fprint", "fmt.Fprintln", "io.WriteString", "io.Copy":
			if len(call.Call.Args) > 0 && isRespWriter(core.StripConv(call.Call.Args[0]).Type()) {
				out = append(out, bodyWrite{in, name})
			}
		case "http.Error":
			if f.Pkg != nil && f.Pkg.Pkg.Path() == "net/http" {
				out = append(out, bodyWrite{in, name})
			}
		}
	})
	return out
}

// headerSets lists (net/http.Header).Set calls with a constant key; value constant if any.  A call to an unexported
// helper of the module that sets a header on the ResponseWriter it is given counts as a header set at the call site:
// valV is then the caller's argument the helper stores (or the helper's constant), inner the Set call inside the helper.
type headerSet struct {
	call     *ssa.Call
	key, val string
	valV     ssa.Value
	inner    *ssa.Call
}

func directHeaderSets(fn *ssa.Function) []headerSet {
	var out []headerSet
	core.EachInstr(fn, func(in ssa.Instruction) {
		call, ok := in.(*ssa.Call)
		if !ok || call.Call.StaticCallee() == nil || core.FullName(call.Call.StaticCallee()) != "(http.Header).Set" || len(call.Call.Args) != 3 {
			return
		}
		k, _ := core.ConstString(call.Call.Args[1])
		v, _ := core.ConstString(call.Call.Args[2])
		out = append(out, headerSet{call: call, key: k, val: v, valV: call.Call.Args[2]})
	})
	return out
}

func headerSets(fn *ssa.Function) []headerSet {
	out := directHeaderSets(fn)
	core.EachInstr(fn, func(in ssa.Instruction) {
		call, ok := in.(*ssa.Call)
		if !ok {
			return
		}
		f := call.Call.StaticCallee()
		if f == nil || f == fn || !core.InModule(f) || f.Parent() != nil || f.Object() == nil || f.Object().Exported() || len(f.Blocks) == 0 || f.Signature.Recv() != nil {
			return
		}
		hasW := false
		for _, p := range f.Params {
			if isRespWriter(p.Type()) {
				hasW = true
			}
		}
		if !hasW {
			return
		}
		for _, h := range directHeaderSets(f) {
			hs := headerSet{call: call, key: h.key, val: h.val, valV: h.valV, inner: h.call}
			if par, isPar := core.StripConv(h.valV).(*ssa.Parameter); isPar {
				for i, q := range f.Params {
					if q == par && i < len(call.Call.Args) {
						hs.valV = call.Call.Args[i]
						hs.val, _ = core.ConstString(hs.valV)
					}
				}
			}
			out = append(out, hs)
		}
	})
	return out
}

// setBefore: the header set h takes effect before the write w of the same function: h precedes w, or both are one call
// to a helper in which the Set precedes every write the helper makes.
func setBefore(h headerSet, w bodyWrite) bool {
	if ssa.Instruction(h.call) != w.in {
		return core.Precedes(h.call, w.in)
	}
	if h.inner == nil {
		return false
	}
	ws := bodyWrites(h.inner.Parent())
	for _, x := range ws {
		if !core.Precedes(h.inner, x.in) {
			return false
		}
	}
	return len(ws) > 0
}

func runC19(c *Ctx) {
	P, R := c.P, c.R
	R.Require("C19.order", 3)
	R.Require("C19.envelope", 6)
	R.Require("C19.dispatch", 6)
	R.Require("C19.marshal", 1)
	R.Require("C19.client", 2)
	checkHandlersKeepNoState(c)
	fns := P.ModuleFuncs("http")
	for _, f := range fns {
		R.Funcs[core.QualName(f)] = true
	}
	setHeader := P.Func("http", "SetHeader")
	if !R.Anchor(setHeader != nil, "C19.order", "http.SetHeader") {
		return
	}

	// the Server header carries the configured value as it is now: it derives, in this very call, from a read of the
	// package variable Server (a copy kept in another variable goes stale when Server is set later)
	{
		res := core.NewResolver(false)
		var fromServer func(v ssa.Value, d int) bool
		fromServer = func(v ssa.Value, d int) bool {
			if d > 8 || v == nil {
				return false
			}
			v = res.V(v)
			switch x := v.(type) {
			case *ssa.UnOp:
				if g, ok := x.X.(*ssa.Global); ok && x.Op == token.MUL {
					return core.GlobalName(g) == "Server" && g.Pkg != nil && g.Pkg.Pkg.Path() == setHeader.Pkg.Pkg.Path()
				}
				return fromServer(x.X, d+1)
			case *ssa.Phi:
				for _, e := range x.Edges {
					if !fromServer(e, d+1) {
						return false
					}
				}
				return len(x.Edges) > 0
			case *ssa.BinOp:
				return fromServer(x.X, d+1) || fromServer(x.Y, d+1)
			case *ssa.Convert:
				return fromServer(x.X, d+1)
			case *ssa.Call:
				for _, a := range x.Call.Args {
					if fromServer(a, d+1) {
						return true
					}
				}
			}
			return false
		}
		n := 0
		for _, h := range headerSets(setHeader) {
			if h.key != "Server" {
				continue
			}
			n++
			R.Check(fromServer(h.valV, 0), "C19.envelope", "http|SetHeader|server-is-the-configured-value", P.InstrPos(h.call),
				"the Server header is the package variable Server as read for this response",
				"the Server header is not computed from the package variable Server at the time of the response (a cached or different value): a server name configured later never reaches the responses", nil)
		}
		if n == 0 {
			R.Fail("C19.envelope", "http|SetHeader|server-is-the-configured-value", P.Pos(setHeader.Pos()), "SetHeader does not set the Server header", nil)
		}
	}

	// ---- C19.order
	counts := map[string]int{}
	for _, fn := range fns {
		bw := bodyWrites(fn)
		if len(bw) == 0 || fn == setHeader || len(respWriterHelper(fn, 0)) > 0 {
			continue
		}
		var sh []ssa.Instruction
		core.EachInstr(fn, func(in ssa.Instruction) {
			if call, ok := in.(*ssa.Call); ok && call.Call.StaticCallee() == setHeader {
				sh = append(sh, in)
			}
		})
		hs := headerSets(fn)
		for _, w := range bw {
			okServer, okCT := false, false
			for _, s := range sh {
				if core.Precedes(s, w.in) {
					okServer = true
				}
			}
			for _, h := range hs {
				if h.key == "Content-Type" && setBefore(h, w) {
					okCT = true
				}
			}
			key := ordKey(counts, "http|"+core.FuncName(fn)+"|"+w.kind)
			R.Check(okServer && okCT, "C19.order", key, P.InstrPos(w.in),
				"Server and Content-Type headers are set before this write on every path",
				fmt.Sprintf("this %s can execute before the headers are set (Server set first: %v, Content-Type set first: %v): the header would be missing from the response", w.kind, okServer, okCT), nil)
			if w.kind == "WriteHeader" {
				for _, b := range bw {
					if b.kind != "WriteHeader" && reaches(b.in, w.in) {
						R.Fail("C19.order", key+"|after-body", P.InstrPos(w.in), "WriteHeader can execute after a body write: the status would be ignored", nil)
					}
				}
			}
		}
	}

	// ---- C19.envelope
	fd := globalFuncValue(P, "http", "FilterData")
	if R.Anchor(fd != nil, "C19.envelope", "http.FilterData (function value)") {
		keysSeen := map[string]ssa.Value{}
		core.EachInstr(fd, func(in ssa.Instruction) {
			if mu, ok := in.(*ssa.MapUpdate); ok {
				if k, ok := core.ConstString(mu.Key); ok {
					if _, dup := keysSeen[k]; !dup || k != "data" {
						keysSeen[k] = mu.Value
					}
				}
			}
		})
		var ks []string
		for k := range keysSeen {
			ks = append(ks, k)
		}
		sort.Strings(ks)
		R.Check(reflect.DeepEqual(ks, []string{"code", "data", "server"}), "C19.envelope", "http|FilterData|keys", P.Pos(fd.Pos()),
			"the success envelope has exactly the members code, server, data",
			"the success envelope's members are "+strings.Join(ks, ",")+" instead of code, data, server", nil)
		if v, ok := keysSeen["code"]; ok {
			n, isC := core.ConstInt(v)
			R.Check(isC && n == 0, "C19.envelope", "http|FilterData|code-zero", P.Pos(fd.Pos()),
				"success code is the constant 0", "the success envelope's code is not the constant 0 (the client would treat success as failure)", nil)
		}
		if v, ok := keysSeen["server"]; ok {
			call, isCall := core.StripConv(v).(*ssa.Call)
			okp := isCall && call.Call.StaticCallee() != nil && core.FullName(call.Call.StaticCallee()) == "os.Getpid"
			R.Check(okp, "C19.envelope", "http|FilterData|server-pid", P.Pos(fd.Pos()),
				"server member is os.Getpid()", "the server member is not the process id", nil)
		}
		// all stores to "data" derive from the last parameter
		okData := true
		core.EachInstr(fd, func(in ssa.Instruction) {
			if mu, ok := in.(*ssa.MapUpdate); ok {
				if k, _ := core.ConstString(mu.Key); k == "data" {
					if !isParamIdentity(mu.Value, fd.Params[len(fd.Params)-1], 0) {
						okData = false
					}
				}
			}
		})
		R.Check(okData, "C19.envelope", "http|FilterData|data-is-value", P.Pos(fd.Pos()),
			"data member is the value passed in (unmodified)", "the data member is not the value passed to the handler itself (it is transformed or replaced before marshalling)", nil)
	}
	jh := P.Func("http", "jsonHandler")
	if R.Anchor(jh != nil && len(jh.AnonFuncs) == 1, "C19.envelope", "http.jsonHandler$1") {
		cl := jh.AnonFuncs[0]
		// callback value: result of Get("callback")
		var cbVal ssa.Value
		core.EachInstr(cl, func(in ssa.Instruction) {
			if call, ok := in.(*ssa.Call); ok && call.Call.StaticCallee() != nil && core.FullName(call.Call.StaticCallee()) == "(url.Values).Get" {
				if k, _ := core.ConstString(call.Call.Args[1]); k == "callback" {
					cbVal = call
				}
			}
		})
		if cbVal == nil {
			R.Fail("C19.envelope", "http|jsonHandler$1|callback-param", P.Pos(cl.Pos()), "the handler does not read the \"callback\" query parameter", nil)
		} else {
			for _, h := range headerSets(cl) {
				if h.key != "Content-Type" {
					continue
				}
				// the value may be selected before the call (contentType := json; if jsonp { contentType = javascript })
				for _, vc := range core.ValueCases(h.valV, h.call.Block()) {
					val, _ := core.ConstString(vc.Val)
					var pol, found bool
					for _, a := range vc.Atoms {
						if a.LV == cbVal && a.R == `""` {
							found = true
							pol = a.Op == "!="
						}
					}
					want := map[bool]string{true: "application/javascript", false: "application/json"}[pol]
					R.Check(found && val == want, "C19.envelope", "http|jsonHandler$1|content-type|"+val, P.InstrPos(h.call),
						"Content-Type "+val+" selected by callback "+map[bool]string{true: "present", false: "absent"}[pol],
						fmt.Sprintf("Content-Type %q is set on the branch where the callback is %s (expected %q)", val, map[bool]string{true: "present", false: "absent"}[pol], want), nil)
				}
			}
			// body form per branch
			for _, w := range bodyWrites(cl) {
				if w.kind == "WriteHeader" {
					continue
				}
				var pol, found bool
				for _, a := range core.GuardAtoms(w.in.Block()) {
					if a.LV == cbVal && a.R == `""` {
						found = true
						pol = a.Op == "!="
					}
				}
				call := w.in.(*ssa.Call)
				key := "http|jsonHandler$1|body|" + w.kind
				if !found {
					R.Fail("C19.envelope", key, P.InstrPos(w.in), "body write is not selected by the presence of the callback parameter", nil)
					continue
				}
				if pol { // callback present: Fprintf(w, "%s(%s)", cb, string(b))
					format, _ := core.ConstString(call.Call.Args[1])
					args := variadicArgs(call.Call.Args[len(call.Call.Args)-1])
					ok := w.kind == "fmt.Fprintf" && format == "%s(%s)" && len(args) == 2 &&
						core.StripConv(args[0]) == cbVal && derivesFromMarshalled(args[1])
					R.Check(ok, "C19.envelope", key, P.InstrPos(w.in),
						"with a callback the body is callback(json)",
						fmt.Sprintf("with a callback the body is not fmt.Fprintf(w, \"%%s(%%s)\", callback, json) (format %q, %d args)", format, len(args)), nil)
				} else {
					ok := w.kind == "Write" && len(call.Call.Args) == 1 && derivesFromMarshalled(call.Call.Args[0])
					R.Check(ok, "C19.envelope", key, P.InstrPos(w.in),
						"without a callback the body is the raw JSON", "without a callback the body is not the marshalled JSON bytes", nil)
				}
			}
		}
	}

	// ---- C19.dispatch
	errFn := P.Func("http", "Error")
	if R.Anchor(errFn != nil, "C19.dispatch", "http.Error") {
		kinds := []struct{ typ, filter string }{
			{"SystemComplexError", "FilterCplxSystemError"}, {"SystemError", "FilterSystemError"}, {"AppError", "FilterAppError"}}
		for _, k := range kinds {
			var ta *ssa.TypeAssert
			core.EachInstr(errFn, func(in ssa.Instruction) {
				if t, ok := in.(*ssa.TypeAssert); ok && t.CommaOk && core.Path(t.X) == core.ParamName(errFn.Params[1]) &&
					strings.HasSuffix(types.TypeString(t.AssertedType, nil), "http."+k.typ) {
					ta = t
				}
			})
			key := "http|Error|kind|" + k.typ
			if ta == nil {
				R.Fail("C19.dispatch", key, P.Pos(errFn.Pos()), "Error() no longer tests for "+k.typ+": such errors are answered as plain errors (status 500, no code)", nil)
				continue
			}
			// the ok-branch creates a closure that calls the kind's filter with the asserted value
			var okV, val ssa.Value
			for _, r := range *ta.Referrers() {
				if ex, ok := r.(*ssa.Extract); ok {
					if ex.Index == 1 {
						okV = ex
					} else {
						val = ex
					}
				}
			}
			linked := false
			for _, an := range errFn.AnonFuncs {
				usesFilter := false
				core.EachInstr(an, func(in ssa.Instruction) {
					if call, ok := in.(*ssa.Call); ok {
						if ld, ok := call.Call.Value.(*ssa.UnOp); ok && core.Path(ld.X) == "http."+k.filter {
							usesFilter = true
						}
					}
				})
				if !usesFilter {
					continue
				}
				// the closure is created under the ok guard and captures the asserted value
				core.EachInstr(errFn, func(in ssa.Instruction) {
					mc, ok := in.(*ssa.MakeClosure)
					if !ok || mc.Fn != an {
						return
					}
					guard := false
					for _, g := range core.Guards(mc.Block()) {
						if g.Cond == okV && g.Pol {
							guard = true
						}
					}
					captures := false
					for _, b := range mc.Bindings {
						if holdsValue(b, val) {
							captures = true
						}
					}
					if guard && captures {
						linked = true
					}
				})
			}
			R.Check(linked, "C19.dispatch", key, P.InstrPos(ta),
				k.typ+" errors are answered through "+k.filter+" with the error's own value",
				"the handler built for "+k.typ+" errors does not pass the asserted error to "+k.filter+" under the assertion's ok guard", nil)
		}
		// filters: code derives from the error
		for _, f := range []string{"FilterSystemError", "FilterAppError"} {
			fv := globalFuncValue(P, "http", f)
			if !R.Anchor(fv != nil, "C19.dispatch", "http."+f) {
				continue
			}
			ok := false
			core.EachInstr(fv, func(in ssa.Instruction) {
				if mu, isMU := in.(*ssa.MapUpdate); isMU {
					if k, _ := core.ConstString(mu.Key); k == "code" && derivesFromParam(mu.Value, fv.Params[len(fv.Params)-1], 0) && !narrowed(mu.Value, 0) {
						ok = true
					}
				}
			})
			R.Check(ok, "C19.dispatch", "http|"+f+"|code-from-error", P.Pos(fv.Pos()),
				"the response code is the error's own code, unconverted", "the response's code member is not the error's own value (not derived from it, or cut by a narrowing conversion such as int32(code): a code that is a multiple of 2^32 would be answered as 0 = success)", nil)
		}
		if fv := globalFuncValue(P, "http", "FilterCplxSystemError"); R.Anchor(fv != nil, "C19.dispatch", "http.FilterCplxSystemError") {
			ok := false
			for _, r := range core.Returns(fv) {
				if derivesFromParam(r.Results[0], fv.Params[len(fv.Params)-1], 0) {
					ok = true
				}
			}
			sce := P.NamedType("http", "SystemComplexError")
			tagOK := false
			if sce != nil {
				st := sce.Underlying().(*types.Struct)
				for i := 0; i < st.NumFields(); i++ {
					if st.Field(i).Name() == "Code" && reflect.StructTag(st.Tag(i)).Get("json") == "code" {
						tagOK = true
					}
				}
			}
			R.Check(ok && tagOK, "C19.dispatch", "http|FilterCplxSystemError|code-from-error", P.Pos(fv.Pos()),
				"the complex error itself is marshalled, its Code field tagged json:\"code\"", "the complex error's code does not reach the response's code member", nil)
		}
		// plain path: status 500 unless HTTPStatus; http.Error with that status
		var plain *ssa.Function
		for _, an := range errFn.AnonFuncs {
			core.EachCall(an, func(site ssa.CallInstruction, name string) {
				if name == "http.Error" && site.Common().StaticCallee().Pkg.Pkg.Path() == "net/http" {
					plain = an
				}
			})
		}
		if plain == nil {
			R.Fail("C19.dispatch", "http|Error|plain-path", P.Pos(errFn.Pos()), "no plain-error handler answering with http.Error", nil)
		} else {
			ok := false
			core.EachInstr(plain, func(in ssa.Instruction) {
				call, isCall := in.(*ssa.Call)
				if !isCall || call.Call.StaticCallee() == nil || core.FullName(call.Call.StaticCallee()) != "http.Error" || call.Call.StaticCallee().Pkg.Pkg.Path() != "net/http" {
					return
				}
				st := call.Call.Args[2]
				has500, hasStatus, other := false, false, false
				for _, e := range core.ValueLeaves(st) {
					if n, isC := core.ConstInt(e); isC && n == 500 {
						has500 = true
					} else if sc, isCall := e.(*ssa.Call); isCall && sc.Call.IsInvoke() && sc.Call.Method.Name() == "Status" {
						hasStatus = true
					} else {
						other = true
					}
				}
				ok = has500 && hasStatus && !other
			})
			R.Check(ok, "C19.dispatch", "http|Error|plain-path", P.Pos(plain.Pos()),
				"plain errors answer 500 unless the error carries its own HTTP status",
				"the plain-error path does not answer with status 500 by default and the error's own Status() otherwise", nil)
		}
	}

	// ---- C19.marshal
	if jh != nil {
		var mcall *ssa.Call
		core.EachInstr(jh, func(in ssa.Instruction) {
			if call, ok := in.(*ssa.Call); ok && call.Call.StaticCallee() != nil && core.FullName(call.Call.StaticCallee()) == "json.Marshal" {
				mcall = call
			}
		})
		if mcall == nil {
			R.Fail("C19.marshal", "http|jsonHandler|marshal", P.Pos(jh.Pos()), "jsonHandler no longer marshals with encoding/json", nil)
		} else {
			ok := false
			for _, r := range core.Returns(jh) {
				call, isCall := r.Results[0].(*ssa.Call)
				if !isCall || call.Call.StaticCallee() != errFn {
					continue
				}
				for _, a := range core.GuardAtoms(r.Block()) {
					if a.Op == "!=" && a.R == "nil" && derivesFrom(a.LV, mcall) && derivesFrom(call.Call.Args[1], mcall) {
						ok = true
					}
				}
			}
			R.Check(ok, "C19.marshal", "http|jsonHandler|marshal-error", P.InstrPos(mcall),
				"a marshal failure returns the error handler (no body is written on that path)",
				"a json.Marshal failure does not lead to Error(ctx, err): a truncated or empty body would be sent as success", nil)
		}
	}

	// ---- C19.client
	// the whole response body is parsed: the reader handed to ReadAll is the response's Body itself, not a wrapper
	// (io.LimitReader and the like) that can end early without an error
	if ag := P.Func("http", "apiGet"); R.Anchor(ag != nil, "C19.client", "http.apiGet") {
		nRead, bad := 0, ""
		for fn := range P.Reachable(ag) {
			core.EachInstr(fn, func(in ssa.Instruction) {
				call, ok := in.(*ssa.Call)
				if !ok || call.Call.StaticCallee() == nil {
					return
				}
				switch core.FullName(call.Call.StaticCallee()) {
				case "io/ioutil.ReadAll", "io.ReadAll", "ioutil.ReadAll":
					nRead++
					arg := core.StripConv(call.Call.Args[0])
					if ld, isLd := arg.(*ssa.UnOp); !(isLd && strings.HasSuffix(core.Path(ld.X), ".Body")) {
						bad = fmt.Sprintf("the reader at %s is %s, not the response's Body", P.InstrPos(call), describeValue(arg))
					}
				}
			})
		}
		// a body is accepted only from a 200 answer: plain errors are answered with their status and the error text as
		// body, and a text that happens to be {"code":0} must not be read as success
		statusOK := false
		ei := core.ErrResultIndex(ag)
		for _, r := range core.Returns(ag) {
			if !mayBeNil(core.ReturnOperand(r, ei), 0) {
				continue
			}
			for _, a := range core.GuardAtoms(r.Block()) {
				if strings.HasSuffix(a.L, ".StatusCode") && a.Op == "==" && a.R == "200" {
					statusOK = true
				}
			}
		}
		R.Check(statusOK, "C19.client", "http|apiGet|status-200-required", P.Pos(ag.Pos()),
			"the client accepts a body only from an HTTP 200 answer",
			"the client never looks at the HTTP status: a plain error (answered with status 500 and the error text as body) whose text parses as {\"code\":0} is reported as success", nil)
		R.Check(nRead >= 1 && bad == "", "C19.client", "http|apiGet|reads-whole-body", P.Pos(ag.Pos()),
			"the client reads the response's Body itself to the end",
			"the client does not read the whole response body ("+bad+"): a long success envelope would be cut and reported as a parse failure", nil)
	}
	ap := P.Func("http", "apiParse")
	if R.Anchor(ap != nil, "C19.client", "http.apiParse") {
		ei := core.ErrResultIndex(ap)
		// the code value: Lookup with constant key "code"
		var codeLookup ssa.Value
		core.EachInstr(ap, func(in ssa.Instruction) {
			if lk, ok := in.(*ssa.Lookup); ok {
				if k, _ := core.ConstString(lk.Index); k == "code" {
					codeLookup = lk
				}
			}
		})
		R.Check(codeLookup != nil, "C19.client", "http|apiParse|code-member", P.Pos(ap.Pos()),
			"the client reads the \"code\" member", "the client does not read the \"code\" member of the response", nil)
		n := 0
		for _, r := range core.Returns(ap) {
			v := core.ReturnOperand(r, ei)
			if !mayBeNil(v, 0) {
				continue
			}
			n++
			ok := false
			for _, a := range core.GuardAtoms(r.Block()) {
				if a.Op == "==" && a.R == "0" && codeLookup != nil && flowsFrom(a.LV, codeLookup, 0) {
					ok = true
				}
			}
			R.Check(ok, "C19.client", fmt.Sprintf("http|apiParse|nil-error-return#%d", n), P.InstrPos(r),
				"a nil error is returned only under code == 0",
				"a return whose error may be nil is not guarded by code == 0 on the decoded \"code\" member: a failure response would be reported as success", nil)
		}
		if n == 0 {
			R.Fail("C19.client", "http|apiParse|nil-error-return", P.Pos(ap.Pos()), "apiParse has no success return", nil)
		}
	}
}

func describeValue(v ssa.Value) string {
	if c, ok := v.(*ssa.Call); ok {
		return "the result of " + core.CalleeName(&c.Call)
	}
	return v.Name() + " (" + v.Type().String() + ")"
}

// globalFuncValue returns the function stored into a package-level func variable by the package initialiser.
func globalFuncValue(P *core.Program, pkg, name string) *ssa.Function {
	g := P.Global(pkg, name)
	sp := P.SSAPkgs[pkg]
	if g == nil || sp == nil {
		return nil
	}
	var out *ssa.Function
	init := sp.Func("init")
	if init == nil {
		return nil
	}
	core.EachInstr(init, func(in ssa.Instruction) {
		if st, ok := in.(*ssa.Store); ok && st.Addr == ssa.Value(g) {
			switch v := st.Val.(type) {
			case *ssa.Function:
				out = v
			case *ssa.MakeClosure:
				out = v.Fn.(*ssa.Function)
			}
		}
	})
	return out
}

// narrowed: on the way from its source the value passes an integer conversion to a smaller type.
func narrowed(v ssa.Value, d int) bool {
	if d > 12 {
		return false
	}
	v = core.StripConv(v)
	switch x := v.(type) {
	case *ssa.Convert:
		fb, ok1 := x.X.Type().Underlying().(*types.Basic)
		tb, ok2 := x.Type().Underlying().(*types.Basic)
		if ok1 && ok2 && fb.Info()&types.IsInteger != 0 && tb.Info()&types.IsInteger != 0 {
			sz := &types.StdSizes{WordSize: 8, MaxAlign: 8}
			if sz.Sizeof(tb) < sz.Sizeof(fb) {
				return true
			}
		}
		return narrowed(x.X, d+1)
	case *ssa.MakeInterface:
		return narrowed(x.X, d+1)
	case *ssa.Phi:
		for _, e := range x.Edges {
			if narrowed(e, d+1) {
				return true
			}
		}
	}
	return false
}

func derivesFromParam(v ssa.Value, p *ssa.Parameter, d int) bool {
	if d > 12 {
		return false
	}
	v = core.StripConv(v)
	switch x := v.(type) {
	case *ssa.Parameter:
		return x == p
	case *ssa.Convert:
		return derivesFromParam(x.X, p, d+1)
	case *ssa.Extract:
		return derivesFromParam(x.Tuple, p, d+1)
	case *ssa.TypeAssert:
		return derivesFromParam(x.X, p, d+1)
	case *ssa.Call:
		if x.Call.IsInvoke() {
			return derivesFromParam(x.Call.Value, p, d+1)
		}
		for _, a := range x.Call.Args {
			if derivesFromParam(a, p, d+1) {
				return true
			}
		}
	case *ssa.Phi:
		for _, e := range x.Edges {
			if derivesFromParam(e, p, d+1) {
				return true
			}
		}
	case *ssa.UnOp:
		return derivesFromParam(x.X, p, d+1)
	case *ssa.MakeInterface:
		return derivesFromParam(x.X, p, d+1)
	}
	return false
}

// isParamIdentity: v is the parameter itself, possibly through interface conversions and type assertions.
func isParamIdentity(v ssa.Value, p *ssa.Parameter, d int) bool {
	if d > 8 {
		return false
	}
	switch x := v.(type) {
	case *ssa.Parameter:
		return x == p
	case *ssa.MakeInterface:
		return isParamIdentity(x.X, p, d+1)
	case *ssa.ChangeInterface:
		return isParamIdentity(x.X, p, d+1)
	case *ssa.ChangeType:
		return isParamIdentity(x.X, p, d+1)
	case *ssa.Extract:
		return isParamIdentity(x.Tuple, p, d+1)
	case *ssa.TypeAssert:
		return isParamIdentity(x.X, p, d+1)
	case *ssa.Phi:
		for _, e := range x.Edges {
			if !isParamIdentity(e, p, d+1) {
				return false
			}
		}
		return len(x.Edges) > 0
	}
	return false
}

// derivesFromMarshalled: the value is (a conversion of) the closure's captured variable that holds the result of
// encoding/json.Marshal in the enclosing function (every store to it is result #0 of that call).
func derivesFromMarshalled(v ssa.Value) bool {
	v = core.StripConv(v)
	var fv *ssa.FreeVar
	switch x := v.(type) {
	case *ssa.Convert:
		return derivesFromMarshalled(x.X)
	case *ssa.MakeInterface:
		return derivesFromMarshalled(x.X)
	case *ssa.UnOp:
		if f, ok := x.X.(*ssa.FreeVar); ok && x.Op == token.MUL {
			fv = f
		}
	case *ssa.FreeVar:
		fv = x
	}
	if fv == nil {
		return false
	}
	isMarshal := func(val ssa.Value) bool {
		ex, ok := core.StripConv(val).(*ssa.Extract)
		if !ok || ex.Index != 0 {
			return false
		}
		call, ok := ex.Tuple.(*ssa.Call)
		return ok && call.Call.StaticCallee() != nil && core.FullName(call.Call.StaticCallee()) == "json.Marshal" &&
			call.Call.StaticCallee().Pkg != nil && call.Call.StaticCallee().Pkg.Pkg.Path() == "encoding/json"
	}
	b := core.FreeVarBinding(fv)
	if b == nil {
		return false
	}
	if al, ok := b.(*ssa.Alloc); ok {
		n := 0
		for _, ref := range *al.Referrers() {
			if st, ok := ref.(*ssa.Store); ok && st.Addr == al {
				if !isMarshal(st.Val) {
					return false
				}
				n++
			}
		}
		return n > 0
	}
	return isMarshal(b)
}

// variadicArgs returns the elements stored into the literal array behind a variadic slice.
func variadicArgs(v ssa.Value) []ssa.Value {
	sl, ok := v.(*ssa.Slice)
	if !ok {
		return nil
	}
	arr, ok := sl.X.(*ssa.Alloc)
	if !ok {
		return nil
	}
	at := arr.Type().Underlying().(*types.Pointer).Elem().Underlying().(*types.Array)
	out := make([]ssa.Value, at.Len())
	for _, r := range *arr.Referrers() {
		ia, ok := r.(*ssa.IndexAddr)
		if !ok {
			continue
		}
		i, _ := core.ConstInt(ia.Index)
		for _, r2 := range *ia.Referrers() {
			if st, ok := r2.(*ssa.Store); ok && int(i) < len(out) {
				out[i] = st.Val
			}
		}
	}
	for _, o := range out {
		if o == nil {
			return nil
		}
	}
	return out
}

// holdsValue: binding b (a cell or a value captured by a closure) holds val.
func holdsValue(b, val ssa.Value) bool {
	if b == val {
		return true
	}
	if a, ok := b.(*ssa.Alloc); ok {
		for _, r := range *a.Referrers() {
			if st, ok := r.(*ssa.Store); ok && st.Addr == ssa.Value(a) && st.Val == val {
				return true
			}
		}
	}
	return false
}

func mayBeNil(v ssa.Value, d int) bool {
	if d > 8 {
		return true
	}
	switch x := v.(type) {
	case *ssa.Const:
		return x.Value == nil
	case *ssa.Phi:
		for _, e := range x.Edges {
			if mayBeNil(e, d+1) {
				return true
			}
		}
		return false
	case *ssa.Call:
		return !definitelyNonNilError(x)
	case *ssa.MakeInterface:
		return false
	}
	return true
}

// flowsFrom: v is computed from src through conversions, extracts, type assertions and phis.
func flowsFrom(v, src ssa.Value, d int) bool {
	if d > 12 || v == nil {
		return false
	}
	if v == src {
		return true
	}
	switch x := v.(type) {
	case *ssa.Convert:
		return flowsFrom(x.X, src, d+1)
	case *ssa.ChangeType:
		return flowsFrom(x.X, src, d+1)
	case *ssa.Extract:
		return flowsFrom(x.Tuple, src, d+1)
	case *ssa.TypeAssert:
		return flowsFrom(x.X, src, d+1)
	case *ssa.Phi:
		for _, e := range x.Edges {
			if c, ok := e.(*ssa.Const); ok && c.Value != nil {
				continue // zero initialiser of a named result
			}
			if !flowsFrom(e, src, d+1) {
				return false
			}
		}
		return len(x.Edges) > 0
	}
	return false
}
