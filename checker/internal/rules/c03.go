package rules

import (
	"fmt"
	"go/ast"
	"go/constant"
	"go/token"
	"go/types"
	"sort"
	"strings"

	"golang.org/x/tools/go/ssa"

	"oryxverif/checker/internal/core"
)

func init() {
	register(&Property{
		ID: "C03",
		Explain: "Decided (structural): C03.dispatch-cmd - every exported constructor that builds a command packet type T (other than the generic CallPacket) with a constant " +
			"command name has a case for that name in the AMF command dispatcher that constructs *T; C03.dispatch-type - the constant returned by each packet type's Type() has a case " +
			"in DecodeMessage's message-type switch that constructs that type or routes to the command dispatcher, and unknown types return an error; C03.txn - a response is typed by " +
			"lookup+delete of its transaction in one critical section, a miss is an error, and the request->response table covers every request type the writer registers; " +
			"C03.order - each packet's UnmarshalBinary decodes its members in the order MarshalBinary emits them and advances by Size() of the member just decoded on the same slice; " +
			"C03.size/C03.ctl - (bit-provenance abstract interpretation) MarshalBinary yields exactly Size() bytes and the control packets' bytes are the RTMP 5.4 layouts in both directions, " +
			"all 65536 user-control event types covered by three symbolic partitions. " +
			"Not decided: equality of arbitrary AMF0 trees as arguments, ExpectPacket's reflection-based skipping, arbitrary request/response histories (only the per-step transaction code).",
		Assume: []string{"reflect/encoding/binary behave as documented", "amf0 child contracts len(Marshal)=Size and decode-consumes-Size are guaranteed by C05"},
		Run:    runC03,
	})
}

// packetTypes lists the named struct types of package rtmp whose pointer implements Packet.
func packetTypes(P *core.Program) []*types.Named {
	sp := P.SSAPkgs["rtmp"]
	if sp == nil {
		return nil
	}
	pk, _ := sp.Pkg.Scope().Lookup("Packet").(*types.TypeName)
	if pk == nil {
		return nil
	}
	iface, _ := pk.Type().Underlying().(*types.Interface)
	if iface == nil {
		return nil
	}
	var out []*types.Named
	for _, name := range sp.Pkg.Scope().Names() {
		tn, ok := sp.Pkg.Scope().Lookup(name).(*types.TypeName)
		if !ok {
			continue
		}
		n, ok := tn.Type().(*types.Named)
		if !ok {
			continue
		}
		if _, isStruct := n.Underlying().(*types.Struct); !isStruct {
			continue
		}
		if types.Implements(types.NewPointer(n), iface) {
			out = append(out, n)
		}
	}
	return out
}

// constMethodResult returns the constant a niladic method returns on every path.
func constMethodResult(fn *ssa.Function) (constant.Value, bool) {
	var val constant.Value
	for _, r := range core.Returns(fn) {
		if len(r.Results) != 1 {
			return nil, false
		}
		// promoted method: the synthetic wrapper returns the embedded type's result
		if call, isCall := r.Results[0].(*ssa.Call); isCall && fn.Synthetic != "" {
			if cal := call.Call.StaticCallee(); cal != nil && cal != fn {
				return constMethodResult(cal)
			}
		}
		c, ok := core.StripConv(r.Results[0]).(*ssa.Const)
		if !ok || c.Value == nil {
			return nil, false
		}
		if val != nil && !constant.Compare(val, 39 /*token.EQL*/, c.Value) {
			return nil, false
		}
		val = c.Value
	}
	return val, val != nil
}

// ctorCommandName finds, for an exported constructor, the constant stored into a field named
// CommandName of the object it returns, and the named type it returns.
func ctorCommandName(fn *ssa.Function) (name string, T *types.Named, ok bool) {
	res := fn.Signature.Results()
	if res.Len() != 1 {
		return
	}
	pt, isPtr := res.At(0).Type().(*types.Pointer)
	if !isPtr {
		return
	}
	T, _ = pt.Elem().(*types.Named)
	if T == nil {
		return "", nil, false
	}
	core.EachInstr(fn, func(in ssa.Instruction) {
		st, isSt := in.(*ssa.Store)
		if !isSt {
			return
		}
		fv := core.FieldVar(st.Addr)
		if fv == nil || fv.Name() != "CommandName" {
			return
		}
		if s, isC := core.ConstString(st.Val); isC {
			name, ok = s, true
		}
	})
	return
}

func hasField(n *types.Named, field string) bool {
	st, ok := n.Underlying().(*types.Struct)
	if !ok {
		return false
	}
	for i := 0; i < st.NumFields(); i++ {
		f := st.Field(i)
		if f.Name() == field {
			return true
		}
		if f.Embedded() {
			t := f.Type()
			if p, ok := t.(*types.Pointer); ok {
				t = p.Elem()
			}
			if en, ok := t.(*types.Named); ok && hasField(en, field) {
				return true
			}
		}
	}
	return false
}

func ptrTo(t types.Type, n *types.Named) bool {
	p, ok := t.(*types.Pointer)
	return ok && types.Identical(p.Elem(), n)
}

func runC03(c *Ctx) {
	P, R := c.P, c.R
	R.Require("C03.dispatch-cmd", 2)
	R.Require("C03.dispatch-type", 6)
	R.Require("C03.txn", 5)
	R.Require("C03.order", 8)
	R.Require("C03.wait", 3)
	for _, f := range P.ModuleFuncs("rtmp") {
		R.Funcs[core.QualName(f)] = true
	}

	parse := P.Func("rtmp", "(*Protocol).parseAMFObject")
	decode := P.Func("rtmp", "(*Protocol).DecodeMessage")
	if !R.Anchor(parse != nil, "C03.dispatch-cmd", "rtmp.(*Protocol).parseAMFObject") ||
		!R.Anchor(decode != nil, "C03.dispatch-type", "rtmp.(*Protocol).DecodeMessage") {
		return
	}
	_, info := P.Body(parse)
	pts := packetTypes(P)
	if !R.Anchor(len(pts) >= 10, "C03.dispatch-type", "rtmp.Packet implementations (>=10)") {
		return
	}
	callPacket := P.NamedType("rtmp", "CallPacket")

	// ---- C03.dispatch-cmd
	cmdSwitch := P.SwitchOnType(parse, "amf0.String")
	if cmdSwitch == nil {
		R.Unknown("C03.dispatch-cmd", "rtmp|(*Protocol).parseAMFObject|command-switch", P.Pos(parse.Pos()),
			"the command dispatcher is no longer a switch over the command name; the dispatch table cannot be extracted", nil)
	}
	type ctor struct {
		fn   *ssa.Function
		name string
		T    *types.Named
	}
	var ctors []ctor
	sp := P.SSAPkgs["rtmp"]
	var mnames []string
	for n := range sp.Members {
		mnames = append(mnames, n)
	}
	sort.Strings(mnames)
	for _, n := range mnames {
		fn, ok := sp.Members[n].(*ssa.Function)
		if !ok || fn.Object() == nil || !fn.Object().Exported() || !strings.HasPrefix(n, "New") {
			continue
		}
		if name, T, ok := ctorCommandName(fn); ok {
			ctors = append(ctors, ctor{fn, name, T})
		}
	}
	cmdOf := map[string]string{} // type name -> command name
	for _, ct := range ctors {
		cmdOf[core.TypeNameOf(ct.T.Obj())] = ct.name
		if cmdSwitch == nil {
			continue
		}
		if callPacket != nil && types.Identical(ct.T, callPacket) {
			continue // generic call: the dispatcher's default
		}
		if ct.name == "_result" || ct.name == "_error" {
			continue // typed by the outstanding request (C03.txn)
		}
		key := "rtmp|" + ct.fn.Name() + "|" + ct.name
		cs := cmdSwitch.CaseFor(constant.MakeString(ct.name))
		if cs == nil {
			R.Fail("C03.dispatch-cmd", key, P.Pos(ct.fn.Pos()),
				fmt.Sprintf("packets built by %s carry command %q but the command dispatcher has no case for it: the peer decodes them as the generic call packet, not as *%s",
					ct.fn.Name(), ct.name, core.TypeNameOf(ct.T.Obj())), nil)
			continue
		}
		rets, _ := core.ClauseResultTypes(info, cs.Clause)
		ok := false
		for _, t := range rets {
			if ptrTo(t, ct.T) {
				ok = true
			}
		}
		R.Check(ok, "C03.dispatch-cmd", key, P.Pos(cs.Clause.Pos()),
			fmt.Sprintf("command %q dispatches to *%s", ct.name, core.TypeNameOf(ct.T.Obj())),
			fmt.Sprintf("the dispatcher's case for %q does not construct *%s", ct.name, core.TypeNameOf(ct.T.Obj())), nil)
	}
	if cmdSwitch != nil {
		def := cmdSwitch.DefaultCase()
		okDef := false
		if def != nil && callPacket != nil {
			rets, _ := core.ClauseResultTypes(info, def.Clause)
			for _, t := range rets {
				if ptrTo(t, callPacket) {
					okDef = true
				}
			}
		}
		R.Check(okDef, "C03.dispatch-cmd", "rtmp|(*Protocol).parseAMFObject|default", P.Pos(cmdSwitch.Stmt.Pos()),
			"unknown commands decode as the generic call packet", "the command dispatcher has no default that yields the generic *CallPacket", nil)
	}

	// ---- C03.dispatch-type
	_, dinfo := P.Body(decode)
	typeSwitches := []*core.Switch{}
	for _, s := range P.Switches(decode) {
		if s.IsType || s.Tag == nil {
			continue
		}
		if t := dinfo.TypeOf(s.Tag); t != nil && strings.HasSuffix(types.TypeString(t, nil), "MessageType") {
			typeSwitches = append(typeSwitches, s)
		}
	}
	// the dispatching switch is the one with a default clause / constructing packets: take the one with most cases
	var tsw *core.Switch
	for _, s := range typeSwitches {
		if tsw == nil || len(s.Cases) > len(tsw.Cases) {
			tsw = s
		}
	}
	if tsw == nil {
		R.Unknown("C03.dispatch-type", "rtmp|(*Protocol).DecodeMessage|type-switch", P.Pos(decode.Pos()),
			"DecodeMessage no longer switches over the message type; the dispatch table cannot be extracted", nil)
	} else {
		for _, T := range pts {
			m := P.SSA.MethodSets.MethodSet(types.NewPointer(T)).Lookup(sp.Pkg, "Type")
			if m == nil {
				continue
			}
			tf := P.SSA.MethodValue(m)
			val, ok := constMethodResult(tf)
			key := "rtmp|" + core.TypeNameOf(T.Obj()) + "|Type"
			if !ok {
				R.Unknown("C03.dispatch-type", key, P.Pos(tf.Pos()), "Type() does not return one constant", nil)
				continue
			}
			cs := tsw.CaseFor(val)
			if cs == nil {
				R.Fail("C03.dispatch-type", key, P.Pos(tf.Pos()),
					fmt.Sprintf("message type %v of *%s has no case in DecodeMessage: such packets cannot be decoded by the peer", val, core.TypeNameOf(T.Obj())), nil)
				continue
			}
			_, assigns := core.ClauseResultTypes(dinfo, cs.Clause)
			rets, _ := core.ClauseResultTypes(dinfo, cs.Clause)
			constructs := false
			for _, t := range append(assigns, rets...) {
				if ptrTo(t, T) {
					constructs = true
				}
			}
			routes := false
			for _, o := range core.ClauseCalls(dinfo, cs.Clause) {
				if o == parse.Object() {
					routes = true
				}
			}
			isCmd := hasField(T, "CommandName")
			ok2 := (isCmd && routes) || (!isCmd && constructs)
			R.Check(ok2, "C03.dispatch-type", key, P.Pos(cs.Clause.Pos()),
				fmt.Sprintf("message type %v decodes to *%s (%s)", val, core.TypeNameOf(T.Obj()), map[bool]string{true: "via the command dispatcher", false: "constructed in the case"}[isCmd]),
				fmt.Sprintf("the case for message type %v neither constructs *%s nor routes to the command dispatcher", val, core.TypeNameOf(T.Obj())), nil)
		}
		def := tsw.DefaultCase()
		okDef := false
		if def != nil {
			n, nilErr := core.ClauseReturns(dinfo, def.Clause)
			okDef = n > 0 && nilErr == 0
		}
		R.Check(okDef, "C03.dispatch-type", "rtmp|(*Protocol).DecodeMessage|default", P.Pos(tsw.Stmt.Pos()),
			"unknown message types return an error", "DecodeMessage's message-type switch has no default that returns an error", nil)
	}

	// ---- C03.txn
	checkTxn(c, "C03.txn")
	checkResponseTable(c, parse, cmdOf)

	// ---- C03.wait: the typed waits examine every message they read
	checkWaits(c)
	// a response is typed by "the request previously sent": the request must be registered before its bytes can reach the
	// peer and never again afterwards (else an answered request is matched twice), and a sent Set Chunk Size must be
	// applied after the announcing message went out (else the peer cannot decode the packets that follow)
	checkDecodedMembersCounted(c, "C03.order")
	checkRegistrationOrder(c, "C03.txn")
	checkChunkSizeAppliedAs(c, "C03.ctl")

	// ---- C03.order
	checkMarshalOrder(c, pts)

	// ---- C03.size / C03.ctl (abstract interpretation)
	if absC03 != nil {
		absC03(c)
	}
}

// checkWaits: in ExpectPacket every successfully read message is decoded and its type compared
// before the next read or a successful return; in ExpectMessage every read message's type is
// compared with the requested types.
// reachesWithoutRead: to is reachable from from without executing a ReadMessage call (i.e. for the same message).
func reachesWithoutRead(from, to *ssa.BasicBlock, isCallTo func(ssa.Instruction, string) bool) bool {
	seen := map[*ssa.BasicBlock]bool{}
	var walk func(b *ssa.BasicBlock) bool
	walk = func(b *ssa.BasicBlock) bool {
		if seen[b] {
			return false
		}
		seen[b] = true
		if b != from {
			for _, in := range b.Instrs {
				if isCallTo(in, "(*Protocol).ReadMessage") {
					return false
				}
			}
		}
		if b == to && b != from {
			return true
		}
		for _, s := range b.Succs {
			if s == to {
				// the read (if any) in the target block precedes the decode only when it is the loop header; check instructions
				blocked := false
				for _, in := range s.Instrs {
					if isCallTo(in, "(*Protocol).ReadMessage") {
						blocked = true
					}
				}
				if !blocked {
					return true
				}
				continue
			}
			if walk(s) {
				return true
			}
		}
		return false
	}
	return walk(from)
}

// messageTypeSwitch: the expression switch over a MessageType value with the most cases in fn.
func messageTypeSwitch(P *core.Program, fn *ssa.Function) *core.Switch {
	_, info := P.Body(fn)
	var best *core.Switch
	for _, s := range P.Switches(fn) {
		if s.IsType || s.Tag == nil || info == nil {
			continue
		}
		if t := info.TypeOf(s.Tag); t != nil && strings.HasSuffix(types.TypeString(t, nil), "MessageType") {
			if best == nil || len(s.Cases) > len(best.Cases) {
				best = s
			}
		}
	}
	return best
}

// decodableTypes: the message types DecodeMessage has a packet for (the non-default cases of its dispatch switch).
func decodableTypes(P *core.Program) map[int64]bool {
	decode := P.Func("rtmp", "(*Protocol).DecodeMessage")
	if decode == nil {
		return nil
	}
	sw := messageTypeSwitch(P, decode)
	if sw == nil {
		return nil
	}
	out := map[int64]bool{}
	for _, cs := range sw.Cases {
		for _, k := range cs.Consts {
			if v, ok := constant.Int64Val(k); ok {
				out[v] = true
			}
		}
	}
	return out
}

func checkWaits(c *Ctx) {
	P, R := c.P, c.R
	isCallTo := func(in ssa.Instruction, name string) bool {
		call, ok := in.(*ssa.Call)
		return ok && call.Call.StaticCallee() != nil && core.FuncName(call.Call.StaticCallee()) == name
	}
	D := decodableTypes(P)
	// excludedOnEdge: on the edge from b to its idx-th successor the message type is known to differ from every type
	// DecodeMessage has a packet for (dominating inequality facts plus the fact the edge itself carries)
	typeTest := func(b *ssa.BasicBlock) (k int64, eq bool, ok bool) {
		if len(b.Instrs) == 0 {
			return
		}
		iff, isIf := b.Instrs[len(b.Instrs)-1].(*ssa.If)
		if !isIf {
			return
		}
		bo, isB := iff.Cond.(*ssa.BinOp)
		if !isB || (bo.Op != token.EQL && bo.Op != token.NEQ) {
			return
		}
		x, y := bo.X, bo.Y
		if _, isC := core.ConstInt(x); isC {
			x, y = y, x
		}
		kk, isC := core.ConstInt(y)
		if !isC || !strings.HasSuffix(core.Path(x), "MessageType") {
			return
		}
		return kk, bo.Op == token.EQL, true
	}
	excludedOnEdge := func(b *ssa.BasicBlock, idx int) bool {
		if len(D) == 0 {
			return false
		}
		neg := map[int64]bool{}
		for _, a := range core.GuardAtoms(b) {
			if a.Op != "!=" || !strings.HasSuffix(a.L, "MessageType") {
				continue
			}
			if k, ok := core.ConstInt(a.RV); ok {
				neg[k] = true
			}
		}
		if k, eq, ok := typeTest(b); ok && ((eq && idx == 1) || (!eq && idx == 0)) {
			neg[k] = true
		}
		for k := range D {
			if !neg[k] {
				return false
			}
		}
		return true
	}
	// the typed wait must not fail on a message that carries no packet (Acknowledgement, Abort, audio, video ...):
	// DecodeMessage returns an error for those, so they have to be skipped before it is called
	if ep := P.Func("rtmp", "(*Protocol).ExpectPacket"); R.Anchor(ep != nil && len(D) > 0, "C03.wait", "rtmp.(*Protocol).ExpectPacket / DecodeMessage dispatch") {
		// reaches the decode for the same message (no ReadMessage in between)
		var sameMsgDecode func(b *ssa.BasicBlock, seen map[*ssa.BasicBlock]bool) bool
		sameMsgDecode = func(b *ssa.BasicBlock, seen map[*ssa.BasicBlock]bool) bool {
			if seen[b] {
				return false
			}
			seen[b] = true
			for _, in := range b.Instrs {
				if isCallTo(in, "(*Protocol).ReadMessage") {
					return false
				}
				if isCallTo(in, "(*Protocol).DecodeMessage") {
					return true
				}
			}
			for _, s2 := range b.Succs {
				if sameMsgDecode(s2, seen) {
					return true
				}
			}
			return false
		}
		skips, leak := 0, ""
		compared := map[int64]bool{}
		for _, b := range ep.Blocks {
			if k, _, ok := typeTest(b); ok {
				compared[k] = true
			}
			for idx, s2 := range b.Succs {
				if excludedOnEdge(b, idx) {
					skips++
					if sameMsgDecode(s2, map[*ssa.BasicBlock]bool{}) {
						leak = "a message whose type has no packet still reaches DecodeMessage"
					}
				}
			}
		}
		for k := range compared {
			if !D[k] {
				leak = fmt.Sprintf("message type %d is let through to DecodeMessage, which has no packet for it", k)
			}
		}
		where := ""
		core.EachInstr(ep, func(in ssa.Instruction) {
			if isCallTo(in, "(*Protocol).DecodeMessage") {
				where = P.InstrPos(in)
			}
		})
		msg := "ExpectPacket hands every message to DecodeMessage (at " + where + "), which returns an error for the message types it has no packet for (Abort 2, Acknowledgement 3, audio 8, video 9, ...): the typed wait fails on such a message instead of skipping it"
		if skips > 0 && leak != "" {
			msg = "ExpectPacket's filter and DecodeMessage's dispatch disagree: " + leak
		}
		R.Check(skips > 0 && leak == "", "C03.wait", "rtmp|(*Protocol).ExpectPacket|skips-messages-without-a-packet", P.Pos(ep.Pos()),
			"messages of a type DecodeMessage has no packet for are skipped before decoding (the skipped set is exactly the complement of the dispatch switch)", msg, nil)
	}
	for _, w := range []struct{ fn, must, what string }{
		{"(*Protocol).ExpectPacket", "(*Protocol).DecodeMessage", "decoded"},
	} {
		fn := P.Func("rtmp", w.fn)
		if !R.Anchor(fn != nil, "C03.wait", "rtmp."+w.fn) {
			continue
		}
		n := 0
		core.EachInstr(fn, func(in ssa.Instruction) {
			if !isCallTo(in, "(*Protocol).ReadMessage") {
				return
			}
			call := in.(*ssa.Call)
			E, _ := errValueOf(call)
			if E == nil {
				return
			}
			// success edge of the error test
			for _, r := range *E.Referrers() {
				bo, ok := r.(*ssa.BinOp)
				if !ok {
					continue
				}
				for _, r2 := range *bo.Referrers() {
					iff, ok := r2.(*ssa.If)
					if !ok {
						continue
					}
					succ := iff.Block().Succs[1]
					if bo.Op.String() == "==" {
						succ = iff.Block().Succs[0]
					}
					n++
					// every path from the success edge to the next ReadMessage or to a return passes the decode
					seen := map[*ssa.BasicBlock]bool{}
					bad := ""
					var walk func(b *ssa.BasicBlock)
					walk = func(b *ssa.BasicBlock) {
						if seen[b] || bad != "" {
							return
						}
						seen[b] = true
						for _, x := range b.Instrs {
							if isCallTo(x, w.must) {
								return
							}
							if isCallTo(x, "(*Protocol).ReadMessage") {
								bad = "the next ReadMessage at " + P.InstrPos(x)
								return
							}
							if ret, ok := x.(*ssa.Return); ok {
								bad = "the return at " + P.InstrPos(ret)
								return
							}
						}
						for idx, s2 := range b.Succs {
							if excludedOnEdge(b, idx) {
								continue // a message without a packet: skipping it undecoded is right
							}
							walk(s2)
						}
					}
					walk(succ)
					R.Check(bad == "", "C03.wait", fmt.Sprintf("rtmp|%s|every-message-%s#%d", w.fn, w.what, n), P.InstrPos(call),
						"every message read by the typed wait is "+w.what+" before the next read or return",
						"a message read by the typed wait can reach "+bad+" without being "+w.what+": a packet of the requested type would be skipped", nil)
				}
			}
		})
		// the decoded packet's type is compared with the requested type, in this direction: the PACKET's dynamic type must
		// be assignable to the requested type (which may be an interface the packet implements)
		cmp := false
		core.EachInstr(fn, func(in ssa.Instruction) {
			call, ok := in.(*ssa.Call)
			if !ok || !call.Call.IsInvoke() || call.Call.Method.Name() != "AssignableTo" {
				return
			}
			// receiver: reflect.TypeOf(decoded packet); argument: derived from the requested pointer's type (.Elem())
			fromDecode := func(v ssa.Value) bool {
				for d := 0; d < 8; d++ {
					switch x := v.(type) {
					case *ssa.Call:
						if x.Call.StaticCallee() != nil && core.FullName(x.Call.StaticCallee()) == "reflect.TypeOf" {
							v = x.Call.Args[0]
							continue
						}
						if x.Call.StaticCallee() != nil && core.FuncName(x.Call.StaticCallee()) == "(*Protocol).DecodeMessage" {
							return true
						}
						return false
					case *ssa.Extract:
						v = x.Tuple
					case *ssa.MakeInterface:
						v = x.X
					case *ssa.ChangeInterface:
						v = x.X
					case *ssa.UnOp:
						// a spilled variable: look at what is stored
						stored := false
						if al, isA := x.X.(*ssa.Alloc); isA {
							for _, r := range *al.Referrers() {
								if st, isSt := r.(*ssa.Store); isSt && st.Addr == ssa.Value(al) {
									v, stored = st.Val, true
								}
							}
						}
						if !stored {
							return false
						}
					default:
						return false
					}
				}
				return false
			}
			fromRequested := func(v ssa.Value) bool {
				for d := 0; d < 8; d++ {
					switch x := v.(type) {
					case *ssa.Call:
						if x.Call.IsInvoke() && x.Call.Method.Name() == "Elem" {
							v = x.Call.Value
							continue
						}
						if x.Call.StaticCallee() != nil && core.FullName(x.Call.StaticCallee()) == "reflect.TypeOf" {
							_, isParam := core.StripConv(x.Call.Args[0]).(*ssa.Parameter)
							return isParam
						}
						return false
					case *ssa.UnOp:
						stored := false
						if al, isA := x.X.(*ssa.Alloc); isA {
							for _, r := range *al.Referrers() {
								if st, isSt := r.(*ssa.Store); isSt && st.Addr == ssa.Value(al) {
									v, stored = st.Val, true
								}
							}
						}
						if !stored {
							return false
						}
					default:
						return false
					}
				}
				return false
			}
			if fromDecode(call.Call.Value) && len(call.Call.Args) == 1 && fromRequested(call.Call.Args[0]) {
				cmp = true
			}
		})
		R.Check(cmp, "C03.wait", "rtmp|"+w.fn+"|type-compared", P.Pos(fn.Pos()),
			"the decoded packet's dynamic type is tested for assignability to the requested type", "the typed wait does not test 'type of the decoded packet is assignable to the requested type' (missing, or the direction is swapped): a wait for an interface type the packets implement never matches", nil)
	}
	if fn := P.Func("rtmp", "(*Protocol).ExpectMessage"); R.Anchor(fn != nil, "C03.wait", "rtmp.(*Protocol).ExpectMessage") {
		cmp := false
		core.EachInstr(fn, func(in ssa.Instruction) {
			if bo, ok := in.(*ssa.BinOp); ok && bo.Op.String() == "==" &&
				(strings.HasSuffix(core.Path(bo.X), ".MessageType") || strings.HasSuffix(core.Path(bo.Y), ".MessageType")) && core.InLoop(bo.Block()) {
				cmp = true
			}
		})
		R.Check(cmp, "C03.wait", "rtmp|(*Protocol).ExpectMessage|type-compared", P.Pos(fn.Pos()),
			"each read message's type is compared with every requested type", "ExpectMessage does not compare the read message's type with the requested types", nil)
	}
}

// absC03 is installed by the ABS-based rules (c03_abs.go).
var absC03 func(c *Ctx)

// checkResponseTable: the request-name switch in the response branch has a case for the command
// name of every packet type the writer registers, and it constructs a packet type.
func checkResponseTable(c *Ctx, parse *ssa.Function, cmdOf map[string]string) {
	P, R := c.P, c.R
	_, info := P.Body(parse)
	// the switch nested in the _result/_error clause: any amf0.String switch other than the outer one
	var inner *core.Switch
	outer := P.SwitchOnType(parse, "amf0.String")
	for _, s := range P.Switches(parse) {
		if s == outer || s.IsType || s.Tag == nil {
			continue
		}
		if outer != nil && s.Stmt.Pos() == outer.Stmt.Pos() {
			continue
		}
		if t := info.TypeOf(s.Tag); t != nil && strings.HasSuffix(types.TypeString(t, nil), "amf0.String") {
			inner = s
		}
	}
	if inner == nil {
		// the table moved into a helper: a function parseAMFObject calls whose switch is over one of its own
		// amf0.String parameters (the request name handed in)
		var callees []*ssa.Function
		core.EachInstr(parse, func(in ssa.Instruction) {
			if call, ok := in.(*ssa.Call); ok {
				if f := call.Call.StaticCallee(); f != nil && core.InModule(f) && f.Parent() == nil && len(f.Blocks) > 0 {
					callees = append(callees, f)
				}
			}
		})
		for _, f := range callees {
			_, finfo := P.Body(f)
			if finfo == nil {
				continue
			}
			if s := P.SwitchOnType(f, "amf0.String"); s != nil && inner == nil {
				if id, ok := s.Tag.(*ast.Ident); ok {
					if v, isVar := finfo.ObjectOf(id).(*types.Var); isVar {
						for i := 0; i < f.Signature.Params().Len(); i++ {
							if f.Signature.Params().At(i) == v {
								inner, info = s, finfo
							}
						}
					}
				}
			}
		}
	}
	var chain *cmpChain
	if inner == nil {
		// the table written as an if/else-if chain: comparisons of one amf0.String value (not the command name the
		// outer dispatch tests) with constants
		chain = stringCompareChain(P, parse)
	}
	if inner == nil && chain == nil {
		R.Unknown("C03.txn", "rtmp|(*Protocol).parseAMFObject|response-table", P.Pos(parse.Pos()),
			"the request->response table is no longer a switch (or an if/else-if chain) over the request name", nil)
		return
	}
	tablePos := ""
	if inner != nil {
		tablePos = P.Pos(inner.Stmt.Pos())
	} else {
		tablePos = chain.pos
	}
	// registered types: the type switch in the function that updates the transaction table
	var reg *ssa.Function
	for _, fn := range P.ModuleFuncs("rtmp") {
		if fn.Parent() != nil {
			continue
		}
		d := false
		core.EachInstr(fn, func(in ssa.Instruction) {
			if mu, ok := in.(*ssa.MapUpdate); ok && strings.HasSuffix(core.TypedPath(mu.Map), "input.transactions") {
				d = true
			}
		})
		if d {
			reg = fn
		}
	}
	if reg == nil {
		R.Fail("C03.txn", "rtmp|register", "?", "no function registers requests in Protocol.input.transactions", nil)
		return
	}
	checkTxnKey(c, "C03.txn", reg)
	// the packet types whose transactions are registered: the types the packet is tested for (a type switch and a chain
	// of comma-ok assertions are the same instructions)
	var regTypes []*types.Named
	// in the registering function, or in a module helper it calls with the packet (requestOfPacket(pkt))
	regScan := []*ssa.Function{reg}
	core.EachInstr(reg, func(in ssa.Instruction) {
		if call, ok := in.(*ssa.Call); ok {
			if f := call.Call.StaticCallee(); f != nil && core.InModule(f) && f.Parent() == nil && len(f.Blocks) > 0 && core.ShortPkg(f) == core.ShortPkg(reg) {
				regScan = append(regScan, f)
			}
		}
	})
	eachRegInstr := func(f func(in ssa.Instruction)) {
		for _, g := range regScan {
			core.EachInstr(g, f)
		}
	}
	eachRegInstr(func(in ssa.Instruction) {
		ta, ok := in.(*ssa.TypeAssert)
		if !ok || !ta.CommaOk {
			return
		}
		if _, isPar := core.StripConv(ta.X).(*ssa.Parameter); !isPar {
			return
		}
		if p, ok := ta.AssertedType.(*types.Pointer); ok {
			if n, ok := p.Elem().(*types.Named); ok {
				for _, o := range regTypes {
					if o == n {
						return
					}
				}
				regTypes = append(regTypes, n)
			}
		}
	})
	if len(regTypes) == 0 {
		R.Unknown("C03.txn", "rtmp|"+core.FuncName(reg)+"|registered-types", P.Pos(reg.Pos()),
			"cannot extract the packet types whose transactions are registered (no type switch)", nil)
		return
	}
	for _, T := range regTypes {
		name, ok := cmdOf[core.TypeNameOf(T.Obj())]
		key := "rtmp|response-for|" + core.TypeNameOf(T.Obj())
		if !ok {
			R.Unknown("C03.txn", key, P.Pos(reg.Pos()), "no constructor with a constant command name for registered type "+core.TypeNameOf(T.Obj()), nil)
			continue
		}
		var rets []types.Type
		casePos := tablePos
		if inner != nil {
			cs := inner.CaseFor(constant.MakeString(name))
			if cs == nil {
				R.Fail("C03.txn", key, tablePos,
					fmt.Sprintf("requests of type *%s (%q) are registered but the response table has no entry for %q: their _result cannot be typed", core.TypeNameOf(T.Obj()), name, name), nil)
				continue
			}
			rets, _ = core.ClauseResultTypes(info, cs.Clause)
			casePos = P.Pos(cs.Clause.Pos())
		} else {
			blk, ok := chain.cases[name]
			if !ok {
				R.Fail("C03.txn", key, tablePos,
					fmt.Sprintf("requests of type *%s (%q) are registered but the response table has no entry for %q: their _result cannot be typed", core.TypeNameOf(T.Obj()), name, name), nil)
				continue
			}
			rets = returnTypesUnder(parseFnOf(chain), blk)
			casePos = P.Pos(blk.Instrs[0].Pos())
		}
		okT := false
		var rt string
		for _, t := range rets {
			if p, isP := t.(*types.Pointer); isP {
				if n, isN := p.Elem().(*types.Named); isN && hasField(n, "CommandName") && !types.Identical(n, T) {
					okT = true
					rt = core.TypeNameOf(n.Obj())
				}
			}
		}
		R.Check(okT, "C03.txn", key, casePos,
			fmt.Sprintf("a _result for %q is decoded as *%s", name, rt),
			fmt.Sprintf("the response table entry for %q does not construct a response packet", name), nil)
	}
	okDef := false
	if inner != nil {
		if def := inner.DefaultCase(); def != nil {
			n, nilErr := core.ClauseReturns(info, def.Clause)
			okDef = n > 0 && nilErr == 0
		}
	} else if chain.rest != nil {
		// what follows the last comparison's false edge: every return there reports an error
		n, nilErr := 0, 0
		fn := parseFnOf(chain)
		ei := core.ErrResultIndex(fn)
		for _, r := range core.Returns(fn) {
			if r.Block() == chain.rest || chain.rest.Dominates(r.Block()) {
				n++
				if ei >= 0 && core.IsNilConst(core.ReturnOperand(r, ei)) {
					nilErr++
				}
			}
		}
		okDef = n > 0 && nilErr == 0
	}
	R.Check(okDef, "C03.txn", "rtmp|(*Protocol).parseAMFObject|response-table-default", tablePos,
		"a response to a request of unknown kind is an error", "the response table has no default that returns an error", nil)
}

// cmpChain is a request->response table written as comparisons of one string value with constants.
type cmpChain struct {
	fn    *ssa.Function
	pos   string
	cases map[string]*ssa.BasicBlock // constant -> block entered when the comparison holds
	rest  *ssa.BasicBlock            // block entered when the last comparison fails
}

func parseFnOf(c *cmpChain) *ssa.Function { return c.fn }

// stringCompareChain finds, in fn or a module function it calls, the group of `x == "const"` branches over one
// amf0.String value x that does not test the response command names themselves ("_result"/"_error").
func stringCompareChain(P *core.Program, fn *ssa.Function) *cmpChain {
	cands := []*ssa.Function{fn}
	core.EachInstr(fn, func(in ssa.Instruction) {
		if call, ok := in.(*ssa.Call); ok {
			if f := call.Call.StaticCallee(); f != nil && core.InModule(f) && f.Parent() == nil && len(f.Blocks) > 0 {
				cands = append(cands, f)
			}
		}
	})
	for _, f := range cands {
		groups := map[string]*cmpChain{}
		var order []string
		for _, b := range f.DomPreorder() {
			if len(b.Instrs) == 0 {
				continue
			}
			iff, ok := b.Instrs[len(b.Instrs)-1].(*ssa.If)
			if !ok {
				continue
			}
			bo, ok := iff.Cond.(*ssa.BinOp)
			if !ok || bo.Op != token.EQL {
				continue
			}
			x, k := bo.X, bo.Y
			if _, isC := core.StripConv(x).(*ssa.Const); isC {
				x, k = k, x
			}
			name, isStr := core.ConstString(k)
			if !isStr || !strings.HasSuffix(types.TypeString(x.Type(), nil), "amf0.String") {
				continue
			}
			p := core.Path(x)
			g := groups[p]
			if g == nil {
				g = &cmpChain{fn: f, pos: P.InstrPos(iff), cases: map[string]*ssa.BasicBlock{}}
				groups[p] = g
				order = append(order, p)
			}
			g.cases[name] = b.Succs[0]
			g.rest = b.Succs[1]
		}
		for _, p := range order {
			g := groups[p]
			if _, outer := g.cases["_result"]; outer {
				continue
			}
			if len(g.cases) >= 2 {
				return g
			}
		}
	}
	return nil
}

// returnTypesUnder lists the dynamic types of the first result of the returns dominated by blk.
func returnTypesUnder(fn *ssa.Function, blk *ssa.BasicBlock) []types.Type {
	var out []types.Type
	for _, r := range core.Returns(fn) {
		if (r.Block() == blk || blk.Dominates(r.Block())) && len(r.Results) > 0 {
			v := core.ReturnOperand(r, 0)
			if mi, ok := v.(*ssa.MakeInterface); ok {
				out = append(out, mi.X.Type())
			} else {
				out = append(out, v.Type())
			}
		}
	}
	return out
}

// memberCalls lists, in execution order along the dominator-ordered blocks, the receivers
// (access paths relative to the method receiver) of calls to a method named meth.
type memberCall struct {
	path string
	call *ssa.Call
}

func memberCalls(fn *ssa.Function, meth string) []memberCall {
	var out []memberCall
	// reverse post-order = source order for these straight-line-with-early-return functions
	for _, b := range fn.DomPreorder() {
		for _, in := range b.Instrs {
			call, ok := in.(*ssa.Call)
			if !ok {
				continue
			}
			var recv ssa.Value
			name := ""
			if call.Call.IsInvoke() {
				recv, name = call.Call.Value, call.Call.Method.Name()
			} else if f := call.Call.StaticCallee(); f != nil && f.Signature.Recv() != nil && len(call.Call.Args) > 0 {
				recv, name = call.Call.Args[0], f.Name()
			}
			if name != meth || recv == nil {
				continue
			}
			p := core.Path(recv)
			if i := strings.Index(p, "."); i >= 0 {
				p = p[i+1:]
			} else {
				continue // the receiver itself
			}
			out = append(out, memberCall{p, call})
		}
	}
	return out
}

// checkMarshalOrder implements C03.order.
func checkMarshalOrder(c *Ctx, pts []*types.Named) {
	P, R := c.P, c.R
	sp := P.SSAPkgs["rtmp"]
	// also the two embedded bases
	var all []*types.Named
	all = append(all, pts...)
	for _, n := range []string{"objectCallPacket", "variantCallPacket"} {
		if t := P.NamedType("rtmp", n); t != nil {
			all = append(all, t)
		}
	}
	seen := map[*ssa.Function]bool{}
	for _, T := range all {
		ms := P.SSA.MethodSets.MethodSet(types.NewPointer(T))
		mSel, uSel := ms.Lookup(sp.Pkg, "MarshalBinary"), ms.Lookup(sp.Pkg, "UnmarshalBinary")
		if mSel == nil || uSel == nil {
			continue
		}
		mf, uf := P.SSA.MethodValue(mSel), P.SSA.MethodValue(uSel)
		// promoted methods are synthetic wrappers: analyse the declaring type only
		if mf.Synthetic != "" || uf.Synthetic != "" || seen[uf] {
			continue
		}
		seen[uf] = true
		mc := memberCalls(mf, "MarshalBinary")
		uc := memberCalls(uf, "UnmarshalBinary")
		if len(mc) == 0 && len(uc) == 0 {
			continue // leaf codec (control packets): C03.ctl
		}
		var ms1, us1 []string
		for _, x := range mc {
			ms1 = append(ms1, x.path)
		}
		for _, x := range uc {
			us1 = append(us1, x.path)
		}
		key := "rtmp|" + core.TypeNameOf(T.Obj()) + "|member-order"
		R.Check(strings.Join(ms1, ",") == strings.Join(us1, ","), "C03.order", key, P.Pos(uf.Pos()),
			"members are decoded in the order they are encoded: "+strings.Join(ms1, ", "),
			"UnmarshalBinary decodes members in a different order than MarshalBinary encodes them",
			map[string]interface{}{"marshal": ms1, "unmarshal": us1})
		// every advance p = p[X.Size():] uses the member just decoded on the same slice value
		checkAdvances(c, "C03.order", "rtmp|"+core.TypeNameOf(T.Obj()), uf)
	}
}

// checkAdvances: in fn, every slice expression s[n:] whose low bound is X.Size() must be
// dominated by a successful X.UnmarshalBinary(s) on the same slice value s, with no other
// UnmarshalBinary in between; and conversely every member UnmarshalBinary(s) that is followed by
// another decode must be followed by such an advance.
func checkAdvances(c *Ctx, rule, keyBase string, fn *ssa.Function) {
	P, R := c.P, c.R
	counts := map[string]int{}
	core.EachInstr(fn, func(in ssa.Instruction) {
		sl, ok := in.(*ssa.Slice)
		if !ok || sl.Low == nil || sl.High != nil {
			return
		}
		if _, isSlice := sl.X.Type().Underlying().(*types.Slice); !isSlice {
			return
		}
		low := core.StripConv(sl.Low)
		call, ok := low.(*ssa.Call)
		if !ok {
			if _, isConst := core.ConstInt(sl.Low); isConst {
				return
			}
			return
		}
		var recv ssa.Value
		name := ""
		if call.Call.IsInvoke() {
			recv, name = call.Call.Value, call.Call.Method.Name()
		} else if f := call.Call.StaticCallee(); f != nil && f.Signature.Recv() != nil && len(call.Call.Args) > 0 {
			recv, name = call.Call.Args[0], f.Name()
		}
		if name != "Size" {
			return
		}
		rp := core.Path(recv)
		key := ordKey(counts, keyBase+"|advance-by|"+trimRoot(rp))
		// find the dominating UnmarshalBinary call on the same receiver path with the same slice value
		found, sameSlice, guarded := false, false, false
		core.EachInstr(fn, func(in2 ssa.Instruction) {
			uc, ok := in2.(*ssa.Call)
			if !ok {
				return
			}
			var r2 ssa.Value
			n2 := ""
			var arg ssa.Value
			if uc.Call.IsInvoke() {
				r2, n2 = uc.Call.Value, uc.Call.Method.Name()
				if len(uc.Call.Args) > 0 {
					arg = uc.Call.Args[0]
				}
			} else if f := uc.Call.StaticCallee(); f != nil && f.Signature.Recv() != nil && len(uc.Call.Args) > 1 {
				r2, n2, arg = uc.Call.Args[0], f.Name(), uc.Call.Args[1]
			}
			if n2 != "UnmarshalBinary" || core.Path(r2) != rp || !core.Precedes(uc, sl) {
				return
			}
			found = true
			if sameValue(arg, sl.X) {
				sameSlice = true
			}
			// the advance must be on the success edge of the error test
			for _, g := range core.GuardAtoms(sl.Block()) {
				if g.Op == "==" && g.R == "nil" && (g.LV == ssa.Value(uc) || derivesFrom(g.LV, uc)) {
					guarded = true
				}
			}
		})
		switch {
		case !found:
			R.Fail(rule, key, P.InstrPos(sl), "the cursor advances by "+trimRoot(rp)+".Size() but that member was not decoded before", nil)
		case !sameSlice:
			R.Fail(rule, key, P.InstrPos(sl), "the cursor advances by "+trimRoot(rp)+".Size() on a different slice than the one that member was decoded from", nil)
		case !guarded:
			R.Fail(rule, key, P.InstrPos(sl), "the cursor advances by "+trimRoot(rp)+".Size() without the decode having succeeded (error not tested)", nil)
		default:
			R.OK(rule, key, P.InstrPos(sl), "cursor advances by Size() of the member just decoded from the same slice")
		}
	})
}

func trimRoot(p string) string {
	if i := strings.Index(p, "."); i >= 0 {
		return p[i+1:]
	}
	return p
}

// sameValue: two SSA values denote the same slice value (identical, or both loads of the same
// cell with no store in between is approximated by identical access path for cells).
func sameValue(a, b ssa.Value) bool {
	if a == b {
		return true
	}
	sa, sb := core.StripConv(a), core.StripConv(b)
	if sa == sb {
		return true
	}
	// s[:] of the same value
	if x, ok := sa.(*ssa.Slice); ok && x.Low == nil && x.High == nil {
		return sameValue(x.X, b)
	}
	if x, ok := sb.(*ssa.Slice); ok && x.Low == nil && x.High == nil {
		return sameValue(a, x.X)
	}
	return false
}

func derivesFrom(v ssa.Value, call *ssa.Call) bool {
	switch x := v.(type) {
	case *ssa.Extract:
		return x.Tuple == ssa.Value(call)
	case *ssa.Phi:
		for _, e := range x.Edges {
			if e == ssa.Value(call) || derivesFrom(e, call) {
				return true
			}
		}
	}
	return v == ssa.Value(call)
}

// checkTxnKey: the key used to register and to match a request is the transaction id itself (shared by C03 and C04).
func checkTxnKey(c *Ctx, rule string, reg *ssa.Function) {
	P, R := c.P, c.R
	// the key used to register and to match is the transaction id itself: no conversion that can map two ids onto one
	// (a float64 id cut to an integer would match 2.5 with 2, or wrap)
	nKeys := 0
	lossy := ""
	for _, fn := range P.ModuleFuncs("rtmp") {
		core.EachInstr(fn, func(in ssa.Instruction) {
			var m, k ssa.Value
			switch x := in.(type) {
			case *ssa.MapUpdate:
				m, k = x.Map, x.Key
			case *ssa.Lookup:
				m, k = x.X, x.Index
			case *ssa.Call:
				if b, ok := x.Call.Value.(*ssa.Builtin); ok && b.Name() == "delete" {
					m, k = x.Call.Args[0], x.Call.Args[1]
				}
			}
			if m == nil || !strings.HasSuffix(core.TypedPath(m), "input.transactions") {
				return
			}
			nKeys++
			// the table is keyed by the id's own type (a narrower key type means a conversion somewhere)
			if mt, ok := m.Type().Underlying().(*types.Map); ok && !strings.HasSuffix(types.TypeString(mt.Key(), nil), "amf0.Number") {
				lossy = fmt.Sprintf("the transaction table of %s is keyed by %s, not by the AMF0 number the id is", core.QualName(fn), mt.Key())
			}
			// the key may be computed by a helper (transactionKey(tid)): look at the expression it stands for
			res := core.NewResolver(false)
			for v, d := k, 0; d < 6; d++ {
				if rv := res.V(v); rv != nil {
					if _, isCv := rv.(*ssa.Convert); isCv || rv != core.StripConv(v) {
						v = rv
					}
				}
				switch y := v.(type) {
				case *ssa.ChangeType:
					v = y.X
					continue
				case *ssa.Convert:
					lossy = fmt.Sprintf("%s at %s converts the id from %s to %s", core.QualName(fn), P.InstrPos(in), y.X.Type(), y.Type())
				}
				break
			}
		})
	}
	R.Check(lossy == "" && nKeys >= 3, rule, "rtmp|transaction-key|is-the-id-itself", P.Pos(reg.Pos()),
		fmt.Sprintf("requests are registered and responses matched (%d key uses) under the transaction id itself", nKeys),
		"the transaction table is keyed by a converted id ("+lossy+"): two different ids can match one request, so a response is typed by a request it does not answer", nil)
}
