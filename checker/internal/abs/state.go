package abs

import (
	"fmt"
	"go/types"
	"sort"
	"strings"
	"time"
)

// AtomInfo is the domain of one input atom.
type AtomInfo struct {
	W      int   // significant bits (bits above are 0)
	Lo, Hi int64 // inclusive interval; Hi < 0 = unbounded above
}

// Path is the state of one explored path.
type Path struct {
	readSeq  int       // transport reads met so far (FailReads)
	deadline time.Time // wall-clock limit of the run this path belongs to
	E        *Engine

	decisions []bool
	dpos      int
	Forks     []string // predicate keys decided by fork, in order

	Bind    map[string]map[int]bool // atom -> bit -> value (refinements from equality forks and variant bindings)
	Cons    []*Lin                  // each >= 0
	Assumed map[string]bool         // opaque predicate key -> truth
	Atoms   map[string]*AtomInfo

	nextObj  int
	Sinks    map[string]*Obj // writer access path -> bytes written
	Notes    []string
	Bounds   []BoundOb
	NilNames map[string]bool  // lazily symbolic pointers/interfaces/slices with these names are nil
	Keep     map[string]Value // harness scratch: arguments kept for result inspection
	Abort    string           // non-empty: the path could not be interpreted ("unsupported ...")
	Panics   string           // non-empty: the path ends in a panic
	steps    int
}

// BoundOb is one bounds obligation met on a path.
type BoundOb struct {
	Pos    string
	Func   string
	What   string
	Proven bool
	Detail string
}

func (p *Path) newObj(kind ObjKind, name string) *Obj {
	p.nextObj++
	return &Obj{ID: p.nextObj, Kind: kind, Name: name, Fields: map[int]Value{}}
}

func (p *Path) note(format string, a ...interface{}) {
	if len(p.Notes) < 64 {
		p.Notes = append(p.Notes, fmt.Sprintf(format, a...))
	}
}

func (p *Path) abort(format string, a ...interface{}) {
	if p.Abort == "" {
		p.Abort = fmt.Sprintf(format, a...)
	}
}

// ---------------------------------------------------------------------------------------------
// atoms

func (p *Path) atomInfo(a string) *AtomInfo {
	if ai, ok := p.Atoms[a]; ok {
		return ai
	}
	return nil
}

// DeclareAtom fixes the domain of an atom for this path.
func (p *Path) DeclareAtom(a string, w int, lo, hi int64) {
	p.Atoms[a] = &AtomInfo{W: w, Lo: lo, Hi: hi}
}

// SymInt creates the integer "atom a" of Go width w (domain from the declarations, default full width).
func (p *Path) SymInt(a string, w int, signed bool) *Int {
	ai := p.atomInfo(a)
	if ai == nil {
		hi := int64(-1)
		if w < 63 && !signed {
			hi = (int64(1) << uint(w)) - 1
		}
		lo := int64(0)
		if signed {
			// signed inputs are treated as their two's complement bit pattern; no linear form
			v := &Int{W: w, Signed: signed, Bits: make([]Bit, w)}
			for i := 0; i < w; i++ {
				v.Bits[i] = p.resolveBit(Bit{K: BSym, A: a, I: i})
			}
			return v
		}
		ai = &AtomInfo{W: w, Lo: lo, Hi: hi}
		p.Atoms[a] = ai
	}
	v := &Int{W: w, Signed: signed, Bits: make([]Bit, w), Lin: LAtom(a)}
	for i := 0; i < w; i++ {
		if i < ai.W {
			v.Bits[i] = p.resolveBit(Bit{K: BSym, A: a, I: i})
		} else {
			v.Bits[i] = bit0
		}
	}
	if c, ok := v.Const(); ok {
		v.Lin = LConst(c)
	}
	return v
}

func (p *Path) resolveBit(b Bit) Bit {
	if b.K != BSym {
		return b
	}
	if m, ok := p.Bind[b.A]; ok {
		if v, ok := m[b.I]; ok {
			if v {
				return bit1
			}
			return bit0
		}
	}
	// a derived atom ("len(x)+1") whose definition evaluates to a constant under the bindings
	if strings.ContainsAny(b.A, "+-*") {
		if def := ParseLin(b.A); def != nil && len(def.T) > 0 {
			val := def.C
			for a, c := range def.T {
				av, ok := p.atomConst(a)
				if !ok {
					return b
				}
				val += c * av
			}
			if val >= 0 && b.I < 63 {
				if uint64(val)&(1<<uint(b.I)) != 0 {
					return bit1
				}
				return bit0
			}
		}
	}
	return b
}

// atomConst returns the value of an atom whose significant bits are all bound.
func (p *Path) atomConst(a string) (int64, bool) {
	ai := p.atomInfo(a)
	if ai == nil {
		return 0, false
	}
	if ai.Hi >= 0 && ai.Lo == ai.Hi {
		return ai.Lo, true
	}
	m := p.Bind[a]
	var v int64
	for i := 0; i < ai.W; i++ {
		bit, ok := m[i]
		if !ok {
			return 0, false
		}
		if bit {
			v |= 1 << uint(i)
		}
	}
	return v, ai.W > 0 || ai.Hi == 0
}

// ParseLin parses the canonical rendering of a linear form ("len(x)+7", "2*a-b+1"); nil on failure.
func ParseLin(s string) *Lin {
	out := &Lin{T: map[string]int64{}}
	depth := 0
	start := 0
	sign := int64(1)
	flush := func(end int, nextSign int64) bool {
		tok := strings.TrimSpace(s[start:end])
		if tok != "" {
			coef := sign
			if i := strings.Index(tok, "*"); i > 0 {
				var k int64
				if _, err := fmt.Sscanf(tok[:i], "%d", &k); err == nil {
					coef *= k
					tok = tok[i+1:]
				}
			}
			var k int64
			if n, err := fmt.Sscanf(tok, "%d", &k); err == nil && n == 1 && fmt.Sprint(k) == tok {
				out.C += coef * k
			} else {
				out.T[tok] += coef
			}
		}
		sign = nextSign
		start = end + 1
		return true
	}
	for i := 0; i < len(s); i++ {
		switch s[i] {
		case '(', '[':
			depth++
		case ')', ']':
			depth--
		case '+':
			if depth == 0 && i > 0 {
				flush(i, 1)
			}
		case '-':
			if depth == 0 {
				if i == start {
					sign = -1
					start = i + 1
				} else {
					flush(i, -1)
				}
			}
		}
	}
	flush(len(s), 1)
	if depth != 0 {
		return nil
	}
	return out
}

func (p *Path) bindBit(b Bit, val bool) {
	if b.K != BSym {
		return
	}
	if p.Bind[b.A] == nil {
		p.Bind[b.A] = map[int]bool{}
	}
	p.Bind[b.A][b.I] = val
}

// BindAtom binds all bits of an atom to a constant.
func (p *Path) BindAtom(a string, c int64, w int) {
	for i := 0; i < w; i++ {
		p.bindBit(Bit{K: BSym, A: a, I: i}, uint64(c)&(1<<uint(i)) != 0)
	}
	p.Atoms[a] = &AtomInfo{W: w, Lo: c, Hi: c}
}

// BindBit binds one bit of an atom.
func (p *Path) BindBit(a string, i int, val bool) { p.bindBit(Bit{K: BSym, A: a, I: i}, val) }

// norm re-resolves the bits of v against the current bindings.
func (p *Path) norm(v *Int) *Int {
	changed := false
	for _, b := range v.Bits {
		if b.K == BSym {
			if r := p.resolveBit(b); r != b {
				changed = true
				break
			}
		}
	}
	if !changed {
		return v
	}
	o := &Int{W: v.W, Signed: v.Signed, Bits: make([]Bit, len(v.Bits)), Lin: v.Lin}
	for i, b := range v.Bits {
		o.Bits[i] = p.resolveBit(b)
	}
	if c, ok := (&Int{W: o.W, Signed: o.Signed, Bits: o.Bits}).Const(); ok {
		o.Lin = LConst(c)
	}
	return o
}

// ---------------------------------------------------------------------------------------------
// linear reasoning

func (p *Path) atomRange(a string) (lo int64, hi int64, hiKnown bool) {
	if ai := p.atomInfo(a); ai != nil {
		return ai.Lo, ai.Hi, ai.Hi >= 0
	}
	if strings.HasPrefix(a, "len(") {
		return 0, 0, false
	}
	return 0, 0, false
}

// lowerBound returns the minimum of l over the atom intervals (ok=false: unbounded below).
func (p *Path) lowerBound(l *Lin) (int64, bool) {
	lb, ok := p.lowerBoundIv(l)
	// a path constraint c >= 0 with l - c constant gives l >= that constant
	for _, c := range p.Cons {
		d := l.Sub(c)
		if d.IsConst() && (!ok || d.C > lb) {
			lb, ok = d.C, true
		}
	}
	return lb, ok
}

func (p *Path) lowerBoundIv(l *Lin) (int64, bool) {
	lb := l.C
	for a, c := range l.T {
		lo, hi, hk := p.atomRange(a)
		if ai := p.atomInfo(a); ai == nil && !strings.HasPrefix(a, "len(") {
			return 0, false
		}
		if c > 0 {
			lb += c * lo
		} else {
			if !hk {
				return 0, false
			}
			lb += c * hi
		}
	}
	return lb, true
}

// Prove reports whether l >= 0 follows from the atom intervals and the path constraints.
func (p *Path) Prove(l *Lin) bool {
	if lb, ok := p.lowerBound(l); ok && lb >= 0 {
		return true
	}
	for _, c := range p.Cons {
		d := l.Sub(c)
		if lb, ok := p.lowerBound(d); ok && lb >= 0 {
			return true
		}
	}
	if len(p.Cons) <= 24 {
		for i, c1 := range p.Cons {
			for _, c2 := range p.Cons[i:] {
				d := l.Sub(c1).Sub(c2)
				if lb, ok := p.lowerBound(d); ok && lb >= 0 {
					return true
				}
			}
		}
	}
	return false
}

// ProveEq reports whether l == 0 is implied.
func (p *Path) ProveEq(l *Lin) bool {
	if l.IsConst() {
		return l.C == 0
	}
	return p.Prove(l) && p.Prove(l.Scale(-1))
}

func (p *Path) addCons(l *Lin) {
	if l.IsConst() {
		return
	}
	// refine single-atom intervals
	if len(l.T) == 1 {
		for a, c := range l.T {
			ai := p.atomInfo(a)
			if ai == nil && strings.HasPrefix(a, "len(") {
				ai = &AtomInfo{W: 63, Lo: 0, Hi: -1}
				p.Atoms[a] = ai
			}
			if ai != nil {
				n := *ai
				if c == 1 && -l.C > n.Lo { // a >= -C
					n.Lo = -l.C
				}
				if c == -1 && (n.Hi < 0 || l.C < n.Hi) { // a <= C
					n.Hi = l.C
				}
				p.Atoms[a] = &n
			}
		}
	}
	p.Cons = append(p.Cons, l)
}

// ---------------------------------------------------------------------------------------------
// forking

// decide resolves an abstract boolean, forking (by re-execution) when it is undecided.
func (p *Path) decide(b *Bool, where string) bool {
	if b.Known {
		return b.Val
	}
	key := "?" + where
	if b.Pred != nil {
		key = b.Pred.Key
		if v, ok := p.Assumed[key]; ok {
			return v
		}
	}
	var choice bool
	if p.dpos < len(p.decisions) {
		choice = p.decisions[p.dpos]
	} else {
		choice = true
		p.decisions = append(p.decisions, true)
	}
	p.dpos++
	p.Forks = append(p.Forks, fmt.Sprintf("%s=%v", key, choice))
	p.assume(b.Pred, key, choice)
	return choice
}

func (p *Path) assume(pr *Pred, key string, val bool) {
	p.Assumed[key] = val
	if pr == nil {
		return
	}
	truth := val != pr.Neg // truth of the positive form
	if pr.Lin != nil {
		if truth {
			p.addCons(pr.Lin)
		} else {
			p.addCons(pr.Lin.Scale(-1).Add(LConst(-1))) // not(l>=0)  ==  -l-1 >= 0
		}
	}
	if pr.EqBits != nil {
		var syms []int
		for i, b := range pr.EqBits {
			if b.K == BSym {
				syms = append(syms, i)
			}
		}
		if truth {
			for _, i := range syms {
				p.bindBit(pr.EqBits[i], pr.EqC[i].K == B1)
			}
		} else if len(syms) == 1 {
			i := syms[0]
			p.bindBit(pr.EqBits[i], pr.EqC[i].K != B1)
		}
	}
	if pr.BoolA != nil {
		p.bindBit(*pr.BoolA, truth)
	}
	if pr.EqLin != nil && truth {
		p.addCons(pr.EqLin)
		p.addCons(pr.EqLin.Scale(-1))
	}
	if pr.EqLin != nil && !truth {
		// d != 0 on a path that already knows the sign of d (a length compared with 0: len(x) != 0 is len(x) >= 1)
		if p.Prove(pr.EqLin) {
			p.addCons(pr.EqLin.Add(LConst(-1)))
		} else if p.Prove(pr.EqLin.Scale(-1)) {
			p.addCons(pr.EqLin.Scale(-1).Add(LConst(-1)))
		}
	}
}

// AssumeLin adds the constraint l >= 0 to the path (variant assumptions).
func (p *Path) AssumeLin(l *Lin) { p.addCons(l) }

// ---------------------------------------------------------------------------------------------
// rendering helpers

func typeWidth(t types.Type) (w int, signed bool, ok bool) {
	b, isB := t.Underlying().(*types.Basic)
	if !isB {
		return 0, false, false
	}
	switch b.Kind() {
	case types.Int8:
		return 8, true, true
	case types.Uint8:
		return 8, false, true
	case types.Int16:
		return 16, true, true
	case types.Uint16:
		return 16, false, true
	case types.Int32, types.UntypedRune:
		return 32, true, true
	case types.Uint32:
		return 32, false, true
	case types.Int64, types.Int, types.UntypedInt:
		return 64, true, true
	case types.Uint64, types.Uint, types.Uintptr:
		return 64, false, true
	}
	return 0, false, false
}

// SegsString renders a segment list.
func SegsString(segs []Seg) string {
	var parts []string
	for _, s := range segs {
		parts = append(parts, s.String())
	}
	return strings.Join(parts, " | ")
}

func sortedKeys(m map[string]bool) []string {
	var out []string
	for k := range m {
		out = append(out, k)
	}
	sort.Strings(out)
	return out
}
