package abs

import (
	"fmt"
	"go/types"

	"golang.org/x/tools/go/ssa"
)

// symByte is byte k of blob name.
func (p *Path) symByte(blob string, off *Lin) *Int {
	if blob == "0" {
		return NewConst(0, 8, false)
	}
	a := fmt.Sprintf("%s[%s]", blob, off.String())
	if _, ok := p.Atoms[a]; !ok {
		p.Atoms[a] = &AtomInfo{W: 8, Lo: 0, Hi: 255}
	}
	return p.SymInt(a, 8, false)
}

// readByte reads the byte at offset off of a byte buffer.
func (p *Path) readByte(o *Obj, off *Lin) Value {
	pos := LConst(0)
	for _, s := range o.Segs {
		if s.Byte != nil {
			if off.Equal(pos) || p.ProveEq(off.Sub(pos)) {
				return p.norm(s.Byte)
			}
			if !p.Prove(off.Sub(pos).Add(LConst(-1))) {
				p.note("byte read at %s: position relative to %s undecided", off, pos)
				return TopInt(8, false)
			}
			pos = pos.Add(LConst(1))
			continue
		}
		end := pos.Add(s.Len)
		if p.Prove(off.Sub(pos)) && p.Prove(end.Sub(off).Add(LConst(-1))) {
			return p.symByte(s.Blob, off.Sub(pos))
		}
		if !p.Prove(off.Sub(end)) {
			p.note("byte read at %s: cannot place relative to blob %s [%s,%s)", off, s.Blob, pos, end)
			return TopInt(8, false)
		}
		pos = end
	}
	p.note("byte read at %s beyond buffer of %s", off, pos)
	return TopInt(8, false)
}

// writeByte stores one byte at offset off.
func (p *Path) writeByte(o *Obj, off *Lin, v *Int) {
	if v.W != 8 {
		v = &Int{W: 8, Bits: padBits(v, 8)[:8]}
		if c, ok := v.Const(); ok {
			v.Lin = LConst(c)
		}
	}
	pos := LConst(0)
	for i, s := range o.Segs {
		if s.Byte != nil {
			if off.Equal(pos) || p.ProveEq(off.Sub(pos)) {
				o.Segs[i] = Seg{Byte: v}
				return
			}
			if !p.Prove(off.Sub(pos).Add(LConst(-1))) {
				p.havoc(o, "byte write position undecided")
				return
			}
			pos = pos.Add(LConst(1))
			continue
		}
		end := pos.Add(s.Len)
		if p.Prove(off.Sub(pos)) && p.Prove(end.Sub(off).Add(LConst(-1))) {
			// split the blob: [pos,off) byte (off,end)
			k := off.Sub(pos)
			var repl []Seg
			if !k.IsConst() || k.C != 0 {
				repl = append(repl, Seg{Blob: subBlob(s.Blob, LConst(0), k), Len: k})
			}
			repl = append(repl, Seg{Byte: v})
			rest := s.Len.Sub(k).Add(LConst(-1))
			if !rest.IsConst() || rest.C != 0 {
				repl = append(repl, Seg{Blob: subBlob(s.Blob, k.Add(LConst(1)), nil), Len: rest})
			}
			o.Segs = append(append(append([]Seg{}, o.Segs[:i]...), repl...), o.Segs[i+1:]...)
			return
		}
		if !p.Prove(off.Sub(end)) {
			p.havoc(o, "byte write position undecided")
			return
		}
		pos = end
	}
	p.note("byte write at %s beyond buffer", off)
}

func subBlob(name string, from, to *Lin) string {
	if name == "0" {
		return "0"
	}
	if from.IsConst() && from.C == 0 && to == nil {
		return name
	}
	if to == nil {
		return fmt.Sprintf("%s[%s:]", name, from)
	}
	if from.IsConst() && from.C == 0 {
		return fmt.Sprintf("%s[:%s]", name, to)
	}
	return fmt.Sprintf("%s[%s:%s]", name, from, to)
}

func (p *Path) havoc(o *Obj, why string) {
	p.note("buffer %s havocked: %s", o, why)
	o.Segs = []Seg{{Blob: "?" + why, Len: LAtom("?len")}}
}

// totalLen is the length of a segment list.
func totalLen(segs []Seg) *Lin {
	n := LConst(0)
	for _, s := range segs {
		if s.Byte != nil {
			n = n.Add(LConst(1))
		} else {
			n = n.Add(s.Len)
		}
	}
	return n
}

// window returns the segments covering [lo, lo+n) of segs, splitting blobs where provable.
func (p *Path) window(segs []Seg, lo, n *Lin) ([]Seg, bool) {
	hi := lo.Add(n)
	var out []Seg
	pos := LConst(0)
	for _, s := range segs {
		var end *Lin
		if s.Byte != nil {
			end = pos.Add(LConst(1))
		} else {
			end = pos.Add(s.Len)
		}
		switch {
		case p.Prove(lo.Sub(end)): // segment entirely before the window
		case p.Prove(pos.Sub(hi)): // entirely after
			return out, true
		case p.Prove(pos.Sub(lo)) && p.Prove(hi.Sub(end)): // entirely inside
			out = append(out, s)
		case s.Byte == nil:
			// partial overlap with a blob: cut
			a, b := LConst(0), s.Len // offsets within the blob
			if !p.Prove(pos.Sub(lo)) {
				if !p.Prove(lo.Sub(pos)) {
					return nil, false
				}
				a = lo.Sub(pos)
			}
			if !p.Prove(hi.Sub(end)) {
				if !p.Prove(end.Sub(hi)) {
					return nil, false
				}
				b = hi.Sub(pos)
			}
			l := b.Sub(a)
			if l.IsConst() && l.C == 0 {
				break
			}
			var to *Lin
			if !b.Equal(s.Len) {
				to = b
			}
			out = append(out, Seg{Blob: subBlob(s.Blob, a, to), Len: l})
		default:
			return nil, false
		}
		pos = end
	}
	return out, true
}

// segsOf returns the segments seen through a slice.
func (p *Path) segsOf(s *Slice) ([]Seg, bool) {
	if s.Obj == nil {
		return nil, true
	}
	if s.Obj.Kind != OBytes && s.Obj.Kind != OBuffer {
		return nil, false
	}
	return p.window(s.Obj.Segs, s.Off, s.Len)
}

// OpaqueWindow replaces the bytes seen through s by one blob named name (an in-place transformation
// the interpreter does not follow, e.g. masking).
func (p *Path) OpaqueWindow(s *Slice, name string) {
	if s.Obj == nil {
		return
	}
	p.replaceWindow(s.Obj, s.Off, s.Len, []Seg{{Blob: name, Len: s.Len}})
}

// AppendSink appends the bytes seen through s to the named writer's sink.
func (p *Path) AppendSink(name string, s *Slice) bool {
	segs, ok := p.segsOf(s)
	if !ok {
		return false
	}
	o, ok2 := p.Sinks["sink:"+name]
	if !ok2 {
		o = p.newObj(OBuffer, name)
		p.Sinks["sink:"+name] = o
	}
	o.Segs = append(o.Segs, segs...)
	return true
}

// SegsOf is the exported form of segsOf.
func (p *Path) SegsOf(s *Slice) ([]Seg, bool) { return p.segsOf(s) }

// replaceWindow overwrites [lo, lo+n) of the object's content with repl (same length).
func (p *Path) replaceWindow(o *Obj, lo, n *Lin, repl []Seg) bool {
	before, ok1 := p.window(o.Segs, LConst(0), lo)
	total := totalLen(o.Segs)
	after, ok2 := p.window(o.Segs, lo.Add(n), total.Sub(lo).Sub(n))
	if !ok1 || !ok2 {
		p.havoc(o, "window replacement not aligned")
		return false
	}
	o.Segs = append(append(append([]Seg{}, before...), repl...), after...)
	return true
}

func (e *Engine) slice(p *Path, fr *Frame, x *ssa.Slice) Value {
	base := e.operand(p, fr, x.X)
	var lo, hi *Lin
	if x.Low != nil {
		if iv, ok := e.operand(p, fr, x.Low).(*Int); ok && iv.Lin != nil {
			lo = iv.Lin
		} else {
			e.boundUnknown(p, fr, x, "slice low bound is not a linear expression")
			return &TopV{"slice low"}
		}
	} else {
		lo = LConst(0)
	}
	if x.High != nil {
		if iv, ok := e.operand(p, fr, x.High).(*Int); ok && iv.Lin != nil {
			hi = iv.Lin
		} else {
			e.boundUnknown(p, fr, x, "slice high bound is not a linear expression")
			return &TopV{"slice high"}
		}
	}
	switch b := base.(type) {
	case *Slice:
		capv := b.Cap
		if capv == nil || b.IsString {
			capv = b.Len
		}
		if hi == nil {
			hi = b.Len
			capv = b.Len // s[lo:] is bounded by len
			e.boundSlice(p, fr, x, lo, hi, b.Len)
		} else {
			e.boundSlice(p, fr, x, lo, hi, capv)
		}
		var nc *Lin
		if b.Cap != nil {
			nc = b.Cap.Sub(lo)
		}
		return &Slice{Obj: b.Obj, Off: b.Off.Add(lo), Len: hi.Sub(lo), Cap: nc, IsString: b.IsString}
	case *Ptr: // *[N]T
		o := b.Obj
		var n *Lin
		switch o.Kind {
		case OBytes:
			n = totalLen(o.Segs)
		case OElems:
			n = LConst(int64(len(o.Elems)))
		default:
			return &TopV{"slice of non-array"}
		}
		if hi == nil {
			hi = n
		}
		e.boundSlice(p, fr, x, lo, hi, n)
		return &Slice{Obj: o, Off: lo, Len: hi.Sub(lo), Cap: n.Sub(lo)}
	case *NilV:
		if hi == nil {
			hi = LConst(0)
		}
		e.boundSlice(p, fr, x, lo, hi, LConst(0))
		return &NilV{}
	}
	return &TopV{"slice"}
}

func (e *Engine) makeSlice(p *Path, fr *Frame, x *ssa.MakeSlice) Value {
	n, _ := e.operand(p, fr, x.Len).(*Int)
	if n == nil || n.Lin == nil {
		e.boundUnknown(p, fr, x, "make length is not a linear expression")
		return &TopV{"make"}
	}
	ok := p.Prove(n.Lin)
	p.Bounds = append(p.Bounds, BoundOb{Pos: e.P.InstrPos(x), Func: fr.fn.String(), What: "make len " + n.Lin.String() + " >= 0", Proven: ok})
	et := x.Type().Underlying().(*types.Slice).Elem()
	if b, isB := et.Underlying().(*types.Basic); isB && b.Kind() == types.Uint8 {
		o := p.newObj(OBytes, "make")
		if n.Lin.IsConst() && n.Lin.C <= 4096 {
			for i := int64(0); i < n.Lin.C; i++ {
				o.Segs = append(o.Segs, Seg{Byte: NewConst(0, 8, false)})
			}
		} else {
			o.Segs = []Seg{{Blob: "0", Len: n.Lin}}
		}
		return &Slice{Obj: o, Off: LConst(0), Len: n.Lin, Cap: n.Lin}
	}
	o := p.newObj(OElems, "make")
	o.Type = et
	if n.Lin.IsConst() && n.Lin.C <= 1024 {
		for i := int64(0); i < n.Lin.C; i++ {
			o.Elems = append(o.Elems, e.zero(p, et))
		}
	} else {
		o.ElemN = n.Lin
	}
	return &Slice{Obj: o, Off: LConst(0), Len: n.Lin, Cap: n.Lin}
}
