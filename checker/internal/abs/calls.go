package abs

import (
	"fmt"
	"go/types"
	"strings"

	"golang.org/x/tools/go/ssa"

	"oryxverif/checker/internal/core"
)

func valName(v Value) string {
	switch x := v.(type) {
	case *Ptr:
		return x.Obj.Name
	case *Iface:
		return valName(x.V)
	case *SymIface:
		return x.Name
	case *Slice:
		if x.Obj != nil {
			return x.Obj.Name
		}
	}
	return ""
}

// NameOf returns the access-path name of a lazily symbolic value ("" if none).
func NameOf(v Value) string { return valName(v) }

func objOf(v Value) *Obj {
	switch x := v.(type) {
	case *Ptr:
		return x.Obj
	case *Iface:
		return objOf(x.V)
	}
	return nil
}

// NewStream registers a symbolic input stream under a reader's access path.
func (p *Path) NewStream(name string, segs []Seg) *Obj {
	o := p.newObj(OReader, name)
	o.Segs = append([]Seg{}, segs...)
	o.Pos = LConst(0)
	p.Sinks["stream:"+name] = o
	return o
}

// Stream returns the stream registered under name.
func (p *Path) Stream(name string) *Obj { return p.Sinks["stream:"+name] }

// Sink returns the bytes written to the writer with the given access path.
func (p *Path) Sink(name string) *Obj { return p.Sinks["sink:"+name] }

func (p *Path) streamFor(v Value) *Obj {
	if o := objOf(v); o != nil && o.Kind == OReader {
		return o
	}
	name := valName(v)
	if name == "" {
		return nil
	}
	if o, ok := p.Sinks["stream:"+name]; ok {
		return o
	}
	o := p.newObj(OReader, name)
	n := p.SymInt("len("+name+")", 63, false)
	o.Segs = []Seg{{Blob: name, Len: n.Lin}}
	o.Pos = LConst(0)
	o.Lazy = true
	p.Sinks["stream:"+name] = o
	return o
}

func (p *Path) sinkFor(v Value) *Obj {
	if o := objOf(v); o != nil && (o.Kind == OBuffer) {
		return o
	}
	name := valName(v)
	if name == "" {
		return nil
	}
	if o, ok := p.Sinks["sink:"+name]; ok {
		return o
	}
	o := p.newObj(OBuffer, name)
	p.Sinks["sink:"+name] = o
	return o
}

// Take is the exported form of take.
func (p *Path) Take(st *Obj, n *Lin) ([]Seg, bool) { return p.take(st, n) }

// take consumes n bytes from a stream.
func (p *Path) take(st *Obj, n *Lin) ([]Seg, bool) {
	total := totalLen(st.Segs)
	if !p.Prove(total.Sub(n)) {
		if !st.Lazy {
			p.note("stream %s: %s bytes requested, %s available", st.Name, n, total)
			return nil, false
		}
		// an open-ended symbolic stream: follow the success path of the read
		p.addCons(total.Sub(n))
	}
	segs, ok := p.window(st.Segs, LConst(0), n)
	if !ok {
		return nil, false
	}
	rest, ok := p.window(st.Segs, n, total.Sub(n))
	if !ok {
		return nil, false
	}
	st.Segs = rest
	st.Pos = st.Pos.Add(n)
	return segs, true
}

func okTuple(vals ...Value) Value { return &Tuple{Vs: vals} }

func (e *Engine) doCall(p *Path, fr *Frame, c *ssa.CallCommon, at ssa.Instruction) Value {
	var args []Value
	for _, a := range c.Args {
		args = append(args, e.operand(p, fr, a))
	}
	resT := c.Signature().Results()
	top := func(why string) Value {
		switch resT.Len() {
		case 0:
			return nil
		case 1:
			return e.topOf(p, resT.At(0).Type(), why)
		}
		return e.topOf(p, resT, why)
	}
	if c.IsInvoke() {
		recv := e.operand(p, fr, c.Value)
		switch r := recv.(type) {
		case *Iface:
			t, _ := r.Type.(types.Type)
			if t != nil {
				if sel := e.P.SSA.MethodSets.MethodSet(t).Lookup(c.Method.Pkg(), c.Method.Name()); sel != nil {
					if fn := e.P.SSA.MethodValue(sel); fn != nil {
						return e.callStatic(p, fr, c, fn, append([]Value{r.V}, args...), at, top)
					}
				}
			}
		case *NilV:
			p.Panics = "method call on nil interface at " + e.P.InstrPos(at)
			return top("nil")
		}
		if e.Contract != nil {
			if v, ok := e.Contract(p, fr, c, nil, append([]Value{recv}, args...)); ok {
				return v
			}
		}
		p.note("invoke %s on unknown dynamic type at %s", c.Method.Name(), e.P.InstrPos(at))
		return top("invoke")
	}
	switch f := c.Value.(type) {
	case *ssa.Builtin:
		return e.builtin(p, fr, f.Name(), args, c, at, top)
	case *ssa.Function:
		return e.callStatic(p, fr, c, f, args, at, top)
	}
	// dynamic call through a value
	fv := e.operand(p, fr, c.Value)
	if cl, ok := fv.(*Closure); ok && cl.Fn != nil {
		fn := cl.Fn.(*ssa.Function)
		return e.finish(e.callWith(p, fn, args, cl.Bindings, fr.depth+1), resT)
	}
	p.note("dynamic call at %s", e.P.InstrPos(at))
	return top("dynamic call")
}

func (e *Engine) finish(ret []Value, resT *types.Tuple) Value {
	switch resT.Len() {
	case 0:
		return nil
	case 1:
		if len(ret) == 1 {
			return ret[0]
		}
		return &TopV{"no result"}
	}
	if len(ret) != resT.Len() {
		out := &Tuple{}
		for i := 0; i < resT.Len(); i++ {
			out.Vs = append(out.Vs, &TopV{"no result"})
		}
		return out
	}
	return &Tuple{Vs: ret}
}

func (e *Engine) callWith(p *Path, fn *ssa.Function, args, bindings []Value, depth int) []Value {
	if len(bindings) == 0 {
		return e.call(p, fn, args, depth)
	}
	// bind free variables by wrapping: the callee frame looks them up in env
	return e.callBound(p, fn, args, bindings, depth)
}

func (e *Engine) callBound(p *Path, fn *ssa.Function, args, bindings []Value, depth int) []Value {
	// a tiny trick: free variables are SSA values of the callee; pre-seed them through a shim
	pre := map[ssa.Value]Value{}
	for i, fv := range fn.FreeVars {
		if i < len(bindings) {
			pre[fv] = bindings[i]
		}
	}
	e.preseed = pre
	defer func() { e.preseed = nil }()
	return e.call(p, fn, args, depth)
}

func (e *Engine) callStatic(p *Path, fr *Frame, c *ssa.CallCommon, fn *ssa.Function, args []Value, at ssa.Instruction, top func(string) Value) Value {
	name := core.FullName(fn)
	if v, ok := e.intrinsic(p, fr, name, fn, args, at); ok {
		return v
	}
	if e.Contract != nil {
		if v, ok := e.Contract(p, fr, c, fn, args); ok {
			return v
		}
	}
	if core.InModule(fn) && len(fn.Blocks) > 0 {
		return e.finish(e.call(p, fn, args, fr.depth+1), fn.Signature.Results())
	}
	p.note("call to %s not modelled at %s", name, e.P.InstrPos(at))
	return top("unmodelled " + name)
}

func linOf(v Value) *Lin {
	if iv, ok := v.(*Int); ok {
		return iv.Lin
	}
	return nil
}

func (e *Engine) builtin(p *Path, fr *Frame, name string, args []Value, c *ssa.CallCommon, at ssa.Instruction, top func(string) Value) Value {
	switch name {
	case "len", "cap":
		switch a := args[0].(type) {
		case *Slice:
			l := a.Len
			if name == "cap" && a.Cap != nil {
				l = a.Cap
			}
			return e.fromLin(p, l, 64, true)
		case *NilV:
			return NewConst(0, 64, true)
		case *Ptr:
			if a.Obj.Kind == OBytes {
				return NewConst(int64(len(a.Obj.Segs)), 64, true)
			}
			if a.Obj.Kind == OElems {
				return NewConst(int64(len(a.Obj.Elems)), 64, true)
			}
		}
		return TopInt(64, true)
	case "append":
		return e.doAppend(p, fr, args, c, at)
	case "copy":
		dst, ok1 := args[0].(*Slice)
		src, ok2 := args[1].(*Slice)
		if !ok1 || !ok2 {
			if _, isNil := args[1].(*NilV); isNil {
				return NewConst(0, 64, true)
			}
			return TopInt(64, true)
		}
		var n *Lin
		switch {
		case p.Prove(dst.Len.Sub(src.Len)):
			n = src.Len
		case p.Prove(src.Len.Sub(dst.Len)):
			n = dst.Len
		default:
			p.note("copy: min(len(dst)=%s, len(src)=%s) undecided at %s", dst.Len, src.Len, e.P.InstrPos(at))
			p.havoc(dst.Obj, "copy of undecided length")
			return TopInt(64, true)
		}
		segs, ok := p.window(src.Obj.Segs, src.Off, n)
		if !ok {
			p.havoc(dst.Obj, "copy source not aligned")
			return e.fromLin(p, n, 64, true)
		}
		p.replaceWindow(dst.Obj, dst.Off, n, segs)
		return e.fromLin(p, n, 64, true)
	case "ssa:wrapnilchk":
		return args[0]
	case "delete", "print", "println":
		return nil
	case "panic":
		p.Panics = "panic at " + e.P.InstrPos(at)
		return nil
	}
	p.note("builtin %s not modelled", name)
	return top("builtin " + name)
}

func (e *Engine) doAppend(p *Path, fr *Frame, args []Value, c *ssa.CallCommon, at ssa.Instruction) Value {
	st, _ := c.Args[0].Type().Underlying().(*types.Slice)
	isBytes := false
	if st != nil {
		if b, ok := st.Elem().Underlying().(*types.Basic); ok && b.Kind() == types.Uint8 {
			isBytes = true
		}
	}
	var baseSegs []Seg
	var baseLen *Lin
	var baseElems []Value
	switch a := args[0].(type) {
	case *Slice:
		baseLen = a.Len
		if isBytes {
			s, ok := p.segsOf(a)
			if !ok {
				return &TopV{"append to unaligned window"}
			}
			baseSegs = s
		} else {
			if !a.Off.IsConst() || !a.Len.IsConst() {
				return &TopV{"append to symbolic element slice"}
			}
			for i := a.Off.C; i < a.Off.C+a.Len.C; i++ {
				if ep, ok := e.elemPtr(p, a.Obj, LConst(i)).(*Ptr); ok {
					baseElems = append(baseElems, a.Obj.Elems[ep.Index])
				}
			}
		}
	case *NilV:
		baseLen = LConst(0)
	default:
		return &TopV{"append"}
	}
	switch b := args[1].(type) {
	case *Slice:
		if isBytes {
			s, ok := p.segsOf(b)
			if !ok {
				return &TopV{"append of unaligned window"}
			}
			o := p.newObj(OBytes, "append")
			o.Segs = append(append([]Seg{}, baseSegs...), s...)
			n := baseLen.Add(b.Len)
			return &Slice{Obj: o, Off: LConst(0), Len: n, Cap: nil}
		}
		if !b.Off.IsConst() || !b.Len.IsConst() {
			return &TopV{"append of symbolic element slice"}
		}
		o := p.newObj(OElems, "append")
		o.Type = st.Elem()
		o.Elems = append([]Value{}, baseElems...)
		for i := b.Off.C; i < b.Off.C+b.Len.C; i++ {
			if ep, ok := e.elemPtr(p, b.Obj, LConst(i)).(*Ptr); ok {
				o.Elems = append(o.Elems, b.Obj.Elems[ep.Index])
			}
		}
		n := LConst(int64(len(o.Elems)))
		return &Slice{Obj: o, Off: LConst(0), Len: n, Cap: nil}
	case *NilV:
		if sl, ok := args[0].(*Slice); ok {
			return sl
		}
		return &NilV{}
	}
	return &TopV{"append"}
}

func (e *Engine) typeAssert(p *Path, fr *Frame, x *ssa.TypeAssert) Value {
	v := e.operand(p, fr, x.X)
	mk := func(val Value, ok *Bool) Value {
		if x.CommaOk {
			return &Tuple{Vs: []Value{val, ok}}
		}
		if ok.Known && !ok.Val {
			p.Panics = "failed type assertion at " + e.P.InstrPos(x)
		}
		return val
	}
	switch iv := v.(type) {
	case *Iface:
		t, _ := iv.Type.(types.Type)
		match := false
		if it, isI := x.AssertedType.Underlying().(*types.Interface); isI {
			match = types.Implements(t, it)
			if match {
				return mk(iv, True)
			}
		} else {
			match = types.Identical(t, x.AssertedType)
			if match {
				return mk(iv.V, True)
			}
		}
		return mk(e.zero(p, x.AssertedType), False)
	case *NilV:
		return mk(e.zero(p, x.AssertedType), False)
	case *SymIface:
		key := fmt.Sprintf("%s.(%s)", iv.Name, types.TypeString(x.AssertedType, nil))
		b := &Bool{Pred: &Pred{Key: key}}
		if !x.CommaOk {
			return e.lazyValue(p, iv.Name, x.AssertedType)
		}
		if p.decide(b, e.P.InstrPos(x)) {
			return &Tuple{Vs: []Value{e.lazyValue(p, iv.Name, x.AssertedType), True}}
		}
		return &Tuple{Vs: []Value{e.zero(p, x.AssertedType), False}}
	}
	return e.topOf(p, x.Type(), "typeassert")
}

// ---------------------------------------------------------------------------------------------
// intrinsics

func beBytes(v *Int, n int, little bool) []Seg {
	out := make([]Seg, n)
	for k := 0; k < n; k++ {
		// byte k (big endian): bits [8*(n-1-k), 8*(n-k))
		lo := 8 * (n - 1 - k)
		if little {
			lo = 8 * k
		}
		b := &Int{W: 8, Bits: make([]Bit, 8)}
		for i := 0; i < 8; i++ {
			if lo+i < len(v.Bits) {
				b.Bits[i] = v.Bits[lo+i]
			} else if v.Signed && len(v.Bits) > 0 {
				b.Bits[i] = v.Bits[len(v.Bits)-1]
			}
		}
		if c, ok := b.Const(); ok {
			b.Lin = LConst(c)
		}
		out[k] = Seg{Byte: b}
	}
	return out
}

func (e *Engine) assemble(p *Path, bytes []Value, w int, little, signed bool) *Int {
	out := &Int{W: w, Signed: signed, Bits: make([]Bit, w)}
	n := len(bytes)
	for k, bv := range bytes {
		lo := 8 * (n - 1 - k)
		if little {
			lo = 8 * k
		}
		b, ok := bv.(*Int)
		for i := 0; i < 8; i++ {
			if lo+i >= w {
				continue
			}
			if ok && i < len(b.Bits) {
				out.Bits[lo+i] = b.Bits[i]
			} else {
				out.Bits[lo+i] = bitTop
			}
		}
	}
	return e.fixLin(p, out)
}

// readFails decides (forking when FailReads is set) whether this transport read ends early; short is then the number
// of bytes it delivered, 0 <= short < want (<= want when want may be 0).
func (e *Engine) readFails(p *Path, want *Lin, at ssa.Instruction) (fails bool, short *Int) {
	if !e.FailReads {
		return false, nil
	}
	p.readSeq++
	pos := e.P.InstrPos(at)
	key := fmt.Sprintf("transport read #%d at %s delivers everything", p.readSeq, pos)
	if p.decide(&Bool{Pred: &Pred{Key: key}}, pos) {
		return false, nil
	}
	a := fmt.Sprintf("short#%d", p.readSeq)
	p.DeclareAtom(a, 62, 0, 1<<62-1)
	k := p.SymInt(a, 64, true)
	if want != nil {
		if p.Prove(want.Add(LConst(-1))) {
			p.AssumeLin(want.Add(LConst(-1)).Sub(LAtom(a)))
		} else {
			p.AssumeLin(want.Sub(LAtom(a)))
		}
	}
	return true, k
}

func (e *Engine) intrinsic(p *Path, fr *Frame, name string, fn *ssa.Function, args []Value, at ssa.Instruction) (Value, bool) {
	nilErr := &NilV{}
	switch name {
	case "bytes.NewReader", "bytes.NewBuffer":
		kind := OReader
		if name == "bytes.NewBuffer" {
			kind = OBuffer
		}
		o := p.newObj(kind, "bytes")
		o.Pos = LConst(0)
		if sl, ok := args[0].(*Slice); ok {
			segs, ok := p.segsOf(sl)
			if !ok {
				p.note("bytes.NewReader on unaligned window at %s", e.P.InstrPos(at))
				segs = []Seg{{Blob: "?unaligned", Len: sl.Len}}
			}
			o.Segs = append([]Seg{}, segs...)
		}
		return &Ptr{Obj: o, Field: -1, Index: -1}, true
	case "io.Copy":
		src := p.streamFor(args[1])
		dst := p.sinkFor(args[0])
		if src == nil || dst == nil {
			p.note("io.Copy with unknown endpoints at %s", e.P.InstrPos(at))
			return okTuple(TopInt(64, true), &TopV{"err"}), true
		}
		n := totalLen(src.Segs)
		dst.Segs = append(dst.Segs, src.Segs...)
		src.Segs = nil
		return okTuple(e.fromLin(p, n, 64, true), nilErr), true
	case "io.CopyN":
		src := p.streamFor(args[1])
		dst := p.sinkFor(args[0])
		n := linOf(args[2])
		if src == nil || dst == nil || n == nil {
			p.note("io.CopyN not interpretable at %s", e.P.InstrPos(at))
			return okTuple(TopInt(64, true), &TopV{"err"}), true
		}
		if fails, k := e.readFails(p, n, at); fails {
			dst.Segs = append(dst.Segs, Seg{Blob: fmt.Sprintf("?partial#%d", p.readSeq), Len: k.Lin})
			return okTuple(k, &ErrV{"transport read failed"}), true
		}
		segs, ok := p.take(src, n)
		if !ok {
			p.abort("io.CopyN: cannot take %s bytes from stream %s at %s", n, src.Name, e.P.InstrPos(at))
			return okTuple(TopInt(64, true), &TopV{"err"}), true
		}
		dst.Segs = append(dst.Segs, segs...)
		return okTuple(e.fromLin(p, n, 64, true), nilErr), true
	case "io.ReadFull":
		src := p.streamFor(args[0])
		buf, ok := args[1].(*Slice)
		if src == nil || !ok {
			p.note("io.ReadFull not interpretable at %s", e.P.InstrPos(at))
			return okTuple(TopInt(64, true), &TopV{"err"}), true
		}
		if fails, k := e.readFails(p, buf.Len, at); fails {
			p.replaceWindow(buf.Obj, buf.Off, buf.Len, []Seg{{Blob: fmt.Sprintf("?partial#%d", p.readSeq), Len: buf.Len}})
			return okTuple(k, &ErrV{"transport read failed"}), true
		}
		segs, ok := p.take(src, buf.Len)
		if !ok {
			p.abort("io.ReadFull: cannot take %s bytes from stream %s at %s", buf.Len, src.Name, e.P.InstrPos(at))
			return okTuple(TopInt(64, true), &TopV{"err"}), true
		}
		p.replaceWindow(buf.Obj, buf.Off, buf.Len, segs)
		return okTuple(e.fromLin(p, buf.Len, 64, true), nilErr), true
	case "binary.Read":
		src := p.streamFor(args[0])
		little := strings.Contains(fmt.Sprint(describeOrder(args[1])), "little")
		dstI, _ := args[2].(*Iface)
		if src == nil || dstI == nil {
			p.note("binary.Read not interpretable at %s", e.P.InstrPos(at))
			return &TopV{"err"}, true
		}
		pt, _ := dstI.Type.(types.Type)
		ptr, _ := dstI.V.(*Ptr)
		if pt == nil || ptr == nil {
			return &TopV{"err"}, true
		}
		et := pt.Underlying().(*types.Pointer).Elem()
		w, signed, ok := typeWidth(et)
		if !ok {
			return &TopV{"err"}, true
		}
		if fails, _ := e.readFails(p, LConst(int64(w/8)), at); fails {
			return &ErrV{"transport read failed"}, true
		}
		segs, ok := p.take(src, LConst(int64(w/8)))
		if !ok {
			p.abort("binary.Read: cannot take %d bytes from stream %s at %s", w/8, src.Name, e.P.InstrPos(at))
			return &TopV{"err"}, true
		}
		var bs []Value
		tmp := p.newObj(OBytes, "tmp")
		tmp.Segs = segs
		for i := 0; i < w/8; i++ {
			bs = append(bs, p.readByte(tmp, LConst(int64(i))))
		}
		e.store(p, fr, ptr, e.assemble(p, bs, w, little, signed), at)
		return nilErr, true
	case "binary.Write":
		dst := p.sinkFor(args[0])
		little := strings.Contains(fmt.Sprint(describeOrder(args[1])), "little")
		dv, _ := args[2].(*Iface)
		if dst == nil || dv == nil {
			return &TopV{"err"}, true
		}
		iv, ok := dv.V.(*Int)
		if !ok {
			p.note("binary.Write of non-integer at %s", e.P.InstrPos(at))
			return &TopV{"err"}, true
		}
		dst.Segs = append(dst.Segs, beBytes(iv, iv.W/8, little)...)
		return nilErr, true
	case "(*bytes.Buffer).Write", "(*bytes.Buffer).WriteString":
		o := objOf(args[0])
		sl, ok := args[1].(*Slice)
		if o == nil {
			return okTuple(TopInt(64, true), &TopV{"err"}), true
		}
		o.Kind = OBuffer
		if !ok {
			if _, isNil := args[1].(*NilV); isNil {
				return okTuple(NewConst(0, 64, true), nilErr), true
			}
			p.havoc(o, "write of unknown slice")
			return okTuple(TopInt(64, true), nilErr), true
		}
		segs, ok2 := p.segsOf(sl)
		if !ok2 {
			p.havoc(o, "write of unaligned window")
			return okTuple(e.fromLin(p, sl.Len, 64, true), nilErr), true
		}
		o.Segs = append(o.Segs, segs...)
		return okTuple(e.fromLin(p, sl.Len, 64, true), nilErr), true
	case "(*bytes.Buffer).WriteByte":
		o := objOf(args[0])
		if o == nil {
			return &TopV{"err"}, true
		}
		o.Kind = OBuffer
		iv, ok := args[1].(*Int)
		if !ok {
			iv = TopInt(8, false)
		}
		o.Segs = append(o.Segs, Seg{Byte: iv})
		return nilErr, true
	case "(*bytes.Buffer).Bytes":
		o := objOf(args[0])
		if o == nil {
			return &TopV{"bytes"}, true
		}
		n := totalLen(o.Segs)
		return &Slice{Obj: o, Off: LConst(0), Len: n, Cap: nil}, true
	case "(*bytes.Buffer).Len":
		o := objOf(args[0])
		if o == nil {
			return TopInt(64, true), true
		}
		return e.fromLin(p, totalLen(o.Segs), 64, true), true
	case "bytes.Equal":
		a, ok1 := args[0].(*Slice)
		b, ok2 := args[1].(*Slice)
		if ok1 && ok2 {
			sa, oka := p.segsOf(a)
			sb, okb := p.segsOf(b)
			if oka && okb {
				if eq, known := segsEqual(sa, sb); known {
					if eq {
						return True, true
					}
					return False, true
				}
				// byte-wise comparison of known-length prefixes
				if len(sa) == len(sb) {
					all := true
					var res Value = True
					for i := range sa {
						if sa[i].Byte == nil || sb[i].Byte == nil {
							all = false
							break
						}
						c := e.compareInt(p, 39 /*token.EQL*/, sa[i].Byte, sb[i].Byte)
						cb, _ := c.(*Bool)
						if cb == nil || !cb.Known {
							all = false
							break
						}
						if !cb.Val {
							res = False
						}
					}
					if all {
						return res, true
					}
				}
				return &Bool{Pred: &Pred{Key: fmt.Sprintf("bytes.Equal(%s, %s)", SegsString(sa), SegsString(sb))}}, true
			}
		}
		return &Bool{}, true
	case "math.Float64bits":
		if f, ok := args[0].(*FloatV); ok {
			return f.Bits, true
		}
		return TopInt(64, false), true
	case "math.Float64frombits":
		if iv, ok := args[0].(*Int); ok {
			return &FloatV{Bits: iv}, true
		}
		return &TopV{"float"}, true
	case "fmt.Sprintf", "fmt.Sprint", "strconv.Itoa", "strconv.FormatInt":
		return &TopV{"string"}, true
	case "fmt.Errorf", "errors.New":
		return &ErrV{name}, true
	case "(*sync.Mutex).Lock", "(*sync.Mutex).Unlock", "(*sync.RWMutex).Lock", "(*sync.RWMutex).Unlock", "(*sync.RWMutex).RLock", "(*sync.RWMutex).RUnlock":
		return nil, true
	case "(*rand.Rand).Int", "rand.Uint32", "rand.Int":
		w, s, _ := typeWidth(fn.Signature.Results().At(0).Type())
		return TopInt(w, s), true
	}
	// encoding/binary byte orders
	if strings.HasPrefix(name, "(binary.bigEndian).") || strings.HasPrefix(name, "(binary.littleEndian).") {
		little := strings.HasPrefix(name, "(binary.littleEndian).")
		m := name[strings.LastIndex(name, ".")+1:]
		var w int
		switch {
		case strings.HasSuffix(m, "Uint16"):
			w = 16
		case strings.HasSuffix(m, "Uint32"):
			w = 32
		case strings.HasSuffix(m, "Uint64"):
			w = 64
		default:
			return nil, false
		}
		sl, ok := args[1].(*Slice)
		if !ok {
			e.boundUnknown(p, fr, at, name+" on unknown slice")
			return TopInt(w, false), true
		}
		okB := p.Prove(sl.Len.Add(LConst(int64(-w / 8))))
		p.Bounds = append(p.Bounds, BoundOb{Pos: e.P.InstrPos(at), Func: core.QualName(fr.fn), What: fmt.Sprintf("%s needs len %s >= %d", m, sl.Len, w/8), Proven: okB})
		if strings.HasPrefix(m, "Put") {
			iv, ok := args[2].(*Int)
			if !ok {
				iv = TopInt(w, false)
			}
			p.replaceWindow(sl.Obj, sl.Off, LConst(int64(w/8)), beBytes(iv, w/8, little))
			return nil, true
		}
		var bs []Value
		for i := 0; i < w/8; i++ {
			bs = append(bs, p.readByte(sl.Obj, sl.Off.Add(LConst(int64(i)))))
		}
		return e.assemble(p, bs, w, little, false), true
	}
	// this repository's errors package
	if core.InModule(fn) && core.ShortPkg(fn) == "errors" {
		switch fn.Name() {
		case "New", "Errorf":
			return &ErrV{fn.Name()}, true
		case "Wrap", "Wrapf", "WithMessage", "WithStack":
			if _, isNil := args[0].(*NilV); isNil {
				return &NilV{}, true
			}
			if _, isErr := args[0].(*ErrV); isErr {
				return &ErrV{"wrapped"}, true
			}
			return &TopV{"error"}, true
		case "Cause":
			return args[0], true
		}
	}
	return nil, false
}

func describeOrder(v Value) string {
	if i, ok := v.(*Iface); ok {
		if t, ok := i.Type.(types.Type); ok {
			return types.TypeString(t, nil)
		}
	}
	return ""
}
