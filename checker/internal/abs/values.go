// Package abs is the bit-provenance abstract interpreter (DESIGN §2.4): it evaluates one SSA
// function at a time over symbolic bits, linear lengths and segment-list buffers, exploring both
// successors of every branch it cannot decide. It never executes code and never calls a solver.
package abs

import (
	"fmt"
	"sort"
	"strings"
)

// ---------------------------------------------------------------------------------------------
// Linear forms over atoms

// Lin is c + Σ coef·atom.
type Lin struct {
	C int64
	T map[string]int64
}

func LConst(c int64) *Lin { return &Lin{C: c} }
func LAtom(a string) *Lin { return &Lin{T: map[string]int64{a: 1}} }

func (l *Lin) clone() *Lin {
	o := &Lin{C: l.C}
	if len(l.T) > 0 {
		o.T = make(map[string]int64, len(l.T))
		for k, v := range l.T {
			o.T[k] = v
		}
	}
	return o
}

func (l *Lin) Add(m *Lin) *Lin {
	o := l.clone()
	o.C += m.C
	for k, v := range m.T {
		if o.T == nil {
			o.T = map[string]int64{}
		}
		o.T[k] += v
		if o.T[k] == 0 {
			delete(o.T, k)
		}
	}
	return o
}

func (l *Lin) Scale(k int64) *Lin {
	o := &Lin{C: l.C * k}
	if k != 0 {
		for a, v := range l.T {
			if o.T == nil {
				o.T = map[string]int64{}
			}
			o.T[a] = v * k
		}
	}
	return o
}

func (l *Lin) Sub(m *Lin) *Lin { return l.Add(m.Scale(-1)) }

func (l *Lin) IsConst() bool { return len(l.T) == 0 }

// SingleAtom returns the atom when l == 1·atom.
func (l *Lin) SingleAtom() (string, bool) {
	if l.C != 0 || len(l.T) != 1 {
		return "", false
	}
	for a, c := range l.T {
		if c == 1 {
			return a, true
		}
	}
	return "", false
}

func (l *Lin) Equal(m *Lin) bool {
	d := l.Sub(m)
	return d.C == 0 && len(d.T) == 0
}

// String is canonical: atoms sorted, "len(raw)+7", "2*x-1".
func (l *Lin) String() string {
	if l == nil {
		return "<nil>"
	}
	var atoms []string
	for a := range l.T {
		atoms = append(atoms, a)
	}
	sort.Strings(atoms)
	var b strings.Builder
	for i, a := range atoms {
		c := l.T[a]
		switch {
		case c == 1:
			if i > 0 {
				b.WriteByte('+')
			}
		case c == -1:
			b.WriteByte('-')
		default:
			if c > 0 && i > 0 {
				b.WriteByte('+')
			}
			fmt.Fprintf(&b, "%d*", c)
		}
		b.WriteString(a)
	}
	if l.C != 0 || len(atoms) == 0 {
		if l.C >= 0 && len(atoms) > 0 {
			b.WriteByte('+')
		}
		fmt.Fprintf(&b, "%d", l.C)
	}
	return b.String()
}

// ---------------------------------------------------------------------------------------------
// Bits

type BitKind uint8

const (
	B0 BitKind = iota
	B1
	BSym
	BTop
)

// Bit is one abstract bit: constant, "bit I of atom A", or unknown.
type Bit struct {
	K BitKind
	A string
	I int
}

func (b Bit) String() string {
	switch b.K {
	case B0:
		return "0"
	case B1:
		return "1"
	case BSym:
		return fmt.Sprintf("%s<%d>", b.A, b.I)
	}
	return "?"
}

var (
	bit0   = Bit{K: B0}
	bit1   = Bit{K: B1}
	bitTop = Bit{K: BTop}
)

func bitAnd(a, b Bit) Bit {
	switch {
	case a.K == B0 || b.K == B0:
		return bit0
	case a.K == B1:
		return b
	case b.K == B1:
		return a
	case a == b && a.K == BSym:
		return a
	}
	return bitTop
}

func bitOr(a, b Bit) Bit {
	switch {
	case a.K == B1 || b.K == B1:
		return bit1
	case a.K == B0:
		return b
	case b.K == B0:
		return a
	case a == b && a.K == BSym:
		return a
	}
	return bitTop // two different atoms contribute to one bit: field overlap
}

func bitXor(a, b Bit) Bit {
	switch {
	case a.K == B0:
		return b
	case b.K == B0:
		return a
	case a.K == B1 && b.K == B1:
		return bit0
	case a == b && a.K == BSym:
		return bit0
	}
	return bitTop
}

func bitNot(a Bit) Bit {
	switch a.K {
	case B0:
		return bit1
	case B1:
		return bit0
	}
	return bitTop
}

// ---------------------------------------------------------------------------------------------
// Values

// Value is an abstract value.
type Value interface{}

// Int is an integer of width W: a bit vector (LSB first) and, when known, a linear form.
type Int struct {
	W      int
	Signed bool
	Bits   []Bit
	Lin    *Lin // nil when the value is not known as a linear form
}

func (v *Int) String() string {
	if c, ok := v.Const(); ok {
		return fmt.Sprintf("%d", c)
	}
	if v.Lin != nil {
		return v.Lin.String()
	}
	var parts []string
	for i := len(v.Bits) - 1; i >= 0; i-- {
		parts = append(parts, v.Bits[i].String())
	}
	return "[" + strings.Join(parts, " ") + "]"
}

// Const returns the constant value if every bit is known.
func (v *Int) Const() (int64, bool) {
	if v.Lin != nil && v.Lin.IsConst() {
		return v.Lin.C, true
	}
	var u uint64
	for i, b := range v.Bits {
		switch b.K {
		case B1:
			u |= 1 << uint(i)
		case B0:
		default:
			return 0, false
		}
	}
	if v.Signed && v.W < 64 && v.W > 0 && u&(1<<uint(v.W-1)) != 0 {
		return int64(u) - (1 << uint(v.W)), true
	}
	return int64(u), true
}

func constBits(c int64, w int) []Bit {
	out := make([]Bit, w)
	for i := 0; i < w; i++ {
		if uint64(c)&(1<<uint(i)) != 0 {
			out[i] = bit1
		}
	}
	return out
}

// NewConst builds a constant integer.
func NewConst(c int64, w int, signed bool) *Int {
	return &Int{W: w, Signed: signed, Bits: constBits(c, w), Lin: LConst(c)}
}

func topBits(w int) []Bit {
	out := make([]Bit, w)
	for i := range out {
		out[i] = bitTop
	}
	return out
}

// TopInt is an unknown integer.
func TopInt(w int, signed bool) *Int { return &Int{W: w, Signed: signed, Bits: topBits(w)} }

// Bool is an abstract boolean.
type Bool struct {
	Known bool
	Val   bool
	Pred  *Pred // when !Known: the predicate, nil = unknown
}

// Pred is an undecided comparison, kept so that a fork can record/refine an assumption.
type Pred struct {
	Key string // canonical text
	// refinement payload (any may be nil)
	Lin    *Lin // predicate is Lin >= 0 (when Neg false) — used for ordering comparisons
	EqBits []Bit
	EqC    []Bit // predicate is EqBits == EqC (vector equality)
	Neg    bool  // predicate is the negation of the above
	BoolA  *Bit  // predicate is this single bit being 1
	EqLin  *Lin  // predicate is EqLin == 0
}

var (
	True  = &Bool{Known: true, Val: true}
	False = &Bool{Known: true, Val: false}
)

// Nil is the nil pointer/slice/interface/error value.
type NilV struct{}

// Top is an unknown value of a non-integer type.
type TopV struct{ Why string }

// ErrV is a definitely non-nil error.
type ErrV struct{ Desc string }

// Ptr points to an object, or to a field/element inside one.
type Ptr struct {
	Obj   *Obj
	Field int // -1 = whole object
	Index int // element index for array objects, -1 otherwise
}

// Slice is a window on a byte buffer object (or a generic element slice).
type Slice struct {
	Obj      *Obj
	Off, Len *Lin
	Cap      *Lin // may be nil = unknown (>= Len)
	IsString bool
}

// Iface is an interface value with a known dynamic type.
type Iface struct {
	Type interface{} // types.Type
	V    Value
}

// Tuple is a multi-value result.
type Tuple struct{ Vs []Value }

// Closure is a function value.
type Closure struct {
	Fn       interface{} // *ssa.Function
	Bindings []Value
}

// ---------------------------------------------------------------------------------------------
// Objects

type ObjKind uint8

const (
	OStruct ObjKind = iota
	OCell
	OBytes  // byte buffer: segment list
	OElems  // generic slice/array backing store of non-byte elements
	OBuffer // bytes.Buffer
	OReader // bytes.Reader / symbolic input stream
	OMap
	OOpaque
)

// Seg is one segment of a byte buffer: a known byte, or a blob of symbolic length.
type Seg struct {
	Byte *Int   // width 8, when a single known byte
	Blob string // blob name when Byte == nil ("zero" blobs are named "0")
	Len  *Lin   // blob length
}

func (s Seg) String() string {
	if s.Byte != nil {
		return s.Byte.String()
	}
	return fmt.Sprintf("Blob(%s,%s)", s.Blob, s.Len)
}

// Obj is a memory object.
type Obj struct {
	ID      int
	Kind    ObjKind
	Name    string // access path for lazily materialised inputs ("frame", "v.asc")
	Type    interface{}
	Fields  map[int]Value
	Cell    Value
	Segs    []Seg   // OBytes, OBuffer (content), OReader (remaining input)
	Elems   []Value // OElems with constant length
	ElemN   *Lin    // OElems length when symbolic
	Lazy    bool    // fields/elements not yet read are symbolic atoms named by access path
	Escaped bool
	Pos     *Lin // OReader: bytes consumed so far
}

func (o *Obj) String() string { return fmt.Sprintf("obj%d(%s)", o.ID, o.Name) }
