package abs

import (
	"fmt"
	"oryxverif/checker/internal/core"
	"sort"
	"strings"
)

// Describe renders a value for reports.
func Describe(p *Path, v Value) string {
	switch x := v.(type) {
	case nil:
		return "<none>"
	case *Int:
		return p.norm(x).String()
	case *Bool:
		if x.Known {
			return fmt.Sprint(x.Val)
		}
		if x.Pred != nil {
			return "pred(" + x.Pred.Key + ")"
		}
		return "bool?"
	case *NilV:
		return "nil"
	case *ErrV:
		return "error(" + x.Desc + ")"
	case *TopV:
		return "?" + x.Why
	case *Slice:
		segs, ok := p.segsOf(x)
		if !ok {
			return fmt.Sprintf("slice(%s off=%s len=%s) <unaligned>", x.Obj, x.Off, x.Len)
		}
		return fmt.Sprintf("[%s] len=%s", SegsString(segs), x.Len)
	case *Ptr:
		return "&" + DescribeObj(p, x.Obj)
	case *Agg:
		return DescribeObj(p, x.Obj)
	case *Iface:
		return "iface{" + Describe(p, x.V) + "}"
	case *SymIface:
		return "iface(" + x.Name + ")"
	case *Tuple:
		var parts []string
		for _, e := range x.Vs {
			parts = append(parts, Describe(p, e))
		}
		return "(" + strings.Join(parts, ", ") + ")"
	case *FloatV:
		return "float64bits(" + Describe(p, x.Bits) + ")"
	case *Closure:
		return "func"
	}
	return fmt.Sprintf("%T", v)
}

// DescribeObj renders an object's content.
func DescribeObj(p *Path, o *Obj) string {
	switch o.Kind {
	case OStruct:
		var ks []int
		for k := range o.Fields {
			ks = append(ks, k)
		}
		sort.Ints(ks)
		var parts []string
		for _, k := range ks {
			name := fmt.Sprintf("f%d", k)
			if st := structOfAny(o.Type); st != nil && k < st.NumFields() {
				name = core.FieldVarName(st.Field(k))
			}
			parts = append(parts, name+": "+Describe(p, o.Fields[k]))
		}
		return "{" + strings.Join(parts, ", ") + "}"
	case OCell:
		return "cell(" + Describe(p, o.Cell) + ")"
	case OBytes, OBuffer, OReader:
		return "bytes[" + SegsString(o.Segs) + "]"
	case OElems:
		var parts []string
		for _, e := range o.Elems {
			parts = append(parts, Describe(p, e))
		}
		return "elems[" + strings.Join(parts, ", ") + "]"
	}
	return o.String()
}

// FieldByName returns the current value of a struct object's field (zero value if never written).
func FieldByName(p *Path, o *Obj, name string) (Value, bool) {
	st := structOfAny(o.Type)
	if st == nil {
		return nil, false
	}
	for i := 0; i < st.NumFields(); i++ {
		if core.FieldVarName(st.Field(i)) == name {
			return p.E.loadField(p, o, i, st.Field(i).Type()), true
		}
	}
	return nil, false
}

// Resolve follows a result path such as "asc.Object", "SequenceParameterSetNALUnits[1].Data" or
// "NALUHeader.NALUType" starting at value v (pointers are dereferenced implicitly).
func Resolve(p *Path, v Value, path string) (Value, bool) {
	cur := v
	for path != "" {
		// next token
		var tok string
		if path[0] == '[' {
			j := strings.Index(path, "]")
			tok, path = path[:j+1], path[j+1:]
		} else {
			j := strings.IndexAny(path, ".[")
			if j < 0 {
				tok, path = path, ""
			} else {
				tok, path = path[:j], path[j:]
			}
		}
		path = strings.TrimPrefix(path, ".")
		if tok == "" {
			continue
		}
		if tok[0] == '[' {
			var i int
			fmt.Sscanf(tok, "[%d]", &i)
			sl, ok := cur.(*Slice)
			if !ok || sl.Obj == nil || sl.Obj.Kind != OElems {
				return nil, false
			}
			idx := int(sl.Off.C) + i
			if !sl.Off.IsConst() || idx < 0 || idx >= len(sl.Obj.Elems) {
				return nil, false
			}
			cur = sl.Obj.Elems[idx]
			continue
		}
		var o *Obj
		switch x := cur.(type) {
		case *Ptr:
			o = x.Obj
			if x.Field >= 0 {
				if a, ok := o.Fields[x.Field].(*Agg); ok {
					o = a.Obj
				}
			}
		case *Agg:
			o = x.Obj
		default:
			return nil, false
		}
		nv, ok := FieldByName(p, o, tok)
		if !ok {
			return nil, false
		}
		cur = nv
	}
	return cur, true
}

// LenOf returns the length of a slice value as a linear form.
func LenOf(v Value) (*Lin, bool) {
	switch x := v.(type) {
	case *Slice:
		return x.Len, true
	case *NilV:
		return LConst(0), true
	}
	return nil, false
}

// Deref loads the value a pointer to a scalar cell points to.
func Deref(p *Path, v Value) Value {
	ptr, ok := v.(*Ptr)
	if !ok {
		return v
	}
	if ptr.Obj.Kind == OCell {
		return ptr.Obj.Cell
	}
	return &Agg{Obj: ptr.Obj}
}
