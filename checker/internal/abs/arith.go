package abs

import (
	"fmt"
	"go/token"
	"go/types"
	"strings"

	"golang.org/x/tools/go/ssa"
)

// fromLin builds an integer of width w from a linear form: its bits are the bits of the
// (non-negative) mathematical value, addressed through a derived atom named by the canonical text.
func (e *Engine) fromLin(p *Path, l *Lin, w int, signed bool) *Int {
	if l.IsConst() {
		return NewConst(l.C, w, signed)
	}
	if a, ok := l.SingleAtom(); ok {
		ai := p.atomInfo(a)
		v := &Int{W: w, Signed: signed, Bits: make([]Bit, w), Lin: l}
		for i := 0; i < w; i++ {
			if ai != nil && i >= ai.W {
				v.Bits[i] = bit0
			} else {
				v.Bits[i] = p.resolveBit(Bit{K: BSym, A: a, I: i})
			}
		}
		return v
	}
	name := l.String()
	// width of the derived atom from its upper bound, when known
	dw := 63
	if ub, ok := p.upperBound(l); ok && ub >= 0 {
		dw = 0
		for (int64(1) << uint(dw)) <= ub {
			dw++
		}
	}
	if _, ok := p.Atoms[name]; !ok {
		lo, okLo := p.lowerBound(l)
		if !okLo || lo < 0 {
			lo = 0
		}
		hi, okHi := p.upperBound(l)
		if !okHi {
			hi = -1
		}
		p.Atoms[name] = &AtomInfo{W: dw, Lo: lo, Hi: hi}
	}
	v := &Int{W: w, Signed: signed, Bits: make([]Bit, w), Lin: l}
	for i := 0; i < w; i++ {
		if i >= dw {
			v.Bits[i] = bit0
		} else {
			v.Bits[i] = Bit{K: BSym, A: name, I: i}
		}
	}
	if lb, ok := p.lowerBound(l); !ok || lb < 0 {
		// may be negative: the bit view is not the two's complement of a negative value; keep Lin only
		for i := range v.Bits {
			v.Bits[i] = bitTop
		}
	}
	return v
}

func (p *Path) upperBound(l *Lin) (int64, bool) {
	n, ok := p.lowerBound(l.Scale(-1))
	if !ok {
		return 0, false
	}
	return -n, true
}

// fixLin recovers the linear form of a bit vector when it is a constant or exactly an atom.
func (e *Engine) fixLin(p *Path, v *Int) *Int {
	if c, ok := (&Int{W: v.W, Signed: v.Signed, Bits: v.Bits}).Const(); ok {
		v.Lin = LConst(c)
		return v
	}
	v.Lin = nil
	// exactly "atom": bit i = Sym(a,i) for i < k, zero above, k >= declared width of a
	var a string
	k := 0
	for i, b := range v.Bits {
		if b.K == BSym && b.I == i && (a == "" || a == b.A) && k == i {
			a = b.A
			k = i + 1
			continue
		}
		if b.K == B0 {
			continue
		}
		return e.bitsAtom(p, v)
	}
	if a != "" {
		if ai := p.atomInfo(a); ai != nil && ai.W <= k {
			// all significant bits present (bound bits of the atom resolve to constants and break the pattern, handled by Const above)
			if v.Signed && k >= v.W {
				return v
			}
			v.Lin = LAtom(a)
			return v
		}
	}
	return e.bitsAtom(p, v)
}

// bitsAtom gives a bit vector without unknown bits (e.g. a length assembled from several input
// bytes) a linear identity: a derived atom named after the canonical bit pattern, ranging over
// [0, 2^k-1] where k-1 is the highest possibly-set bit. Two computations of the same pattern
// share the atom, so a guard on one protects the other.
func (e *Engine) bitsAtom(p *Path, v *Int) *Int {
	top := -1
	for i, b := range v.Bits {
		switch b.K {
		case BTop:
			return v
		case B1, BSym:
			top = i
		}
	}
	if top < 0 || top >= 62 || (v.Signed && top >= v.W-1) {
		return v
	}
	var sb strings.Builder
	for i := top; i >= 0; i-- {
		sb.WriteString(v.Bits[i].String())
		sb.WriteByte(' ')
	}
	name := "bv{" + strings.TrimSpace(sb.String()) + "}"
	if _, ok := p.Atoms[name]; !ok {
		p.Atoms[name] = &AtomInfo{W: top + 1, Lo: 0, Hi: (int64(1) << uint(top+1)) - 1}
	}
	v.Lin = LAtom(name)
	return v
}

func (e *Engine) binop(p *Path, fr *Frame, x *ssa.BinOp) Value {
	l := e.operand(p, fr, x.X)
	r := e.operand(p, fr, x.Y)
	switch x.Op {
	case token.EQL, token.NEQ, token.LSS, token.LEQ, token.GTR, token.GEQ:
		return e.compare(p, x.Op, l, r)
	}
	li, lok := l.(*Int)
	ri, rok := r.(*Int)
	if !lok || !rok {
		// string concatenation etc.
		if x.Op == token.ADD {
			if ls, ok := l.(*Slice); ok {
				if rs, ok := r.(*Slice); ok {
					return e.concat(p, ls, rs)
				}
			}
		}
		return e.topOf(p, x.Type(), "binop on non-integers")
	}
	w, signed, _ := typeWidth(x.Type())
	if w == 0 {
		w, signed = li.W, li.Signed
	}
	out := &Int{W: w, Signed: signed, Bits: make([]Bit, w)}
	bitAt := func(v *Int, i int) Bit {
		if i < len(v.Bits) {
			return v.Bits[i]
		}
		return bit0
	}
	switch x.Op {
	case token.AND:
		for i := 0; i < w; i++ {
			out.Bits[i] = bitAnd(bitAt(li, i), bitAt(ri, i))
		}
		return e.fixLin(p, out)
	case token.OR:
		for i := 0; i < w; i++ {
			out.Bits[i] = bitOr(bitAt(li, i), bitAt(ri, i))
		}
		return e.fixLin(p, out)
	case token.XOR:
		for i := 0; i < w; i++ {
			out.Bits[i] = bitXor(bitAt(li, i), bitAt(ri, i))
		}
		return e.fixLin(p, out)
	case token.AND_NOT:
		for i := 0; i < w; i++ {
			out.Bits[i] = bitAnd(bitAt(li, i), bitNot(bitAt(ri, i)))
		}
		return e.fixLin(p, out)
	case token.SHL, token.SHR:
		k, ok := ri.Const()
		if !ok || k < 0 {
			return TopInt(w, signed)
		}
		for i := 0; i < w; i++ {
			var src int
			if x.Op == token.SHL {
				src = i - int(k)
			} else {
				src = i + int(k)
			}
			switch {
			case src < 0:
				out.Bits[i] = bit0
			case src >= li.W:
				if x.Op == token.SHR && li.Signed {
					out.Bits[i] = li.Bits[li.W-1] // arithmetic shift
				} else {
					out.Bits[i] = bit0
				}
			default:
				out.Bits[i] = li.Bits[src]
			}
		}
		return e.fixLin(p, out)
	case token.ADD, token.SUB:
		if li.Lin != nil && ri.Lin != nil {
			var s *Lin
			if x.Op == token.ADD {
				s = li.Lin.Add(ri.Lin)
			} else {
				s = li.Lin.Sub(ri.Lin)
			}
			// wrap-around: the linear form is only kept when the result provably fits the type
			if !signed {
				hiOK := false
				if w >= 63 {
					hiOK = true
				} else if ub, ok := p.upperBound(s); ok && ub < (int64(1)<<uint(w)) {
					hiOK = true
				}
				if !p.Prove(s) || !hiOK {
					if x.Op == token.ADD {
						if c, isC := ri.Const(); isC && c == 0 {
							return li
						}
					}
					res := e.fromLin(p, s, w, signed)
					if !p.Prove(s) {
						p.note("unsigned %s may wrap below zero: %s", x.Op, s)
						return &Int{W: w, Signed: signed, Bits: topBits(w), Lin: nil}
					}
					// may exceed the width: bits below w are still the low bits of the value
					res.Lin = nil
					return res
				}
			}
			return e.fromLin(p, s, w, signed)
		}
		// adding a constant zero
		if c, ok := ri.Const(); ok && c == 0 {
			return li
		}
		if c, ok := li.Const(); ok && c == 0 && x.Op == token.ADD {
			return ri
		}
		return TopInt(w, signed)
	case token.MUL:
		if c, ok := ri.Const(); ok && li.Lin != nil {
			return e.fromLin(p, li.Lin.Scale(c), w, signed)
		}
		if c, ok := li.Const(); ok && ri.Lin != nil {
			return e.fromLin(p, ri.Lin.Scale(c), w, signed)
		}
		return TopInt(w, signed)
	case token.QUO, token.REM:
		lc, lok := li.Const()
		rc, rok := ri.Const()
		if lok && rok && rc != 0 {
			if x.Op == token.QUO {
				return NewConst(lc/rc, w, signed)
			}
			return NewConst(lc%rc, w, signed)
		}
		if rok && rc > 0 && li.Lin != nil && p.Prove(li.Lin) && !li.Lin.IsConst() {
			// floor division / remainder of a non-negative linear value by a positive constant:
			// a derived atom with the induced interval
			name := "(" + li.Lin.String() + ")/" + fmt.Sprint(rc)
			if x.Op == token.REM {
				name = "(" + li.Lin.String() + ")%" + fmt.Sprint(rc)
			}
			if _, ok := p.Atoms[name]; !ok {
				if x.Op == token.REM {
					p.Atoms[name] = &AtomInfo{W: 63, Lo: 0, Hi: rc - 1}
				} else {
					lo, _ := p.lowerBound(li.Lin)
					if lo < 0 {
						lo = 0
					}
					hi := int64(-1)
					if ub, ok := p.upperBound(li.Lin); ok {
						hi = ub / rc
					}
					p.Atoms[name] = &AtomInfo{W: 63, Lo: lo / rc, Hi: hi}
				}
			}
			return e.fromLin(p, LAtom(name), w, signed)
		}
		if rok && rc > 0 && rc&(rc-1) == 0 && !li.Signed {
			// power of two: shift / mask
			k := 0
			for (int64(1) << uint(k)) < rc {
				k++
			}
			for i := 0; i < w; i++ {
				if x.Op == token.QUO {
					out.Bits[i] = bitAt(li, i+k)
				} else if i < k {
					out.Bits[i] = bitAt(li, i)
				} else {
					out.Bits[i] = bit0
				}
			}
			return e.fixLin(p, out)
		}
		return TopInt(w, signed)
	}
	return TopInt(w, signed)
}

func (e *Engine) concat(p *Path, a, b *Slice) Value {
	sa, ok1 := p.segsOf(a)
	sb, ok2 := p.segsOf(b)
	if !ok1 || !ok2 {
		return &TopV{"concat"}
	}
	o := p.newObj(OBytes, "concat")
	o.Segs = append(append([]Seg{}, sa...), sb...)
	n := a.Len.Add(b.Len)
	return &Slice{Obj: o, Off: LConst(0), Len: n, Cap: n, IsString: true}
}

// convert models numeric and string/[]byte conversions.
func (e *Engine) convert(p *Path, v Value, from, to types.Type) Value {
	if iv, ok := v.(*Int); ok {
		w, signed, ok := typeWidth(to)
		if !ok {
			if b, isB := to.Underlying().(*types.Basic); isB && b.Info()&types.IsFloat != 0 {
				return &TopV{"float"}
			}
			if b, isB := to.Underlying().(*types.Basic); isB && b.Info()&types.IsString != 0 {
				return &TopV{"string(int)"}
			}
			return &TopV{"convert"}
		}
		out := &Int{W: w, Signed: signed, Bits: make([]Bit, w)}
		for i := 0; i < w; i++ {
			switch {
			case i < iv.W:
				out.Bits[i] = iv.Bits[i]
			case iv.Signed:
				out.Bits[i] = iv.Bits[iv.W-1]
			default:
				out.Bits[i] = bit0
			}
		}
		// keep the linear form when the value provably fits the target
		if iv.Lin != nil {
			fits := false
			if lb, ok := p.lowerBound(iv.Lin); ok {
				min := int64(0)
				if signed && w < 64 {
					min = -(int64(1) << uint(w-1))
				} else if signed {
					min = -(1 << 62)
				}
				if lb >= min {
					if w >= 63 {
						fits = true
					} else if ub, ok := p.upperBound(iv.Lin); ok {
						max := (int64(1) << uint(w)) - 1
						if signed {
							max = (int64(1) << uint(w-1)) - 1
						}
						fits = ub <= max
					}
				}
			}
			if fits {
				out.Lin = iv.Lin
				return out
			}
		}
		return e.fixLin(p, out)
	}
	if sl, ok := v.(*Slice); ok {
		tb, isB := to.Underlying().(*types.Basic)
		_, toSlice := to.Underlying().(*types.Slice)
		if (isB && tb.Info()&types.IsString != 0) || toSlice {
			// copy semantics: snapshot the window
			segs, ok := p.segsOf(sl)
			if !ok {
				return &TopV{"string/bytes conversion of unaligned window"}
			}
			o := p.newObj(OBytes, sl.Obj.Name)
			o.Segs = append([]Seg{}, segs...)
			return &Slice{Obj: o, Off: LConst(0), Len: sl.Len, Cap: sl.Len, IsString: !toSlice}
		}
	}
	if f, ok := v.(*FloatV); ok {
		return f
	}
	if _, ok := v.(*NilV); ok {
		return v
	}
	return &TopV{"convert"}
}

// compare evaluates a comparison to a known boolean or a predicate.
func (e *Engine) compare(p *Path, op token.Token, l, r Value) Value {
	// nil comparisons
	ln, rn := isNilValue(l), isNilValue(r)
	if ln != 0 || rn != 0 {
		if op != token.EQL && op != token.NEQ {
			return &Bool{}
		}
		var eq *Bool
		switch {
		case ln == 1 && rn == 1:
			eq = True
		case (ln == 1 && rn == 2) || (ln == 2 && rn == 1):
			eq = False
		default:
			return &Bool{}
		}
		if op == token.NEQ {
			if eq.Val {
				return False
			}
			return True
		}
		return eq
	}
	if lb, ok := l.(*Bool); ok {
		if rb, ok := r.(*Bool); ok && lb.Known && rb.Known {
			res := lb.Val == rb.Val
			if op == token.NEQ {
				res = !res
			}
			if res {
				return True
			}
			return False
		}
		return &Bool{}
	}
	li, lok := l.(*Int)
	ri, rok := r.(*Int)
	if lok && rok {
		return e.compareInt(p, op, li, ri)
	}
	// strings / named string types: equality of segment lists
	if ls, ok := l.(*Slice); ok {
		if rs, ok := r.(*Slice); ok && (op == token.EQL || op == token.NEQ) {
			a, ok1 := p.segsOf(ls)
			b, ok2 := p.segsOf(rs)
			if ok1 && ok2 {
				if res, known := segsEqual(a, b); known {
					if op == token.NEQ {
						res = !res
					}
					if res {
						return True
					}
					return False
				}
				key := fmt.Sprintf("%s == %s", SegsString(a), SegsString(b))
				pr := &Pred{Key: key, Neg: op == token.NEQ}
				if op == token.NEQ {
					pr.Key = negKey(key)
				}
				return &Bool{Pred: pr}
			}
		}
	}
	return &Bool{}
}

// isNilValue: 1 = definitely nil, 2 = definitely non-nil, 0 = unknown / not applicable.
func isNilValue(v Value) int {
	switch x := v.(type) {
	case *NilV:
		return 1
	case *ErrV, *Ptr, *Iface, *Closure, *BytePtr, *SymIface:
		return 2 // lazily symbolic interfaces are non-nil; the nil partition is a separate variant (NilNames)
	case *Slice:
		_ = x
		return 2
	}
	return 0
}

func segsEqual(a, b []Seg) (equal, known bool) {
	// all known bytes on both sides
	allConst := func(s []Seg) ([]byte, bool) {
		var out []byte
		for _, x := range s {
			if x.Byte == nil {
				return nil, false
			}
			c, ok := x.Byte.Const()
			if !ok {
				return nil, false
			}
			out = append(out, byte(c))
		}
		return out, true
	}
	ca, ok1 := allConst(a)
	cb, ok2 := allConst(b)
	if ok1 && ok2 {
		return string(ca) == string(cb), true
	}
	if len(a) == len(b) {
		same := true
		for i := range a {
			if a[i].String() != b[i].String() {
				same = false
			}
		}
		if same {
			return true, true
		}
	}
	return false, false
}

func (e *Engine) compareInt(p *Path, op token.Token, l, r *Int) Value {
	mk := func(b bool) Value {
		if b {
			return True
		}
		return False
	}
	// bit-level equality
	if op == token.EQL || op == token.NEQ {
		w := l.W
		if r.W > w {
			w = r.W
		}
		bitAt := func(v *Int, i int) Bit {
			if i < len(v.Bits) {
				return v.Bits[i]
			}
			if v.Signed && len(v.Bits) > 0 {
				return v.Bits[len(v.Bits)-1]
			}
			return bit0
		}
		allSame, differs, anyTop := true, false, false
		for i := 0; i < w; i++ {
			a, b := bitAt(l, i), bitAt(r, i)
			if a.K == BTop || b.K == BTop {
				anyTop = true
				allSame = false
				continue
			}
			if a != b {
				allSame = false
				if (a.K == B0 && b.K == B1) || (a.K == B1 && b.K == B0) {
					differs = true
				}
			}
		}
		if differs {
			return mk(op == token.NEQ)
		}
		if allSame {
			return mk(op == token.EQL)
		}
		// linear route
		if l.Lin != nil && r.Lin != nil {
			d := l.Lin.Sub(r.Lin)
			if p.ProveEq(d) {
				return mk(op == token.EQL)
			}
			if p.Prove(d.Add(LConst(-1))) || p.Prove(d.Scale(-1).Add(LConst(-1))) {
				return mk(op == token.NEQ)
			}
		}
		// predicate: vector equality against a constant side refines symbolic bits
		pr := &Pred{Neg: op == token.NEQ}
		var vec, cst []Bit
		okVec := !anyTop
		if okVec {
			if _, isC := r.Const(); isC {
				vec, cst = padBits(l, w), padBits(r, w)
			} else if _, isC := l.Const(); isC {
				vec, cst = padBits(r, w), padBits(l, w)
			} else {
				okVec = false
			}
		}
		if okVec {
			// only refine when every non-constant position of vec is a symbolic bit
			for i := range vec {
				if vec[i].K == BTop {
					okVec = false
				}
			}
		}
		if okVec {
			pr.EqBits, pr.EqC = vec, cst
		}
		if l.Lin != nil && r.Lin != nil {
			pr.EqLin = l.Lin.Sub(r.Lin)
		}
		pr.Key = fmt.Sprintf("%s == %s", l.String(), r.String())
		if pr.Neg {
			pr.Key = negKey(pr.Key)
		}
		return &Bool{Pred: pr}
	}
	// ordering
	if l.Signed && len(l.Bits) > 0 {
		// comparison of a signed value with 0 is decided by a known sign bit
		if c, ok := r.Const(); ok && c == 0 {
			switch sb := l.Bits[len(l.Bits)-1]; {
			case sb.K == B1:
				return mk(op == token.LSS || op == token.LEQ)
			case sb.K == B0 && (op == token.LSS || op == token.GEQ):
				return mk(op == token.GEQ)
			}
		}
	}
	if l.Lin == nil || r.Lin == nil {
		// unsigned bit-vector ordering against a constant when high bits decide
		if c, ok := r.Const(); ok && !l.Signed {
			if ub, ok2 := bitsUpper(l); ok2 {
				switch op {
				case token.LSS:
					if ub < c {
						return True
					}
				case token.LEQ:
					if ub <= c {
						return True
					}
				case token.GTR:
					if ub <= c {
						return False
					}
				case token.GEQ:
					if ub < c {
						return False
					}
				}
			}
		}
		return &Bool{Pred: &Pred{Key: fmt.Sprintf("%s %s %s", l.String(), op, r.String())}}
	}
	// normalise to  d >= 0
	var d *Lin
	switch op {
	case token.LSS: // l < r  ==  r-l-1 >= 0
		d = r.Lin.Sub(l.Lin).Add(LConst(-1))
	case token.LEQ:
		d = r.Lin.Sub(l.Lin)
	case token.GTR:
		d = l.Lin.Sub(r.Lin).Add(LConst(-1))
	case token.GEQ:
		d = l.Lin.Sub(r.Lin)
	}
	if p.Prove(d) {
		return True
	}
	if p.Prove(d.Scale(-1).Add(LConst(-1))) {
		return False
	}
	return &Bool{Pred: &Pred{Key: d.String() + " >= 0", Lin: d}}
}

func padBits(v *Int, w int) []Bit {
	out := make([]Bit, w)
	for i := 0; i < w; i++ {
		switch {
		case i < len(v.Bits):
			out[i] = v.Bits[i]
		case v.Signed && len(v.Bits) > 0:
			out[i] = v.Bits[len(v.Bits)-1]
		default:
			out[i] = bit0
		}
	}
	return out
}

// bitsUpper: the largest value the bit vector can take (symbolic bits = 1).
func bitsUpper(v *Int) (int64, bool) {
	if v.W > 62 {
		for _, b := range v.Bits[62:] {
			if b.K != B0 {
				return 0, false
			}
		}
	}
	var u int64
	for i, b := range v.Bits {
		if i >= 62 {
			break
		}
		if b.K != B0 {
			u |= 1 << uint(i)
		}
	}
	return u, true
}

var _ = ssa.Value(nil)
