package abs

import (
	"fmt"
	"strings"
)

// BitSpec is one expected bit: constant, field bit, or don't-care.
type BitSpec struct {
	Kind byte // '0', '1', 'F', 'X'
	Atom string
	Bit  int
}

// SegSpec is one expected segment: a byte (8 BitSpec, MSB first) or a blob.
type SegSpec struct {
	Bits []BitSpec
	Blob string
	Len  *Lin
}

// Part is a run of bits inside a byte description.
type Part struct {
	bits []BitSpec
}

// K is an n-bit constant (MSB first).
func K(n int, v uint64) Part {
	var p Part
	for i := n - 1; i >= 0; i-- {
		if v&(1<<uint(i)) != 0 {
			p.bits = append(p.bits, BitSpec{Kind: '1'})
		} else {
			p.bits = append(p.bits, BitSpec{Kind: '0'})
		}
	}
	return p
}

// F is bits hi..lo of an atom (MSB first).
func F(atom string, hi, lo int) Part {
	var p Part
	for i := hi; i >= lo; i-- {
		p.bits = append(p.bits, BitSpec{Kind: 'F', Atom: atom, Bit: i})
	}
	return p
}

// X is n don't-care bits.
func X(n int) Part {
	var p Part
	for i := 0; i < n; i++ {
		p.bits = append(p.bits, BitSpec{Kind: 'X'})
	}
	return p
}

// Pack concatenates parts (MSB first) into whole bytes.
func Pack(parts ...Part) []SegSpec {
	var all []BitSpec
	for _, p := range parts {
		all = append(all, p.bits...)
	}
	if len(all)%8 != 0 {
		panic(fmt.Sprintf("oracle: %d bits do not fill whole bytes", len(all)))
	}
	var out []SegSpec
	for i := 0; i < len(all); i += 8 {
		out = append(out, SegSpec{Bits: all[i : i+8]})
	}
	return out
}

// BE is an n-byte big-endian field of an atom.
func BE(atom string, nbytes int) []SegSpec { return Pack(F(atom, 8*nbytes-1, 0)) }

// LE is an n-byte little-endian field of an atom.
func LE(atom string, nbytes int) []SegSpec {
	var out []SegSpec
	for k := 0; k < nbytes; k++ {
		out = append(out, Pack(F(atom, 8*k+7, 8*k))...)
	}
	return out
}

// ConstBytes is a literal byte sequence.
func ConstBytes(bs ...byte) []SegSpec {
	var out []SegSpec
	for _, b := range bs {
		out = append(out, Pack(K(8, uint64(b)))...)
	}
	return out
}

// BlobSpec is a blob segment.
func BlobSpec(name string, n *Lin) []SegSpec { return []SegSpec{{Blob: name, Len: n}} }

// Cat concatenates segment specs.
func Cat(parts ...[]SegSpec) []SegSpec {
	var out []SegSpec
	for _, p := range parts {
		out = append(out, p...)
	}
	return out
}

func (b BitSpec) String() string {
	switch b.Kind {
	case '0', '1':
		return string(b.Kind)
	case 'X':
		return "x"
	}
	return fmt.Sprintf("%s<%d>", b.Atom, b.Bit)
}

// SpecString renders an expected layout.
func SpecString(spec []SegSpec) string {
	var parts []string
	for _, s := range spec {
		if s.Bits == nil {
			parts = append(parts, fmt.Sprintf("Blob(%s,%s)", s.Blob, s.Len))
			continue
		}
		var bs []string
		for _, b := range s.Bits {
			bs = append(bs, b.String())
		}
		parts = append(parts, "["+strings.Join(bs, " ")+"]")
	}
	return strings.Join(parts, " | ")
}

// expectBit resolves an expected bit under the path's bindings (a bound field bit is a constant).
func (p *Path) expectBit(b BitSpec) (Bit, bool) {
	switch b.Kind {
	case '0':
		return bit0, true
	case '1':
		return bit1, true
	case 'X':
		return Bit{}, false
	}
	ai := p.atomInfo(b.Atom)
	if ai != nil && b.Bit >= ai.W {
		return bit0, true
	}
	return p.resolveBit(Bit{K: BSym, A: b.Atom, I: b.Bit}), true
}

// Compare checks an actual segment list against the expected layout and returns the mismatches.
func (p *Path) Compare(actual []Seg, spec []SegSpec) []string {
	var out []string
	// normalise actual: expand nothing; compare positionally
	i := 0
	for k, s := range spec {
		if s.Bits == nil && p.ProveEq(s.Len) && (i >= len(actual) || actual[i].Byte != nil || actual[i].Blob != s.Blob) {
			continue // an expected blob that is empty on this path may be absent
		}
		if i >= len(actual) {
			out = append(out, fmt.Sprintf("output ends after %d segments; expected segment %d = %s", len(actual), k, SpecString([]SegSpec{s})))
			return out
		}
		a := actual[i]
		if s.Bits == nil {
			// blob; an empty expected blob may be absent
			nameOK := a.Blob == s.Blob
			if strings.HasSuffix(s.Blob, "*") {
				nameOK = strings.HasPrefix(a.Blob, strings.TrimSuffix(s.Blob, "*"))
			}
			if a.Byte != nil || !nameOK || !p.ProveEq(a.Len.Sub(s.Len)) {
				if s.Len.IsConst() && s.Len.C == 0 {
					continue
				}
				out = append(out, fmt.Sprintf("segment %d: got %s, expected Blob(%s,%s)", k, a.String(), s.Blob, s.Len))
			}
			i++
			continue
		}
		if a.Byte == nil {
			out = append(out, fmt.Sprintf("segment %d: got %s, expected byte %s", k, a.String(), SpecString([]SegSpec{s})))
			i++
			continue
		}
		got := p.norm(a.Byte)
		for j, bs := range s.Bits {
			want, care := p.expectBit(bs)
			if !care {
				continue
			}
			g := got.Bits[7-j]
			if g != want {
				out = append(out, fmt.Sprintf("byte %d bit %d: got %s, expected %s (byte is %s, expected %s)", k, 7-j, g, want, got, SpecString([]SegSpec{s})))
			}
		}
		i++
	}
	if i < len(actual) {
		rest := actual[i:]
		// trailing empty blobs are harmless
		nonEmpty := false
		for _, r := range rest {
			if r.Byte != nil || !(r.Len.IsConst() && r.Len.C == 0) {
				nonEmpty = true
			}
		}
		if nonEmpty {
			out = append(out, fmt.Sprintf("output has %d extra segment(s): %s", len(rest), SegsString(rest)))
		}
	}
	return out
}

// InputFrom builds a symbolic input buffer from an expected layout (decoder direction):
// constants stay constants, field bits become the field's symbolic bits, don't-care bits
// become fresh symbolic bits that the decoder must not depend on.
func (p *Path) InputFrom(spec []SegSpec) []Seg {
	var out []Seg
	for k, s := range spec {
		if s.Bits == nil {
			out = append(out, Seg{Blob: s.Blob, Len: s.Len})
			continue
		}
		b := &Int{W: 8, Bits: make([]Bit, 8)}
		for j, bs := range s.Bits {
			switch bs.Kind {
			case 'X':
				a := fmt.Sprintf("dontcare.%d", k)
				if _, ok := p.Atoms[a]; !ok {
					p.Atoms[a] = &AtomInfo{W: 8, Lo: 0, Hi: 255}
				}
				b.Bits[7-j] = Bit{K: BSym, A: a, I: 7 - j}
			default:
				w, _ := p.expectBit(bs)
				b.Bits[7-j] = w
			}
		}
		out = append(out, Seg{Byte: p.E.fixLin(p, b)})
	}
	return out
}

// BytesValue wraps a segment list as a []byte value.
func (p *Path) BytesValue(name string, segs []Seg) *Slice {
	o := p.newObj(OBytes, name)
	o.Segs = append([]Seg{}, segs...)
	n := totalLen(segs)
	return &Slice{Obj: o, Off: LConst(0), Len: n, Cap: n}
}

// ExpectField checks that an integer result equals bits hi..0 of an atom, zero-extended.
func (p *Path) ExpectField(got Value, atom string, width int) string {
	iv, ok := got.(*Int)
	if !ok {
		return fmt.Sprintf("got %s, expected field %s", Describe(p, got), atom)
	}
	iv = p.norm(iv)
	for i := 0; i < iv.W; i++ {
		var want Bit
		if i < width {
			want, _ = p.expectBit(BitSpec{Kind: 'F', Atom: atom, Bit: i})
		} else {
			want = bit0
		}
		if iv.Bits[i] != want {
			return fmt.Sprintf("bit %d: got %s, expected %s (value %s, expected %s[%d..0])", i, iv.Bits[i], want, iv, atom, width-1)
		}
	}
	return ""
}
