package abs

import (
	"fmt"
	"go/constant"
	"go/token"
	"go/types"
	"os"
	"strconv"
	"strings"
	"time"

	"golang.org/x/tools/go/ssa"

	"oryxverif/checker/internal/core"
)

// Engine interprets SSA functions of one loaded program.
type Engine struct {
	P *core.Program
	// FailReads makes every transport read primitive (io.ReadFull, io.CopyN, binary.Read) fork into "succeeds" and
	// "fails after delivering fewer bytes than asked" (used where truncated input must be covered: C07)
	FailReads bool
	MaxDepth  int
	MaxSteps  int
	// RunBudget bounds the wall-clock time of one Run (all paths of one variant); when it is exceeded the run ends
	// as undecided (which fails the obligation) instead of exploring an exponential number of paths for hours.
	RunBudget time.Duration
	MaxPaths  int
	// Contract hooks: called for invoke-mode calls on symbolic interface values and for
	// module functions the caller wants summarised instead of inlined. Return handled=false to fall through.
	Contract func(p *Path, fr *Frame, call *ssa.CallCommon, callee *ssa.Function, args []Value) (Value, bool)

	preseed map[ssa.Value]Value
}

// NewEngine returns an engine with default budgets.
func NewEngine(P *core.Program) *Engine {
	budget := 300 * time.Second
	if v := os.Getenv("ORYX_RUN_BUDGET_S"); v != "" {
		if n, err := strconv.Atoi(v); err == nil && n > 0 {
			budget = time.Duration(n) * time.Second
		}
	}
	return &Engine{P: P, MaxDepth: 12, MaxSteps: 200000, MaxPaths: 4096, RunBudget: budget}
}

// Result is the outcome of one path.
type Result struct {
	Path *Path
	Ret  []Value // return values
}

// AutoArgs builds lazily symbolic arguments named after the parameters.
func (e *Engine) AutoArgs(p *Path, fn *ssa.Function) []Value {
	var out []Value
	for _, par := range fn.Params {
		out = append(out, e.lazyValue(p, core.ParamName(par), par.Type()))
	}
	return out
}

// Lazy exposes lazyValue to rule code.
func (e *Engine) Lazy(p *Path, name string, t types.Type) Value { return e.lazyValue(p, name, t) }

// RunCustom explores every path of an arbitrary driver (a sequence of CallFn invocations).
func (e *Engine) RunCustom(body func(p *Path) []Value) []Result {
	var results []Result
	var decisions []bool
	start := time.Now()
	for n := 0; n < e.MaxPaths; n++ {
		if e.RunBudget > 0 && time.Since(start) > e.RunBudget && len(results) > 0 {
			results[len(results)-1].Path.abort("analysis budget of %v exceeded after %d paths", e.RunBudget, len(results))
			return results
		}
		p := &Path{E: e, deadline: start.Add(e.RunBudget), decisions: append([]bool(nil), decisions...), Bind: map[string]map[int]bool{}, Assumed: map[string]bool{},
			Atoms: map[string]*AtomInfo{}, Sinks: map[string]*Obj{}, Keep: map[string]Value{}, NilNames: map[string]bool{}}
		ret := body(p)
		results = append(results, Result{Path: p, Ret: ret})
		if strings.HasPrefix(p.Abort, "loop with a symbolic bound") {
			return results
		}
		d := p.decisions
		i := len(d) - 1
		for i >= 0 && !d[i] {
			i--
		}
		if i < 0 {
			return results
		}
		decisions = append(append([]bool(nil), d[:i]...), false)
	}
	return results
}

// Setup prepares the arguments and initial state of a path (bind atoms, declare domains, build inputs).
type Setup func(p *Path) []Value

// Run explores every path of fn under the setup and returns one Result per path.
func (e *Engine) Run(fn *ssa.Function, setup Setup) []Result {
	var results []Result
	var decisions []bool
	start := time.Now()
	for n := 0; n < e.MaxPaths; n++ {
		if e.RunBudget > 0 && time.Since(start) > e.RunBudget && len(results) > 0 {
			results[len(results)-1].Path.abort("analysis budget of %v exceeded after %d paths of %s", e.RunBudget, len(results), core.QualName(fn))
			return results
		}
		p := &Path{E: e, deadline: start.Add(e.RunBudget), decisions: append([]bool(nil), decisions...), Bind: map[string]map[int]bool{}, Assumed: map[string]bool{},
			Atoms: map[string]*AtomInfo{}, Sinks: map[string]*Obj{}, Keep: map[string]Value{}, NilNames: map[string]bool{}}
		args := setup(p)
		ret := e.call(p, fn, args, 0)
		results = append(results, Result{Path: p, Ret: ret})
		if strings.HasPrefix(p.Abort, "loop with a symbolic bound") {
			return results // every further path would run into the same loop
		}
		// next decision vector: flip the last 'true' that was a fresh choice
		d := p.decisions
		i := len(d) - 1
		for i >= 0 && !d[i] {
			i--
		}
		if i < 0 {
			return results
		}
		decisions = append(append([]bool(nil), d[:i]...), false)
	}
	if len(results) > 0 {
		results[len(results)-1].Path.abort("path budget exceeded")
	}
	return results
}

// Frame is one activation record.
type Frame struct {
	fn     *ssa.Function
	env    map[ssa.Value]Value
	depth  int
	defers []func()
	visits map[*ssa.BasicBlock]int
	forks  map[*ssa.If]int
}

func (e *Engine) call(p *Path, fn *ssa.Function, args []Value, depth int) []Value {
	if p.Abort != "" || p.Panics != "" {
		return nil
	}
	if depth > e.MaxDepth {
		p.abort("inlining depth exceeded at %s", core.QualName(fn))
		return nil
	}
	if len(fn.Blocks) == 0 {
		p.abort("no body for %s", core.FullName(fn))
		return nil
	}
	fr := &Frame{fn: fn, env: map[ssa.Value]Value{}, depth: depth, visits: map[*ssa.BasicBlock]int{}, forks: map[*ssa.If]int{}}
	for k, v := range e.preseed {
		fr.env[k] = v
	}
	e.preseed = nil
	for i, par := range fn.Params {
		if i < len(args) {
			fr.env[par] = args[i]
		} else {
			fr.env[par] = &TopV{"missing arg"}
		}
	}
	var prev *ssa.BasicBlock
	b := fn.Blocks[0]
	for {
		fr.visits[b]++
		if fr.visits[b] > 300 {
			p.abort("loop bound exceeded in %s", core.QualName(fn))
			return nil
		}
		var next *ssa.BasicBlock
		for _, in := range b.Instrs {
			p.steps++
			if p.steps&1023 == 0 && e.RunBudget > 0 && !p.deadline.IsZero() && time.Now().After(p.deadline) {
				p.abort("analysis budget of %v exceeded inside one path of %s", e.RunBudget, core.QualName(fn))
				return nil
			}
			if p.steps > e.MaxSteps {
				p.abort("step budget exceeded")
				return nil
			}
			switch x := in.(type) {
			case *ssa.Phi:
				for i, pr := range b.Preds {
					if pr == prev {
						fr.env[x] = e.operand(p, fr, x.Edges[i])
					}
				}
			case *ssa.If:
				c := e.operand(p, fr, x.Cond)
				bv, ok := c.(*Bool)
				if !ok {
					bv = &Bool{}
				}
				if !bv.Known {
					fr.forks[x]++
					if fr.forks[x] > 12 {
						p.abort("loop with a symbolic bound at %s in %s (bind the collection length in the variant)", e.P.InstrPos(x), core.QualName(fn))
						return nil
					}
				}
				if p.decide(bv, e.P.InstrPos(x)) {
					next = b.Succs[0]
				} else {
					next = b.Succs[1]
				}
			case *ssa.Jump:
				next = b.Succs[0]
			case *ssa.Return:
				var out []Value
				for _, r := range x.Results {
					out = append(out, e.operand(p, fr, r))
				}
				for i := len(fr.defers) - 1; i >= 0; i-- {
					fr.defers[i]()
				}
				return out
			case *ssa.Panic:
				p.Panics = fmt.Sprintf("explicit panic at %s", e.P.InstrPos(x))
				return nil
			default:
				e.exec(p, fr, in)
			}
			if p.Abort != "" || p.Panics != "" {
				return nil
			}
		}
		if next == nil {
			p.abort("fell off block %d of %s", b.Index, core.QualName(fn))
			return nil
		}
		prev, b = b, next
	}
}

// operand evaluates an SSA operand.
func (e *Engine) operand(p *Path, fr *Frame, v ssa.Value) Value {
	switch x := v.(type) {
	case *ssa.Const:
		return e.constant(p, x)
	case *ssa.Function:
		return &Closure{Fn: x}
	case *ssa.Global:
		return e.globalPtr(p, x)
	case *ssa.Builtin:
		return x
	}
	if val, ok := fr.env[v]; ok {
		if iv, ok := val.(*Int); ok {
			return p.norm(iv)
		}
		return val
	}
	if fv, ok := v.(*ssa.FreeVar); ok {
		return &TopV{"free var " + core.FreeVarName(fv)}
	}
	p.abort("no value for %s (%T) in %s", v.Name(), v, core.QualName(fr.fn))
	return &TopV{"unbound"}
}

func (e *Engine) constant(p *Path, c *ssa.Const) Value {
	t := c.Type()
	if c.Value == nil {
		if w, s, ok := typeWidth(t); ok {
			return NewConst(0, w, s)
		}
		if b, ok := t.Underlying().(*types.Basic); ok {
			switch {
			case b.Info()&types.IsBoolean != 0:
				return False
			case b.Info()&types.IsString != 0:
				return p.constString("")
			}
		}
		if _, ok := t.Underlying().(*types.Struct); ok {
			return e.zero(p, t)
		}
		return &NilV{}
	}
	switch c.Value.Kind() {
	case constant.Bool:
		if constant.BoolVal(c.Value) {
			return True
		}
		return False
	case constant.String:
		return p.constString(constant.StringVal(c.Value))
	case constant.Int:
		w, s, ok := typeWidth(t)
		if !ok {
			w, s = 64, true
		}
		i, exact := constant.Int64Val(c.Value)
		if !exact {
			u, _ := constant.Uint64Val(c.Value)
			i = int64(u)
		}
		return NewConst(i, w, s)
	case constant.Float:
		return &TopV{"float const"}
	}
	return &TopV{"const"}
}

func (p *Path) constString(s string) *Slice {
	o := p.newObj(OBytes, "const")
	for i := 0; i < len(s); i++ {
		o.Segs = append(o.Segs, Seg{Byte: NewConst(int64(s[i]), 8, false)})
	}
	return &Slice{Obj: o, Off: LConst(0), Len: LConst(int64(len(s))), Cap: LConst(int64(len(s))), IsString: true}
}

// globals: one cell object per global, created on demand per path.
func (e *Engine) globalPtr(p *Path, g *ssa.Global) Value {
	key := "global:" + core.Path(g)
	o, ok := p.Sinks[key]
	if !ok {
		if arr, isArr := g.Type().(*types.Pointer).Elem().Underlying().(*types.Array); isArr {
			// a package-level table: an array variable filled once by its literal and never written again
			if lit, ok := e.globalLiteral(p, g, arr.Elem(), arr.Len()); ok {
				p.Sinks[key] = lit
				return &Ptr{Obj: lit, Field: -1, Index: -1}
			}
		}
		o = p.newObj(OCell, core.Path(g))
		o.Cell = e.globalInit(p, g)
		p.Sinks[key] = o
	}
	if o.Kind != OCell {
		return &Ptr{Obj: o, Field: -1, Index: -1}
	}
	return &Ptr{Obj: o, Field: -1, Index: -1}
}

// globalLiteral builds the object of a package-level array or slice variable whose elements are constants stored by the
// package initialiser (var t = [...]int{...} / []byte{...}) and that no function of the module writes to afterwards.
// n < 0: the length is that of the literal (slice).
func (e *Engine) globalLiteral(p *Path, g *ssa.Global, elem types.Type, n int64) (*Obj, bool) {
	if g.Pkg == nil || !core.InModule(g.Pkg.Func("init")) {
		return nil, false
	}
	init := g.Pkg.Func("init")
	// the storage the literal is built in: the global itself (array) or a literal array the slice is taken of
	var store ssa.Value = g
	nStores := 0
	mutated := false
	for _, m := range g.Pkg.Members {
		fn, ok := m.(*ssa.Function)
		if !ok {
			continue
		}
		for _, f := range core.WithClosures(fn) {
			core.EachInstr(f, func(in ssa.Instruction) {
				st, ok := in.(*ssa.Store)
				if !ok {
					return
				}
				if st.Addr == ssa.Value(g) {
					nStores++
					if f != init {
						mutated = true
					}
					switch v := st.Val.(type) {
					case *ssa.Slice:
						if v.Low == nil && v.High == nil {
							store = v.X
						}
					case *ssa.UnOp:
						if v.Op == token.MUL {
							store = v.X
						}
					}
					return
				}
				// element writes outside the initialiser, through the global or a copy of the slice read from it
				if ia, ok := st.Addr.(*ssa.IndexAddr); ok && f != init {
					base := ia.X
					if ld, isLd := base.(*ssa.UnOp); isLd && ld.Op == token.MUL {
						base = ld.X
					}
					if base == ssa.Value(g) {
						mutated = true
					}
				}
			})
		}
	}
	// methods of the package's types may write as well
	for _, f := range e.P.ModuleFuncs(core.ShortPkg(init)) {
		if f.Signature.Recv() == nil {
			continue
		}
		core.EachInstr(f, func(in ssa.Instruction) {
			if st, ok := in.(*ssa.Store); ok {
				if st.Addr == ssa.Value(g) {
					mutated = true
				}
				if ia, ok := st.Addr.(*ssa.IndexAddr); ok {
					base := ia.X
					if ld, isLd := base.(*ssa.UnOp); isLd && ld.Op == token.MUL {
						base = ld.X
					}
					if base == ssa.Value(g) {
						mutated = true
					}
				}
			}
		})
	}
	if mutated || nStores > 1 {
		return nil, false
	}
	if _, isAlloc := store.(*ssa.Alloc); !isAlloc && store != ssa.Value(g) {
		return nil, false
	}
	vals := map[int64]*ssa.Const{}
	max := int64(-1)
	okAll := true
	core.EachInstr(init, func(in ssa.Instruction) {
		st, ok := in.(*ssa.Store)
		if !ok {
			return
		}
		ia, ok := st.Addr.(*ssa.IndexAddr)
		if !ok || ia.X != store {
			return
		}
		k, isK := core.ConstInt(ia.Index)
		c, isC := st.Val.(*ssa.Const)
		if !isK || !isC {
			okAll = false
			return
		}
		vals[k] = c
		if k > max {
			max = k
		}
	})
	if !okAll {
		return nil, false
	}
	if al, isAlloc := store.(*ssa.Alloc); isAlloc {
		if at, ok := al.Type().(*types.Pointer).Elem().Underlying().(*types.Array); ok {
			n = at.Len()
		}
	}
	if n < 0 {
		n = max + 1
	}
	if nStores == 0 && len(vals) == 0 {
		return nil, false // zero-valued variable: nothing says it is a table
	}
	var o *Obj
	if b, ok := elem.Underlying().(*types.Basic); ok && b.Kind() == types.Uint8 {
		o = p.newObj(OBytes, core.Path(g))
		for i := int64(0); i < n; i++ {
			v := NewConst(0, 8, false)
			if c, ok := vals[i]; ok {
				if iv, isInt := e.constant(p, c).(*Int); isInt {
					v = iv
				}
			}
			o.Segs = append(o.Segs, Seg{Byte: v})
		}
		return o, true
	}
	if _, isBasic := elem.Underlying().(*types.Basic); !isBasic {
		return nil, false
	}
	o = p.newObj(OElems, core.Path(g))
	o.Type = elem
	for i := int64(0); i < n; i++ {
		if c, ok := vals[i]; ok {
			o.Elems = append(o.Elems, e.constant(p, c))
		} else {
			o.Elems = append(o.Elems, e.zero(p, elem))
		}
	}
	return o, true
}

// globalInit: function-valued globals initialised once by the package initialiser and never
// stored elsewhere resolve to that function; everything else is unknown.
func (e *Engine) globalInit(p *Path, g *ssa.Global) Value {
	if g.Pkg == nil {
		return &TopV{"global"}
	}
	if strings.HasSuffix(g.Name(), "init$guard") {
		return False // package initialisers are interpreted from the uninitialised state
	}
	var val ssa.Value
	stores := 0
	for _, m := range g.Pkg.Members {
		fn, ok := m.(*ssa.Function)
		if !ok {
			continue
		}
		for _, f := range core.WithClosures(fn) {
			core.EachInstr(f, func(in ssa.Instruction) {
				if st, ok := in.(*ssa.Store); ok && st.Addr == ssa.Value(g) {
					stores++
					val = st.Val
				}
			})
		}
	}
	if mt, isMap := g.Type().(*types.Pointer).Elem().Underlying().(*types.Map); isMap {
		if mc := e.globalMapLiteral(p, g, mt); mc != nil {
			return mc
		}
	}
	if sl, isSlice := g.Type().(*types.Pointer).Elem().Underlying().(*types.Slice); isSlice {
		if lit, ok := e.globalLiteral(p, g, sl.Elem(), -1); ok {
			n := int64(len(lit.Segs))
			if lit.Kind == OElems {
				n = int64(len(lit.Elems))
				lit.ElemN = LConst(n)
			}
			return &Slice{Obj: lit, Off: LConst(0), Len: LConst(n), Cap: LConst(n)}
		}
	}
	if stores == 1 {
		switch v := val.(type) {
		case *ssa.Function:
			return &Closure{Fn: v}
		case *ssa.MakeClosure:
			if len(v.Bindings) == 0 {
				return &Closure{Fn: v.Fn.(*ssa.Function)}
			}
		case *ssa.Const:
			return e.constant(p, v)
		case *ssa.Call:
			// sentinel errors: var ErrX = errors.New(...), stored once by the initialiser - never nil
			if f := v.Call.StaticCallee(); f != nil && core.IsErrorType(g.Type().(*types.Pointer).Elem()) {
				switch core.FullName(f) {
				case "errors.New", "fmt.Errorf", "errors.Errorf":
					return &ErrV{"sentinel " + g.Name()}
				}
			}
		case *ssa.MakeInterface:
			if core.IsErrorType(g.Type().(*types.Pointer).Elem()) {
				if _, isPtr := v.X.Type().Underlying().(*types.Pointer); isPtr {
					if _, isAlloc := v.X.(*ssa.Alloc); isAlloc {
						return &ErrV{"sentinel " + g.Name()}
					}
				}
			}
		}
	}
	return &TopV{"global " + g.Name()}
}

// zero builds the zero value of a type.
func (e *Engine) zero(p *Path, t types.Type) Value {
	switch u := t.Underlying().(type) {
	case *types.Basic:
		if w, s, ok := typeWidth(t); ok {
			return NewConst(0, w, s)
		}
		if u.Info()&types.IsBoolean != 0 {
			return False
		}
		if u.Info()&types.IsString != 0 {
			return p.constString("")
		}
		return &TopV{"basic"}
	case *types.Struct:
		o := p.newObj(OStruct, "")
		o.Type = t
		return &Agg{Obj: o}
	case *types.Array:
		return &Agg{Obj: e.newArray(p, u)}
	}
	return &NilV{}
}

// Agg is an aggregate (struct/array) value: a private snapshot object.
type Agg struct{ Obj *Obj }

func (e *Engine) newArray(p *Path, a *types.Array) *Obj {
	if b, ok := a.Elem().Underlying().(*types.Basic); ok && b.Kind() == types.Uint8 {
		o := p.newObj(OBytes, "array")
		for i := int64(0); i < a.Len(); i++ {
			o.Segs = append(o.Segs, Seg{Byte: NewConst(0, 8, false)})
		}
		return o
	}
	o := p.newObj(OElems, "array")
	for i := int64(0); i < a.Len(); i++ {
		o.Elems = append(o.Elems, e.zero(p, a.Elem()))
	}
	return o
}

func (p *Path) cloneObj(o *Obj) *Obj {
	n := p.newObj(o.Kind, o.Name)
	n.Type, n.Lazy, n.Cell = o.Type, o.Lazy, o.Cell
	for k, v := range o.Fields {
		if a, ok := v.(*Agg); ok {
			v = &Agg{Obj: p.cloneObj(a.Obj)}
		}
		n.Fields[k] = v
	}
	n.Segs = append([]Seg(nil), o.Segs...)
	n.Elems = append([]Value(nil), o.Elems...)
	n.ElemN = o.ElemN
	return n
}

// ---------------------------------------------------------------------------------------------
// instruction semantics

func (e *Engine) exec(p *Path, fr *Frame, in ssa.Instruction) {
	switch x := in.(type) {
	case *ssa.Alloc:
		elem := x.Type().Underlying().(*types.Pointer).Elem()
		if types.TypeString(elem, nil) == "bytes.Buffer" {
			o := p.newObj(OBuffer, "bytes.Buffer")
			fr.env[x] = &Ptr{Obj: o, Field: -1, Index: -1}
			break
		}
		switch u := elem.Underlying().(type) {
		case *types.Struct:
			o := p.newObj(OStruct, x.Comment)
			o.Type = elem
			fr.env[x] = &Ptr{Obj: o, Field: -1, Index: -1}
		case *types.Array:
			fr.env[x] = &Ptr{Obj: e.newArray(p, u), Field: -1, Index: -1}
		default:
			o := p.newObj(OCell, x.Comment)
			o.Type = elem
			o.Cell = e.zero(p, elem)
			fr.env[x] = &Ptr{Obj: o, Field: -1, Index: -1}
		}
	case *ssa.FieldAddr:
		fr.env[x] = e.fieldAddr(p, fr, e.operand(p, fr, x.X), x.Field, x.X.Type(), x)
	case *ssa.Field:
		base := e.operand(p, fr, x.X)
		if a, ok := base.(*Agg); ok {
			fr.env[x] = e.loadField(p, a.Obj, x.Field, x.Type())
		} else {
			fr.env[x] = &TopV{"field of non-aggregate"}
		}
	case *ssa.IndexAddr:
		fr.env[x] = e.indexAddr(p, fr, x)
	case *ssa.Index:
		base := e.operand(p, fr, x.X)
		idx, _ := e.operand(p, fr, x.Index).(*Int)
		if sl, ok := base.(*Slice); ok && idx != nil && idx.Lin != nil { // string index
			e.boundIndex(p, fr, x, idx.Lin, sl.Len)
			fr.env[x] = p.readByte(sl.Obj, sl.Off.Add(idx.Lin))
		} else {
			fr.env[x] = &TopV{"index"}
		}
	case *ssa.UnOp:
		fr.env[x] = e.unop(p, fr, x)
	case *ssa.Store:
		e.store(p, fr, e.operand(p, fr, x.Addr), e.operand(p, fr, x.Val), x)
	case *ssa.BinOp:
		fr.env[x] = e.binop(p, fr, x)
	case *ssa.Convert:
		fr.env[x] = e.convert(p, e.operand(p, fr, x.X), x.X.Type(), x.Type())
	case *ssa.ChangeType:
		fr.env[x] = e.operand(p, fr, x.X)
	case *ssa.ChangeInterface:
		fr.env[x] = e.operand(p, fr, x.X)
	case *ssa.MakeInterface:
		fr.env[x] = &Iface{Type: x.X.Type(), V: e.operand(p, fr, x.X)}
	case *ssa.TypeAssert:
		fr.env[x] = e.typeAssert(p, fr, x)
	case *ssa.Extract:
		t := e.operand(p, fr, x.Tuple)
		if tu, ok := t.(*Tuple); ok && x.Index < len(tu.Vs) {
			fr.env[x] = tu.Vs[x.Index]
		} else {
			fr.env[x] = e.topOf(p, x.Type(), "extract")
		}
	case *ssa.Slice:
		fr.env[x] = e.slice(p, fr, x)
	case *ssa.MakeSlice:
		fr.env[x] = e.makeSlice(p, fr, x)
	case *ssa.MakeClosure:
		cl := &Closure{Fn: x.Fn}
		for _, b := range x.Bindings {
			cl.Bindings = append(cl.Bindings, e.operand(p, fr, b))
		}
		fr.env[x] = cl
	case *ssa.MakeMap:
		fr.env[x] = &TopV{"map"}
	case *ssa.Call:
		fr.env[x] = e.doCall(p, fr, &x.Call, x)
	case *ssa.Defer:
		// operands are evaluated now (SSA values are immutable in the frame), the call runs at RunDefers
		for _, a := range x.Call.Args {
			e.operand(p, fr, a)
		}
		if !x.Call.IsInvoke() {
			e.operand(p, fr, x.Call.Value)
		}
		d := x
		fr.defers = append(fr.defers, func() { e.doCall(p, fr, &d.Call, d) })
	case *ssa.RunDefers:
		ds := fr.defers
		fr.defers = nil
		for i := len(ds) - 1; i >= 0; i-- {
			ds[i]()
			if p.Abort != "" || p.Panics != "" {
				break
			}
		}
	case *ssa.DebugRef:
	case *ssa.Send:
		// channel used as a mutex/semaphore: no data effect
	case *ssa.Select:
		// the chosen case is a fresh symbolic index in [0, n)
		a := fmt.Sprintf("select@%s", e.P.InstrPos(x))
		w := 0
		for (1 << uint(w)) < len(x.States) {
			w++
		}
		p.DeclareAtom(a, w, 0, int64(len(x.States)-1))
		out := &Tuple{Vs: []Value{p.SymInt(a, 64, true), &Bool{}}}
		for range x.States {
			out.Vs = append(out.Vs, &TopV{"select recv"})
		}
		fr.env[x] = out
	case *ssa.Lookup:
		// a read-only package-level table written as a map literal with constant integer keys: a lookup with a
		// constant key is the entry, or the zero value
		if mc, ok := e.operand(p, fr, x.X).(*MapConst); ok {
			if k, isInt := e.operand(p, fr, x.Index).(*Int); isInt {
				if kv, isC := k.Const(); isC {
					v, found := mc.Entries[kv]
					if !found {
						v = e.zero(p, mc.Elem)
					}
					if x.CommaOk {
						b := False
						if found {
							b = True
						}
						fr.env[x] = &Tuple{Vs: []Value{v, b}}
					} else {
						fr.env[x] = v
					}
					break
				}
			}
			// a key that is not a constant: some entry or the zero value - never a panic
			if x.CommaOk {
				fr.env[x] = &Tuple{Vs: []Value{e.topOf(p, mc.Elem, "table lookup"), &Bool{}}}
			} else {
				fr.env[x] = e.topOf(p, mc.Elem, "table lookup")
			}
			break
		}
		p.abort("unsupported instruction %T in %s", in, core.QualName(fr.fn))
	case *ssa.Range, *ssa.Next, *ssa.MapUpdate, *ssa.Go:
		p.abort("unsupported instruction %T in %s", in, core.QualName(fr.fn))
	default:
		p.abort("unsupported instruction %T in %s", in, core.QualName(fr.fn))
	}
}

func (e *Engine) topOf(p *Path, t types.Type, why string) Value {
	if w, s, ok := typeWidth(t); ok {
		return TopInt(w, s)
	}
	if b, ok := t.Underlying().(*types.Basic); ok && b.Info()&types.IsBoolean != 0 {
		return &Bool{}
	}
	if tu, ok := t.(*types.Tuple); ok {
		out := &Tuple{}
		for i := 0; i < tu.Len(); i++ {
			out.Vs = append(out.Vs, e.topOf(p, tu.At(i).Type(), why))
		}
		return out
	}
	return &TopV{why}
}

// lazyField materialises field i of a lazily symbolic struct object.
func (e *Engine) lazyValue(p *Path, name string, t types.Type) Value {
	if p.NilNames[name] {
		switch t.Underlying().(type) {
		case *types.Pointer, *types.Interface, *types.Slice, *types.Signature, *types.Map, *types.Chan:
			return &NilV{}
		}
	}
	if _, isFunc := t.Underlying().(*types.Signature); isFunc {
		return &Closure{Fn: nil} // a non-nil function value whose body is unknown
	}
	if w, s, ok := typeWidth(t); ok {
		return p.SymInt(name, w, s)
	}
	switch u := t.Underlying().(type) {
	case *types.Basic:
		if u.Info()&types.IsBoolean != 0 {
			b := p.resolveBit(Bit{K: BSym, A: name, I: 0})
			switch b.K {
			case B0:
				return False
			case B1:
				return True
			}
			return &Bool{Pred: &Pred{Key: name, BoolA: &b}}
		}
		if u.Info()&types.IsString != 0 {
			return p.SymBytes(name, true)
		}
		if u.Info()&types.IsFloat != 0 {
			return &FloatV{Bits: p.SymInt(name, 64, false)}
		}
	case *types.Slice:
		if b, ok := u.Elem().Underlying().(*types.Basic); ok && b.Kind() == types.Uint8 {
			return p.SymBytes(name, false)
		}
		o := p.newObj(OElems, name)
		o.Lazy = true
		o.Type = u.Elem()
		n := p.SymInt("len("+name+")", 63, false)
		o.ElemN = n.Lin
		if c, ok := n.Const(); ok {
			o.ElemN = LConst(c)
		}
		return &Slice{Obj: o, Off: LConst(0), Len: o.ElemN, Cap: o.ElemN}
	case *types.Pointer:
		if _, ok := u.Elem().Underlying().(*types.Struct); ok {
			o := p.newObj(OStruct, name)
			o.Lazy = true
			o.Type = u.Elem()
			return &Ptr{Obj: o, Field: -1, Index: -1}
		}
		o := p.newObj(OCell, name)
		o.Lazy = true
		o.Type = u.Elem()
		o.Cell = e.lazyValue(p, name, u.Elem())
		return &Ptr{Obj: o, Field: -1, Index: -1}
	case *types.Struct:
		o := p.newObj(OStruct, name)
		o.Lazy = true
		o.Type = t
		return &Agg{Obj: o}
	case *types.Interface:
		return &SymIface{Name: name, Type: t}
	}
	return &TopV{"lazy " + name}
}

// FloatV is a float64 known only by its IEEE bits.
type FloatV struct{ Bits *Int }

// SymIface is an interface value of unknown dynamic type, named by access path.
type SymIface struct {
	Name string
	Type types.Type
}

// SymBytes creates a byte slice / string whose content is one blob named name with length len(name).
func (p *Path) SymBytes(name string, isString bool) *Slice {
	o := p.newObj(OBytes, name)
	n := p.SymInt("len("+name+")", 63, false)
	l := n.Lin
	if c, ok := n.Const(); ok {
		l = LConst(c)
	}
	o.Segs = []Seg{{Blob: name, Len: l}}
	return &Slice{Obj: o, Off: LConst(0), Len: l, Cap: l, IsString: isString}
}

func structOf(t types.Type) *types.Struct {
	if p, ok := t.Underlying().(*types.Pointer); ok {
		t = p.Elem()
	}
	s, _ := t.Underlying().(*types.Struct)
	return s
}

func (e *Engine) fieldAddr(p *Path, fr *Frame, base Value, field int, baseT types.Type, at ssa.Instruction) Value {
	ptr, ok := base.(*Ptr)
	if !ok {
		if _, isNil := base.(*NilV); isNil {
			p.Panics = "nil pointer dereference at " + e.P.InstrPos(at)
			return &TopV{"nil"}
		}
		return &TopV{"fieldaddr of unknown"}
	}
	o := ptr.Obj
	if ptr.Field >= 0 {
		// pointer to a struct-typed field: descend
		if a, ok := o.Fields[ptr.Field].(*Agg); ok {
			o = a.Obj
		}
	}
	st := structOf(baseT)
	if st != nil {
		if _, isStruct := st.Field(field).Type().Underlying().(*types.Struct); isStruct {
			// nested struct: its own object
			if a, ok := o.Fields[field].(*Agg); ok {
				return &Ptr{Obj: a.Obj, Field: -1, Index: -1}
			}
			n := p.newObj(OStruct, joinName(o.Name, core.FieldVarName(st.Field(field))))
			n.Lazy = o.Lazy
			n.Type = st.Field(field).Type()
			o.Fields[field] = &Agg{Obj: n}
			return &Ptr{Obj: n, Field: -1, Index: -1}
		}
		if arr, isArr := st.Field(field).Type().Underlying().(*types.Array); isArr {
			if a, ok := o.Fields[field].(*Agg); ok {
				return &Ptr{Obj: a.Obj, Field: -1, Index: -1}
			}
			n := e.newArray(p, arr)
			if o.Lazy {
				// an array inside an object of unknown history (a receiver that served earlier calls) holds
				// unknown values, not zeros: a stale element shows up as a symbolic byte in the output
				name := joinName(o.Name, core.FieldVarName(st.Field(field)))
				if n.Kind == OBytes {
					for i := range n.Segs {
						n.Segs[i] = Seg{Byte: p.SymInt(fmt.Sprintf("%s[%d]", name, i), 8, false)}
					}
				} else {
					for i := range n.Elems {
						n.Elems[i] = e.lazyValue(p, fmt.Sprintf("%s[%d]", name, i), arr.Elem())
					}
				}
			}
			o.Fields[field] = &Agg{Obj: n}
			return &Ptr{Obj: n, Field: -1, Index: -1}
		}
	}
	return &Ptr{Obj: o, Field: field, Index: -1}
}

func joinName(a, b string) string {
	if a == "" {
		return b
	}
	return a + "." + b
}

func (e *Engine) loadField(p *Path, o *Obj, field int, t types.Type) Value {
	if v, ok := o.Fields[field]; ok {
		if iv, ok := v.(*Int); ok {
			return p.norm(iv)
		}
		return v
	}
	st, _ := o.Type.(types.Type)
	name := fmt.Sprintf("f%d", field)
	if st != nil {
		if s := structOf(st); s != nil && field < s.NumFields() {
			name = core.FieldVarName(s.Field(field))
		}
	}
	var v Value
	if o.Lazy {
		v = e.lazyValue(p, joinName(o.Name, name), t)
	} else {
		v = e.zero(p, t)
	}
	o.Fields[field] = v
	return v
}

func (e *Engine) unop(p *Path, fr *Frame, x *ssa.UnOp) Value {
	v := e.operand(p, fr, x.X)
	switch x.Op {
	case token.MUL:
		return e.load(p, fr, v, x.Type(), x)
	case token.NOT:
		if b, ok := v.(*Bool); ok {
			if b.Known {
				if b.Val {
					return False
				}
				return True
			}
			if b.Pred != nil {
				n := *b.Pred
				n.Neg = !n.Neg
				n.Key = negKey(n.Key)
				return &Bool{Pred: &n}
			}
		}
		return &Bool{}
	case token.SUB:
		if iv, ok := v.(*Int); ok && iv.Lin != nil {
			return e.fromLin(p, iv.Lin.Scale(-1), iv.W, iv.Signed)
		}
	case token.XOR:
		if iv, ok := v.(*Int); ok {
			o := &Int{W: iv.W, Signed: iv.Signed, Bits: make([]Bit, iv.W)}
			for i := range o.Bits {
				o.Bits[i] = bitNot(iv.Bits[i])
			}
			return e.fixLin(p, o)
		}
	}
	return e.topOf(p, x.Type(), "unop")
}

func negKey(k string) string {
	if strings.HasPrefix(k, "!(") && strings.HasSuffix(k, ")") {
		return k[2 : len(k)-1]
	}
	return "!(" + k + ")"
}

func (e *Engine) load(p *Path, fr *Frame, addr Value, t types.Type, at ssa.Instruction) Value {
	switch a := addr.(type) {
	case *Ptr:
		o := a.Obj
		if a.Index >= 0 {
			if a.Index < len(o.Elems) {
				return o.Elems[a.Index]
			}
			return e.topOf(p, t, "elem")
		}
		if a.Field >= 0 {
			return e.loadField(p, o, a.Field, t)
		}
		switch o.Kind {
		case OCell:
			if iv, ok := o.Cell.(*Int); ok {
				return p.norm(iv)
			}
			if o.Cell == nil {
				return e.zero(p, t)
			}
			return o.Cell
		case OStruct, OBytes, OElems:
			return &Agg{Obj: p.cloneObj(o)}
		}
		return e.topOf(p, t, "load")
	case *BytePtr:
		return p.readByte(a.Obj, a.Off)
	case *NilV:
		p.Panics = "nil pointer dereference at " + e.P.InstrPos(at)
		return e.topOf(p, t, "nil")
	}
	return e.topOf(p, t, "load of unknown address")
}

// BytePtr addresses one byte of a byte buffer.
type BytePtr struct {
	Obj *Obj
	Off *Lin
}

func (e *Engine) store(p *Path, fr *Frame, addr, val Value, at ssa.Instruction) {
	switch a := addr.(type) {
	case *Ptr:
		o := a.Obj
		if a.Index >= 0 {
			if a.Index < len(o.Elems) {
				o.Elems[a.Index] = val
			}
			return
		}
		if a.Field >= 0 {
			o.Fields[a.Field] = val
			return
		}
		switch o.Kind {
		case OCell:
			o.Cell = val
		case OStruct, OBytes, OElems:
			if ag, ok := val.(*Agg); ok {
				c := p.cloneObj(ag.Obj)
				o.Fields, o.Segs, o.Elems, o.Lazy = c.Fields, c.Segs, c.Elems, c.Lazy
				if o.Name == "" {
					o.Name = c.Name
				}
			}
		}
	case *BytePtr:
		iv, ok := val.(*Int)
		if !ok {
			iv = TopInt(8, false)
		}
		p.writeByte(a.Obj, a.Off, iv)
	case *NilV:
		p.Panics = "nil pointer dereference at " + e.P.InstrPos(at)
	default:
		p.note("store to unknown address at %s", e.P.InstrPos(at))
	}
}

func (e *Engine) indexAddr(p *Path, fr *Frame, x *ssa.IndexAddr) Value {
	base := e.operand(p, fr, x.X)
	idx, _ := e.operand(p, fr, x.Index).(*Int)
	if idx == nil || idx.Lin == nil {
		p.note("non-linear index at %s", e.P.InstrPos(x))
		e.boundUnknown(p, fr, x, "index is not a linear expression")
		return &TopV{"indexaddr"}
	}
	switch b := base.(type) {
	case *Slice:
		e.boundIndex(p, fr, x, idx.Lin, b.Len)
		if b.Obj.Kind == OElems {
			return e.elemPtr(p, b.Obj, b.Off.Add(idx.Lin))
		}
		return &BytePtr{Obj: b.Obj, Off: b.Off.Add(idx.Lin)}
	case *Ptr: // pointer to array
		o := b.Obj
		if o.Kind == OBytes {
			e.boundIndex(p, fr, x, idx.Lin, LConst(int64(len(o.Segs))))
			return &BytePtr{Obj: o, Off: idx.Lin}
		}
		if o.Kind == OElems {
			e.boundIndex(p, fr, x, idx.Lin, LConst(int64(len(o.Elems))))
			return e.elemPtr(p, o, idx.Lin)
		}
	case *NilV:
		e.boundIndex(p, fr, x, idx.Lin, LConst(0))
	}
	return &TopV{"indexaddr"}
}

func (e *Engine) elemPtr(p *Path, o *Obj, off *Lin) Value {
	if !off.IsConst() {
		return &TopV{"symbolic element index"}
	}
	i := int(off.C)
	if o.Lazy {
		for len(o.Elems) <= i {
			k := len(o.Elems)
			t, _ := o.Type.(types.Type)
			o.Elems = append(o.Elems, e.lazyValue(p, fmt.Sprintf("%s[%d]", o.Name, k), t))
		}
	}
	if i < 0 || i >= len(o.Elems) {
		return &TopV{"element out of range"}
	}
	return &Ptr{Obj: o, Field: -1, Index: i}
}

// ---------------------------------------------------------------------------------------------
// bounds obligations

func (e *Engine) boundIndex(p *Path, fr *Frame, at ssa.Instruction, idx, n *Lin) {
	ok := p.Prove(idx) && p.Prove(n.Sub(idx).Add(LConst(-1)))
	p.Bounds = append(p.Bounds, BoundOb{Pos: e.P.InstrPos(at), Func: core.QualName(fr.fn), What: "index " + idx.String() + " < " + n.String(), Proven: ok})
}

func (e *Engine) boundUnknown(p *Path, fr *Frame, at ssa.Instruction, why string) {
	p.Bounds = append(p.Bounds, BoundOb{Pos: e.P.InstrPos(at), Func: core.QualName(fr.fn), What: why, Proven: false})
}

func (e *Engine) boundSlice(p *Path, fr *Frame, at ssa.Instruction, lo, hi, cap *Lin) {
	ok := p.Prove(lo) && p.Prove(hi.Sub(lo)) && p.Prove(cap.Sub(hi))
	p.Bounds = append(p.Bounds, BoundOb{Pos: e.P.InstrPos(at), Func: core.QualName(fr.fn),
		What: fmt.Sprintf("slice 0 <= %s <= %s <= %s", lo, hi, cap), Proven: ok})
}

func structOfAny(t interface{}) *types.Struct {
	tt, ok := t.(types.Type)
	if !ok || tt == nil {
		return nil
	}
	return structOf(tt)
}

// NewZeroPtr builds a pointer to a fresh zero-valued object of the pointee type of t.
func (e *Engine) NewZeroPtr(p *Path, t types.Type) Value {
	pt, ok := t.Underlying().(*types.Pointer)
	if !ok {
		return &TopV{"not a pointer"}
	}
	switch u := pt.Elem().Underlying().(type) {
	case *types.Struct:
		o := p.newObj(OStruct, "")
		o.Type = pt.Elem()
		return &Ptr{Obj: o, Field: -1, Index: -1}
	case *types.Array:
		return &Ptr{Obj: e.newArray(p, u), Field: -1, Index: -1}
	}
	o := p.newObj(OCell, "")
	o.Type = pt.Elem()
	o.Cell = e.zero(p, pt.Elem())
	return &Ptr{Obj: o, Field: -1, Index: -1}
}

// CallFn interprets fn on the given path (used by harnesses to run constructors).
func (e *Engine) CallFn(p *Path, fn *ssa.Function, args []Value) []Value {
	out := e.call(p, fn, args, 1)
	if len(out) == 0 {
		return []Value{&TopV{"constructor failed"}}
	}
	return out
}

// MapConst is a package-level map variable that is a constant table: filled by the initialiser with constant integer
// keys and constant values, never written afterwards.
type MapConst struct {
	Entries map[int64]Value
	Elem    types.Type
}

func (e *Engine) globalMapLiteral(p *Path, g *ssa.Global, mt *types.Map) *MapConst {
	if g.Pkg == nil {
		return nil
	}
	init := g.Pkg.Func("init")
	if init == nil || !core.InModule(init) {
		return nil
	}
	if kb, ok := mt.Key().Underlying().(*types.Basic); !ok || kb.Info()&types.IsInteger == 0 {
		return nil
	}
	if _, ok := mt.Elem().Underlying().(*types.Basic); !ok {
		return nil
	}
	// the one store of the map value, in init
	var mk ssa.Value
	n := 0
	for _, f := range e.P.ModuleFuncs(core.ShortPkg(init)) {
		core.EachInstr(f, func(in ssa.Instruction) {
			switch x := in.(type) {
			case *ssa.Store:
				if x.Addr == ssa.Value(g) {
					n++
					mk = x.Val
					if f != init {
						n += 100
					}
				}
			case *ssa.MapUpdate:
				// a write through a read of the global, anywhere outside init
				if ld, ok := x.Map.(*ssa.UnOp); ok && ld.X == ssa.Value(g) && f != init {
					n += 100
				}
			case *ssa.Call:
				if b, ok := x.Call.Value.(*ssa.Builtin); ok && b.Name() == "delete" {
					if ld, ok := x.Call.Args[0].(*ssa.UnOp); ok && ld.X == ssa.Value(g) {
						n += 100
					}
				}
			}
		})
	}
	core.EachInstr(init, func(in ssa.Instruction) {
		if st, ok := in.(*ssa.Store); ok && st.Addr == ssa.Value(g) {
			if n == 0 {
				n++
				mk = st.Val
			}
		}
	})
	if n != 1 || mk == nil {
		return nil
	}
	if _, isMake := mk.(*ssa.MakeMap); !isMake {
		return nil
	}
	mc := &MapConst{Entries: map[int64]Value{}, Elem: mt.Elem()}
	ok := true
	core.EachInstr(init, func(in ssa.Instruction) {
		mu, isMU := in.(*ssa.MapUpdate)
		if !isMU || mu.Map != mk {
			return
		}
		k, isK := core.ConstInt(mu.Key)
		c, isC := mu.Value.(*ssa.Const)
		if !isK || !isC {
			ok = false
			return
		}
		mc.Entries[k] = e.constant(p, c)
	})
	if !ok {
		return nil
	}
	return mc
}
