#!/usr/bin/env python3
import json, glob, sys
import jsonschema
ok = True
jsonschema.validate(json.load(open('/verif/MANIFEST.json')), json.load(open('/root/.vp/MANIFEST.schema.json')))
es = json.load(open('/root/.vp/EVIDENCE.schema.json'))
for f in sorted(glob.glob('/verif/evidence/*.json')):
    try:
        jsonschema.validate(json.load(open(f)), es)
    except Exception as e:
        ok = False; print('INVALID', f, str(e)[:300])
print('valid' if ok else 'INVALID')
sys.exit(0 if ok else 1)
