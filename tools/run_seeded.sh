#!/bin/bash
# Runs every seeded defect under /verif/seeded against its property's check, each in its own scratch
# worktree of /repo (outside /repo and /verif), and reports caught / missed. Never touches /repo's tree.
export GOFLAGS=-mod=mod GOPROXY=off GOSUMDB=off GOTOOLCHAIN=local; unset GOWORK
T=${TMPDIR:-/var/tmp}/oryxseed.$$; mkdir -p $T
run_one() {
  d=$1; n=$(basename $d); T=$2
  prop=$(python3 -c "import json;print(json.load(open('$d/meta.json'))['property'])")
  exp=$(python3 -c "import json;print(json.load(open('$d/meta.json'))['expected_rule'])")
  w=$T/$n; git -C /repo worktree add -q --detach $w HEAD 2>/dev/null || { echo "$n SKIP(worktree)"; return; }
  if ! git -C $w apply $d/patch.diff 2>/dev/null; then echo "$n SKIP(patch does not apply)"; git -C /repo worktree remove --force $w; return; fi
  mkdir -p $T/root.$n; cp /verif/known_findings.json $T/root.$n/
  out=$(/verif/bin/oryxcheck -property $prop -repo $w -root $T/root.$n 2>&1)
  git -C /repo worktree remove --force $w; rm -rf $T/root.$n
  if [ "$exp" = "MISSED" ]; then
    if echo "$out" | grep -q "^VIOLATION"; then echo "$n NOW-CAUGHT (was MISSED)"; else echo "$n missed (recorded as not detectable)"; fi
  elif echo "$out" | grep -q "rule=$exp "; then echo "$n caught by $exp"; else echo "$n NOT-CAUGHT expected $exp"; fi
}
export -f run_one
ls -d /verif/seeded/${1:-}*/ | sed 's#/$##' | xargs -P 8 -I{} bash -c "run_one {} $T"
rm -rf $T; git -C /repo worktree prune
