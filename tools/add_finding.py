#!/usr/bin/env python3
# usage: add_finding.py PROPERTY RULE CONSTRUCT STATUS COMMIT "what fails" [repro]
import json, sys
p = '/verif/known_findings.json'
d = json.load(open(p))
prop, rule, cons, status, commit, what = sys.argv[1:7]
repro = sys.argv[7] if len(sys.argv) > 7 else ""
if status == "fixed":
    what = f"fixed: property={prop} {commit} {what}"
e = {"property": prop, "rule": rule, "construct": cons, "status": status, "what_fails": what}
if commit and commit != "-": e["commit"] = commit
if repro: e["repro"] = repro
d["findings"] = [x for x in d["findings"] if not (x["rule"] == rule and x["construct"] == cons)] + [e]
open(p, 'w').write(json.dumps(d, indent=1) + "\n")
