#!/bin/bash
# usage: try_mutant_wt.sh <mutant dir with patch.diff, demo_test.go, meta.json> [property]
# Like try_mutant.sh, but never touches /repo's working tree: the seeded change is confirmed and checked in a scratch
# worktree (demo passes pristine, suite passes patched, demo fails patched; then the property's quick check with -repo).
set -u
export GOFLAGS=-mod=mod GOPROXY=off GOSUMDB=off GOTOOLCHAIN=local; unset GOWORK
D=$(readlink -f "$1"); PROP=${2:-$(python3 -c "import json;print(json.load(open('$D/meta.json'))['property'])")}
DEST=$(python3 -c "import json;print(json.load(open('$D/meta.json'))['demo_dest'])")
CMD=$(python3 -c "import json;print(json.load(open('$D/meta.json'))['demo_cmd'])")
W=/var/tmp/vfy.$$; git -C /repo worktree add -q --detach $W HEAD || exit 2
trap 'cd /; git -C /repo worktree remove --force '$W' 2>/dev/null; rm -rf /var/tmp/vfyroot.$$ /var/tmp/vfy.$$.*' EXIT
cd $W
cp "$D/demo_test.go" "$DEST"
A=$(eval "$CMD" >/var/tmp/vfy.$$.a 2>&1 && echo pass || echo FAIL)
rm -f "$DEST"
if ! git apply "$D/patch.diff"; then echo "patch does not apply"; exit 2; fi
cp "$D/demo_test.go" "$DEST"
C=$(eval "$CMD" >/var/tmp/vfy.$$.c 2>&1 && echo PASS || echo fail)
rm -f "$DEST"
B=$( (go build ./... && go test -vet=off -count=1 ./...) >/var/tmp/vfy.$$.b 2>&1 && echo pass || echo FAIL)
echo "confirm: demo-on-pristine=$A suite-with-patch=$B demo-with-patch=$C"
mkdir -p /var/tmp/vfyroot.$$; cp /verif/known_findings.json /var/tmp/vfyroot.$$/
timeout 2400 ${ORYX_BIN:-/verif/bin/oryxcheck} -property $PROP -repo $W -root /var/tmp/vfyroot.$$ 2>&1 | grep -E "VIOLATION|rule=|^$PROP" | cut -c1-400
