#!/bin/bash
# Runs every behaviour-preserving refactoring under /verif/benign through all quick checks (each in a scratch worktree);
# any ALARM line is a false alarm of the machinery.
cd /verif
for d in benign/${1:-}*/; do
  n=$(basename $d)
  out=$(timeout 3000 tools/try_benign.sh $d 2>&1)
  if [ -z "$out" ]; then echo "$n silent"; else echo "$n"; echo "$out" | sed 's/^/    /'; fi
done
