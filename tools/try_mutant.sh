#!/bin/bash
# usage: try_mutant.sh <mutant dir with patch.diff, demo_test.go, meta.json> [property]
# 1. confirms the mutant in a scratch worktree (demo passes pristine, suite passes patched, demo fails patched)
# 2. applies it to /repo, runs the property's quick check, reverts /repo.
set -u
export GOFLAGS=-mod=mod GOPROXY=off GOSUMDB=off GOTOOLCHAIN=local; unset GOWORK
D=$(readlink -f "$1"); PROP=${2:-$(python3 -c "import json;print(json.load(open('$D/meta.json'))['property'])")}
DEST=$(python3 -c "import json;print(json.load(open('$D/meta.json'))['demo_dest'])")
CMD=$(python3 -c "import json;print(json.load(open('$D/meta.json'))['demo_cmd'])")
W=/tmp/vfy.$$; git -C /repo worktree add -q --detach $W HEAD || exit 2
cd $W
cp "$D/demo_test.go" "$DEST"
A=$(eval "$CMD" >/tmp/vfy.$$.a 2>&1 && echo pass || echo FAIL)
if ! git apply "$D/patch.diff"; then echo "patch does not apply"; cd /; git -C /repo worktree remove --force $W; exit 2; fi
C=$(eval "$CMD" >/tmp/vfy.$$.c 2>&1 && echo PASS || echo fail)
rm -f "$DEST"
B=$( (go build ./... && go test -vet=off -count=1 ./...) >/tmp/vfy.$$.b 2>&1 && echo pass || echo FAIL)
cd /; git -C /repo worktree remove --force $W; rm -f /tmp/vfy.$$.*
echo "confirm: demo-on-pristine=$A suite-with-patch=$B demo-with-patch=$C"
trap 'git -C /repo checkout -- . 2>/dev/null; rm -rf /tmp/mutroot.$$' EXIT INT TERM
mkdir -p /tmp/mutroot.$$; cp /verif/known_findings.json /tmp/mutroot.$$/; cd /repo && git apply "$D/patch.diff" && (cd /verif && timeout 2400 bin/oryxcheck -property $PROP -root /tmp/mutroot.$$ 2>&1 | grep -E "VIOLATION|rule=|^$PROP" | cut -c1-400); git -C /repo checkout -- . ; rm -rf /tmp/mutroot.$$
git -C /repo status --short | head -3
