#!/bin/bash
# usage: save_mutant.sh <src dir> <seeded name> <expected rule that catches it | MISSED> [note]
set -e
S=$1; N=$2; RULE=$3; NOTE=${4:-}
D=/verif/seeded/$N; mkdir -p $D
cp $S/patch.diff $D/patch.diff; cp $S/demo_test.go $D/demo_test.go
python3 - "$S/meta.json" "$D/meta.json" "$RULE" "$NOTE" <<'PY'
import json,sys
m=json.load(open(sys.argv[1]))
m["expected_rule"]=sys.argv[3]
m["confirmed"]="demo passes on pristine HEAD, existing suite passes with the patch, demo fails with the patch (tools/try_mutant.sh, scratch worktree)"
m["check_run"]="patch applied to /repo (git apply), bin/oryxcheck -property %s, then git checkout -- ." % m["property"]
if sys.argv[4]: m["note"]=sys.argv[4]
json.dump(m,open(sys.argv[2],"w"),indent=1)
PY
