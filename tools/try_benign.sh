#!/bin/bash
# usage: try_benign.sh <dir with patch.diff> [properties...]
# Applies a behaviour-preserving patch in a scratch worktree and runs the quick checks there (-repo), reporting every
# check that raises an alarm (= a false alarm of the machinery). Never touches /repo's tree.
export GOFLAGS=-mod=mod GOPROXY=off GOSUMDB=off GOTOOLCHAIN=local; unset GOWORK
D=$(readlink -f "$1"); shift
PROPS=${@:-C01 C02 C03 C04 C05 C06 C07 C08 C09 C10 C11 C12 C13 C14 C15 C16 C17 C18 C19 C20}
W=/tmp/bn.$$; git -C /repo worktree add -q --detach $W HEAD || exit 2
trap 'cd /; git -C /repo worktree remove --force '$W' 2>/dev/null; rm -rf /tmp/bnroot.$$' EXIT
cd $W && git apply "$D/patch.diff" || { echo "patch does not apply"; exit 2; }
(go build ./... && go test -vet=off -count=1 ./... >/dev/null 2>&1) || { echo "suite fails with the patch"; exit 2; }
mkdir -p /tmp/bnroot.$$; cp /verif/known_findings.json /tmp/bnroot.$$/
for p in $PROPS; do
  ( out=$(timeout 1200 ${ORYX_BIN:-/verif/bin/oryxcheck} -property $p -repo $W -root /tmp/bnroot.$$ 2>&1); if echo "$out" | grep -q "^VIOLATION"; then echo "$out" | grep "rule=" | cut -c1-330 | sed "s/^/ALARM $p: /" | head -6; fi ) &
done
wait
