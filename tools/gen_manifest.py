#!/usr/bin/env python3
"""Regenerates /verif/MANIFEST.json from the table below and the list of properties the
checker binary implements (bin/oryxcheck -list is not needed: the table is authoritative)."""
import json, os, sys
ROOT = os.path.dirname(os.path.dirname(os.path.abspath(__file__)))
ENV = "GOFLAGS=-mod=mod GOPROXY=off GOSUMDB=off GOTOOLCHAIN=local GOWORK=off"
# id -> (technique, level text, level note, design ref)
CLAIMED = {}
exec(open(os.path.join(ROOT, "tools", "manifest_table.py")).read())
props = [json.loads(l) for l in open(os.path.join(ROOT, "properties.jsonl"))]
checks, na = [], []
for p in props:
    pid = p["id"]
    if pid in CLAIMED:
        t = CLAIMED[pid]
        checks.append({
            "property_id": pid,
            "quick_cmd": f"bin/oryxcheck -property {pid} -tier quick",
            "thorough_cmd": f"bin/oryxcheck -property {pid} -tier thorough",
            "evidence_file": f"/verif/evidence/{pid}.json",
            "replay_cmd_template": "bin/oryxcheck -replay {path}",
            "engine": "oryxcheck",
            "level_claimed": {"category": "other", "text": t["text"], "design_ref": t.get("ref", "DESIGN.md §3 " + pid)},
            "level_note": t["note"],
            "technique": t["technique"],
        })
    else:
        na.append({"property_id": pid, "reason": NOT_APPLICABLE.get(pid, "structural clauses identified in DESIGN.md §3 are not implemented yet in the checker (statement about the machinery, not the code)")})
m = {
    "version": 1,
    "setup_cmd": f"cd /verif/checker && {ENV} go build -o /verif/bin/oryxcheck ./cmd/oryxcheck",
    "hooks": {"guard": "verif", "enable": "none needed: the checker reads /repo's sources, nothing in /repo is instrumented",
              "baseline_off_cmd": f"cd /repo && {ENV} go test -vet=off -count=1 ./...", "source_commits": [], "add_only": True},
    "engines": [{"name": "oryxcheck", "path": "/verif/checker", "serves_properties": sorted(CLAIMED),
                 "kind_free_text": "repository-specific static analyser over go/types + go/ssa + VTA call graph (x/tools v0.29.0): guard/dominator facts, must-hold locksets, effect summaries, CFG ordering, error-flow, table/switch extraction, bit-provenance abstract interpretation"}],
    "checks": checks,
    "notes": "Every check re-loads and type-checks /repo's working tree on each run; verdicts name file:line, function, rule and construct. Known findings: /verif/known_findings.json (8 open constructs: C06 strict-array layout x4, C02 extended-timestamp delta x3, C17 scanner token limit; everything else is recorded as fixed by a 'fix:' commit in /repo). DESIGN.md section 7 describes the machinery as built, the defects found and repaired, the false alarms met, and which rule reports each of the 368 seeded changes (seven rounds) under /verif/seeded (replayed by the thorough tier on scratch copies outside /repo and /verif; tools/run_seeded.sh replays all of them). Section 7.7: the 401 behaviour-preserving refactorings under /verif/benign (four samples; measured silence rates and the remaining limits are in DESIGN 7.7) (thorough tier replays them too; tools/run_benign.sh runs all twenty checks on each).",
    "not_applicable": na,
}
json.dump(m, open(os.path.join(ROOT, "MANIFEST.json"), "w"), indent=1)
print("claimed", sorted(CLAIMED), "not_applicable", [x["property_id"] for x in na])
