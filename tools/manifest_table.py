NOT_APPLICABLE = {}
CLAIMED = {
 "C04": {
  "technique": "must-hold lockset dataflow + dominator ordering + effect-summary ownership partition over SSA/VTA; who-may-store rule on the pending-request table, release-on-every-path walk for the transaction lock, lossless-key value-flow rule",
  "text": "Sound static decision of the schedule-independent ingredients of C04: lock discipline on the transaction table, registration-before-transport-write ordering, one critical section for lookup+delete, reader/writer ownership partition. It does not enumerate schedules; 'none lost/none twice' follows from these invariants by argument (DESIGN §3 C04).",
  "note": "Trusts sync.Mutex, bufio.Writer semantics, go/ssa and the VTA call graph; entry points of the two goroutine roles are a frozen table.",
 },

 "C03": {
  "technique": "switch/table extraction over go/types + SSA (sibling agreement constructor<->dispatcher), critical-section and cursor-advance dataflow, bit-provenance abstract interpretation for Size/layout",
  "text": "Sound static decision of C03's structural clauses: dispatch tables cover every constructible packet type and message type, responses are typed by one locked lookup+delete, decoders consume members in marshalling order advancing by Size() of the member just decoded. Values of arbitrary AMF0 trees and request histories are not enumerated.",
  "note": "Dispatchers must stay switch statements (otherwise the rule reports 'undecided'); trusts reflect, encoding/binary, the C05 child contracts.",
 },
 "C15": {
  "technique": "must-hold lockset dataflow (channel-mutex and select forms), path counting on the CFG condensation, guard/dominator facts, effect-summary ownership (incl. storage handed out as slices and buffers owned by the message writer), static-call reachability rule for the reading goroutine's role",
  "text": "Sound static decision of the three schedule-independent invariants behind C15: every transport write under the write mutex, one critical section per frame, sticky close-sent latch checked and set under the mutex; plus the concurrent-safe API touching only immutable or lock-guarded fields. Interleavings are not enumerated.",
  "note": "Trusts the 1-slot channel as mutex idiom, net.Conn.Write, sync.Mutex.",
 },
 "C18": {
  "technique": "global-access discipline (sync/atomic or common mutex) + value-flow of the forwarded context + path counting of logger calls over SSA",
  "text": "Sound static decision of: atomic id allocation, the logged id being the passed context's id (no shadowing), exactly one standard-logger call per logging call on every path. Interleavings are not enumerated; uniqueness/wholeness follow by argument.",
  "note": "Trusts log.Logger's own mutex and sync/atomic.",
 },
 "C19": {
  "technique": "dominator ordering of header/body writes, guard facts on content-type selection, constant/table extraction of the envelope, value-flow of codes over SSA; who-may-store rule on the handler closures (no store through a captured or package variable at any nesting depth)",
  "text": "Sound static decision of the handler-shape clauses of C19: headers before body on every path, envelope keys/constants, per-kind error routing with the error's own code, marshal failure -> error response, client success only under code==0.",
  "note": "Trusts encoding/json and net/http; arbitrary value trees are not enumerated.",
 },
 "C20": {
  "technique": "guard/dominator sign analysis of rate divisions, constant evaluation of window lengths, sibling agreement of getters, must-pass-through of state updates over SSA (both directions: updated implies true, touched implies not false), conversion-width scan of the rate operands, paired-store rule for the average's baseline",
  "text": "Sound static decision of: every rate division guarded by growth>0 and a positive divisor with the 0 branch, started-guard on all 8 getters, identical unit scaling among sibling getters, per-window formula ingredients and state updates. Numerical equality over histories is not decided.",
  "note": "Trusts float64 arithmetic on positive finite operands.",
 },

 "C08": {
  "technique": "error-flow analysis over SSA (sources, carriers, checked/preserved/exclusive/complete obligations via dominator guards), who-may-call rule on transport readers, shape check of the errors package",
  "text": "Sound static decision that every transport-primitive call site in rtmp and flv, and every call to a function carrying such errors, tests its error and returns that very error (possibly wrapped by this repository's errors package) on the failure branch, with zero items beside it; items are returned only on success/complete guards; the errors package preserves cause and message chain. Cut offsets and fault indices are not enumerated: each lands on one of the enumerated sites.",
  "note": "Trusts io/bufio/encoding/binary error behaviour.",
 },
 "C17": {
  "technique": "constant evaluation of the marker tables, guard/dominator facts and term decomposition of the split function's results, constant-reachability necessary condition for escape handling",
  "text": "Sound static decision of three structural clauses: the marker tables contain the JSON-relevant tuples, a region is passed whole or dropped whole with the exact consumed length, and the string-end computation examines backslashes (necessary condition only). Semantic transparency over all documents and segmentations is not decided.",
  "note": "Trusts bufio.Scanner's split-function contract and encoding/json.",
 },

 "C09": {
  "technique": "bit-provenance abstract interpretation of the SSA (symbolic bits, linear lengths, segment-list buffers) compared with a transcribed FLV layout table, in both directions; who-may-call rule on the reader",
  "text": "For all flag combinations, type bytes, 32-bit timestamps and body lengths < 2^24 at once: the muxer's bytes equal the FLV v10 layout bit for bit and in order, the demuxer run on that layout returns each field's own bits, consumes exactly the item and has every index/slice proven in range. Body bytes are an opaque blob (data equality is not decided), tag sequences follow by induction.",
  "note": "Trusts io.Copy/io.CopyN/bytes.Buffer models and my transcription of FLV Annex E.",
 },
 "C10": {
  "technique": "bit-provenance abstract interpretation with complete enumeration of the discriminators (16 sound formats x Opus flag partitions, 16 codec ids), field-overlap detection, constant folding of the rate tables",
  "text": "For every value of every field at once (format/codec discriminators enumerated completely): Encode emits exactly the FLV E.4.2/E.4.3 layout with no field bleeding into another, Decode run on that layout with payloads of any length accepts it, stays in bounds and returns each field's own bits and the payload; every defined rate code folds to its frequency. Payload bytes are an opaque blob.",
  "note": "Field domains are those the property quantifies over (stated in the evidence assumptions); layout table transcribed from FLV Annex E and the Opus extension documented in flv.go.",
 },

 "C11": {
  "technique": "bit-provenance abstract interpretation against transcribed ISO 13818-7 / 14496-3 layout tables (object type enumerated, all other fields and the frame length symbolic), accepted-set extraction from path constraints, constant folding of the tables",
  "text": "For every accepted configuration and every frame length 1..8184 at once: the ADTS header written is the ISO layout bit for bit, Decode run on the ISO layout (either MPEG id, with and without CRC) returns exactly the raw block and the remainder and the configuration's fields, ASC packs 5+4+4 bits both ways and accepts exactly {1,2,3,5,29}x[1,12]x[1,7]; tables fold to ISO values. Payload bytes are opaque; multi-frame streams follow by induction.",
  "note": "Layout tables are my transcription of the ISO documents; don't-care bits where the standard leaves the value to the writer.",
 },

 "C12": {
  "technique": "bit-provenance abstract interpretation against transcribed ISO 14496-15/14496-10 layout tables (element counts 0..2 and NAL length sizes enumerated, all fields and payload lengths symbolic), both directions",
  "text": "For every field value and payload length at once: NAL header, NAL unit, avcC record (reserved bits, counts, 16-bit lengths) and length-prefixed samples for all four length sizes are written exactly as ISO prescribes and are read back from that layout to the same fields with every index/slice proven in range. Counts above 2 follow from the per-iteration uniformity of the loop body (argued, not enumerated); payload bytes are opaque.",
  "note": "Layout tables are my transcription of ISO/IEC 14496-15 and 14496-10.",
 },

 "C05": {
  "technique": "bit-provenance abstract interpretation of encoders, decoders and Size() in one path (property counts 0..2, child kinds enumerated, child values abstract under the len(Marshal)=Size contract), repeated-key paths explored by forking on key equality",
  "text": "For every scalar value and every string/key length at once: MarshalBinary yields exactly Size() bytes for all ten types; scalars are bit-exact both ways; each decoder accepts its own encoding in bounds and Size() afterwards equals the bytes consumed, including when keys repeat; the strict array count is the number of elements. Arbitrary trees follow level by level through the contract (induction argued, not mechanised).",
  "note": "Containers are analysed with 0..2 properties and four child kinds; the loop bodies are the same SSA code for every iteration.",
 },
 "C06": {
  "technique": "constant-table comparison, complete enumeration of the 256 marker bytes through the abstract interpreter, layout comparison against the transcribed AMF0 specification, call-graph reachability for the strict-array rule",
  "text": "Marker constants equal the specification; all 256 marker bytes are enumerated (supported -> a value of that very marker, others -> error); every supported type's bytes equal the AMF0 layout in both directions. The strict array's keyed layout is a recorded known finding (tests pin it).",
  "note": "Layout tables transcribed from amf0_spec_121207; an independent codec is not executed.",
 },

 "C01": {
  "technique": "bit-provenance abstract interpretation of the chunk header writers/parsers and of the per-chunk payload reader over symbolic lengths, min-idiom/dominator rules on the write loop, sibling agreement reader<->writer on chunk-size application, nil-result dataflow, who-may-call on the transport",
  "text": "Sound static decision of the per-chunk ingredients of C01 for all field values and lengths at once: header layouts both ways, min(remaining, chunk size) on both sides with the right (input/output) setting, announced chunk sizes applied on both ends in the right order, flush before success, all-or-error reads, no dereference of an unfinished message, type-0 then type-3 headers. Byte equality over whole sessions is not decided (loop arithmetic over runtime lengths).",
  "note": "Trusts bufio/io/binary models and my transcription of RTMP 5.3.1.",
 },
 "C02": {
  "technique": "bit-provenance abstract interpretation of readBasicHeader/readMessageHeader over symbolic chunk-stream state (one variant per header type x freshness x extended timestamp), field-assignment rule over SSA",
  "text": "For all field values at once: the three basic-header forms, per-type field inheritance with 31-bit timestamps, extended timestamp consumption, and the three rejection rules (decided before any further read) match RTMP 5.3.1; every parser-state field that is tested is assigned. The absolute-vs-delta extended timestamp on type-1/2 headers is a recorded known finding. Interleavings and long traces are not enumerated.",
  "note": "Trusts io/binary models and my transcription of RTMP 5.3.1.",
 },

 "C13": {
  "technique": "bit-provenance abstract interpretation of both frame writers over symbolic payload lengths (role x length form x FIN x RSV1 x opcode variants; masking and the transport stubbed by contracts), store/guard rules for fragment sequencing, constant and call-sequence rules for the handshake; dataflow rules on the masking side (key-position accounting inside maskBytes, position 0 for every frame written, per-frame flag must-pass, may-armed deadline analysis in Dial); must-equal dataflow in NextWriter (the writer returned is the writer registered in c.writer)",
  "text": "For all payload lengths at once and every role/length-form/FIN/compression/opcode combination: the bytes handed to the transport are exactly the RFC 6455 frame header (correct length form and length value, mask bit and key iff client) followed by the payload; invalid control frames never reach the transport; fragment sequencing state is reset as required; accept key and handshake tests present. Payload integrity through the buffering/compression layers is not decided.",
  "note": "maskBytes (unsafe word-wise XOR) and net.Conn are contracts; layout transcribed from RFC 6455 5.2.",
 },

 "C14": {
  "technique": "abstract interpretation of advanceFrame over the complete header alphabet (6144 variants: role x opcode x FIN x reserved-bit class x mask x open message x deflate x length form incl. top-bit-set 64-bit lengths) against a three-valued RFC 6455 decision table; guard/dominator and table rules for limit accounting, error latching, close codes and ping echo",
  "text": "Exhaustive over the abstract header alphabet with symbolic lengths/payloads: every combination is refused or accepted as RFC 6455 section 5 requires (first-violated-rule table, unspecified where the RFC/7692 interplay is open); limit decision = accumulated+frame length vs limit with no wrap-around; protocol errors send Close 1002 and are latched by both callers; close codes/UTF-8/ping echo checked structurally. Long frame sequences are not enumerated.",
  "note": "Conn.read, the transport and masking are contracts; decision table transcribed from RFC 6455 section 5.",
 },

 "C16": {
  "technique": "switch/table extraction over go/types (sibling agreement sign<->verify, wrap<->unwrap, constructor<->codec, against transcribed RFC 7518 tables), guard/dominator rules for the verification and decryption gates, value-flow rules for the authenticated bytes, the CBC-HMAC key halves and the nil-buffer contract, loop-variable escape analysis",
  "text": "Sound static decision of the repository's own JOSE glue: algorithm tables agree between siblings and with RFC 7518, payload/plaintext are released only behind the verification/decryption/tag-comparison gates, failure is decided by errors not by plaintext nil-ness, authenticated bytes are the received header, fixed-width ECDSA components. The cryptographic behaviour across the algorithm matrix and bit flips is not decided (crypto/* trusted).",
  "note": "Tables must stay switch statements (otherwise 'undecided'); RFC 7518 tables transcribed in DESIGN Appendix B.",
 },
 "C07": {
  "technique": "bit-provenance abstract interpretation of every decoder on a fully symbolic input (all paths; lengths and bytes symbolic) plus dominating-guard/mask/type-range bounds proving of every index, slice and make reachable from the decoder entry points; enum methods interpreted over their whole integer range; dominator rules for panicking library preconditions and JSON-populated pointers; call-graph (VTA) rules for reachable explicit panics and for re-traversal inside the recursive decoder; loop-variant recognition",
  "text": "Sound static decision of the panic-freedom and structural termination/complexity clauses: every out-of-range-capable instruction of the media/AMF0/RTMP decoders, the WebSocket frame reader, the JSON+ scanner and the JOSE unwrap/CBC/padding helpers is proven in range or discharged by a listed contract with its reason; enum helpers total; peer-controlled nonce/key lengths checked before panicking library calls; JSON-populated pointers tested before use; no reachable explicit panic except listed traps whose guards are checked; no second recursive traversal per decoded element (the shape that makes nested input quadratic); every decoder loop has a recognised variant. Not decided: internals of encoding/json, encoding/asn1, compress/flate, crypto/*, bufio (trusted); measured time; stack depth; 32-bit int overflow (GOARCH=386 not analysed).",
  "note": "Contracts (c07Contracts, c07Loops, c07PanicGuards in checker/internal/rules/c07.go) are keyed by function and ordinal of the site kind, each with a reason; a new unproven site, loop or panic fails the check.",
 },
}
