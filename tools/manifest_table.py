NOT_APPLICABLE = {}
CLAIMED = {
 "C04": {
  "technique": "must-hold lockset dataflow + dominator ordering + effect-summary ownership partition over SSA/VTA",
  "text": "Sound static decision of the schedule-independent ingredients of C04: lock discipline on the transaction table, registration-before-transport-write ordering, one critical section for lookup+delete, reader/writer ownership partition. It does not enumerate schedules; 'none lost/none twice' follows from these invariants by argument (DESIGN §3 C04).",
  "note": "Trusts sync.Mutex, bufio.Writer semantics, go/ssa and the VTA call graph; entry points of the two goroutine roles are a frozen table.",
 },
}
